(* CrashReplayProofs.v — C03, replay equivalence: what is proved, what is refuted, what is missing.
   PROVED (for all towers / blocks / scripts / crash indices in the stated range):
     ins_block_replay         a block of tracker inserts re-executed after any prefix of itself = one execution
     w_pure / w_trace_pure    the watcher's listener is the execution of a statement list that is a pure function of
                              (appointments, responder index, carrier height, node answers)
     watcher_replay           the watcher's pass replayed after a kill at any point of its insert phase, node consistent
                              and outside the recorded class (CrashReplay.replay_ok): EXACTLY the tables of the
                              uninterrupted pass;  watcher_replay_completed: the pass delivered again after it
                              COMPLETED (an earlier block of an interrupted multi-block poll) changes nothing
     gatekeeper_replay_done / gatekeeper_replay_before   the purge replayed after / before its commit by a gatekeeper
                              reloaded from the table: same tables, same map
     responder_replay         the responder's pass from equal tables with a different (sound) memo, rejections stable:
                              tables equal up to the stamp of unconfirmed trackers
     replay_block, replay_connect, replay_connect_before   ONE BLOCK at operation level: kill anywhere from before the
                              block up to (not including) the watcher's DELETE, restart, the block again: tables equal up
                              to the stamp, outside the recorded class and with stable rejections
     register_crash_two_states, add_resubmission_reply_lost   API operations (section 6)
   REFUTED  replay_block_refuted: consistent node, kill between sendrawtransaction and the tracker INSERT, the penalty
            confirmed while down: the replay is answered -27 and no tracker is ever created (the recorded finding
            tracker-never-created-penalty-confirmed-while-down); replay_ok excludes exactly this class.
            register_resubmission_refuted, add_resubmission_in_window_refuted: resubmission is not idempotent for
            register (additive by design) nor inside the charge/store window (the in-flight cost).
   NOT PROVED (nothing is assumed in their place; no theorem here claims them): a kill inside the responder's own
            statements (confirmation updates, refund transaction, stale rebroadcast updates, final DELETE) or after
            the watcher's DELETE but inside the same block; the responder's pass over a block it had COMPLETED; hence
            the composition over all blocks of a multi-block poll; polls with disconnections (reorged set not empty).
            These stay decided by the fault enumeration of the check (crash harness, "chain moves while down" family). *)
From TeosModel Require Import Base ListAux TxIndex TxIndexProofs Tower TowerMon TowerStable TowerInv TowerProofs TowerLedger TowerBreach Crash CrashOps CrashOpsProofs CrashReplay.
From TeosModel.Gen Require Consts Bootstrap.
From Coq Require Import Lia.
Local Open Scope N_scope.

(* ------------------------------------------------------------------------------------------ *)
(* 1. the refutation *)

Lemma ex_t_boundary : at_poll_boundary ex_t.
Proof. split; vm_compute; reflexivity. Qed.

Lemma status_eqb_refl s : status_eqb s s = true.
Proof. destruct s; cbn; auto using N.eqb_refl, Z.eqb_refl. Qed.

Lemma status_eqb_eq a b : status_eqb a b = true -> a = b.
Proof.
  destruct a, b; cbn; try discriminate; intros H; try reflexivity;
    try (apply N.eqb_eq in H; congruence); apply Z.eqb_eq in H; congruence.
Qed.

Lemma ex_scripts_consistent : consistent ex_t ex_sc1 ex_sc2.
Proof.
  intros tx. unfold consistent_tx, node_status, says_mempool, ex_sc1, ex_sc2, script_get. cbn [aget].
  destruct (N.eqb tx 9) eqn:E; cbn [fst snd]; [vm_compute; reflexivity|apply orb_true_iff; left; apply status_eqb_refl].
Qed.

Theorem replay_block_refuted :
  exists le t o sc1 sc2 k,
    Inv t /\ at_poll_boundary t /\ consistent t sc1 sc2 /\
    not_abort (snd (step le t o sc1)) /\
    not_abort (snd (step le (restart t (crash_at le k t o sc1)) o sc2)) /\
    ~ eq_up_to_stamp (db_of (fst (step le (restart t (crash_at le k t o sc1)) o sc2)))
                     (db_of (fst (step le t o sc1))) /\
    (* ... and it is the recorded class: the appointment is still held, its tracker was never created *)
    has_app (db_of (fst (step le (restart t (crash_at le k t o sc1)) o sc2))) (7, 1) = true /\
    has_trk (db_of (fst (step le (restart t (crash_at le k t o sc1)) o sc2))) (7, 1) = false /\
    has_trk (db_of (fst (step le t o sc1))) (7, 1) = true.
Proof.
  exists true, ex_t, ex_block, ex_sc1, ex_sc2, 2%nat.
  split; [exact ex_t_inv|]. split; [exact ex_t_boundary|]. split; [exact ex_scripts_consistent|].
  split; [vm_compute; exact I|]. split; [vm_compute; exact I|].
  split; [unfold eq_up_to_stamp; vm_compute; discriminate|]. vm_compute. auto.
Qed.

(* ------------------------------------------------------------------------------------------ *)
(* 2. statement level: a block of tracker inserts replayed after any prefix of itself *)

Definition ins_only (l : list stmt) : Prop := Forall (fun s => match s with SInsTrk _ => True | _ => False end) l.

Definition fixpoint_of (d : db) (s : stmt) : Prop := exec d s = d.

Lemma ins_keeps d k : d_users (exec d (SInsTrk k)) = d_users d /\ d_apps (exec d (SInsTrk k)) = d_apps d /\
  (forall u, find_trk (d_trks d) u <> None -> find_trk (d_trks (exec d (SInsTrk k))) u <> None).
Proof.
  rewrite exec_ins_trk. destruct (find_trk (d_trks d) (trk_uuid k)) eqn:Et; [repeat split; auto|].
  destruct (find_app (d_apps d) (trk_uuid k)); [|repeat split; auto].
  cbn [d_users d_apps d_trks]. repeat split. intros u Hu. rewrite find_trk_snoc. destruct (find_trk (d_trks d) u); [discriminate|contradiction].
Qed.

Lemma ins_fix_iff d k : fixpoint_of d (SInsTrk k) <-> (find_trk (d_trks d) (trk_uuid k) <> None \/ find_app (d_apps d) (trk_uuid k) = None).
Proof.
  unfold fixpoint_of. rewrite exec_ins_trk. destruct (find_trk (d_trks d) (trk_uuid k)) eqn:Et.
  - split; [intros _; left; discriminate|reflexivity].
  - destruct (find_app (d_apps d) (trk_uuid k)) eqn:Ea.
    + split; [|intros [H|H]; [contradiction|discriminate]].
      intros H. exfalso. assert (L : length (d_trks (mk_db (d_users d) (d_apps d) (d_trks d ++ [k]))) = length (d_trks d)) by (rewrite H; reflexivity).
      cbn [d_trks] in L. rewrite app_length in L. cbn in L. lia.
    + split; [intros _; right; reflexivity|reflexivity].
Qed.

Lemma ins_fix_after d k : fixpoint_of (exec d (SInsTrk k)) (SInsTrk k).
Proof. unfold fixpoint_of. apply insert_tracker_twice. reflexivity. Qed.

Lemma ins_fix_preserved d k k' : fixpoint_of d (SInsTrk k) -> fixpoint_of (exec d (SInsTrk k')) (SInsTrk k).
Proof.
  intros H. apply ins_fix_iff in H. apply ins_fix_iff. destruct (ins_keeps d k') as [_ [Ha Ht]].
  destruct H as [H|H]; [left; apply Ht; exact H|right; rewrite Ha; exact H].
Qed.

Lemma ins_block_fix l : ins_only l -> forall d, Forall (fixpoint_of d) l -> execs d l = d.
Proof.
  induction 1 as [|s l Hs Hl IH]; intros d Hf; [reflexivity|]. inversion Hf as [|? ? H1 H2]; subst.
  rewrite execs_cons, H1. apply IH. exact H2.
Qed.

Lemma ins_block_done l : ins_only l -> forall d (Q : list stmt), ins_only Q -> Forall (fixpoint_of d) Q ->
  Forall (fixpoint_of (execs d l)) (Q ++ l).
Proof.
  induction 1 as [|s l Hs Hl IH]; intros d Q HQ Hf; [rewrite app_nil_r; exact Hf|].
  rewrite execs_cons. destruct s; try contradiction.
  replace (Q ++ SInsTrk k :: l) with ((Q ++ [SInsTrk k]) ++ l) by (rewrite <- app_assoc; reflexivity).
  apply IH.
  - apply Forall_app. split; [exact HQ|repeat constructor].
  - apply Forall_app. split.
    + apply Forall_forall. intros s Hin. unfold ins_only in HQ. rewrite Forall_forall in HQ, Hf.
      specialize (HQ s Hin). specialize (Hf s Hin). destruct s; try contradiction. apply ins_fix_preserved. exact Hf.
    + repeat constructor. apply ins_fix_after.
Qed.

(* a block of tracker inserts re-executed after ANY prefix of itself gives what one execution gives *)
Theorem ins_block_replay l j d : ins_only l -> execs (execs d (firstn j l)) l = execs d l.
Proof.
  intros Hl. set (P := firstn j l). rewrite <- (firstn_skipn j l). fold P. rewrite !execs_app.
  assert (Hp : ins_only P) by (apply Forall_forall; intros s Hs; unfold ins_only in Hl; rewrite Forall_forall in Hl; apply Hl; eapply in_firstn; exact Hs).
  rewrite (ins_block_fix P Hp (execs d P)); [reflexivity|].
  exact (ins_block_done P Hp d [] (Forall_nil _) (Forall_nil _)).
Qed.
(* 3. the watcher's pass as a pure function (memo coherent with the script) *)
Definition fr (t t' : tower) : Prop :=
  r_index t' = r_index t /\ car_height t' = car_height t /\ db_apps t' = db_apps t /\ db_users t' = db_users t.

Lemma fr_refl t : fr t t.
Proof. repeat split. Qed.
Lemma fr_trans a b c : fr a b -> fr b c -> fr a c.
Proof. unfold fr. intuition congruence. Qed.

Lemma send_status_fr t t' a : car_height t' = car_height t -> send_status t' a = send_status t a.
Proof. intros H. unfold send_status. rewrite H. reflexivity. Qed.

Lemma node_status_fr sc t t' p : car_height t' = car_height t -> node_status sc t' p = node_status sc t p.
Proof. intros H. unfold node_status. rewrite H, (send_status_fr t t' _ H). reflexivity. Qed.

Lemma pure_status_fr sc t t' p : fr t t' -> pure_status sc t' p = pure_status sc t p.
Proof. intros [H1 [H2 _]]. unfold pure_status. rewrite H1, (node_status_fr sc t t' p H2). reflexivity. Qed.

Lemma row_stmts_fr sc t t' x : fr t t' -> row_stmts sc t' x = row_stmts sc t x.
Proof.
  intros H. unfold row_stmts. destruct H as [H1 [H2 [H3 H4]]]. rewrite H3.
  destruct (find_app (db_apps t) (snd x)) as [a|]; [|reflexivity]. destruct (decrypt _ _) as [p|]; [|reflexivity].
  rewrite (pure_status_fr sc t t' p); [reflexivity|repeat split; assumption].
Qed.
Lemma row_invalid_fr sc t t' x : fr t t' -> row_invalid sc t' x = row_invalid sc t x.
Proof.
  intros H. unfold row_invalid. destruct H as [H1 [H2 [H3 H4]]]. rewrite H3.
  destruct (find_app (db_apps t) (snd x)) as [a|]; [|reflexivity]. destruct (decrypt _ _) as [p|]; [|reflexivity].
  rewrite (pure_status_fr sc t t' p); [reflexivity|repeat split; assumption].
Qed.

Lemma send_coherent sc t tx :
  memo_coherent sc t ->
  fst (send_transaction sc t tx) = send_status t (snd (script_get sc tx)) /\
  memo_coherent sc (snd (send_transaction sc t tx)) /\ fr t (snd (send_transaction sc t tx)) /\
  db_trks (snd (send_transaction sc t tx)) = db_trks t.
Proof.
  intros Hc. unfold send_transaction. destruct (aget (car_memo t) tx) as [r|] eqn:E; cbn [fst snd].
  - split; [apply Hc; exact E|]. split; [exact Hc|]. split; [apply fr_refl|reflexivity].
  - split; [reflexivity|]. split; [|split; [repeat split|reflexivity]].
    intros tx' r. cbn [car_memo set_car_memo log_rpc set_rpc_log aget]. destruct (N.eqb tx' tx) eqn:Ex.
    + apply N.eqb_eq in Ex. subst tx'. intros H; inversion H. reflexivity.
    + intros H. apply Hc in H. exact H.
Qed.

Lemma add_tracker_fr t uuid d p s : fr t (r_add_tracker t uuid d p s) /\ car_memo (r_add_tracker t uuid d p s) = car_memo t.
Proof.
  unfold r_add_tracker. destruct s; try (split; [apply fr_refl|reflexivity]);
    destruct (find_trk (db_trks t) uuid), (find_app (db_apps t) uuid); split; try apply fr_refl; try reflexivity; repeat split.
Qed.

Lemma memo_coherent_fr sc t t' : car_height t' = car_height t -> car_memo t' = car_memo t -> memo_coherent sc t -> memo_coherent sc t'.
Proof. intros H1 H2 Hc tx r. rewrite H2, (send_status_fr t t' _ H1). apply Hc. Qed.

Lemma stmts_rpc_nil r l : stmts_of (MRpc r :: l) = stmts_of l.
Proof. reflexivity. Qed.

Lemma stmts_send sc t tx : stmts_of (tr_send sc t tx) = [].
Proof. unfold tr_send. destruct (aget _ _); reflexivity. Qed.

Lemma hb_pure sc t uuid d p s t' :
  memo_coherent sc t -> r_handle_breach sc t uuid d p = Ok s t' ->
  pure_status sc t p = Some s /\ memo_coherent sc t' /\ fr t t' /\
  stmts_of (tr_handle_breach sc t uuid d p) = stmts_of (tr_add_tracker uuid d p s).
Proof.
  intros Hc. unfold r_handle_breach, tr_handle_breach, pure_status.
  destruct (ti_get (r_index t) p) as [bh|].
  - destruct (ti_get_height (r_index t) bh) as [h|]; cbn [bind]; [|discriminate].
    intros H; inversion H; subst; clear H. cbn [status_accepted].
    destruct (add_tracker_fr t uuid d p (ConfirmedIn (Z.to_N h))) as [F M].
    split; [reflexivity|]. split; [eapply memo_coherent_fr; [apply F|exact M|exact Hc]|]. split; [exact F|reflexivity].
  - unfold node_status, says_mempool. unfold in_mempool. cbn [fst snd].
    set (t1 := log_rpc t _).
    assert (Hc1 : memo_coherent sc t1) by (eapply memo_coherent_fr; [| |exact Hc]; reflexivity).
    destruct (fst (script_get sc p)) eqn:Eg; cbn [bind].
    1:{ intros H; inversion H; subst; clear H. cbn [status_accepted].
        destruct (add_tracker_fr t1 uuid d p (InMempoolSince (car_height t1))) as [F M].
        split; [reflexivity|]. split; [eapply memo_coherent_fr; [apply F|exact M|exact Hc1]|].
        split; [eapply fr_trans; [|exact F]; repeat split|]. rewrite stmts_of_app. reflexivity. }
    all: destruct (send_coherent sc t1 p Hc1) as [Hs [Hc2 [F2 _]]];
      destruct (send_transaction sc t1 p) as [s2 t2]; cbn [fst snd bind] in *;
      intros H; inversion H; subst; clear H;
      (split; [f_equal; apply (send_status_fr t t1); reflexivity|]);
      (assert (Hst : stmts_of (tr_in_mempool sc t p ++ tr_send sc t1 p ++ tr_add_tracker uuid d p (send_status t1 (snd (script_get sc p))))
                     = stmts_of (tr_add_tracker uuid d p (send_status t1 (snd (script_get sc p)))))
         by (rewrite !stmts_of_app, stmts_send; reflexivity));
      destruct (status_accepted (send_status t1 (snd (script_get sc p)))) eqn:Ea;
      [ destruct (add_tracker_fr t2 uuid d p (send_status t1 (snd (script_get sc p)))) as [F M];
        (split; [eapply memo_coherent_fr; [apply F|exact M|exact Hc2]|]);
        (split; [eapply fr_trans; [|exact F]; eapply fr_trans; [|exact F2]; repeat split|exact Hst])
      | (split; [exact Hc2|]); (split; [eapply fr_trans; [|exact F2]; repeat split|exact Hst]) ].
Qed.

Lemma bul_pure sc d : forall us t inv inv' t',
  memo_coherent sc t -> breach_uuid_loop sc d us t inv = Ok inv' t' ->
  stmts_of (tr_breach_uuid_loop sc d us t inv) = flat_map (row_stmts sc t) (map (pair d) us) /\
  inv' = inv ++ map snd (filter (row_invalid sc t) (map (pair d) us)) /\ memo_coherent sc t' /\ fr t t'.
Proof.
  induction us as [|uuid us IH]; intros t inv inv' t' Hc; cbn [breach_uuid_loop tr_breach_uuid_loop map flat_map filter].
  - intros H; inversion H; subst. rewrite app_nil_r. repeat split; auto.
  - unfold row_stmts at 1, row_invalid at 1. cbn [fst snd].
    destruct (find_app (db_apps t) uuid) as [a|]; [|apply IH; exact Hc].
    destruct (decrypt (a_blob a) d) as [p|].
    + destruct (r_handle_breach sc t uuid d p) as [s t1|] eqn:E; cbn [bind]; [|discriminate].
      destruct (hb_pure sc t uuid d p s t1 Hc E) as [Hp [Hc1 [F1 Hst]]]. rewrite Hp.
      intros H. destruct (IH t1 _ _ _ Hc1 H) as [A [B [C D]]].
      split; [|split; [|split; [exact C|eapply fr_trans; eassumption]]].
      * rewrite stmts_of_app, Hst, A. f_equal. apply flat_map_ext. intros x. apply row_stmts_fr. exact F1.
      * rewrite B. rewrite (filter_ext_in' (row_invalid sc t1) (row_invalid sc t)) by (intros; apply row_invalid_fr; exact F1).
        destruct (status_rejected s); cbn [map snd]; [rewrite <- app_assoc|]; reflexivity.
    + intros H. destruct (IH t _ _ _ Hc H) as [A [B [C D]]].
      split; [exact A|]. split; [rewrite B, <- app_assoc; reflexivity|]. split; assumption.
Qed.

Lemma bl_pure sc : forall ds t inv inv' t',
  memo_coherent sc t -> breach_loop sc ds t inv = Ok inv' t' ->
  stmts_of (concat (tr_breach_loop sc ds t inv)) = flat_map (row_stmts sc t) (flat_map (fun d => map (pair d) (uuids_of t d)) ds) /\
  inv' = inv ++ map snd (filter (row_invalid sc t) (flat_map (fun d => map (pair d) (uuids_of t d)) ds)) /\
  memo_coherent sc t' /\ fr t t'.
Proof.
  induction ds as [|d ds IH]; intros t inv inv' t' Hc; cbn [breach_loop tr_breach_loop concat flat_map].
  - intros H; inversion H; subst. rewrite app_nil_r. repeat split; auto.
  - fold (uuids_of t d).
    destruct (breach_uuid_loop sc d (uuids_of t d) t inv) as [inv1 t1|] eqn:E; cbn [bind]; [|discriminate].
    destruct (bul_pure sc d _ _ _ _ _ Hc E) as [A1 [B1 [C1 F1]]].
    intros H. destruct (IH t1 _ _ _ C1 H) as [A [B [C F]]].
    assert (Hu : forall d', uuids_of t1 d' = uuids_of t d') by (intros d'; unfold uuids_of; destruct F1 as [_ [_ [Ha _]]]; rewrite Ha; reflexivity).
    split; [|split; [|split; [exact C|eapply fr_trans; eassumption]]].
    + rewrite stmts_of_app, A1, A, flat_map_app. f_equal.
      rewrite (flat_map_ext _ _ (fun d' => f_equal (map (pair d')) (Hu d'))).
      apply flat_map_ext. intros x. apply row_stmts_fr. exact F1.
    + rewrite B, B1, filter_app, map_app, <- app_assoc. f_equal. f_equal.
      rewrite (flat_map_ext _ _ (fun d' => f_equal (map (pair d')) (Hu d'))).
      f_equal. apply filter_ext_in'. intros; apply row_invalid_fr; exact F1.
Qed.

Lemma tr_delete_norefund t l : stmts_of (match l with [] => [] | _ :: _ => tr_delete t l false end) = w_delete l.
Proof. destruct l as [|x [|y l]]; reflexivity. Qed.

(* the watcher's listener = its pure statement list *)
Theorem w_pure sc t hash txs h t' :
  memo_coherent sc t -> w_block_connected sc t (cache_block hash txs) h = Ok tt t' ->
  db_of t' = execs (db_of t) (w_inserts sc t txs ++ w_delete (w_invalid sc t txs)).
Proof.
  intros Hc Hw. pose proof (J_w_block sc t (cache_block hash txs) h) as HJ. rewrite Hw in HJ. destruct HJ as [D _].
  revert Hw D. unfold w_block_connected, tr_w_block.
  destruct (ti_update (w_cache t) (cache_block hash txs)) as [c|]; [|discriminate].
  rewrite keys_cache_block. set (t1 := set_w_cache t c).
  set (ds := filter (fun d => existsb (fun a => N.eqb (a_loc a) d) (db_apps t1)) txs).
  destruct (breach_loop sc ds t1 []) as [inv t2|] eqn:E; cbn [bind]; [|discriminate].
  assert (Hc1 : memo_coherent sc t1) by (eapply memo_coherent_fr; [| |exact Hc]; reflexivity).
  destruct (bl_pure sc ds t1 [] inv t2 Hc1 E) as [A [B [C F]]]. cbn [List.app] in B.
  intros _ D. rewrite flat_segs_cons, stmts_of_app in D. cbn [flat_seg flat_segs flat_map] in D. rewrite app_nil_r in D.
  rewrite A in D.
  assert (Hdel : stmts_of (match inv with [] => [] | _ :: _ => tr_delete t2 inv false end) = w_delete inv) by apply tr_delete_norefund.
  rewrite Hdel, B in D. rewrite D. unfold w_inserts, w_invalid, breached_rows. fold ds.
  assert (E1 : flat_map (row_stmts sc t1) (flat_map (fun d => map (pair d) (uuids_of t1 d)) ds) =
               flat_map (row_stmts sc t) (flat_map (fun d => map (pair d) (uuids_of t d)) ds)).
  { apply flat_map_ext. intros x. apply (row_stmts_fr sc t t1). repeat split. }
  assert (E2 : filter (row_invalid sc t1) (flat_map (fun d => map (pair d) (uuids_of t1 d)) ds) =
               filter (row_invalid sc t) (flat_map (fun d => map (pair d) (uuids_of t d)) ds)).
  { apply filter_ext_in'. intros x _. apply (row_invalid_fr sc t t1). repeat split. }
  rewrite E1, E2. reflexivity.
Qed.

(* 4. the replay of the watcher's pass against its first attempt *)
Lemma has_trk_find d u : has_trk d u = true <-> find_trk (d_trks d) u <> None.
Proof.
  unfold has_trk, find_trk. induction (d_trks d) as [|k l IH]; cbn [existsb find]; [split; [discriminate|intros H; contradiction H; reflexivity]|].
  destruct (uuid_eqb (trk_uuid k) u); cbn [orb]; [split; [discriminate|reflexivity]|exact IH].
Qed.

Lemma ins_only_add_tracker uuid d p s : ins_only (stmts_of (tr_add_tracker uuid d p s)).
Proof. unfold tr_add_tracker. destruct s; cbn; repeat constructor. Qed.

Lemma ins_only_row sc t x : ins_only (row_stmts sc t x).
Proof.
  unfold row_stmts. destruct (find_app _ _); [|constructor]. destruct (decrypt _ _); [|constructor].
  destruct (pure_status _ _ _); [apply ins_only_add_tracker|constructor].
Qed.

Lemma ins_only_flat {A} (f : A -> list stmt) l : (forall x, ins_only (f x)) -> ins_only (flat_map f l).
Proof. intros H. induction l; cbn [flat_map]; [constructor|apply Forall_app; split; [apply H|exact IHl]]. Qed.

Lemma ins_only_w sc t txs : ins_only (w_inserts sc t txs).
Proof. apply ins_only_flat. apply ins_only_row. Qed.

Lemma execs_ins_keeps S : ins_only S -> forall d,
  d_users (execs d S) = d_users d /\ d_apps (execs d S) = d_apps d /\
  (forall u, find_trk (d_trks d) u <> None -> find_trk (d_trks (execs d S)) u <> None).
Proof.
  induction 1 as [|s S Hs HS IH]; intros d; [repeat split; auto|]. destruct s; try contradiction.
  rewrite execs_cons. destruct (ins_keeps d k) as [A [B C]]. destruct (IH (exec d (SInsTrk k))) as [A' [B' C']].
  split; [congruence|]. split; [congruence|]. intros u Hu. apply C', C, Hu.
Qed.

Definition row_rel (dB : db) (rA rB : list stmt) : Prop :=
  rB = rA \/ (rB = [] /\ exists k, rA = [SInsTrk k] /\ has_trk dB (trk_uuid k) = true).

Lemma execs_rel {X} (dB : db) (fA fB : X -> list stmt) : forall l d,
  (forall x, ins_only (fA x)) ->
  (forall u, has_trk dB u = true -> find_trk (d_trks d) u <> None) ->
  Forall (fun x => row_rel dB (fA x) (fB x)) l ->
  execs d (flat_map fB l) = execs d (flat_map fA l).
Proof.
  induction l as [|x l IH]; intros d Hi Hd Hr; [reflexivity|]. inversion Hr as [|? ? H1 H2]; subst.
  cbn [flat_map]. rewrite !execs_app. destruct H1 as [E|[E [k [Ek Hk]]]].
  - rewrite E. apply IH; [exact Hi| |exact H2]. intros u Hu. apply (execs_ins_keeps _ (Hi x)). apply Hd, Hu.
  - rewrite E, Ek. cbn [execs fold_left].
    assert (Hf : exec d (SInsTrk k) = d).
    { apply ins_fix_iff. left. apply Hd, Hk. }
    rewrite Hf. apply IH; assumption.
Qed.

Lemma in_breached t txs x : In x (breached_rows t txs) ->
  In (fst x) txs /\ exists a0, In a0 (db_apps t) /\ a_loc a0 = fst x /\ app_uuid a0 = snd x.
Proof.
  unfold breached_rows. intros H. apply in_flat_map in H. destruct H as [d [Hd Hx]].
  apply filter_In in Hd. destruct Hd as [Hd _]. apply in_map_iff in Hx. destruct Hx as [u [Ex Hu]]. subst x. cbn [fst snd].
  split; [exact Hd|]. unfold uuids_of in Hu. apply in_map_iff in Hu. destruct Hu as [a0 [Eu Ha]].
  apply filter_In in Ha. destruct Ha as [Ha Hl]. apply N.eqb_eq in Hl. exists a0. auto.
Qed.

Lemma row_compare sc1 sc2 tA tB dB txs x :
  fr tA tB -> d_apps dB = db_apps tA -> replay_ok tA dB txs sc1 sc2 -> In x (breached_rows tA txs) ->
  row_invalid sc2 tB x = row_invalid sc1 tA x /\ row_rel dB (row_stmts sc1 tA x) (row_stmts sc2 tB x).
Proof.
  intros F Ha Hok Hx. destruct (in_breached _ _ _ Hx) as [Hd [a0 [Ha0 [Hl0 Hu0]]]].
  unfold row_invalid, row_stmts, row_rel. destruct F as [F1 [F2 [F3 F4]]]. rewrite F3.
  destruct (find_app (db_apps tA) (snd x)) as [a|] eqn:Ef; [|split; [reflexivity|left; reflexivity]].
  apply find_app_Some in Ef. destruct Ef as [Hin Hu].
  assert (Hl : a_loc a = fst x).
  { unfold app_uuid in Hu, Hu0. rewrite <- Hu0 in Hu. inversion Hu. congruence. }
  destruct (decrypt (a_blob a) (fst x)) as [p|] eqn:Ed; [|split; [reflexivity|left; reflexivity]].
  unfold pure_status. rewrite F1. destruct (ti_get (r_index tA) p) as [bh|] eqn:Ei.
  - destruct (ti_get_height (r_index tA) bh); split; try reflexivity; left; reflexivity.
  - rewrite (node_status_fr sc2 tA tB p F2).
    assert (Hin' : In a (d_apps dB)) by (rewrite Ha; exact Hin).
    rewrite <- Hl in Ed, Hd. destruct (Hok a p Hin' Hd Ed Ei) as [E|[Hacc [Hres Htrk]]].
    + rewrite E. split; [reflexivity|left; reflexivity].
    + rewrite Hres. split.
      * cbn [status_rejected]. destruct (node_status sc1 tA p); try discriminate; reflexivity.
      * right. split; [reflexivity|]. rewrite <- Hu in *.
        destruct (node_status sc1 tA p); try discriminate; cbn [tr_add_tracker stmts_of flat_map List.app];
          eexists; (split; [reflexivity|exact Htrk]).
Qed.

(* THE WATCHER'S PASS REPLAYED.  First attempt from tA with the node answering sc1, killed after any number j
   of its tracker inserts; the restarted tower tB (same index and carrier height, the tables the kill left)
   runs the pass again with the node answering sc2; outside the recorded class (replay_ok) the tables after the
   replay are EXACTLY those after the uninterrupted pass *)
Theorem watcher_replay sc1 sc2 tA tB hash txs h j tA' tB' :
  memo_coherent sc1 tA -> memo_coherent sc2 tB ->
  r_index tB = r_index tA -> car_height tB = car_height tA ->
  db_of tB = execs (db_of tA) (firstn j (w_inserts sc1 tA txs)) ->
  replay_ok tA (db_of tB) txs sc1 sc2 ->
  w_block_connected sc1 tA (cache_block hash txs) h = Ok tt tA' ->
  w_block_connected sc2 tB (cache_block hash txs) h = Ok tt tB' ->
  db_of tB' = db_of tA'.
Proof.
  intros HcA HcB Hi Hh Hdb Hok HA HB.
  rewrite (w_pure sc1 tA hash txs h tA' HcA HA), (w_pure sc2 tB hash txs h tB' HcB HB).
  set (P := firstn j (w_inserts sc1 tA txs)) in *.
  assert (HP : ins_only P).
  { apply Forall_forall. intros s Hs. pose proof (ins_only_w sc1 tA txs) as Hw. unfold ins_only in Hw. rewrite Forall_forall in Hw.
    apply Hw. eapply in_firstn. exact Hs. }
  destruct (execs_ins_keeps P HP (db_of tA)) as [Ku [Ka _]].
  assert (F : fr tA tB).
  { repeat split; try assumption.
    - change (db_apps tB) with (d_apps (db_of tB)). rewrite Hdb, Ka. reflexivity.
    - change (db_users tB) with (d_users (db_of tB)). rewrite Hdb, Ku. reflexivity. }
  assert (Happs : d_apps (db_of tB) = db_apps tA) by (rewrite Hdb, Ka; reflexivity).
  assert (Hrows : breached_rows tB txs = breached_rows tA txs).
  { unfold breached_rows, uuids_of. destruct F as [_ [_ [F3 _]]]. rewrite F3. reflexivity. }
  assert (Hcmp : forall x, In x (breached_rows tA txs) ->
            row_invalid sc2 tB x = row_invalid sc1 tA x /\ row_rel (db_of tB) (row_stmts sc1 tA x) (row_stmts sc2 tB x)).
  { intros x Hx. apply (row_compare sc1 sc2 tA tB (db_of tB) txs x F Happs Hok Hx). }
  assert (Hinv : w_invalid sc2 tB txs = w_invalid sc1 tA txs).
  { unfold w_invalid. rewrite Hrows. f_equal. apply filter_ext_in'. intros x Hx. apply (Hcmp x Hx). }
  rewrite Hinv, !execs_app. f_equal.
  unfold w_inserts at 1. rewrite Hrows.
  rewrite (execs_rel (db_of tB) (row_stmts sc1 tA) (row_stmts sc2 tB) (breached_rows tA txs) (db_of tB)).
  - fold (w_inserts sc1 tA txs). rewrite Hdb. apply ins_block_replay. apply ins_only_w.
  - intros x. apply ins_only_row.
  - intros u Hu. apply has_trk_find. exact Hu.
  - apply Forall_forall. intros x Hx. apply (Hcmp x Hx).
Qed.
(* 5. the gatekeeper's purge replayed after its commit, and gatekeeper + watcher composed *)
Lemma memo_nil_coherent sc t : car_memo t = [] -> memo_coherent sc t.
Proof. intros H tx r. rewrite H. discriminate. Qed.

Theorem gatekeeper_replay_done tA h tA' tB :
  Inv tA -> gk_block_connected tA h = Ok tt tA' ->
  cfg tB = cfg tA -> gk_users tB = db_users tA' ->
  gk_block_connected tB h = Ok tt (set_gk_height tB h).
Proof.
  intros HI. unfold gk_block_connected.
  destruct (outdated_users (c_delta (cfg tA)) h (gk_users tA)) as [out|] eqn:Eo; [|discriminate].
  intros H Hc Hg. inversion H; subst tA'; clear H. rewrite Hc, Hg.
  assert (Hu : db_users (set_gk_height (if match out with [] => true | _ => false end then tA else p_purge tA out) h)
               = filter (fun r => negb (memN (fst r) out)) (db_users tA)).
  { destruct out as [|o os]; [|reflexivity]. cbn. symmetry. apply filter_true. intros; reflexivity. }
  rewrite Hu, (outdated_filtered (c_delta (cfg tA)) h out (db_users tA)); [reflexivity|].
  intros u ui Hin.
  assert (Hgk : In (u, ui) (gk_users tA)).
  { apply aget_In. rewrite (inv_sync tA HI u). apply aget_In_nodup; [exact (inv_users_nodup tA HI)|exact Hin]. }
  destruct (outdated_spec _ _ _ _ Eo u ui Hgk) as [lim [El Hk]]. exists lim. split; [exact El|].
  intros Hh. specialize (Hk Hh). unfold memN. apply existsb_exists. exists u. split; [exact Hk|apply N.eqb_refl].
Qed.

Lemma gk_block_frame t h t' : gk_block_connected t h = Ok tt t' ->
  r_index t' = r_index t /\ car_height t' = car_height t /\ car_memo t' = car_memo t /\ reorged t' = reorged t /\
  w_cache t' = w_cache t /\ cfg t' = cfg t.
Proof.
  unfold gk_block_connected. destruct (outdated_users _ _ _) as [out|]; [|discriminate].
  intros H; inversion H; subst. destruct out; repeat split.
Qed.

(* GATEKEEPER + WATCHER REPLAYED.  A block's gatekeeper and watcher listeners, first attempt from a poll-boundary
   state tA with the node answering sc1, killed after the purge and any number j of the watcher's tracker inserts;
   restart (CrashOps.restart: memory rebuilt, gatekeeper reloaded from the table); the same block again with the
   node answering sc2, outside the recorded class: the tables after the two listeners are EXACTLY those of the
   uninterrupted run at that point. *)
Theorem gw_replay sc1 sc2 tA hash txs j tg tA' tB' :
  Inv tA -> at_poll_boundary tA ->
  gk_block_connected tA (gk_height tA + 1) = Ok tt tg ->
  w_block_connected sc1 tg (cache_block hash txs) (gk_height tA + 1) = Ok tt tA' ->
  let dB := execs (db_of tg) (firstn j (w_inserts sc1 tg txs)) in
  replay_ok tg dB txs sc1 sc2 ->
  gw_connected sc2 (restart tA dB) hash txs = Ok tt tB' ->
  db_of tB' = db_of tA'.
Proof.
  intros HI [_ Hm] HG HW dB.
  assert (HdB : dB = execs (db_of tg) (firstn j (w_inserts sc1 tg txs))) by reflexivity. clearbody dB.
  intros Hok. unfold gw_connected.
  change (gk_height (restart tA dB)) with (gk_height tA).
  pose proof (ins_only_w sc1 tg txs) as Hio.
  assert (HP : ins_only (firstn j (w_inserts sc1 tg txs))).
  { apply Forall_forall. intros s Hs. unfold ins_only in Hio. rewrite Forall_forall in Hio. apply Hio. eapply in_firstn. exact Hs. }
  destruct (execs_ins_keeps _ HP (db_of tg)) as [Ku _]. rewrite <- HdB in Ku.
  assert (Hgu : gk_users (restart tA dB) = db_users tg).
  { change (gk_users (restart tA dB)) with (d_users dB). rewrite Ku. reflexivity. }
  rewrite (gatekeeper_replay_done tA (gk_height tA + 1) tg (restart tA dB) HI HG eq_refl Hgu). cbn [bind].
  destruct (gk_block_frame _ _ _ HG) as [F1 [F2 [F3 _]]].
  intros HB.
  apply (watcher_replay sc1 sc2 tg (set_gk_height (restart tA dB) (gk_height tA + 1)) hash txs (gk_height tA + 1) j tA' tB').
  - apply memo_nil_coherent. rewrite F3. exact Hm.
  - apply memo_nil_coherent. reflexivity.
  - rewrite F1. reflexivity.
  - rewrite F2. reflexivity.
  - change (db_of (set_gk_height (restart tA dB) (gk_height tA + 1))) with (db_of (restart tA dB)). rewrite db_of_restart. exact HdB.
  - change (db_of (set_gk_height (restart tA dB) (gk_height tA + 1))) with (db_of (restart tA dB)). rewrite db_of_restart. exact Hok.
  - exact HW.
  - exact HB.
Qed.
(* 6. API operations: the states a kill leaves, and the client's resubmission *)

(* register issues ONE statement: a kill leaves the tables before or after the registration, nothing in between *)
Theorem register_crash_two_states le t u sc k :
  not_abort (snd (step le t (ORegister u) sc)) ->
  crash_at le k t (ORegister u) sc = db_of t \/
  crash_at le k t (ORegister u) sc = db_of (fst (step le t (ORegister u) sc)).
Proof.
  intros Hn. rewrite (op_is_its_trace le t _ sc Hn). unfold crash_at.
  destruct (stmts_firstn (op_micro le t (ORegister u) sc) k) as [k' Hk']. rewrite Hk'.
  assert (Hl : (length (stmts_of (op_micro le t (ORegister u) sc)) <= 1)%nat).
  { unfold op_micro, op_segs. cbn [flat_segs flat_map flat_seg]. rewrite app_nil_r, stmts_of_app, stmts_ack_if_ok, app_nil_r.
    unfold tr_add_update_user. destruct (gk_get _ u); destruct (u32_add _ _); cbn; lia. }
  destruct (stmts_of (op_micro le t (ORegister u) sc)) as [|s [|s2 l]]; [left; destruct k'; reflexivity| |cbn in Hl; lia].
  destruct k' as [|k']; [left; reflexivity|right]. cbn [firstn]. destruct k'; reflexivity.
Qed.

(* registration is additive by design (every call adds the subscription's slots): a client that resubmits after a
   kill that came after the statement is registered twice - resubmission is NOT idempotent for register *)
Theorem register_resubmission_refuted :
  exists le t u sc k,
    Inv t /\ let t2 := restart t (crash_at le k t (ORegister u) sc) in
    balance (db_of (fst (step le t2 (ORegister u) sc))) u =
    balance (db_of (fst (step le t (ORegister u) sc))) u + c_slots (cfg t).
Proof. exists true, ex_t, 1, [], 1%nat. split; [exact ex_t_inv|]. vm_compute. reflexivity. Qed.

Lemma map_update_same (m : list (N * uinfo)) u v :
  NoDup (map fst m) -> aget m u = Some v -> map (fun r => if N.eqb (fst r) u then (u, v) else r) m = m.
Proof.
  intros Hnd Hg. rewrite <- (map_id m) at 2. apply map_ext_in. intros [k x] Hin. cbn [fst].
  destruct (N.eqb k u) eqn:E; [|reflexivity]. apply N.eqb_eq in E. subst k.
  rewrite (aget_In_nodup m u x Hnd Hin) in Hg. inversion Hg. reflexivity.
Qed.

Lemma repl_same a l : NoDup (map app_uuid l) -> In a l -> repl a l = l.
Proof.
  intros Hnd Hin. unfold repl. rewrite <- (map_id l) at 2. apply map_ext_in. intros x Hx.
  destruct (uuid_eqb (app_uuid x) (app_uuid a)) eqn:E; [|reflexivity]. apply uuid_eqb_eq in E.
  symmetry. eapply NoDup_map_inj; eassumption.
Qed.

(* add_appointment, reply lost: the kill came after every statement (the receipt never reached the client, who
   resubmits the same request to the restarted tower): accepted again with the same receipt data, and the tables
   are EXACTLY those of the uninterrupted run - nothing is charged twice (appointment not triggered) *)
Theorem add_resubmission_reply_lost le t u loc b delay sig sc sc' t' st sg sl e :
  Inv t -> ti_get (w_cache t) loc = None ->
  step le t (OAdd (Some u) loc b delay sig) sc = (t', OAddRes (AddOk st sg sl e)) ->
  let t2 := restart t (db_of t') in
  db_of (fst (step le t2 (OAdd (Some u) loc b delay sig) sc')) = db_of t' /\
  snd (step le t2 (OAdd (Some u) loc b delay sig) sc') = OAddRes (AddOk st sg sl e).
Proof.
  intros HI Hc. cbn [step wrap]. unfold w_add_appointment. change (set_rpc_log t []) with (fresh t).
  destruct (authenticate (fresh t) (Some u)) as [u0|] eqn:Ea; [|cbn; intros H; inversion H].
  apply authenticate_Some in Ea. destruct Ea as [Hs Hmem]. inversion Hs; subst u0; clear Hs.
  destruct (gk_get (fresh t) u) as [ui|] eqn:Eg; [|cbn; intros H; inversion H].
  destruct (N.leb (u_expiry ui) (gk_height (fresh t))) eqn:Ee; [cbn; intros H; inversion H|].
  destruct (find_trk (db_trks (fresh t)) (loc, u)) eqn:Et; [cbn; intros H; inversion H|].
  unfold gk_add_update_appointment. rewrite Eg.
  assert (Eu : aget (db_users t) u = Some ui) by (rewrite <- (inv_sync t HI u); exact Eg).
  change (db_apps (fresh t)) with (db_apps t).
  change (match find_app (db_apps t) (loc, u) with Some a => slots_of (b_len (a_blob a)) | None => 0 end) with (used_by t loc u).
  destruct (N.leb (slots_of (b_len b)) (u_slots ui + used_by t loc u)) eqn:El; cbn [bind]; [|cbn; intros H; inversion H].
  set (s := (u_slots ui + used_by t loc u - slots_of (b_len b)) mod U32MOD).
  set (ui' := mk_uinfo s (u_start ui) (u_expiry ui)).
  set (t1 := p_set_user (fresh t) u ui').
  set (a := mk_app loc u b delay sig (w_height (fresh t))).
  change (w_cache t1) with (w_cache t). rewrite Hc.
  assert (Hrow : amem (db_users t1) u = true).
  { unfold amem. change (db_users t1) with (map (fun r => if N.eqb (fst r) u then (u, ui') else r) (db_users t)).
    rewrite aget_map_update, N.eqb_refl, Eu. reflexivity. }
  unfold w_store_ok, w_store_appointment. change (a_user a) with u. change (db_apps t1) with (db_apps t). change (app_uuid a) with (loc, u).
  rewrite Hrow.
  assert (Hs_lt : s < U32MOD) by (apply N.mod_lt; discriminate).
  (* the state after the first run *)
  assert (Hfirst : forall tt', (tt' = p_update_app t1 a /\ find_app (db_apps t) (loc, u) <> None) \/
                              (tt' = p_insert_app t1 a /\ find_app (db_apps t) (loc, u) = None) ->
            let t2 := restart t (db_of tt') in
            db_of (fst (wrap OAddRes (w_add_appointment sc' (fresh t2) (Some u) loc b delay sig))) = db_of tt' /\
            snd (wrap OAddRes (w_add_appointment sc' (fresh t2) (Some u) loc b delay sig)) =
              OAddRes (AddOk (a_start a) sig s (u_expiry ui))).
  { intros tt' Htt t2.
    assert (Husers : db_users tt' = map (fun r => if N.eqb (fst r) u then (u, ui') else r) (db_users t)) by (destruct Htt as [[-> _]|[-> _]]; reflexivity).
    assert (Happs : db_apps tt' = stored (db_apps t) a).
    { unfold stored. change (app_uuid a) with (loc, u). destruct Htt as [[-> Hf]|[-> Hf]].
      - destruct (find_app (db_apps t) (loc, u)); [reflexivity|contradiction].
      - rewrite Hf. reflexivity. }
    assert (Htrks : db_trks tt' = db_trks t) by (destruct Htt as [[-> _]|[-> _]]; reflexivity).
    assert (HI2 : Inv t2).
    { apply recover_inv. apply dbinv_of_inv.
      destruct Htt as [[-> Hf]|[-> Hf]].
      - destruct (find_app (db_apps t) (loc, u)) as [a0|] eqn:Ef; [|contradiction].
        eapply inv_update_app; [eapply inv_set_user; [eapply inv_frame; [|exact HI]; repeat split|exact Eg]|exact Ef].
      - eapply inv_insert_app; [eapply inv_set_user; [eapply inv_frame; [|exact HI]; repeat split|exact Eg]|exact Hf|exact Hrow]. }
    assert (Hg2 : gk_get (fresh t2) u = Some ui').
    { unfold gk_get. change (gk_users (fresh t2)) with (db_users tt'). rewrite Husers, aget_map_update, N.eqb_refl, Eu. reflexivity. }
    assert (Hin_a : In a (db_apps tt')).
    { rewrite Happs. unfold stored. change (app_uuid a) with (loc, u). destruct (find_app (db_apps t) (loc, u)) as [a0|] eqn:Ef.
      - apply find_app_Some in Ef. destruct Ef as [Hi He]. apply in_map_iff. exists a0. split; [|exact Hi].
        change (app_uuid a) with (loc, u). rewrite He, uuid_eqb_refl. reflexivity.
      - apply in_or_app. right. left. reflexivity. }
    assert (Hfa : find_app (db_apps tt') (loc, u) = Some a).
    { exact (find_app_unique (db_apps tt') a (inv_apps_nodup t2 HI2) Hin_a). }
    unfold w_add_appointment.
    assert (Hauth : authenticate (fresh t2) (Some u) = Some u).
    { unfold authenticate, amem. unfold gk_get in Hg2. rewrite Hg2. reflexivity. }
    rewrite Hauth, Hg2. change (u_expiry ui') with (u_expiry ui). change (gk_height (fresh t2)) with (gk_height (fresh t)). rewrite Ee.
    change (db_trks (fresh t2)) with (db_trks tt'). rewrite Htrks. change (db_trks t) with (db_trks (fresh t)). rewrite Et.
    unfold gk_add_update_appointment. rewrite Hg2. change (db_apps (fresh t2)) with (db_apps tt'). rewrite Hfa.
    change (b_len (a_blob a)) with (b_len b). change (u_slots ui') with s.
    assert (Hle : N.leb (slots_of (b_len b)) (s + slots_of (b_len b)) = true) by (apply N.leb_le; lia).
    rewrite Hle. cbn [bind].
    assert (Hs2 : (s + slots_of (b_len b) - slots_of (b_len b)) mod U32MOD = s) by (rewrite N.add_sub; apply N.mod_small; exact Hs_lt).
    rewrite Hs2. change (mk_uinfo s (u_start ui') (u_expiry ui')) with ui'.
    set (t3 := p_set_user (fresh t2) u ui').
    change (w_cache t3) with (w_cache t). rewrite Hc.
    change (w_height (fresh t2)) with (w_height (fresh t)). fold a.
    unfold w_store_ok, w_store_appointment. change (db_apps t3) with (db_apps tt'). change (app_uuid a) with (loc, u). rewrite Hfa.
    cbn [bind wrap fst snd]. split; [|reflexivity].
    unfold db_of. cbn [db_users db_apps db_trks p_update_app set_db_apps].
    change (db_users t3) with (map (fun r => if N.eqb (fst r) u then (u, ui') else r) (db_users tt')).
    change (db_trks t3) with (db_trks tt'). change (db_apps t3) with (db_apps tt').
    rewrite (map_update_same (db_users tt') u ui' (inv_users_nodup t2 HI2)).
    2:{ unfold gk_get in Hg2. exact Hg2. }
    fold (repl a (db_apps tt')). rewrite (repl_same a (db_apps tt') (inv_apps_nodup t2 HI2) Hin_a). reflexivity. }
  destruct (find_app (db_apps t) (loc, u)) as [a0|] eqn:Ef; cbn [bind wrap]; intros H; inversion H; subst; clear H.
  - apply Hfirst. left. split; [reflexivity|discriminate].
  - apply Hfirst. right. split; reflexivity.
Qed.

(* ... inside the window between the charge and the store the resubmission is charged again: that is the in-flight
   cost (CrashOpsProofs.inflight_cost), not idempotence *)
Theorem add_resubmission_in_window_refuted :
  exists le t o sc k u,
    Inv t /\ let t2 := restart t (crash_at le k t o sc) in
    d_apps (db_of (fst (step le t2 o sc))) = d_apps (db_of (fst (step le t o sc))) /\
    balance (db_of (fst (step le t2 o sc))) u + 2 = balance (db_of (fst (step le t o sc))) u.
Proof.
  exists true, ex_t, (OAdd (Some 2) 9 (mk_blob 9 (Some 29) 2049) 20 4), [], 1%nat, 2.
  split; [exact ex_t_inv|]. vm_compute. auto.
Qed.

(* 7. what is left of the block: the responder.  After the replayed gatekeeper + watcher the responder's pass starts
   from the SAME tables, index, heights and reorged set as in the uninterrupted run; only the carrier's memo (which
   penalties were already submitted in this block period) and the RPC log differ. *)
Theorem replay_block_upto_responder sc1 sc2 tA hash txs j tg tw tBw :
  Inv tA -> at_poll_boundary tA ->
  gk_block_connected tA (gk_height tA + 1) = Ok tt tg ->
  w_block_connected sc1 tg (cache_block hash txs) (gk_height tA + 1) = Ok tt tw ->
  let dB := execs (db_of tg) (firstn j (w_inserts sc1 tg txs)) in
  replay_ok tg dB txs sc1 sc2 ->
  gw_connected sc2 (restart tA dB) hash txs = Ok tt tBw ->
  db_of tBw = db_of tw /\ r_index tBw = r_index tw /\ car_height tBw = car_height tw /\ reorged tBw = reorged tw /\
  gk_height tBw = gk_height tw /\ w_height tBw = w_height tw /\ cfg tBw = cfg tw.
Proof.
  intros HI HB HG HW dB Hok HR.
  split; [exact (gw_replay sc1 sc2 tA hash txs j tg tw tBw HI HB HG HW Hok HR)|].
  destruct HB as [Hre _].
  assert (HIg : Inv tg).
  { pose proof (gk_block_connected_pres Inv (sa_block Inv inv_stable) tA (gk_height tA + 1) HI) as H. rewrite HG in H. exact H. }
  destruct (gk_block_frame _ _ _ HG) as [G1 [G2 [_ [G4 [_ G6]]]]].
  destruct (w_block_connected_frame sc1 tg hash txs _ tw HIg HW) as [_ [_ [_ [W1 [W2 [W3 [W4 [W5 [W6 _]]]]]]]]].
  revert HR. unfold gw_connected. change (gk_height (restart tA dB)) with (gk_height tA).
  destruct (gk_block_connected (restart tA dB) (gk_height tA + 1)) as [[] tgB|] eqn:EG; cbn [bind]; [|discriminate].
  intros HWB.
  assert (HIr : Inv (restart tA dB)).
  { apply recover_inv. unfold dB. apply execs_inv. apply dbinv_of_inv. exact HIg. }
  assert (HIgB : Inv tgB).
  { pose proof (gk_block_connected_pres Inv (sa_block Inv inv_stable) (restart tA dB) (gk_height tA + 1) HIr) as H. rewrite EG in H. exact H. }
  destruct (gk_block_frame _ _ _ EG) as [B1 [B2 [_ [B4 [_ B6]]]]].
  destruct (w_block_connected_frame sc2 tgB hash txs _ tBw HIgB HWB) as [_ [_ [_ [V1 [V2 [V3 [V4 [V5 [V6 _]]]]]]]]].
  assert (Hgh : gk_height tgB = gk_height tg).
  { unfold gk_block_connected in EG, HG.
    destruct (outdated_users _ _ (gk_users (restart tA dB))); [|discriminate]. destruct (outdated_users _ _ (gk_users tA)); [|discriminate].
    inversion EG; inversion HG; reflexivity. }
  repeat split; try congruence.
  - rewrite V3, W3, B1, G1. reflexivity.
  - rewrite V4, W4, B2, G2. reflexivity.
  - rewrite V5, W5, B4, G4. rewrite Hre. reflexivity.
  - rewrite V1, W1, B6, G6. reflexivity.
Qed.
(* 8. the watcher's pass replayed after it COMPLETED (an earlier block of the interrupted poll, delivered again) *)
Lemma exec_w_delete d l :
  d_users (execs d (w_delete l)) = d_users d /\
  d_apps (execs d (w_delete l)) = filter (fun a => negb (mem_uuid (app_uuid a) l)) (d_apps d) /\
  d_trks (execs d (w_delete l)) = filter (fun k => negb (mem_uuid (trk_uuid k) l)) (d_trks d).
Proof.
  destruct l as [|x [|y l]]; cbn [w_delete execs fold_left].
  - repeat split; symmetry; apply filter_true; intros; reflexivity.
  - repeat split.
  - rewrite exec_txn1 by exact I. repeat split.
Qed.

Lemma find_trk_filter_keep (p : trk -> bool) l u :
  find_trk l u <> None -> (forall k, In k l -> trk_uuid k = u -> p k = true) -> find_trk (filter p l) u <> None.
Proof.
  unfold find_trk. induction l as [|k l IH]; cbn [find filter]; [auto|]. intros H Hp.
  destruct (uuid_eqb (trk_uuid k) u) eqn:E.
  - apply uuid_eqb_eq in E. rewrite (Hp k (or_introl eq_refl) E). cbn [find]. rewrite <- E, uuid_eqb_refl. discriminate.
  - destruct (p k); cbn [find]; [rewrite E|]; apply IH; [exact H|intros k' Hk'; apply Hp; right; exact Hk'| exact H |intros k' Hk'; apply Hp; right; exact Hk'].
Qed.

Theorem watcher_replay_completed sc1 sc2 tA tB hash txs h tA' tB' :
  Inv tA -> memo_coherent sc1 tA -> memo_coherent sc2 tB ->
  r_index tB = r_index tA -> car_height tB = car_height tA ->
  db_of tB = db_of tA' ->
  replay_ok tA (db_of tB) txs sc1 sc2 ->
  w_block_connected sc1 tA (cache_block hash txs) h = Ok tt tA' ->
  w_block_connected sc2 tB (cache_block hash txs) h = Ok tt tB' ->
  db_of tB' = db_of tA'.
Proof.
  intros HI HcA HcB Hi Hh Hdb Hok HA HB.
  pose proof (w_pure sc1 tA hash txs h tA' HcA HA) as DA.
  rewrite (w_pure sc2 tB hash txs h tB' HcB HB), <- Hdb.
  set (INS := w_inserts sc1 tA txs) in *. set (INV := w_invalid sc1 tA txs) in *.
  rewrite execs_app in DA. set (d1 := execs (db_of tA) INS) in *.
  destruct (execs_ins_keeps INS (ins_only_w sc1 tA txs) (db_of tA)) as [Ku [Ka _]]. fold d1 in Ku, Ka.
  destruct (exec_w_delete d1 INV) as [Du [Da Dt]]. rewrite <- DA, <- Hdb in Du, Da, Dt.
  change (d_apps (db_of tB)) with (db_apps tB) in Da. change (d_trks (db_of tB)) with (db_trks tB) in Dt.
  rewrite Ka in Da. change (d_apps (db_of tA)) with (db_apps tA) in Da.
  (* every statement INS already issued is a fixpoint of d1 *)
  pose proof (ins_block_done INS (ins_only_w sc1 tA txs) (db_of tA) [] (Forall_nil _) (Forall_nil _)) as Hfix. cbn [List.app] in Hfix. fold d1 in Hfix.
  (* facts about a breached row of the replay *)
  assert (Hrow : forall x, In x (breached_rows tB txs) ->
            row_invalid sc2 tB x = false /\ Forall (fixpoint_of (db_of tB)) (row_stmts sc2 tB x)).
  { intros x Hx. destruct (in_breached _ _ _ Hx) as [Hd [a0 [Ha0 [Hl0 Hu0]]]].
    unfold row_invalid, row_stmts.
    destruct (find_app (db_apps tB) (snd x)) as [a|] eqn:Ef; [|split; [reflexivity|constructor]].
    apply find_app_Some in Ef. destruct Ef as [Hin Hu].
    assert (Hl : a_loc a = fst x) by (unfold app_uuid in Hu, Hu0; rewrite <- Hu0 in Hu; inversion Hu; congruence).
    rewrite Da in Hin. apply filter_In in Hin. destruct Hin as [HinA Hnm]. rewrite Hu in Hnm.
    assert (HfA : find_app (db_apps tA) (snd x) = Some a) by (rewrite <- Hu; apply find_app_unique; [exact (inv_apps_nodup tA HI)|exact HinA]).
    assert (HxA : In x (breached_rows tA txs)).
    { unfold breached_rows. apply in_flat_map. exists (fst x). split.
      - apply filter_In. split; [exact Hd|]. apply existsb_exists. exists a. split; [exact HinA|apply N.eqb_eq; exact Hl].
      - destruct x as [dd uu]. cbn [fst snd] in *. apply in_map. unfold uuids_of. apply in_map_iff. exists a. split; [exact Hu|].
        apply filter_In. split; [exact HinA|apply N.eqb_eq; exact Hl]. }
    (* not invalid in the first run *)
    assert (HniA : row_invalid sc1 tA x = false).
    { destruct (row_invalid sc1 tA x) eqn:E; [|reflexivity]. exfalso.
      assert (Hm : mem_uuid (snd x) INV = true).
      { apply mem_uuid_In. unfold INV, w_invalid. apply in_map. apply filter_In. split; assumption. }
      rewrite Hm in Hnm. discriminate. }
    unfold row_invalid in HniA. rewrite HfA in HniA.
    destruct (decrypt (a_blob a) (fst x)) as [p|] eqn:Ed; [|discriminate].
    assert (Hissued : forall k, In (SInsTrk k) INS -> trk_uuid k = snd x -> fixpoint_of (db_of tB) (SInsTrk k)).
    { intros k Hk Hku. apply ins_fix_iff. left. change (d_trks (db_of tB)) with (db_trks tB). rewrite Dt, Hku.
      apply find_trk_filter_keep.
      - unfold INS in Hk. rewrite Forall_forall in Hfix. specialize (Hfix _ Hk). apply ins_fix_iff in Hfix. rewrite Hku in Hfix.
        destruct Hfix as [Hf|Hf]; [exact Hf|]. rewrite Ka in Hf. change (d_apps (db_of tA)) with (db_apps tA) in Hf. congruence.
      - intros k' _ Hk'. rewrite Hk', Hnm. reflexivity. }
    unfold pure_status in *. rewrite Hi. destruct (ti_get (r_index tA) p) as [bh|] eqn:Ei.
    - destruct (ti_get_height (r_index tA) bh) as [hh|] eqn:Eh; [|split; [reflexivity|constructor]].
      split; [reflexivity|]. cbn [tr_add_tracker stmts_of flat_map List.app]. repeat constructor.
      apply Hissued; [|destruct (snd x); reflexivity].
      unfold INS, w_inserts. apply in_flat_map. exists x. split; [exact HxA|]. unfold row_stmts, pure_status. rewrite HfA, Ed, Ei, Eh. left. reflexivity.
    - rewrite (node_status_fr sc2 tA tB p Hh).
      assert (HinB : In a (d_apps (db_of tB))).
      { change (d_apps (db_of tB)) with (db_apps tB). rewrite Da. apply filter_In. split; [exact HinA|]. rewrite Hu. exact Hnm. }
      rewrite <- Hl in Ed, Hd. destruct (Hok a p HinB Hd Ed Ei) as [E|[_ [Hres _]]].
      + rewrite E. split; [exact HniA|].
        destruct (node_status sc1 tA p) eqn:Es; cbn [tr_add_tracker stmts_of flat_map List.app]; repeat constructor;
          (apply Hissued; [|destruct (snd x); reflexivity]);
          unfold INS, w_inserts; apply in_flat_map; exists x; (split; [exact HxA|]); unfold row_stmts, pure_status;
          rewrite Hl in Ed; rewrite HfA, Ed, Ei, Es; left; reflexivity.
      + rewrite Hres. split; [reflexivity|constructor]. }
  assert (Hinv : w_invalid sc2 tB txs = []).
  { unfold w_invalid. rewrite filter_false; [reflexivity|]. intros x Hx. apply (Hrow x Hx). }
  rewrite Hinv. cbn [w_delete]. rewrite app_nil_r.
  apply ins_block_fix; [apply ins_only_w|].
  unfold w_inserts. apply Forall_forall. intros s Hs. apply in_flat_map in Hs. destruct Hs as [x [Hx Hs]].
  destruct (Hrow x Hx) as [_ Hf]. rewrite Forall_forall in Hf. apply Hf. exact Hs.
Qed.
(* 9. the responder's pass of the replay: same tables at its start, a different memo *)

(* same tables, same gatekeeper map (as a map), same reorged set *)
Definition mem_eq (tA tB : tower) : Prop :=
  db_of tB = db_of tA /\ (forall u, aget (gk_users tB) u = aget (gk_users tA) u) /\ reorged tB = reorged tA.

(* the fields the responder reads besides the tables *)
Definition eng (t : tower) := (cfg t, gk_height t, r_index t, car_height t, car_memo t).

Lemma db_of_eq_fields tA tB : db_of tB = db_of tA -> db_users tB = db_users tA /\ db_apps tB = db_apps tA /\ db_trks tB = db_trks tA.
Proof. unfold db_of. intros H. inversion H. auto. Qed.

Lemma cc_sim le txids h : forall snap tA tB comp cA tA' cB tB',
  mem_eq tA tB ->
  check_conf_loop le txids h snap tA comp = Ok cA tA' -> check_conf_loop le txids h snap tB comp = Ok cB tB' ->
  cA = cB /\ mem_eq tA' tB' /\ eng tA' = eng tA /\ eng tB' = eng tB.
Proof.
  induction snap as [|k snap IH]; intros tA tB comp cA tA' cB tB' HM; cbn [check_conf_loop].
  - intros H1 H2. inversion H1; inversion H2; subst. auto.
  - destruct HM as [Hd [Hg Hr]]. destruct (db_of_eq_fields _ _ Hd) as [Eu [Ea Et]].
    rewrite Et, Hr. destruct (memN (t_penalty k) txids).
    + destruct (find_trk (db_trks tA) (trk_uuid k)); [|discriminate].
      intros H1 H2.
      assert (HM' : mem_eq (set_reorged (set_trk_status tA (trk_uuid k) h true) (filter (fun u => negb (uuid_eqb u (trk_uuid k))) (reorged (set_trk_status tA (trk_uuid k) h true))))
                           (set_reorged (set_trk_status tB (trk_uuid k) h true) (filter (fun u => negb (uuid_eqb u (trk_uuid k))) (reorged (set_trk_status tB (trk_uuid k) h true))))).
      { unfold mem_eq. cbn [reorged set_reorged set_trk_status set_db_trks gk_users]. rewrite Hr. repeat split; [|exact Hg].
        unfold db_of. cbn [db_users db_apps db_trks set_reorged set_trk_status set_db_trks]. rewrite Eu, Ea, Et. reflexivity. }
      destruct (IH _ _ _ _ _ _ _ HM' H1 H2) as [A [B [C D]]]. split; [exact A|split; [exact B|split; [exact C|exact D]]].
    + destruct (mem_uuid (trk_uuid k) (reorged tA)); [apply IH; repeat split; assumption|].
      destruct (t_conf k); apply IH; repeat split; assumption.
Qed.

Lemma aget_put {V} (m : amap V) u (v : V) k : aget ((u, v) :: aremove m u) k = if N.eqb k u then Some v else aget m k.
Proof. cbn [aget]. destruct (N.eqb k u) eqn:E; [reflexivity|]. rewrite aget_remove, E. reflexivity. Qed.

Lemma refund_sim : forall us tA tB tA' tB',
  mem_eq tA tB -> refund_loop tA us = Ok tt tA' -> refund_loop tB us = Ok tt tB' ->
  mem_eq tA' tB' /\ eng tA' = eng tA /\ eng tB' = eng tB.
Proof.
  induction us as [|uuid us IH]; intros tA tB tA' tB' HM; cbn [refund_loop].
  - intros H1 H2. inversion H1; inversion H2; subst. auto.
  - destruct HM as [Hd [Hg Hr]]. destruct (db_of_eq_fields _ _ Hd) as [Eu [Ea Et]]. rewrite Ea.
    destruct (find_app (db_apps tA) uuid) as [a|]; [|discriminate].
    unfold gk_get. rewrite Hg. destruct (aget (gk_users tA) (a_user a)) as [ui|]; [|discriminate].
    destruct (u32_add (u_slots ui) (slots_of (b_len (a_blob a)))) as [s|]; [|discriminate].
    intros H1 H2.
    assert (HM' : mem_eq (p_refund_user tA (a_user a) ui s) (p_refund_user tB (a_user a) ui s)).
    { unfold mem_eq, p_refund_user, db_update_user_slots, gk_put. repeat split.
      - unfold db_of. cbn [db_users db_apps db_trks set_db_users set_gk_users]. rewrite Eu, Ea, Et. reflexivity.
      - intros u. cbn [gk_users set_db_users set_gk_users]. rewrite !aget_put, Hg. reflexivity.
      - exact Hr. }
    destruct (IH _ _ _ _ HM' H1 H2) as [B [C D]]. split; [exact B|split; [exact C|exact D]].
Qed.

Lemma delete_sim tA tB us refund tA' tB' :
  mem_eq tA tB -> gk_delete_appointments tA us refund = Ok tt tA' -> gk_delete_appointments tB us refund = Ok tt tB' ->
  mem_eq tA' tB' /\ eng tA' = eng tA /\ eng tB' = eng tB.
Proof.
  intros HM. unfold gk_delete_appointments. destruct refund.
  - destruct (refund_loop tA us) as [[] tA1|] eqn:E1; cbn [bind]; [|discriminate].
    destruct (refund_loop tB us) as [[] tB1|] eqn:E2; cbn [bind]; [|discriminate].
    destruct (refund_sim us tA tB tA1 tB1 HM E1 E2) as [[Hd [Hg Hr]] [C D]].
    intros H1 H2. inversion H1; inversion H2; subst. split; [|split; [rewrite <- C|rewrite <- D]; reflexivity].
    destruct (db_of_eq_fields _ _ Hd) as [Eu [Ea Et]].
    unfold mem_eq. repeat split; [|exact Hg|exact Hr]. unfold db_of, db_delete_apps.
    cbn [db_users db_apps db_trks set_db_apps set_db_trks]. rewrite Eu, Ea, Et. reflexivity.
  - intros H1 H2. inversion H1; inversion H2; subst. split; [|split; reflexivity].
    destruct HM as [Hd [Hg Hr]]. destruct (db_of_eq_fields _ _ Hd) as [Eu [Ea Et]].
    unfold mem_eq. repeat split; [|exact Hg|exact Hr]. unfold db_of, db_delete_apps.
    cbn [db_users db_apps db_trks set_db_apps set_db_trks]. rewrite Eu, Ea, Et. reflexivity.
Qed.

(* --- the stale phase: tables related up to the stamp --- *)
Definition up_eq (tA tB : tower) : Prop :=
  db_users tB = db_users tA /\ db_apps tB = db_apps tA /\ map trk_nostamp (db_trks tB) = map trk_nostamp (db_trks tA).

Lemma rejected_height_indep t t' a : status_rejected (send_status t a) = status_rejected (send_status t' a).
Proof. unfold send_status. destruct a; [reflexivity|]. repeat (destruct (Z.eqb _ _); try reflexivity). Qed.

(* what the memo holds: never ConfirmedIn, and rejected exactly when the node rejects *)
Definition memo_sound (sc : script) (t : tower) : Prop :=
  forall tx r, aget (car_memo t) tx = Some r ->
    status_rejected r = status_rejected (send_status t (snd (script_get sc tx))) /\ forall hh, r <> ConfirmedIn hh.

Lemma send_sound sc t tx :
  memo_sound sc t ->
  status_rejected (fst (send_transaction sc t tx)) = status_rejected (send_status t (snd (script_get sc tx))) /\
  (forall hh, fst (send_transaction sc t tx) <> ConfirmedIn hh) /\
  memo_sound sc (snd (send_transaction sc t tx)) /\
  db_of (snd (send_transaction sc t tx)) = db_of t /\ car_height (snd (send_transaction sc t tx)) = car_height t.
Proof.
  intros Hs. unfold send_transaction. destruct (aget (car_memo t) tx) as [r|] eqn:E; cbn [fst snd].
  - destruct (Hs tx r E) as [H1 H2]. split; [exact H1|]. split; [exact H2|]. split; [exact Hs|]. split; reflexivity.
  - split; [reflexivity|]. split; [intros hh; apply send_status_not_conf|]. split; [|split; reflexivity].
    intros tx' r. cbn [car_memo set_car_memo log_rpc set_rpc_log aget]. destruct (N.eqb tx' tx) eqn:Ex.
    + apply N.eqb_eq in Ex. subst tx'. intros H; inversion H; subst. split; [apply rejected_height_indep|intros hh; apply send_status_not_conf].
    + intros H. destruct (Hs tx' r H) as [H1 H2]. split; [rewrite H1; apply rejected_height_indep|exact H2].
Qed.

Lemma nostamp_uuid k : trk_uuid (trk_nostamp k) = trk_uuid k.
Proof. unfold trk_nostamp. destruct (t_conf k); reflexivity. Qed.
Lemma nostamp_penalty k : t_penalty (trk_nostamp k) = t_penalty k.
Proof. unfold trk_nostamp. destruct (t_conf k); reflexivity. Qed.

Lemma find_trk_nostamp : forall lA lB u,
  map trk_nostamp lB = map trk_nostamp lA ->
  match find_trk lA u, find_trk lB u with
  | Some kA, Some kB => t_penalty kB = t_penalty kA
  | None, None => True
  | _, _ => False
  end.
Proof.
  induction lA as [|a lA IH]; intros [|b lB] u H; try discriminate; [exact I|].
  cbn [map] in H. inversion H as [[H1 H2]]. unfold find_trk. cbn [find].
  assert (Eu : trk_uuid b = trk_uuid a) by (rewrite <- (nostamp_uuid a), <- (nostamp_uuid b), H1; reflexivity).
  rewrite Eu. destruct (uuid_eqb (trk_uuid a) u).
  - rewrite <- (nostamp_penalty a), <- (nostamp_penalty b), H1. reflexivity.
  - apply (IH lB u H2).
Qed.

Lemma set_status_nostamp u hA hB : forall lA lB,
  map trk_nostamp lB = map trk_nostamp lA ->
  map trk_nostamp (map (fun k => if uuid_eqb (trk_uuid k) u then mk_trk (t_loc k) (t_user k) (t_dispute k) (t_penalty k) hB false else k) lB) =
  map trk_nostamp (map (fun k => if uuid_eqb (trk_uuid k) u then mk_trk (t_loc k) (t_user k) (t_dispute k) (t_penalty k) hA false else k) lA).
Proof.
  induction lA as [|a lA IH]; intros [|b lB] H; try discriminate; [reflexivity|].
  cbn [map] in *. inversion H as [[H1 H2]]. f_equal; [|apply IH; exact H2].
  assert (Eu : trk_uuid b = trk_uuid a) by (rewrite <- (nostamp_uuid a), <- (nostamp_uuid b), H1; reflexivity).
  rewrite Eu. destruct (uuid_eqb (trk_uuid a) u); [|exact H1].
  unfold trk_nostamp in *. cbn [t_conf t_loc t_user t_dispute t_penalty].
  destruct (t_conf a), (t_conf b); inversion H1; try reflexivity; try congruence;
    destruct a, b; cbn in *; congruence.
Qed.

Lemma filter_nostamp (q : N * N -> bool) : forall lA lB,
  map trk_nostamp lB = map trk_nostamp lA ->
  map trk_nostamp (filter (fun k => q (trk_uuid k)) lB) = map trk_nostamp (filter (fun k => q (trk_uuid k)) lA).
Proof.
  induction lA as [|a lA IH]; intros [|b lB] H; try discriminate; [reflexivity|].
  cbn [map filter] in *. inversion H as [[H1 H2]].
  assert (Eu : trk_uuid b = trk_uuid a) by (rewrite <- (nostamp_uuid a), <- (nostamp_uuid b), H1; reflexivity).
  rewrite Eu. destruct (q (trk_uuid a)); cbn [map]; [f_equal; [exact H1|]|]; apply IH; exact H2.
Qed.

Definition rej_stable (t : tower) (sc1 sc2 : script) : Prop :=
  forall tx, status_rejected (send_status t (snd (script_get sc2 tx))) = status_rejected (send_status t (snd (script_get sc1 tx))).

Lemma stale_sim sc1 sc2 h : forall us tA tB rej rA tA' rB tB',
  up_eq tA tB -> memo_sound sc1 tA -> memo_sound sc2 tB -> rej_stable tA sc1 sc2 ->
  stale_loop sc1 h us tA rej = Ok rA tA' -> stale_loop sc2 h us tB rej = Ok rB tB' ->
  rA = rB /\ up_eq tA' tB'.
Proof.
  induction us as [|uuid us IH]; intros tA tB rej rA tA' rB tB' HU HmA HmB Hst; cbn [stale_loop].
  - intros H1 H2. inversion H1; inversion H2; subst. auto.
  - destruct HU as [Eu [Ea Et]]. pose proof (find_trk_nostamp (db_trks tA) (db_trks tB) uuid Et) as Hf.
    destruct (find_trk (db_trks tA) uuid) as [kA|]; [|discriminate].
    destruct (find_trk (db_trks tB) uuid) as [kB|]; [|contradiction]. rewrite Hf.
    destruct (send_sound sc1 tA (t_penalty kA) HmA) as [RA [NA [MA [DA CA]]]].
    destruct (send_sound sc2 tB (t_penalty kA) HmB) as [RB [NB [MB [DB CB]]]].
    destruct (send_transaction sc1 tA (t_penalty kA)) as [sA tA1]. destruct (send_transaction sc2 tB (t_penalty kA)) as [sB tB1].
    cbn [fst snd] in *.
    assert (HR : status_rejected sB = status_rejected sA).
    { rewrite RA, RB, (rejected_height_indep tB tA). apply Hst. }
    destruct (db_of_eq_fields _ _ DA) as [A1 [A2 A3]]. destruct (db_of_eq_fields _ _ DB) as [B1 [B2 B3]].
    assert (HU1 : up_eq tA1 tB1) by (unfold up_eq; rewrite A1, A2, A3, B1, B2, B3; auto).
    assert (Hst1 : rej_stable tA1 sc1 sc2).
    { intros tx. rewrite (rejected_height_indep tA1 tA), (rejected_height_indep tA1 tA (snd (script_get sc1 tx))). apply Hst. }
    assert (Hset : forall hA hB, up_eq (set_trk_status tA1 uuid hA false) (set_trk_status tB1 uuid hB false)).
    { intros hA hB. destruct HU1 as [U1 [U2 U3]]. unfold up_eq, set_trk_status. cbn [db_users db_apps db_trks set_db_trks].
      repeat split; try assumption. apply set_status_nostamp. exact U3. }
    assert (HmS : forall sc t hh, memo_sound sc t -> memo_sound sc (set_trk_status t uuid hh false)) by (intros sc t hh Hm; exact Hm).
    assert (HstS : forall hh, rej_stable (set_trk_status tA1 uuid hh false) sc1 sc2) by (intros hh; exact Hst1).
    destruct sA as [hA|hA| |cA]; [exfalso; exact (NA hA eq_refl)| | |];
      destruct sB as [hB|hB| |cB]; try (exfalso; exact (NB hB eq_refl)); try discriminate HR;
      intros H1 H2; try (eapply (IH _ _ _ _ _ _ _ (Hset _ _)); [apply HmS; exact MA|apply HmS; exact MB|apply HstS|exact H1|exact H2]).
    eapply (IH _ _ _ _ _ _ _ HU1 MA MB Hst1 H1 H2).
Qed.

Lemma cc_reorged_nil le txids h : forall snap t comp c t',
  reorged t = [] -> check_conf_loop le txids h snap t comp = Ok c t' -> reorged t' = [].
Proof.
  induction snap as [|k snap IH]; intros t comp c t' Hr; cbn [check_conf_loop]; [intros H; inversion H; subst; exact Hr|].
  destruct (memN (t_penalty k) txids).
  - destruct (find_trk (db_trks t) (trk_uuid k)); [|discriminate]. apply IH. cbn [reorged set_reorged set_trk_status set_db_trks]. rewrite Hr. reflexivity.
  - rewrite Hr. cbn [mem_uuid existsb]. destruct (t_conf k); apply IH; exact Hr.
Qed.

Lemma refund_reorged : forall us t t', refund_loop t us = Ok tt t' -> reorged t' = reorged t.
Proof.
  induction us as [|uuid us IH]; intros t t'; cbn [refund_loop]; [intros H; inversion H; reflexivity|].
  destruct (find_app _ _) as [a|]; [|discriminate]. destruct (gk_get _ _) as [ui|]; [|discriminate].
  destruct (u32_add _ _) as [s|]; [|discriminate]. intros H. apply IH in H. exact H.
Qed.

Lemma delete_reorged t us r t' : gk_delete_appointments t us r = Ok tt t' -> reorged t' = reorged t.
Proof.
  unfold gk_delete_appointments. destruct r.
  - destruct (refund_loop t us) as [[] t1|] eqn:E; cbn [bind]; [|discriminate]. intros H; inversion H; subst. apply refund_reorged in E. exact E.
  - intros H; inversion H; reflexivity.
Qed.

Lemma memo_sound_frame sc t t' : car_memo t' = car_memo t -> memo_sound sc t -> memo_sound sc t'.
Proof.
  intros Hm Hs tx r Hr. rewrite Hm in Hr. destruct (Hs tx r Hr) as [H1 H2]. split; [rewrite H1; apply rejected_height_indep|exact H2].
Qed.

Lemma eng_memo t t' : eng t' = eng t -> car_memo t' = car_memo t.
Proof. unfold eng. intros H. inversion H. reflexivity. Qed.

Lemma delete_up_eq tA tB l : up_eq tA tB -> up_eq (db_delete_apps tA l) (db_delete_apps tB l).
Proof.
  intros [U1 [U2 U3]]. unfold up_eq, db_delete_apps. cbn [db_users db_apps db_trks set_db_apps set_db_trks].
  rewrite U1, U2. repeat split. apply (filter_nostamp (fun u => negb (mem_uuid u l))). exact U3.
Qed.

(* THE RESPONDER'S PASS OF THE REPLAY.  Same tables, same gatekeeper map, same index and (empty) reorged set at its
   start; the memos differ (which penalties each attempt submitted earlier in this block period) but are sound;
   rejections are stable between the two scripts: the tables after the pass are equal up to the stamp of
   unconfirmed trackers *)
Theorem responder_replay le sc1 sc2 tA tB b h tA' tB' :
  mem_eq tA tB -> reorged tA = [] -> r_index tB = r_index tA ->
  memo_sound sc1 tA -> memo_sound sc2 tB -> rej_stable tA sc1 sc2 ->
  r_block_connected le sc1 tA b h = Ok tt tA' -> r_block_connected le sc2 tB b h = Ok tt tB' ->
  eq_up_to_stamp (db_of tB') (db_of tA').
Proof.
  intros HM Hre Hi HmA HmB Hst. unfold r_block_connected.
  cbn [r_index set_car_height]. rewrite Hi.
  destruct (ti_update (r_index tA) b) as [idx|]; [|discriminate].
  set (tA1 := set_r_index (set_car_height tA h) idx). set (tB1 := set_r_index (set_car_height tB h) idx).
  assert (HM1 : mem_eq tA1 tB1) by exact HM.
  assert (Htr : db_trks tB1 = db_trks tA1) by (destruct HM as [Hd _]; apply (db_of_eq_fields _ _ Hd)).
  rewrite Htr.
  destruct (check_conf_loop le (keys_of (ib_data b)) h (db_trks tA1) tA1 []) as [cA tA2|] eqn:EA; cbn [bind]; [|discriminate].
  destruct (check_conf_loop le (keys_of (ib_data b)) h (db_trks tA1) tB1 []) as [cB tB2|] eqn:EB; cbn [bind]; [|discriminate].
  destruct (cc_sim le _ h _ _ _ _ _ _ _ _ HM1 EA EB) as [Ec [HM2 [GA2 GB2]]]. subst cB.
  assert (Hre2 : reorged tA2 = []) by (eapply cc_reorged_nil; [|exact EA]; exact Hre).
  (* the refund transaction *)
  assert (HF : forall tA3 tB3,
            (match cA with [] => Ok tt tA2 | _ :: _ => gk_delete_appointments tA2 cA true end) = Ok tt tA3 ->
            (match cA with [] => Ok tt tB2 | _ :: _ => gk_delete_appointments tB2 cA true end) = Ok tt tB3 ->
            mem_eq tA3 tB3 /\ car_memo tA3 = car_memo tA2 /\ car_memo tB3 = car_memo tB2 /\ reorged tA3 = []).
  { intros tA3 tB3. destruct cA as [|c0 cs].
    - intros H1 H2. inversion H1; inversion H2; subst. auto.
    - intros H1 H2. destruct (delete_sim _ _ _ _ _ _ HM2 H1 H2) as [M [G1 G2]].
      split; [exact M|]. split; [apply eng_memo; exact G1|]. split; [apply eng_memo; exact G2|].
      rewrite (delete_reorged _ _ _ _ H1). exact Hre2. }
  destruct (match cA with [] => Ok tt tA2 | _ :: _ => gk_delete_appointments tA2 cA true end) as [[] tA3|] eqn:FA; cbn [bind]; [|discriminate].
  destruct (match cA with [] => Ok tt tB2 | _ :: _ => gk_delete_appointments tB2 cA true end) as [[] tB3|] eqn:FB; cbn [bind]; [|discriminate].
  destruct (HF tA3 tB3 eq_refl eq_refl) as [HM3 [MA3 [MB3 Hre3]]].
  destruct HM3 as [Hd3 [Hg3 Hr3]]. rewrite Hr3, Hre3. cbn [bind].
  destruct (u32_sub h (Z.to_N Consts.CONFIRMATIONS_BEFORE_RETRY)) as [lim|]; [|discriminate].
  destruct (db_of_eq_fields _ _ Hd3) as [E1 [E2 E3]]. rewrite E3.
  set (stale := map trk_uuid (filter (fun k => negb (t_conf k) && N.leb (t_height k) lim) (db_trks tA3))).
  assert (HU3 : up_eq tA3 tB3) by (unfold up_eq; rewrite E1, E2, E3; auto).
  assert (HmA3 : memo_sound sc1 tA3).
  { apply (memo_sound_frame sc1 tA tA3); [|exact HmA]. rewrite MA3, (eng_memo _ _ GA2). reflexivity. }
  assert (HmB3 : memo_sound sc2 tB3).
  { apply (memo_sound_frame sc2 tB tB3); [|exact HmB]. rewrite MB3, (eng_memo _ _ GB2). reflexivity. }
  assert (Hst3 : rej_stable tA3 sc1 sc2).
  { intros tx. rewrite (rejected_height_indep tA3 tA), (rejected_height_indep tA3 tA (snd (script_get sc1 tx))). apply Hst. }
  destruct (stale_loop sc1 h stale tA3 []) as [rA tA5|] eqn:SA; cbn [bind]; [|discriminate].
  destruct (stale_loop sc2 h stale tB3 []) as [rB tB5|] eqn:SB; cbn [bind]; [|discriminate].
  destruct (stale_sim sc1 sc2 h stale tA3 tB3 [] rA tA5 rB tB5 HU3 HmA3 HmB3 Hst3 SA SB) as [Er HU5]. subst rB.
  cbn [List.app].
  assert (HD : forall tA6 tB6,
            (match rA with [] => Ok tt tA5 | p :: l0 => gk_delete_appointments tA5 (p :: l0) false end) = Ok tt tA6 ->
            (match rA with [] => Ok tt tB5 | p :: l0 => gk_delete_appointments tB5 (p :: l0) false end) = Ok tt tB6 ->
            up_eq tA6 tB6).
  { intros tA6 tB6. destruct rA as [|r0 rs]; intros H1 H2; inversion H1; inversion H2; subst; [exact HU5|].
    apply delete_up_eq. exact HU5. }
  destruct (match rA with [] => Ok tt tA5 | p :: l0 => gk_delete_appointments tA5 (p :: l0) false end) as [[] tA6|] eqn:DA; cbn [bind]; [|discriminate].
  destruct (match rA with [] => Ok tt tB5 | p :: l0 => gk_delete_appointments tB5 (p :: l0) false end) as [[] tB6|] eqn:DB; cbn [bind]; [|discriminate].
  specialize (HD tA6 tB6 eq_refl eq_refl). destruct HD as [U1 [U2 U3]].
  intros H1 H2. inversion H1; inversion H2; subst.
  unfold eq_up_to_stamp, db_nostamp, db_of. cbn [d_users d_apps d_trks db_users db_apps db_trks set_car_memo].
  rewrite U1, U2, U3. reflexivity.
Qed.
(* 10. one block: gatekeeper, watcher and responder composed *)
Lemma delete_memo t us r t' : gk_delete_appointments t us r = Ok tt t' -> car_memo t' = car_memo t /\ car_height t' = car_height t.
Proof.
  unfold gk_delete_appointments. destruct r.
  - destruct (refund_loop t us) as [[] t1|] eqn:E; cbn [bind]; [|discriminate]. intros H; inversion H; subst.
    assert (G : eng t1 = eng t).
    { clear H. revert t t1 E. induction us as [|uuid us IH]; intros t t1; cbn [refund_loop]; [intros H; inversion H; reflexivity|].
      destruct (find_app _ _) as [a|]; [|discriminate]. destruct (gk_get _ _) as [ui|]; [|discriminate].
      destruct (u32_add _ _) as [s|]; [|discriminate]. intros H. apply IH in H. exact H. }
    unfold eng in G. inversion G. split; reflexivity.
  - intros H; inversion H; split; reflexivity.
Qed.

Lemma w_coherent sc t hash txs h t' :
  memo_coherent sc t -> w_block_connected sc t (cache_block hash txs) h = Ok tt t' -> memo_coherent sc t'.
Proof.
  intros Hc. unfold w_block_connected.
  destruct (ti_update (w_cache t) (cache_block hash txs)) as [c|]; [|discriminate].
  set (t1 := set_w_cache t c).
  destruct (breach_loop sc _ t1 []) as [inv t2|] eqn:E; cbn [bind]; [|discriminate].
  assert (Hc1 : memo_coherent sc t1) by (eapply memo_coherent_fr; [| |exact Hc]; reflexivity).
  destruct (bl_pure sc _ t1 [] inv t2 Hc1 E) as [_ [_ [C _]]].
  destruct inv as [|i0 is]; cbn [bind].
  - intros H; inversion H; subst. eapply memo_coherent_fr; [| |exact C]; reflexivity.
  - destruct (gk_delete_appointments t2 (i0 :: is) false) as [[] t3|] eqn:D; cbn [bind]; [|discriminate].
    intros H; inversion H; subst. destruct (delete_memo _ _ _ _ D) as [M1 M2].
    eapply memo_coherent_fr; [| |exact C]; cbn; assumption.
Qed.

Lemma coherent_sound sc t : memo_coherent sc t -> memo_sound sc t.
Proof. intros Hc tx r Hr. rewrite (Hc tx r Hr). split; [reflexivity|intros hh; apply send_status_not_conf]. Qed.

(* ONE BLOCK REPLAYED.  Poll-boundary state tA; first attempt with the node answering sc1, killed after the purge and any
   number j of the watcher's tracker inserts (j = all of them: the kill is anywhere up to the watcher's DELETE);
   restart; the same block with the node answering sc2: outside the recorded class (replay_ok) and with stable rejections
   (rej_stable) the tables after the block are those of the uninterrupted run up to the stamp of unconfirmed trackers *)
Theorem replay_block le sc1 sc2 tA hash txs j tg tw tr tBw tBr :
  Inv tA -> at_poll_boundary tA ->
  gk_block_connected tA (gk_height tA + 1) = Ok tt tg ->
  w_block_connected sc1 tg (cache_block hash txs) (gk_height tA + 1) = Ok tt tw ->
  r_block_connected le sc1 tw (index_block hash txs) (gk_height tA + 1) = Ok tt tr ->
  let dB := execs (db_of tg) (firstn j (w_inserts sc1 tg txs)) in
  replay_ok tg dB txs sc1 sc2 -> rej_stable tA sc1 sc2 ->
  gw_connected sc2 (restart tA dB) hash txs = Ok tt tBw ->
  r_block_connected le sc2 tBw (index_block hash txs) (gk_height tA + 1) = Ok tt tBr ->
  eq_up_to_stamp (db_of tBr) (db_of tr).
Proof.
  intros HI HB HG HW HR dB Hok Hst HGW HRB.
  destruct (replay_block_upto_responder sc1 sc2 tA hash txs j tg tw tBw HI HB HG HW Hok HGW) as [Ed [Ei [Eh [Er _]]]].
  destruct HB as [Hre Hm].
  assert (HIg : Inv tg).
  { pose proof (gk_block_connected_pres Inv (sa_block Inv inv_stable) tA (gk_height tA + 1) HI) as H. rewrite HG in H. exact H. }
  destruct (gk_block_frame _ _ _ HG) as [G1 [G2 [G3 [G4 _]]]].
  destruct (w_block_connected_frame sc1 tg hash txs _ tw HIg HW) as [_ [Wu [Wg [_ [_ [_ [_ [Wr _]]]]]]]].
  (* the replay's gatekeeper map is the purged table *)
  assert (Hgk : forall u, aget (gk_users tBw) u = aget (gk_users tw) u).
  { revert HGW. unfold gw_connected. change (gk_height (restart tA dB)) with (gk_height tA).
    pose proof (ins_only_w sc1 tg txs) as Hio.
    assert (HP : ins_only (firstn j (w_inserts sc1 tg txs))).
    { apply Forall_forall. intros s Hs. unfold ins_only in Hio. rewrite Forall_forall in Hio. apply Hio. eapply in_firstn. exact Hs. }
    destruct (execs_ins_keeps _ HP (db_of tg)) as [Ku _]. fold dB in Ku.
    assert (Hgu : gk_users (restart tA dB) = db_users tg) by (change (gk_users (restart tA dB)) with (d_users dB); rewrite Ku; reflexivity).
    rewrite (gatekeeper_replay_done tA (gk_height tA + 1) tg (restart tA dB) HI HG eq_refl Hgu). cbn [bind]. intros HWB.
    assert (HIr0 : Inv (restart tA dB)) by (apply recover_inv; unfold dB; apply execs_inv; apply dbinv_of_inv; exact HIg).
    assert (HIr : Inv (set_gk_height (restart tA dB) (gk_height tA + 1))).
    { apply (inv_frame (restart tA dB)); [|exact HIr0]. generalize (restart tA dB). intros t0. repeat split. }
    destruct (w_block_connected_frame sc2 _ hash txs _ tBw HIr HWB) as [_ [_ [Vg _]]].
    intros u. rewrite Vg, Wg. change (gk_users (set_gk_height (restart tA dB) (gk_height tA + 1))) with (gk_users (restart tA dB)).
    rewrite Hgu. symmetry. apply (inv_sync tg HIg). }
  apply (responder_replay le sc1 sc2 tw tBw (index_block hash txs) (gk_height tA + 1) tr tBr).
  - repeat split; [exact Ed|exact Hgk|exact Er].
  - rewrite Wr, G4. exact Hre.
  - exact Ei.
  - apply coherent_sound. apply (w_coherent sc1 tg hash txs (gk_height tA + 1) tw); [|exact HW]. apply memo_nil_coherent. rewrite G3. exact Hm.
  - apply coherent_sound. revert HGW. unfold gw_connected.
    destruct (gk_block_connected (restart tA dB) (gk_height (restart tA dB) + 1)) as [[] tgB|] eqn:EG; cbn [bind]; [|discriminate].
    intros HWB. apply (w_coherent sc2 tgB hash txs (gk_height (restart tA dB) + 1) tBw); [|exact HWB]. apply memo_nil_coherent.
    destruct (gk_block_frame _ _ _ EG) as [_ [_ [B3 _]]]. rewrite B3. reflexivity.
  - intros tx. rewrite (rejected_height_indep tw tA), (rejected_height_indep tw tA (snd (script_get sc1 tx))). apply Hst.
  - exact HR.
  - exact HRB.
Qed.
(* 11. operation level: OConnect, the crash point as an index into its statement trace *)
Lemma w_trace_pure sc t hash txs h t' :
  memo_coherent sc t -> w_block_connected sc t (cache_block hash txs) h = Ok tt t' ->
  stmts_of (flat_segs (tr_w_block sc t (cache_block hash txs) h)) = w_inserts sc t txs ++ w_delete (w_invalid sc t txs).
Proof.
  intros Hc. unfold w_block_connected, tr_w_block.
  destruct (ti_update (w_cache t) (cache_block hash txs)) as [c|]; [|discriminate].
  rewrite keys_cache_block. set (t1 := set_w_cache t c).
  set (ds := filter (fun d => existsb (fun a => N.eqb (a_loc a) d) (db_apps t1)) txs).
  destruct (breach_loop sc ds t1 []) as [inv t2|] eqn:E; cbn [bind]; [|discriminate].
  assert (Hc1 : memo_coherent sc t1) by (eapply memo_coherent_fr; [| |exact Hc]; reflexivity).
  destruct (bl_pure sc ds t1 [] inv t2 Hc1 E) as [A [B [C F]]]. cbn [List.app] in B.
  intros _. rewrite flat_segs_cons, stmts_of_app. cbn [flat_seg flat_segs flat_map]. rewrite app_nil_r, A.
  assert (Hdel : stmts_of (match inv with [] => [] | _ :: _ => tr_delete t2 inv false end) = w_delete inv) by apply tr_delete_norefund.
  rewrite Hdel, B. unfold w_inserts, w_invalid, breached_rows. fold ds.
  assert (E1 : flat_map (row_stmts sc t1) (flat_map (fun d => map (pair d) (uuids_of t1 d)) ds) =
               flat_map (row_stmts sc t) (flat_map (fun d => map (pair d) (uuids_of t d)) ds)).
  { apply flat_map_ext. intros x. apply (row_stmts_fr sc t t1). repeat split. }
  assert (E2 : filter (row_invalid sc t1) (flat_map (fun d => map (pair d) (uuids_of t1 d)) ds) =
               filter (row_invalid sc t) (flat_map (fun d => map (pair d) (uuids_of t d)) ds)).
  { apply filter_ext_in'. intros x _. apply (row_invalid_fr sc t t1). repeat split. }
  rewrite E1, E2. reflexivity.
Qed.

Lemma connect_decomp le t hash txs sc t' :
  step le t (OConnect hash txs) sc = (t', OBlockRes) ->
  exists tg tw,
    gk_block_connected (fresh t) (gk_height t + 1) = Ok tt tg /\
    w_block_connected sc tg (cache_block hash txs) (gk_height t + 1) = Ok tt tw /\
    r_block_connected le sc tw (index_block hash txs) (gk_height t + 1) = Ok tt t'.
Proof.
  cbn [step]. unfold Consts.LISTENER_ORDER. cbn [run_listeners]. unfold listener_connected. cbn [Z.eqb Pos.eqb].
  change (set_rpc_log t []) with (fresh t). change (gk_height (fresh t)) with (gk_height t).
  destruct (gk_block_connected (fresh t) (gk_height t + 1)) as [[] tg|] eqn:EG; cbn [bind wrap]; [|intros H; inversion H].
  destruct (w_block_connected sc tg (cache_block hash txs) (gk_height t + 1)) as [[] tw|] eqn:EW; cbn [bind wrap]; [|intros H; inversion H].
  destruct (r_block_connected le sc tw (index_block hash txs) (gk_height t + 1)) as [[] tr|] eqn:ER; cbn [bind wrap]; [|intros H; inversion H].
  intros H; inversion H; subst. exists tg, tw. repeat split; assumption.
Qed.

Lemma connect_stmts le t hash txs sc tg tw :
  gk_block_connected (fresh t) (gk_height t + 1) = Ok tt tg ->
  w_block_connected sc tg (cache_block hash txs) (gk_height t + 1) = Ok tt tw ->
  op_stmts le t (OConnect hash txs) sc =
  stmts_of (tr_gk_block (fresh t) (gk_height t + 1)) ++
  stmts_of (flat_segs (tr_w_block sc tg (cache_block hash txs) (gk_height t + 1))) ++
  stmts_of (flat_segs (tr_r_block le sc tw (index_block hash txs) (gk_height t + 1))).
Proof.
  intros HG HW. unfold op_stmts, op_micro, op_segs. unfold Consts.LISTENER_ORDER. cbn [tr_listeners].
  change (set_rpc_log t []) with (fresh t). change (gk_height (fresh t)) with (gk_height t).
  unfold listener_connected, tr_listener_connected. cbn [Z.eqb Pos.eqb]. rewrite HG, HW.
  rewrite !flat_segs_app, !stmts_of_app. cbn [flat_segs flat_map flat_seg]. rewrite !app_nil_r.
  destruct (r_block_connected le sc tw (index_block hash txs) (gk_height t + 1)); cbn [flat_segs flat_map]; rewrite ?app_nil_r; reflexivity.
Qed.

Lemma step_connect_block le t hash txs sc : not_abort (snd (step le t (OConnect hash txs) sc)) -> snd (step le t (OConnect hash txs) sc) = OBlockRes.
Proof. cbn [step]. destruct (run_listeners _ _ _); cbn [wrap snd]; [reflexivity|intros []]. Qed.

Lemma replay_connect_aux le sc1 sc2 t hash txs j tg tw tr d tBr :
  Inv (fresh t) -> at_poll_boundary (fresh t) ->
  gk_block_connected (fresh t) (gk_height t + 1) = Ok tt tg ->
  w_block_connected sc1 tg (cache_block hash txs) (gk_height t + 1) = Ok tt tw ->
  r_block_connected le sc1 tw (index_block hash txs) (gk_height t + 1) = Ok tt tr ->
  d = execs (db_of tg) (firstn j (w_inserts sc1 tg txs)) ->
  replay_ok tg d txs sc1 sc2 -> rej_stable (fresh t) sc1 sc2 ->
  step le (restart t d) (OConnect hash txs) sc2 = (tBr, OBlockRes) ->
  eq_up_to_stamp (db_of tBr) (db_of tr).
Proof.
  intros HIf HB HG HW HR Hd Hok Hst E2.
  destruct (connect_decomp le (restart t d) hash txs sc2 tBr E2) as [tgB [tBw [HGB [HWB HRB]]]].
  assert (HGW : gw_connected sc2 (restart (fresh t) d) hash txs = Ok tt tBw).
  { unfold gw_connected. exact (eq_trans (f_equal (fun r => bind r (fun _ t1 => w_block_connected sc2 t1 (cache_block hash txs) (gk_height t + 1))) HGB) HWB). }
  subst d.
  exact (replay_block le sc1 sc2 (fresh t) hash txs j tg tw tr tBw tBr HIf HB HG HW HR Hok Hst HGW HRB).
Qed.

Lemma connect_crash_db le t hash txs sc1 j tg tw :
  car_memo t = [] ->
  gk_block_connected (fresh t) (gk_height t + 1) = Ok tt tg ->
  w_block_connected sc1 tg (cache_block hash txs) (gk_height t + 1) = Ok tt tw ->
  (j <= length (w_inserts sc1 tg txs))%nat ->
  execs (db_of t) (firstn (length (stmts_of (tr_gk_block (fresh t) (gk_height t + 1))) + j) (op_stmts le t (OConnect hash txs) sc1))
  = execs (db_of tg) (firstn j (w_inserts sc1 tg txs)).
Proof.
  intros Hm HG HW Hj.
  assert (HcA : memo_coherent sc1 tg).
  { apply memo_nil_coherent. destruct (gk_block_frame _ _ _ HG) as [_ [_ [G3 _]]]. rewrite G3. exact Hm. }
  rewrite (connect_stmts le t hash txs sc1 tg tw HG HW), (w_trace_pure sc1 tg hash txs _ tw HcA HW).
  set (SG := stmts_of (tr_gk_block (fresh t) (gk_height t + 1))).
  rewrite firstn_app. rewrite (firstn_all2 SG) by lia.
  replace (length SG + j - length SG)%nat with j by lia.
  rewrite execs_app. pose proof (J_gk_block (fresh t) (gk_height t + 1)) as JG. rewrite HG in JG. destruct JG as [DG _].
  change (db_of (fresh t)) with (db_of t) in DG. fold SG in DG. rewrite <- DG.
  rewrite <- app_assoc, firstn_app. replace (j - length (w_inserts sc1 tg txs))%nat with 0%nat by lia. cbn [firstn]. rewrite app_nil_r. reflexivity.
Qed.

(* REPLAY OF A BLOCK, operation level.  t a reachable poll-boundary state; OConnect with the node answering sc1, killed
   when ng + j statements of its durable trace are done (ng = the gatekeeper's: 0 or 1; j <= the watcher's tracker
   inserts: anywhere from the purge's commit to just before the watcher's DELETE); restart; OConnect of the same block
   with the node answering sc2.  Outside the recorded class and with stable rejections: same tables up to the stamp. *)
Theorem replay_connect le t hash txs sc1 sc2 j tg :
  Inv t -> at_poll_boundary t ->
  not_abort (snd (step le t (OConnect hash txs) sc1)) ->
  gk_block_connected (fresh t) (gk_height t + 1) = Ok tt tg ->
  (j <= length (w_inserts sc1 tg txs))%nat ->
  let ng := length (stmts_of (tr_gk_block (fresh t) (gk_height t + 1))) in
  let d := execs (db_of t) (firstn (ng + j) (op_stmts le t (OConnect hash txs) sc1)) in
  replay_ok tg d txs sc1 sc2 -> rej_stable t sc1 sc2 ->
  not_abort (snd (step le (restart t d) (OConnect hash txs) sc2)) ->
  eq_up_to_stamp (db_of (fst (step le (restart t d) (OConnect hash txs) sc2))) (db_of (fst (step le t (OConnect hash txs) sc1))).
Proof.
  intros HI [Hre Hm] Hn HG Hj ng d.
  assert (HIf : Inv (fresh t)) by (eapply inv_frame; [|exact HI]; repeat split).
  pose proof (step_connect_block le t hash txs sc1 Hn) as Hx.
  destruct (step le t (OConnect hash txs) sc1) as [tr x] eqn:E1. cbn [fst snd] in *. subst x.
  destruct (connect_decomp le t hash txs sc1 tr E1) as [tg' [tw [HG' [HW HR]]]].
  rewrite HG in HG'. inversion HG'; subst tg'. clear HG'.
  assert (Hd : d = execs (db_of tg) (firstn j (w_inserts sc1 tg txs))) by (apply (connect_crash_db le t hash txs sc1 j tg tw Hm HG HW Hj)).
  clearbody d. intros Hok Hst Hn2.
  pose proof (step_connect_block le (restart t d) hash txs sc2 Hn2) as Hy.
  destruct (step le (restart t d) (OConnect hash txs) sc2) as [tBr y] eqn:E2. cbn [fst snd] in *. subst y.
  exact (replay_connect_aux le sc1 sc2 t hash txs j tg tw tr d tBr HIf (conj Hre Hm) HG HW HR Hd Hok Hst E2).
Qed.
(* 12. the purge replayed after a kill BEFORE its commit: the gatekeeper's map reloaded from the (unpurged) table is the
   same map in another order; the same users are outdated *)
Lemma outdated_in delta h : forall us out,
  outdated_users delta h us = Some out ->
  forall u, In u out -> exists ui lim, In (u, ui) us /\ u32_add (u_expiry ui) delta = Some lim /\ N.leb lim h = true.
Proof.
  induction us as [|[u0 ui0] us IH]; intros out; cbn [outdated_users]; [intros H; inversion H; intros u []|].
  destruct (u32_add (u_expiry ui0) delta) as [lim|] eqn:El; [|discriminate].
  destruct (outdated_users delta h us) as [l|] eqn:Eo; [|discriminate].
  intros H u Hu. inversion H; subst out; clear H. destruct (N.leb lim h) eqn:Eh.
  - destruct Hu as [Hu|Hu]; [subst u0; exists ui0, lim; repeat split; [left; reflexivity|exact El|exact Eh]|].
    destruct (IH l eq_refl u Hu) as [ui [lim' [A [B C]]]]. exists ui, lim'. repeat split; [right; exact A|exact B|exact C].
  - destruct (IH l eq_refl u Hu) as [ui [lim' [A [B C]]]]. exists ui, lim'. repeat split; [right; exact A|exact B|exact C].
Qed.

Lemma outdated_total delta h : forall us,
  (forall u ui, In (u, ui) us -> exists lim, u32_add (u_expiry ui) delta = Some lim) ->
  exists out, outdated_users delta h us = Some out.
Proof.
  induction us as [|[u ui] us IH]; intros H; [exists []; reflexivity|]. cbn [outdated_users].
  destruct (H u ui (or_introl eq_refl)) as [lim El]. rewrite El.
  destruct IH as [l Hl]; [intros u' ui' Hin; apply (H u' ui'); right; exact Hin|]. rewrite Hl. eexists. reflexivity.
Qed.

Lemma del_users_ext d o1 o2 : (forall u, memN u o2 = memN u o1) -> exec d (SDelUsers o2) = exec d (SDelUsers o1).
Proof.
  intros H. unfold exec. cbn [exec_fuel]. f_equal; apply filter_ext_in'; intros x _; rewrite H; reflexivity.
Qed.

Lemma gk_block_db t h t' out :
  outdated_users (c_delta (cfg t)) h (gk_users t) = Some out -> gk_block_connected t h = Ok tt t' ->
  db_of t' = exec (db_of t) (SDelUsers out) /\ gk_users t' = filter (fun r => negb (memN (fst r) out)) (gk_users t).
Proof.
  intros Eo. unfold gk_block_connected. rewrite Eo. intros H; inversion H; subst; clear H. destruct out as [|o os].
  - split.
    + unfold exec, db_of. cbn [exec_fuel d_users d_apps d_trks db_users db_apps db_trks set_gk_height].
      rewrite !filter_true by (intros; reflexivity). reflexivity.
    + cbn. symmetry. apply filter_true. intros; reflexivity.
  - split; reflexivity.
Qed.

Theorem gatekeeper_replay_before tA h tg tB :
  Inv tA -> gk_block_connected tA h = Ok tt tg ->
  cfg tB = cfg tA -> gk_users tB = db_users tA -> db_of tB = db_of tA ->
  exists tgB, gk_block_connected tB h = Ok tt tgB /\ db_of tgB = db_of tg /\ gk_users tgB = db_users tg.
Proof.
  intros HI HG Hc Hg Hd.
  assert (Ho1 : exists out1, outdated_users (c_delta (cfg tA)) h (gk_users tA) = Some out1).
  { unfold gk_block_connected in HG. destruct (outdated_users _ _ _) as [o|]; [eexists; reflexivity|discriminate]. }
  destruct Ho1 as [out1 Eo1].
  assert (Hrows : forall u ui, In (u, ui) (db_users tA) <-> In (u, ui) (gk_users tA)).
  { intros u ui. split; intros Hin.
    - apply aget_In. rewrite (inv_sync tA HI u). apply aget_In_nodup; [exact (inv_users_nodup tA HI)|exact Hin].
    - apply aget_In. rewrite <- (inv_sync tA HI u). apply aget_In_nodup; [exact (inv_mem_nodup tA HI)|exact Hin]. }
  destruct (outdated_total (c_delta (cfg tA)) h (db_users tA)) as [out2 Eo2].
  { intros u ui Hin. apply Hrows in Hin. destruct (outdated_spec _ _ _ _ Eo1 u ui Hin) as [lim [El _]]. exists lim. exact El. }
  assert (Hmem : forall u, memN u out2 = memN u out1).
  { intros u. destruct (memN u out2) eqn:E2; destruct (memN u out1) eqn:E1; try reflexivity; exfalso.
    - apply memN_In in E2. destruct (outdated_in _ _ _ _ Eo2 u E2) as [ui [lim [A [B C]]]]. apply Hrows in A.
      destruct (outdated_spec _ _ _ _ Eo1 u ui A) as [lim' [B' C']]. rewrite B in B'. inversion B'; subst lim'.
      specialize (C' C). apply memN_In in C'. congruence.
    - apply memN_In in E1. destruct (outdated_in _ _ _ _ Eo1 u E1) as [ui [lim [A [B C]]]]. apply Hrows in A.
      destruct (outdated_spec _ _ _ _ Eo2 u ui A) as [lim' [B' C']]. rewrite B in B'. inversion B'; subst lim'.
      specialize (C' C). apply memN_In in C'. congruence. }
  assert (Eo2' : outdated_users (c_delta (cfg tB)) h (gk_users tB) = Some out2) by (rewrite Hc, Hg; exact Eo2).
  assert (HGB : exists tgB, gk_block_connected tB h = Ok tt tgB).
  { unfold gk_block_connected. rewrite Eo2'. eexists. reflexivity. }
  destruct HGB as [tgB HGB]. exists tgB. split; [exact HGB|].
  destruct (gk_block_db tA h tg out1 Eo1 HG) as [DA _]. destruct (gk_block_db tB h tgB out2 Eo2' HGB) as [DB GB].
  split.
  - rewrite DB, DA, Hd. apply del_users_ext. exact Hmem.
  - rewrite GB, Hg. change (db_users tg) with (d_users (db_of tg)). rewrite DA. unfold exec. cbn [exec_fuel d_users db_of].
    apply filter_ext_in'. intros x _. rewrite Hmem. reflexivity.
Qed.

(* watcher + responder of the replay from ANY post-gatekeeper state tgB that holds the crash database *)
Lemma replay_block_from_gk le sc1 sc2 tg tgB hash txs h j tw tr tBw tBr :
  Inv tg -> Inv tgB ->
  reorged tg = [] -> car_memo tg = [] -> reorged tgB = [] -> car_memo tgB = [] ->
  r_index tgB = r_index tg -> car_height tgB = car_height tg -> gk_users tgB = db_users tg ->
  db_of tgB = execs (db_of tg) (firstn j (w_inserts sc1 tg txs)) ->
  replay_ok tg (db_of tgB) txs sc1 sc2 -> rej_stable tg sc1 sc2 ->
  w_block_connected sc1 tg (cache_block hash txs) h = Ok tt tw ->
  r_block_connected le sc1 tw (index_block hash txs) h = Ok tt tr ->
  w_block_connected sc2 tgB (cache_block hash txs) h = Ok tt tBw ->
  r_block_connected le sc2 tBw (index_block hash txs) h = Ok tt tBr ->
  eq_up_to_stamp (db_of tBr) (db_of tr).
Proof.
  intros HIg HIB Hre Hm HreB HmB Hi Hh Hgu Hdb Hok Hst HW HR HWB HRB.
  pose proof (watcher_replay sc1 sc2 tg tgB hash txs h j tw tBw (memo_nil_coherent sc1 tg Hm) (memo_nil_coherent sc2 tgB HmB) Hi Hh Hdb Hok HW HWB) as Ed.
  destruct (w_block_connected_frame sc1 tg hash txs h tw HIg HW) as [_ [_ [Wg [_ [_ [Wi [Wh [Wr _]]]]]]]].
  destruct (w_block_connected_frame sc2 tgB hash txs h tBw HIB HWB) as [_ [_ [Vg [_ [_ [Vi [Vh [Vr _]]]]]]]].
  apply (responder_replay le sc1 sc2 tw tBw (index_block hash txs) h tr tBr).
  - repeat split; [exact Ed| |rewrite Vr, Wr, HreB, Hre; reflexivity].
    intros u. rewrite Vg, Wg, Hgu. symmetry. apply (inv_sync tg HIg).
  - rewrite Wr. exact Hre.
  - rewrite Vi, Wi. exact Hi.
  - apply coherent_sound. apply (w_coherent sc1 tg hash txs h tw (memo_nil_coherent sc1 tg Hm) HW).
  - apply coherent_sound. apply (w_coherent sc2 tgB hash txs h tBw (memo_nil_coherent sc2 tgB HmB) HWB).
  - intros tx. rewrite (rejected_height_indep tw tg), (rejected_height_indep tw tg (snd (script_get sc1 tx))). apply Hst.
  - exact HR.
  - exact HRB.
Qed.

(* REPLAY OF A BLOCK, kill BEFORE anything of it is durable (in particular before the purge's commit): the restarted
   tower holds the tables of before the block and runs it with the node answering sc2: same tables up to the stamp as
   the uninterrupted run with sc1, when the verdict on every breached row's penalty is unchanged (replay_ok on the
   untouched tables) and rejections are stable *)
Theorem replay_connect_before le t hash txs sc1 sc2 tg :
  Inv t -> at_poll_boundary t ->
  not_abort (snd (step le t (OConnect hash txs) sc1)) ->
  gk_block_connected (fresh t) (gk_height t + 1) = Ok tt tg ->
  replay_ok tg (db_of tg) txs sc1 sc2 -> rej_stable t sc1 sc2 ->
  not_abort (snd (step le (restart t (db_of t)) (OConnect hash txs) sc2)) ->
  eq_up_to_stamp (db_of (fst (step le (restart t (db_of t)) (OConnect hash txs) sc2))) (db_of (fst (step le t (OConnect hash txs) sc1))).
Proof.
  intros HI [Hre Hm] Hn HG Hok Hst Hn2.
  assert (HIf : Inv (fresh t)) by (eapply inv_frame; [|exact HI]; repeat split).
  pose proof (step_connect_block le t hash txs sc1 Hn) as Hx.
  destruct (step le t (OConnect hash txs) sc1) as [tr x] eqn:E1. cbn [fst snd] in *. subst x.
  destruct (connect_decomp le t hash txs sc1 tr E1) as [tg' [tw [HG' [HW HR]]]].
  rewrite HG in HG'. inversion HG'; subst tg'. clear HG'.
  pose proof (step_connect_block le (restart t (db_of t)) hash txs sc2 Hn2) as Hy.
  destruct (step le (restart t (db_of t)) (OConnect hash txs) sc2) as [tBr y] eqn:E2. cbn [fst snd] in *. subst y.
  destruct (connect_decomp le (restart t (db_of t)) hash txs sc2 tBr E2) as [tgB [tBw [HGB [HWB HRB]]]].
  change (gk_height (restart t (db_of t))) with (gk_height t) in *.
  destruct (gatekeeper_replay_before (fresh t) (gk_height t + 1) tg (fresh (restart t (db_of t))) HIf HG eq_refl) as [tgB' [HGB' [Dg Ug]]].
  { reflexivity. }
  { change (db_of (fresh (restart t (db_of t)))) with (db_of (restart t (db_of t))). rewrite db_of_restart. reflexivity. }
  rewrite HGB in HGB'. inversion HGB'; subst tgB'. clear HGB'.
  assert (HIg : Inv tg).
  { pose proof (gk_block_connected_pres Inv (sa_block Inv inv_stable) (fresh t) (gk_height t + 1) HIf) as H. rewrite HG in H. exact H. }
  assert (HIr : Inv (fresh (restart t (db_of t)))).
  { eapply inv_frame; [|apply (recover_inv (volatile_reset t) (db_of t)); apply dbinv_of_inv; exact HI]. repeat split. }
  assert (HIB : Inv tgB).
  { pose proof (gk_block_connected_pres Inv (sa_block Inv inv_stable) _ (gk_height t + 1) HIr) as H. rewrite HGB in H. exact H. }
  destruct (gk_block_frame _ _ _ HG) as [G1 [G2 [G3 [G4 _]]]]. destruct (gk_block_frame _ _ _ HGB) as [B1 [B2 [B3 [B4 _]]]].
  apply (replay_block_from_gk le sc1 sc2 tg tgB hash txs (gk_height t + 1) 0 tw tr tBw tBr HIg HIB).
  - rewrite G4. exact Hre.
  - rewrite G3. exact Hm.
  - rewrite B4. reflexivity.
  - rewrite B3. reflexivity.
  - rewrite B1, G1. reflexivity.
  - rewrite B2, G2. reflexivity.
  - exact Ug.
  - cbn [firstn execs fold_left]. exact Dg.
  - rewrite Dg. exact Hok.
  - intros tx. rewrite (rejected_height_indep tg t), (rejected_height_indep tg t (snd (script_get sc1 tx))). apply Hst.
  - exact HW.
  - exact HR.
  - exact HWB.
  - exact HRB.
Qed.
