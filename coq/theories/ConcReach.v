(* ConcReach.v — the reachability protocol (C12) at THREAD level, on top of ConcTower.v.
   Definitions only; proofs are in ConcReachProofs.v.

   carrier.rs        hang_until_bitcoind_reachable (Condvar wait on the flag's mutex), flag_bitcoind_unreachable,
                     send_transaction / in_mempool: on a TRANSPORT error flag := false, then the same method is
                     called again with the same argument (recursion: wait, memo look-up, the request again); the
                     memo `issued_receipts` is written only after the node has given a verdict;
   chain_monitor.rs  poll_best_tip: Ok -> (store the last known block when the tip is better) flag := true,
                     notify_all; transient error -> flag := false; persistent error -> nothing;
   api/internal.rs   check_service_unavailable: the flag read under its mutex before every public method.

   The thread programs of ConcTower.v (guard lifetimes of the source, action bodies = Tower.v's functions) are
   REUSED: `embedk` maps a ConcTower program into the larger language below.  The only places where
   ConcTower's programs take the flag's mutex are the two Carrier methods (`reach_p ;;; act (send_act tx)`,
   `reach_p ;;; act (ask_mempool p)`): there, and only there, embedk puts the carrier call with its wait and
   its retry recursion.  ConcTower's state (`tower`) is the shared state; the flag, the condition variable,
   the node (blocks not delivered yet, answers) and the event log are added around it.

   What is not modelled: mutex poisoning (C10/C11), spurious wake-ups (the `while` loop makes them
   unobservable), the second `insert` of the same receipt by the outer frame of the recursion (idempotent
   on a HashMap). *)
From TeosModel Require Import Base TxIndex Tower ConcTower.
From TeosModel.Gen Require Consts Bootstrap.

(* ------------------------------------------------------------------------------------------ *)
(* the language *)

(* answer of the node to one request of the Carrier *)
Inductive ans (B : Type) := Verdict (b : B) | TransportErr.
Arguments Verdict {B}. Arguments TransportErr {B}.

(* answer of the block source to one step of SpvClient::poll_best_tip *)
Inductive fetch_ans :=
| F_ok
| F_transient | F_persistent      (* the look-up of the best tip fails (mid-poll: the download fails) *)
| F_block_fails                   (* a header / block download of the synchronisation fails *)
| F_stall.                        (* a download takes longer than the polling interval *)
Inductive fetch_res :=
| FetchDone                                      (* nothing (more) to download: the poll is Ok *)
| FetchBlock (hash : N) (txs : list N) (h : N)   (* the next block, handed to the listeners *)
| FetchTransient | FetchPersistent               (* the best tip could not be looked up: the poll is Err *)
| FetchFailed                                    (* a download failed: SpvClient keeps the tip it has reached and
                                                    poll_best_tip still returns Ok(ChainTip::Better(announced tip)) *)
| FetchCancelled.                                (* the poll's future was dropped at this await point *)

Inductive rprog (A : Type) : Type :=
| RRet (a : A)
| RAcq (l : lock) (k : rprog A)
| RRel (l : lock) (k : rprog A)
| RAct (B : Type) (f : tower -> res B) (k : B -> rprog A)         (* an action that is no node round trip *)
| RRpc (B : Type) (f : tower -> res B) (k : ans B -> rprog A)     (* a Carrier action: may reach the node *)
| RReadFlag (k : bool -> rprog A)                                 (* *guard, with the flag's mutex held *)
| RSetFlag (b : bool) (k : rprog A)                               (* *guard = b *)
| RWait (k : rprog A)                                             (* while !*guard { guard = cv.wait(guard) } *)
| RNotify (k : rprog A)                                           (* cv.notify_all() *)
| RFetch (first : bool) (k : fetch_res -> rprog A)                (* SpvClient: next header/block of this poll *)
| RPersist (k : rprog A)                                          (* dbm.store_last_known_block(announced best tip) *)
| RExhausted.                                                     (* the model's retry fuel ran out *)
Arguments RRet {A}. Arguments RAcq {A}. Arguments RRel {A}. Arguments RAct {A}. Arguments RRpc {A}.
Arguments RReadFlag {A}. Arguments RSetFlag {A}. Arguments RWait {A}. Arguments RNotify {A}.
Arguments RFetch {A}. Arguments RPersist {A}. Arguments RExhausted {A}.

(* ------------------------------------------------------------------------------------------ *)
(* the Carrier's two methods *)

(* Carrier::flag_bitcoind_unreachable *)
Definition flag_unreachable_p {A} (k : rprog A) : rprog A := RAcq L_reach (RSetFlag false (RRel L_reach k)).
(* Carrier::hang_until_bitcoind_reachable *)
Definition hang_p {A} (k : rprog A) : rprog A := RAcq L_reach (RWait (RRel L_reach k)).

(* the recursive call after a transport error: `self.flag_bitcoind_unreachable(); self.send_transaction(tx)`
   (resp. in_mempool(txid)) — the SAME action f again after the wait; fuel bounds the number of
   consecutive transport errors, its exhaustion is an outcome of its own (RExhausted) *)
Fixpoint carrier_retry {A B} (fuel : nat) (f : tower -> res B) (K : B -> rprog A) : rprog A :=
  match fuel with
  | O => RExhausted
  | S n =>
      flag_unreachable_p
        (hang_p (RRpc B f (fun a => match a with Verdict b => K b | TransportErr => carrier_retry n f K end)))
  end.

(* send_transaction / in_mempool: wait for reachability, then the action (memo look-up, request, memo
   write — one action, the carrier is locked); the action's effect exists only if the node answered *)
Definition carrier_call {A B} (fuel : nat) (f : tower -> res B) (K : B -> rprog A) : rprog A :=
  hang_p (RRpc B f (fun a => match a with Verdict b => K b | TransportErr => carrier_retry fuel f K end)).

(* ConcTower's programs inside the larger language (continuation-passing: K receives the result) *)
Fixpoint embedk {A C} (fuel : nat) (p : prog A) (K : A -> rprog C) : rprog C :=
  match p with
  | Ret a => K a
  | Acq l k =>
      if N.eqb l L_reach then
        match k with
        | Rel _ (Act B f k') => carrier_call fuel f (fun b => embedk fuel (k' b) K)
        | _ => RAcq l (RWait (embedk fuel k K))
        end
      else RAcq l (embedk fuel k K)
  | Rel l k => RRel l (embedk fuel k K)
  | Act B f k => RAct B f (fun b => embedk fuel (k b) K)
  end.

(* ------------------------------------------------------------------------------------------ *)
(* thread programs *)

Inductive rout := RO (o : out) | RUnavailable.

Section Programs.
  Context (le : bool) (sc : script) (fuel : nat).

  (* the body of a public method after the availability check (ConcTower's programs) *)
  Definition op_body (o : op) : prog out :=
    match o with
    | ORegister u => r <- add_update_user_p u ;; Ret (ORegisterRes r)
    | OAdd signer loc b delay sig => r <- add_appointment_p sc signer loc b delay sig ;; Ret (OAddRes r)
    | OGet signer loc => r <- get_appointment_p signer loc ;; Ret (OGetRes r)
    | OGetSub signer => r <- get_subscription_info_p signer ;; Ret (OSubRes r)
    | OConnect _ _ | ODisconnect => Ret OBlockRes
    end.

  (* InternalAPI: check_service_unavailable()? then the method. The guard is a temporary of the `if` condition. *)
  Definition api_checked (body : rprog rout) : bool -> rprog rout :=
    fun b => RRel L_reach (if b then body else RRet RUnavailable).
  Definition api_p (o : op) : rprog rout :=
    RAcq L_reach (RReadFlag (api_checked (embedk fuel (op_body o) (fun x => RRet (RO x))))).

  (* ChainMonitor::poll_best_tip.  Ok arm: the tip is stored when it is better (got = there was something to
     download), then `*reachable.lock().unwrap() = true; notifier.notify_all()` *)
  Definition poll_ok_p (got : bool) (k : rprog rout) : rprog rout :=
    (if got && Bootstrap.POLL_PERSISTS_BETTER_TIP then RAcq L_db (RPersist (RRel L_db
       (RAcq L_reach (RSetFlag true (RRel L_reach (RNotify k))))))
     else RAcq L_reach (RSetFlag true (RRel L_reach (RNotify k)))).
  Definition poll_transient_p (k : rprog rout) : rprog rout := RAcq L_reach (RSetFlag false (RRel L_reach k)).

  (* one poll: blocks are downloaded and handed to the three listeners one at a time (the SPV client's tip
     advances with every delivered block); pfuel bounds the number of blocks of one poll *)
  Fixpoint poll_loop (pfuel : nat) (first got : bool) (k : rprog rout) : rprog rout :=
    match pfuel with
    | O => RExhausted
    | S n =>
        RFetch first (fun r =>
          match r with
          | FetchDone => poll_ok_p got k
          | FetchBlock hash txs h => embedk fuel (connect_p le sc hash txs h) (fun _ => poll_loop n false true k)
          | FetchFailed => poll_ok_p true k
          | FetchTransient => poll_transient_p k
          | FetchPersistent => k
          | FetchCancelled => k
          end)
    end.
  Definition poll_p (pfuel : nat) (k : rprog rout) : rprog rout := poll_loop pfuel true false k.

  (* ChainMonitor::monitor_chain: poll after poll *)
  Fixpoint monitor_p (pfuel : nat) (polls : nat) : rprog rout :=
    match polls with
    | O => RRet (RO OBlockRes)
    | S n => poll_p pfuel (monitor_p pfuel n)
    end.

  (* the threads of the tower: an API worker serving one request, or the chain monitor *)
  Inductive tspec := TApi (o : op) | TMonitor (polls : nat).
  Definition thread_p (pfuel : nat) (s : tspec) : rprog rout :=
    match s with TApi o => api_p o | TMonitor n => monitor_p pfuel n end.
End Programs.

(* ------------------------------------------------------------------------------------------ *)
(* configurations *)

Inductive rres := RDone (o : rout) | RAbort (s : site) | RExhaust.

Inductive rtstate :=
| RRun (p : rprog rout)
| RParked (notified : bool) (p : rprog rout)      (* inside Condvar::wait: the flag's mutex is released *)
| REnd (r : rres).

Record rthread := mk_rthread { rt_st : rtstate; rt_held : list lock }.

(* what hook H3 and the simulated node observe *)
Inductive rcall := CallErr | CallVerdict (r : cstatus).
Inductive ev :=
| EvAcq (l : lock)
| EvWait (held : list lock)              (* the thread starts waiting; the locks it keeps *)
| EvWake
| EvNotify
| EvFlag (b : bool)
| EvRpc (k : rpc_kind) (tx : N) (a : rcall)     (* a request that reached the transport *)
| EvMemo                                        (* a Carrier call answered without a request (memo) *)
| EvDeliver (hash : N) (h : N)                  (* a block handed to the listeners *)
| EvPersist (h : N).

Record rconf := mk_rconf {
  rc_tower : tower;
  rc_flag : bool;                          (* bitcoind_reachable *)
  rc_threads : list rthread;
  rc_pending : list (N * list N);          (* the node's blocks above the SPV client's tip, oldest first *)
  rc_popped : list (N * list N);           (* blocks delivered by the poll in progress, oldest first *)
  rc_height : N;                           (* height of the SPV client's tip *)
  rc_lkb : N;                              (* last known block as persisted (its height) *)
  rc_rpc_or : list bool;                   (* oracle: does the next request hit a transport error? ([] = never) *)
  rc_fetch_or : list fetch_ans;            (* oracle: answers of the block source ([] = F_ok) *)
  rc_log : list (nat * ev)                 (* newest first *)
}.

Definition set_tower c v := mk_rconf v (rc_flag c) (rc_threads c) (rc_pending c) (rc_popped c) (rc_height c) (rc_lkb c) (rc_rpc_or c) (rc_fetch_or c) (rc_log c).
Definition set_flag c v := mk_rconf (rc_tower c) v (rc_threads c) (rc_pending c) (rc_popped c) (rc_height c) (rc_lkb c) (rc_rpc_or c) (rc_fetch_or c) (rc_log c).
Definition set_threads c v := mk_rconf (rc_tower c) (rc_flag c) v (rc_pending c) (rc_popped c) (rc_height c) (rc_lkb c) (rc_rpc_or c) (rc_fetch_or c) (rc_log c).
Definition set_node c pend popped h := mk_rconf (rc_tower c) (rc_flag c) (rc_threads c) pend popped h (rc_lkb c) (rc_rpc_or c) (rc_fetch_or c) (rc_log c).
Definition set_lkb c v := mk_rconf (rc_tower c) (rc_flag c) (rc_threads c) (rc_pending c) (rc_popped c) (rc_height c) v (rc_rpc_or c) (rc_fetch_or c) (rc_log c).
Definition set_rpc_or c v := mk_rconf (rc_tower c) (rc_flag c) (rc_threads c) (rc_pending c) (rc_popped c) (rc_height c) (rc_lkb c) v (rc_fetch_or c) (rc_log c).
Definition set_fetch_or c v := mk_rconf (rc_tower c) (rc_flag c) (rc_threads c) (rc_pending c) (rc_popped c) (rc_height c) (rc_lkb c) (rc_rpc_or c) v (rc_log c).
Definition add_log c i e := mk_rconf (rc_tower c) (rc_flag c) (rc_threads c) (rc_pending c) (rc_popped c) (rc_height c) (rc_lkb c) (rc_rpc_or c) (rc_fetch_or c) ((i, e) :: rc_log c).

Definition rholds (th : rthread) (l : lock) : bool := memN l (rt_held th).
Definition r_is_held (c : rconf) (l : lock) : bool := existsb (fun th => rholds th l) (rc_threads c).

Definition put_thread (c : rconf) (i : nat) (st : rtstate) (held : list lock) : rconf :=
  set_threads c (set_nth (rc_threads c) i (mk_rthread st held)).

(* a panic ends the thread and drops its guards *)
Definition rdie (c : rconf) (i : nat) (r : rres) : rconf := put_thread c i (REnd r) [].

(* the request an action has put on the wire, if any: the entry it added to the RPC log *)
Definition issued (t t' : tower) : option rpc_event :=
  if Nat.ltb (length (rpc_log t)) (length (rpc_log t')) then hd_error (rpc_log t') else None.

Definition notify_thread (th : rthread) : rthread :=
  match rt_st th with
  | RParked _ p => mk_rthread (RParked true p) (rt_held th)
  | _ => th
  end.

(* dropping the poll's future at an await point is possible only if monitor_chain does not await
   poll_best_tip() itself (generated from chain_monitor.rs) *)
Definition stall_cancels : bool := negb Bootstrap.MONITOR_LOOP_POLLS_TO_COMPLETION.

Definition next_fetch (c : rconf) : fetch_ans * list fetch_ans :=
  match rc_fetch_or c with [] => (F_ok, []) | a :: r => (a, r) end.

(* the block source answers; a delivered block advances the SPV client's tip at once; a cancelled poll
   loses the tip it had reached (`self.chain_tip = new_tip` is never executed) *)
Definition fetch_step (c : rconf) (i : nat) (first : bool) : fetch_res * rconf :=
  let popped := if first then [] else rc_popped c in
  let '(a, rest) := next_fetch c in
  let c := set_fetch_or c rest in
  let deliver c :=
    match rc_pending c with
    | [] => (FetchDone, set_node c [] popped (rc_height c))
    | (hash, txs) :: pend =>
        let h := (rc_height c + 1)%N in
        (FetchBlock hash txs h, add_log (set_node c pend (popped ++ [(hash, txs)]) h) i (EvDeliver hash h))
    end in
  let failed c :=
    match rc_pending c with
    | [] => (FetchDone, set_node c [] popped (rc_height c))
    | _ => (FetchFailed, set_node c (rc_pending c) popped (rc_height c))
    end in
  match a with
  | F_ok => deliver c
  | F_stall =>
      if stall_cancels
      then (FetchCancelled, set_node c (popped ++ rc_pending c) [] (rc_height c - N.of_nat (length popped))%N)
      else deliver c
  | F_transient => if first then (FetchTransient, set_node c (rc_pending c) popped (rc_height c)) else failed c
  | F_persistent => if first then (FetchPersistent, set_node c (rc_pending c) popped (rc_height c)) else failed c
  | F_block_fails => failed c
  end.

(* one event of thread i; None = the thread has ended / returned, does not exist, or is blocked *)
Definition rstep (c : rconf) (i : nat) : option rconf :=
  match nth_error (rc_threads c) i with
  | None => None
  | Some th =>
      let held := rt_held th in
      match rt_st th with
      | REnd _ => None
      | RParked n p =>
          (* woken by notify_all: the mutex is re-acquired, the loop condition is evaluated again *)
          if n && negb (r_is_held c L_reach)
          then Some (add_log (put_thread c i (RRun p) (L_reach :: held)) i EvWake)
          else None
      | RRun p =>
          match p with
          | RRet _ => None
          | RAcq l k =>
              if r_is_held c l then None
              else Some (add_log (put_thread c i (RRun k) (l :: held)) i (EvAcq l))
          | RRel l k => Some (put_thread c i (RRun k) (remove_lock l held))
          | RAct B f k =>
              match f (rc_tower c) with
              | Ok b t' => Some (put_thread (set_tower c t') i (RRun (k b)) held)
              | Abort s t' => Some (rdie (set_tower c t') i (RAbort s))
              end
          | RRpc B f k =>
              match f (rc_tower c) with
              | Ok b t' =>
                  match issued (rc_tower c) t' with
                  | Some e =>
                      match rc_rpc_or c with
                      | true :: rest =>
                          (* transport error: nothing of the action's effect exists *)
                          Some (add_log (put_thread (set_rpc_or c rest) i (RRun (k TransportErr)) held) i
                                        (EvRpc (r_kind e) (r_tx e) CallErr))
                      | rest =>
                          Some (add_log (put_thread (set_rpc_or (set_tower c t') (tl rest)) i (RRun (k (Verdict b))) held) i
                                        (EvRpc (r_kind e) (r_tx e) (CallVerdict (r_res e))))
                      end
                  | None => Some (add_log (put_thread (set_tower c t') i (RRun (k (Verdict b))) held) i EvMemo)
                  end
              | Abort s t' => Some (rdie (set_tower c t') i (RAbort s))
              end
          | RReadFlag k => Some (put_thread c i (RRun (k (rc_flag c))) held)
          | RSetFlag b k => Some (add_log (put_thread (set_flag c b) i (RRun k) held) i (EvFlag b))
          | RWait k =>
              if rc_flag c then Some (put_thread c i (RRun k) held)
              else let held' := remove_lock L_reach held in
                   Some (add_log (put_thread c i (RParked false (RWait k)) held') i (EvWait held'))
          | RNotify k =>
              Some (add_log (put_thread (set_threads c (map notify_thread (rc_threads c))) i (RRun k) held) i EvNotify)
          | RFetch first k =>
              let '(r, c1) := fetch_step c i first in Some (put_thread c1 i (RRun (k r)) held)
          | RPersist k =>
              (* ChainTip::Better(new_best): the tip the node ANNOUNCED, whether or not every block below it was connected *)
              let best := (rc_height c + N.of_nat (length (rc_pending c)))%N in
              Some (add_log (put_thread (set_lkb c best) i (RRun k) held) i (EvPersist best))
          | RExhausted => Some (rdie c i RExhaust)
          end
      end
  end.

Definition rsched_step (c : rconf) (i : nat) : rconf := match rstep c i with Some c' => c' | None => c end.
(* THE interleaving semantics: a schedule is a word over thread indices, one letter per event; a letter
   naming a thread that cannot move is skipped *)
Definition rrun_config (c : rconf) (sched : list nat) : rconf := fold_left rsched_step sched c.

Definition rspawn (p : rprog rout) : rthread := mk_rthread (RRun p) [].
Definition rinit (t : tower) (flag : bool) (ps : list (rprog rout)) (pending : list (N * list N)) (h : N)
                 (rpc_or : list bool) (fetch_or : list fetch_ans) : rconf :=
  mk_rconf t flag (map rspawn ps) pending [] h h rpc_or fetch_or [].

Definition rresult (th : rthread) : option rres :=
  match rt_st th with
  | RRun (RRet o) => Some (RDone o)
  | REnd r => Some r
  | _ => None
  end.
Definition rfinished (th : rthread) : bool := match rresult th with Some _ => true | None => false end.
Definition enabled_r (c : rconf) (i : nat) : bool := match rstep c i with Some _ => true | None => false end.

(* thread i runs until it returns, ends or blocks (what a scenario's "start the request and wait until
   it has answered or is blocked" does) *)
Fixpoint run_thread (n : nat) (c : rconf) (i : nat) : rconf :=
  match n with
  | O => c
  | S m => match rstep c i with Some c' => run_thread m c' i | None => c end
  end.

(* a schedule CLASS: a word over thread indices, each letter = "run that thread until it blocks" *)
Definition run_coarse_r (n : nat) (c : rconf) (w : list nat) : rconf := fold_left (run_thread n) w c.

(* ------------------------------------------------------------------------------------------ *)
(* observations and the property monitor *)

Definition waiting_unnotified (th : rthread) : bool := match rt_st th with RParked false _ => true | _ => false end.
Definition parked (th : rthread) : bool := match rt_st th with RParked _ _ => true | _ => false end.
Definition wants (th : rthread) : option lock := match rt_st th with RRun (RAcq l _) => Some l | _ => None end.

(* the Carrier calls of thread i, NEWEST first: Some (kind, tx, answer) for a request, None for a memo answer *)
Definition call_obs := option (rpc_kind * N * rcall).
Fixpoint calls_rev (i : nat) (log : list (nat * ev)) : list call_obs :=
  match log with
  | [] => []
  | (j, e) :: r =>
      if Nat.eqb i j
      then match e with
           | EvRpc k tx a => Some (k, tx, a) :: calls_rev i r
           | EvMemo => None :: calls_rev i r
           | _ => calls_rev i r
           end
      else calls_rev i r
  end.
(* ... oldest first *)
Definition calls_of (i : nat) (log : list (nat * ev)) : list call_obs := rev (calls_rev i log).

Definition kind_eqb (a b : rpc_kind) : bool :=
  match a, b with K_getraw, K_getraw | K_send, K_send => true | _, _ => false end.

(* the request a thread still owes: its latest Carrier call hit a transport error *)
Definition owed (l : list call_obs) : option (rpc_kind * N) :=
  match l with Some (k, tx, CallErr) :: _ => Some (k, tx) | _ => None end.

Definition same_call (o : option (rpc_kind * N)) (x : call_obs) : bool :=
  match o, x with
  | Some (k, tx), Some (k2, tx2, _) => kind_eqb k k2 && N.eqb tx tx2
  | _, _ => true
  end.

(* THE MONITOR of "the same call is retried" (on a newest-first list): after a request that hit a transport
   error, the next Carrier call of the thread is a request of the same kind for the same transaction (or is
   answered from the memo, which cannot be seen on the node's side: the node's log then simply has no
   further entry for it) *)
Fixpoint retry_ok_rev (l : list call_obs) : bool :=
  match l with
  | [] => true
  | x :: r => same_call (owed r) x && retry_ok_rev r
  end.
(* ... on an oldest-first list (what the node's log is) *)
Definition retry_ok (l : list call_obs) : bool := retry_ok_rev (rev l).

(* the locks a thread kept at each of its waits, newest first / oldest first *)
Fixpoint waits_rev (i : nat) (log : list (nat * ev)) : list (list lock) :=
  match log with
  | [] => []
  | (j, e) :: r => if Nat.eqb i j then match e with EvWait h => h :: waits_rev i r | _ => waits_rev i r end else waits_rev i r
  end.
Definition waits_of (i : nat) (log : list (nat * ev)) : list (list lock) := rev (waits_rev i log).

(* blocks handed to the listeners, newest first / oldest first *)
Fixpoint delivered_rev (log : list (nat * ev)) : list N :=
  match log with
  | [] => []
  | (_, EvDeliver hash _) :: r => hash :: delivered_rev r
  | _ :: r => delivered_rev r
  end.
Definition delivered (log : list (nat * ev)) : list N := rev (delivered_rev log).

(* ... their heights; THE MONITOR of "every block is handed to the listeners exactly once, in order" *)
Fixpoint heights_rev (log : list (nat * ev)) : list N :=
  match log with
  | [] => []
  | (_, EvDeliver _ h) :: r => h :: heights_rev r
  | _ :: r => heights_rev r
  end.
Definition delivered_heights (log : list (nat * ev)) : list N := rev (heights_rev log).
Fixpoint consecutive (h : N) (l : list N) : bool :=
  match l with
  | [] => true
  | x :: r => N.eqb x (h + 1) && consecutive (h + 1) r
  end.

(* the run of a program alone, with a reachable node that answers every request (the fault-free run):
   final state and how the thread ended *)
Fixpoint rsolo (p : rprog rout) (t : tower) : tower * rres :=
  match p with
  | RRet a => (t, RDone a)
  | RExhausted => (t, RExhaust)
  | RAcq _ k | RRel _ k | RSetFlag _ k | RWait k | RNotify k | RPersist k => rsolo k t
  | RAct B f k => match f t with Ok b t' => rsolo (k b) t' | Abort s t' => (t', RAbort s) end
  | RRpc B f k => match f t with Ok b t' => rsolo (k (Verdict b)) t' | Abort s t' => (t', RAbort s) end
  | RReadFlag k => rsolo (k true) t
  | RFetch _ k => rsolo (k FetchDone) t
  end.

(* the wait-for cycles of the two recorded findings *)
(* F5a: thread m waits for a notification, un-notified, the flag is false *)
Definition stuck_waiting (c : rconf) (m : nat) : bool :=
  negb (rc_flag c) && match nth_error (rc_threads c) m with Some th => waiting_unnotified th | None => false end.
(* F5b: thread m asks for lock l, which thread a keeps while it waits, un-notified, for the flag *)
Definition stuck_on_lock (c : rconf) (m a : nat) (l : lock) : bool :=
  negb (rc_flag c) &&
  match nth_error (rc_threads c) m, nth_error (rc_threads c) a with
  | Some tm, Some ta =>
      match wants tm with Some l' => N.eqb l l' | None => false end && waiting_unnotified ta && rholds ta l
  | _, _ => false
  end.

(* ------------------------------------------------------------------------------------------ *)
(* what the scenario driver uses: the chain monitor polls on demand *)
Definition at_poll_start (th : rthread) : bool := match rt_st th with RRun (RFetch true _) => true | _ => false end.

Fixpoint run_until_poll (n : nat) (c : rconf) (i : nat) : rconf :=
  match n with
  | O => c
  | S m =>
      match nth_error (rc_threads c) i with
      | Some th =>
          if at_poll_start th then c
          else match rstep c i with Some c' => run_until_poll m c' i | None => c end
      | None => c
      end
  end.
(* thread i, about to poll, does ONE poll: until the next poll would start, it returns, ends or blocks *)
Definition run_poll (n : nat) (c : rconf) (i : nat) : rconf :=
  match rstep c i with Some c' => run_until_poll n c' i | None => c end.
