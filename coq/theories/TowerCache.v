(* TowerCache.v — the locator cache of the tower refines a window of blocks (TxIndexProofs.RepW, the C19 refinement) in
   every state reachable under the chain discipline: established by `init`, preserved by every step.  This is the
   hypothesis on the cache of C10_no_missed_breach_refined. *)
From TeosModel Require Import Base ListAux TxIndex TxIndexProofs Tower TowerStable TowerInv TowerProofs TowerSubs TowerReorg TowerLive.
From TeosModel.Gen Require Consts.
From Coq Require Import Lia.
Local Open Scope N_scope.

(* how one step moves the watcher's locator cache *)
Lemma step_w_cache le t o sc :
  BigInv t -> envb t o = true ->
  match o with
  | OConnect hash txs => ti_update (w_cache t) (cache_block hash txs) = Some (w_cache (fst (step le t o sc)))
  | ODisconnect => match last_hash t with
                   | Some hash => w_cache (fst (step le t o sc)) = ti_disconnect (w_cache t) hash
                   | None => w_cache (fst (step le t o sc)) = w_cache t
                   end
  | _ => w_cache (fst (step le t o sc)) = w_cache t
  end.
Proof.
  intros HB Henv. pose proof HB as [HI HC HX HE HS].
  destruct o as [u|signer loc b delay sig|signer loc|signer|hash txs|].
  - cbn [step wrap]. unfold gk_add_update_user.
    destruct (gk_get (set_rpc_log t []) u) as [ui|].
    + destruct (u32_add (u_slots ui) _); reflexivity.
    + destruct (u32_add (gk_height _) _); [|reflexivity]. destruct (amem _ u); reflexivity.
  - cbn [step]. destruct (w_add_appointment sc (set_rpc_log t []) signer loc b delay sig) as [r0 t0|s0 t0] eqn:Ea; cbn [wrap fst].
    + apply add_appointment_indexes in Ea. exact (proj2 Ea).
    + exfalso. pose proof (add_appointment_ok sc (fresh t) signer loc b delay sig
                             (ii_val _ (bi_idx _ (big_fresh t HB)))) as Hok.
      change (fresh t) with (set_rpc_log t []) in Hok. rewrite Ea in Hok. exact Hok.
  - destruct (get_unchanged le t sc signer loc) as [r Hr]. rewrite Hr. reflexivity.
  - destruct (getsub_unchanged le t sc signer) as [r Hr]. rewrite Hr. reflexivity.
  - cbn [envb] in Henv. apply N.leb_le in Henv.
    destruct (connect_phases_ok le t hash txs sc HB Henv) as [tg [tw [t' [Eg [Ew [Er [Es [HIg [HIw _]]]]]]]]].
    rewrite Es. cbn [fst].
    destruct (gk_block_connected_wcache _ _ _ Eg) as [Hwg _].
    destruct (w_block_connected_indexes _ _ _ _ _ Ew) as [Euw _].
    destruct (r_block_connected_facts le sc tw _ _ t' HIw Er) as [lim [t5 F]].
    destruct (rf_heights _ _ _ _ _ _ _ F) as [_ [_ [Hwr _]]].
    rewrite Hwg in Euw. change (w_cache (fresh t)) with (w_cache t) in Euw. rewrite <- Hwr in Euw. exact Euw.
  - destruct (last_hash t) as [hash|] eqn:El.
    + destruct (disconnect_shape le t sc hash El (disconnect_height_pos t hash HC (ii_len _ HX) El)) as [t' [Es [_ Hw]]].
      rewrite Es. exact Hw.
    + cbn [step]. change (last_hash (set_rpc_log t [])) with (last_hash t). rewrite El. reflexivity.
Qed.

(* the operation a step performs on the cache *)
Definition cache_op (t : tower) (o : op) : option (tiop N) :=
  match o with
  | OConnect hash txs => Some (TConnect (cache_block hash txs))
  | ODisconnect => option_map (@TDisconnect N) (last_hash t)
  | _ => None
  end.

(* THE invariant: a step under the chain discipline (the cache operation is valid in the window) keeps the refinement *)
Theorem cache_refines_step le t o sc n w :
  BigInv t -> envb t o = true -> RepW n (w_cache t) w ->
  (forall c, cache_op t o = Some c -> valid_op w c) ->
  RepW n (w_cache (fst (step le t o sc))) (match cache_op t o with Some c => w_step n w c | None => w end).
Proof.
  intros HB Henv HR Hv. pose proof (step_w_cache le t o sc HB Henv) as Hs.
  destruct o as [u|signer loc b delay sig|signer loc|signer|hash txs|]; cbn [cache_op] in *; try (rewrite Hs; exact HR).
  - destruct (step_refines n (w_cache t) w (TConnect (cache_block hash txs)) HR (Hv _ eq_refl)) as [t' [Hst HR']].
    cbn [ti_step] in Hst. rewrite Hs in Hst. inversion Hst; subst t'. exact HR'.
  - destruct (last_hash t) as [hash|]; cbn [option_map] in *; [|rewrite Hs; exact HR].
    destruct (step_refines n (w_cache t) w (TDisconnect hash) HR (Hv _ eq_refl)) as [t' [Hst HR']].
    cbn [ti_step] in Hst. inversion Hst; subst t'. rewrite Hs. exact HR'.
Qed.

(* ... and `init` establishes it (bootstrap blocks with distinct hashes and no locator in two of them) *)
Theorem cache_refines_init c h0 blocks t :
  init c h0 blocks = Some t ->
  let l := map (fun b : N * list N => cache_block (fst b) (snd b))
               (sublist (Z.to_nat Consts.WATCHER_CACHE_FROM) (Z.to_nat Consts.WATCHER_CACHE_TO) blocks) in
  NoDup (map (@ib_hash N) l) -> NoDup (all_keys (rev l)) ->
  RepW (length l) (w_cache t) (mk_window (rev l) (Z.of_N h0)).
Proof.
  intros Hi l Hh Hk. destruct (new_refines l (Z.of_N h0) Hh Hk) as [wc [Hn HR]].
  unfold init in Hi. fold l in Hi. rewrite Hn in Hi.
  destruct (ti_new (map (fun b : N * list N => index_block (fst b) (snd b)) blocks) (Z.of_N h0)) as [ri|]; [|discriminate].
  inversion Hi; subst t. exact HR.
Qed.
