(* ConfigProofs.v — proofs about the configuration interpreter of Config.v, generic in the descriptors:
   every statement has the form "if the (decidable) conformance check evaluates to true on the
   descriptors, then for all file contents / command lines / values ...".  Properties/C20.v instantiates
   them with the descriptors generated from the current source, discharging the premise by computation. *)
Require Import TeosModel.Base TeosModel.Config.
Local Open Scope N_scope.

(* ---------- decidable equalities ---------- *)
Lemma text_eqb_eq a b : text_eqb a b = true <-> a = b.
Proof.
  revert b; induction a as [|x a IH]; destruct b as [|y b]; simpl; try (split; congruence).
  rewrite andb_true_iff, Ascii.eqb_eq, IH. split.
  - intros [-> ->]; reflexivity.
  - intros H; inversion H; auto.
Qed.

Lemma text_eqb_refl a : text_eqb a a = true.
Proof. apply text_eqb_eq; reflexivity. Qed.

Lemma text_eqb_neq a b : text_eqb a b = false <-> a <> b.
Proof.
  split.
  - intros H E. apply text_eqb_eq in E. congruence.
  - intros H. destruct (text_eqb a b) eqn:E; [apply text_eqb_eq in E; contradiction | reflexivity].
Qed.

Lemma text_eqb_sym a b : text_eqb a b = text_eqb b a.
Proof.
  destruct (text_eqb a b) eqn:E.
  - apply text_eqb_eq in E; subst. symmetry; apply text_eqb_refl.
  - symmetry. apply text_eqb_neq. apply text_eqb_neq in E. congruence.
Qed.

Lemma cval_eqb_eq a b : cval_eqb a b = true <-> a = b.
Proof.
  destruct a, b; simpl; try (split; congruence).
  - rewrite text_eqb_eq. split; congruence.
  - rewrite N.eqb_eq. split; congruence.
  - rewrite Bool.eqb_true_iff. split; congruence.
Qed.

Lemma cval_eqb_refl a : cval_eqb a a = true.
Proof. apply cval_eqb_eq; reflexivity. Qed.

Lemma cty_eqb_eq a b : cty_eqb a b = true -> a = b.
Proof. destruct a, b; simpl; congruence. Qed.

Lemma wr_eqb_eq a b : wr_eqb a b = true -> a = b.
Proof. destruct a, b; simpl; try discriminate; intros H; apply text_eqb_eq in H; congruence. Qed.

Lemma wrs_eqb_eq a b : wrs_eqb a b = true -> a = b.
Proof.
  revert b; induction a as [|x a IH]; destruct b as [|y b]; simpl; try discriminate; auto.
  intros H. apply andb_true_iff in H as [H1 H2]. apply wr_eqb_eq in H1. apply IH in H2. congruence.
Qed.

Lemma mem_str_In k l : mem_str k l = true <-> In k l.
Proof.
  unfold mem_str. rewrite existsb_exists. split.
  - intros [x [Hin He]]. apply text_eqb_eq in He. subst; auto.
  - intros H. exists k. split; auto. apply text_eqb_refl.
Qed.

Lemma mem_str_false k l : mem_str k l = false <-> ~ In k l.
Proof.
  split.
  - intros H Hin. apply mem_str_In in Hin. congruence.
  - intros H. destruct (mem_str k l) eqn:E; [apply mem_str_In in E; contradiction | reflexivity].
Qed.

(* ---------- layers ---------- *)
Lemma lget_In l k v : lget l k = Some v -> In (k, v) l.
Proof.
  induction l as [|[k' v'] r IH]; simpl; [discriminate|].
  destruct (text_eqb k k') eqn:E.
  - intros H; inversion H; subst. apply text_eqb_eq in E; subst. auto.
  - auto.
Qed.

Lemma cget_cset c k v n : cget (cset c k v) n = if text_eqb n k then v else cget c n.
Proof. unfold cget, cset. simpl. destruct (text_eqb n k); reflexivity. Qed.

Lemma cget_cset_same c k v : cget (cset c k v) k = v.
Proof. rewrite cget_cset, text_eqb_refl. reflexivity. Qed.

Lemma cget_cset_other c k v n : n <> k -> cget (cset c k v) n = cget c n.
Proof. intros H. rewrite cget_cset. apply text_eqb_neq in H. rewrite H. reflexivity. Qed.

(* ---------- patch: the value of a field after the statements = the writes to it, in order ---------- *)
Lemma exec_p_get cl c s n :
  cget (exec_p cl c s) n = if text_eqb (target s) n then apply_w cl (cget c n) (wr_of s) else cget c n.
Proof.
  destruct s as [f o|f o|f o]; simpl.
  - destruct (cli_val cl o) as [v|].
    + rewrite cget_cset, (text_eqb_sym n f). reflexivity.
    + destruct (text_eqb f n); reflexivity.
  - rewrite cget_cset, (text_eqb_sym n f). destruct (text_eqb f n) eqn:E; [|reflexivity].
    apply text_eqb_eq in E; subst. reflexivity.
  - rewrite cget_cset, (text_eqb_sym n f). reflexivity.
Qed.

Lemma fold_exec_get cl stmts : forall c n,
  cget (fold_left (exec_p cl) stmts c) n = fold_left (apply_w cl) (writes n stmts) (cget c n).
Proof.
  induction stmts as [|s r IH]; intros c n; simpl; [reflexivity|].
  rewrite IH, exec_p_get. unfold writes. simpl.
  destruct (text_eqb (target s) n); simpl; reflexivity.
Qed.

(* ---------- load ---------- *)
Lemma nodup_name_neq (fs : list fieldd) g f :
  negb (mem_str (f_name g) (map f_name fs)) = true -> In f fs -> text_eqb (f_name f) (f_name g) = false.
Proof.
  intros Hn Hin. apply negb_true_iff in Hn. apply text_eqb_neq. intros E.
  apply mem_str_false in Hn. apply Hn. rewrite <- E. apply in_map. exact Hin.
Qed.

Lemma load_from_get seen fs : forall f, nodup_str (map f_name fs) = true -> In f fs ->
  cget (load_from seen fs) (f_name f) =
  if f_skip f then f_default f
  else match lget seen (f_name f) with Some v => v | None => f_default f end.
Proof.
  induction fs as [|g r IH]; intros f Hnd Hin; [contradiction|].
  simpl in Hnd. apply andb_true_iff in Hnd as [Hg Hr].
  unfold cget. simpl. destruct Hin as [->|Hin].
  - rewrite text_eqb_refl. reflexivity.
  - rewrite (nodup_name_neq r g f Hg Hin). apply (IH f Hr Hin).
Qed.

Lemma find_field_In fs : forall f, nodup_str (map f_name fs) = true -> In f fs ->
  find_field fs (f_name f) = Some f.
Proof.
  induction fs as [|g r IH]; intros f Hnd Hin; [contradiction|].
  simpl in Hnd. apply andb_true_iff in Hnd as [Hg Hr]. simpl. destruct Hin as [->|Hin].
  - rewrite text_eqb_refl. reflexivity.
  - rewrite (nodup_name_neq r g f Hg Hin). apply (IH f Hr Hin).
Qed.

(* a value the daemon takes from the file has the type of its field (otherwise toml refused the file) *)
Lemma seen_typed D file f v :
  nodup_str (map f_name (d_fields D)) = true -> In f (d_fields D) -> f_skip f = false ->
  lget (file_seen D file) (f_name f) = Some v -> ty_ok (f_ty f) v = true.
Proof.
  intros Hnd Hin Hskip. unfold file_seen. destruct file as [l|]; [|discriminate].
  destruct (parses D l) eqn:Hp; [|discriminate].
  intros Hl. apply lget_In in Hl. unfold parses in Hp.
  apply andb_true_iff in Hp as [Hp _]. apply andb_true_iff in Hp as [Hp _].
  rewrite forallb_forall in Hp. specialize (Hp _ Hl). unfold entry_ok in Hp. simpl in Hp.
  rewrite (find_field_In _ f Hnd Hin), Hskip in Hp. exact Hp.
Qed.

Lemma ty_ok_bool v : ty_ok TBool v = true -> exists b, v = VBool b.
Proof. destruct v; simpl; try discriminate. eauto. Qed.

(* ---------- precedence ---------- *)
Theorem precedence_sound D os : conforms D os = true ->
  forall f file cl, In f (d_fields D) ->
  cget (patch D cl (load D file)) (f_name f) = spec_value D os file cl f.
Proof.
  intros Hc f file cl Hin. unfold conforms in Hc.
  apply andb_true_iff in Hc as [Hc _]. apply andb_true_iff in Hc as [Hnd Hall].
  rewrite forallb_forall in Hall. specialize (Hall f Hin).
  unfold patch. rewrite fold_exec_get. unfold load. rewrite (load_from_get _ _ f Hnd Hin).
  unfold spec_value, spec_value_with. unfold field_conforms in Hall.
  apply andb_true_iff in Hall as [Hdef Hrest].
  destruct (mem_str (f_name f) os).
  - (* a one-shot switch *)
    apply andb_true_iff in Hrest as [Hrest Hw]. apply andb_true_iff in Hrest as [Hty Hk].
    apply orb_true_iff in Hw as [Hw|Hw].
    + apply wrs_eqb_eq in Hw. rewrite Hw. reflexivity.
    + apply andb_true_iff in Hw as [Hw Hws]. apply andb_true_iff in Hw as [Hskip Hd].
      apply wrs_eqb_eq in Hws. apply cval_eqb_eq in Hd. rewrite Hws, Hskip, Hd. reflexivity.
  - apply andb_true_iff in Hrest as [Hskip Hk]. apply negb_true_iff in Hskip. rewrite Hskip.
    unfold cli_given. destruct (find_opt (d_opts D) (f_name f)) as [[t| |]|].
    + apply wrs_eqb_eq in Hk. rewrite Hk. simpl. destruct (cli_val cl (f_name f)); reflexivity.
    + apply andb_true_iff in Hk as [Hty Hk]. apply wrs_eqb_eq in Hk. apply cty_eqb_eq in Hty.
      rewrite Hk. simpl.
      assert (Hb : exists b, match lget (file_seen D file) (f_name f) with Some v => v | None => f_default f end = VBool b).
      { destruct (lget (file_seen D file) (f_name f)) as [v|] eqn:El.
        - apply ty_ok_bool. rewrite <- Hty. exact (seen_typed D file f v Hnd Hin Hskip El).
        - apply ty_ok_bool. rewrite <- Hty. exact Hdef. }
      destruct Hb as [b Hb]. rewrite Hb. simpl.
      destruct (cli_flag cl (f_name f)).
      * rewrite orb_true_r. reflexivity.
      * rewrite orb_false_r. reflexivity.
    + discriminate.
    + apply wrs_eqb_eq in Hk. rewrite Hk. reflexivity.
Qed.

(* the one-shot switches: the command-line flag, whatever the file says *)
Theorem one_shot_sound D os : conforms D os = true ->
  forall f file cl, In f (d_fields D) -> In (f_name f) os ->
  cget (patch D cl (load D file)) (f_name f) = VBool (cli_flag cl (f_name f)).
Proof.
  intros Hc f file cl Hin Hos. rewrite (precedence_sound D os Hc f file cl Hin).
  unfold spec_value, spec_value_with. apply mem_str_In in Hos. rewrite Hos. reflexivity.
Qed.

(* every one-shot name is a field *)
Lemma one_shot_is_field D os : conforms D os = true -> forall n, In n os -> exists f, In f (d_fields D) /\ f_name f = n.
Proof.
  intros Hc n Hn. unfold conforms in Hc. apply andb_true_iff in Hc as [_ Hos].
  rewrite forallb_forall in Hos. specialize (Hos n Hn). apply mem_str_In in Hos.
  apply in_map_iff in Hos as [f [E Hf]]. eauto.
Qed.

(* ---------- verify ---------- *)
Lemma take_rejects_spec stmts : forall rej rest, take_rejects stmts = (rej, rest) ->
  stmts = map (fun am => VRejectAuth (fst am) (snd am)) rej ++ rest.
Proof.
  induction stmts as [|s r IH]; intros rej rest H; simpl in H.
  - inversion H; reflexivity.
  - destruct s; try (inversion H; reflexivity).
    destruct (take_rejects r) as [x y] eqn:E. inversion H; subst. simpl. f_equal. apply IH. reflexivity.
Qed.

Lemma verify_shape_sound stmts sh : verify_shape stmts = Some sh ->
  stmts = shape_stmts sh /\ vs_netf sh <> vs_portf sh.
Proof.
  unfold verify_shape. destruct (take_rejects stmts) as [rej rest] eqn:E.
  apply take_rejects_spec in E.
  destruct rest as [|s1 rest]; [discriminate|]. destruct s1; try discriminate.
  destruct rest as [|s2 rest]; [discriminate|]. destruct s2; try discriminate.
  destruct rest as [|s3 rest]; [discriminate|]. destruct s3; try discriminate.
  destruct rest; [|discriminate].
  destruct (text_eqb fld fld0 && negb (text_eqb fld fld1)) eqn:Hc; [|discriminate].
  intros H; inversion H; subst; clear H. apply andb_true_iff in Hc as [H1 H2].
  apply text_eqb_eq in H1. apply negb_true_iff in H2. apply text_eqb_neq in H2. subst fld0.
  unfold shape_stmts; simpl. split; [reflexivity | exact H2].
Qed.

Definition first_reject (V : vdescr) (rej : list (auth * text)) (c : config) : option text :=
  match find (fun am => auth_eqb (auth_of V c) (fst am)) rej with
  | Some am => Some (snd am)
  | None => None
  end.

Lemma run_verify_rejects V rej rest c dp :
  run_verify V (map (fun am => VRejectAuth (fst am) (snd am)) rej ++ rest) c dp =
  match first_reject V rej c with Some m => (c, VErr m) | None => run_verify V rest c dp end.
Proof.
  unfold first_reject. induction rej as [|[a m] r IH]; simpl; [reflexivity|].
  destruct (auth_eqb (auth_of V c) a); [reflexivity | apply IH].
Qed.

(* what verify computes when its statement list has the expected shape *)
Definition normalised (sh : vshape) (c : config) : config :=
  let net := str_of (cget c (vs_netf sh)) in
  if mem_str net (vs_names sh) then cset c (vs_netf sh) (VStr (trim_end_matches net (vs_suffix sh))) else c.

Definition verify_sem (V : vdescr) (sh : vshape) (c : config) : config * vresult :=
  match first_reject V (vs_rej sh) c with
  | Some m => (c, VErr m)
  | None =>
    let c1 := normalised sh c in
    match port_of sh (str_of (cget c (vs_netf sh))) with
    | None => (c1, VErr (vs_msg sh))
    | Some p => (if N.eqb (num_of (cget c1 (vs_portf sh))) (vs_unset sh) then cset c1 (vs_portf sh) (VNum p) else c1, VOk)
    end
  end.

Lemma normalised_net sh c : str_of (cget (normalised sh c) (vs_netf sh)) = norm_net sh (str_of (cget c (vs_netf sh))).
Proof.
  unfold normalised, norm_net. destruct (mem_str (str_of (cget c (vs_netf sh))) (vs_names sh)).
  - rewrite cget_cset_same. reflexivity.
  - reflexivity.
Qed.

Lemma normalised_other sh c n : n <> vs_netf sh -> cget (normalised sh c) n = cget c n.
Proof.
  intros H. unfold normalised. destruct (mem_str _ _); [apply cget_cset_other; exact H | reflexivity].
Qed.

Lemma verify_is_sem V sh : verify_shape (v_stmts V) = Some sh -> forall c, verify V c = verify_sem V sh c.
Proof.
  intros Hs c. destruct (verify_shape_sound _ _ Hs) as [E _]. unfold verify. rewrite E.
  unfold shape_stmts. rewrite run_verify_rejects. unfold verify_sem.
  destruct (first_reject V (vs_rej sh) c); [reflexivity|].
  simpl. fold (normalised sh c). rewrite normalised_net. unfold port_of.
  destruct (slookup (vs_rows sh) (norm_net sh (str_of (cget c (vs_netf sh))))); reflexivity.
Qed.

Lemma first_reject_none V rej c :
  first_reject V rej c = None <-> existsb (auth_eqb (auth_of V c)) (map fst rej) = false.
Proof.
  unfold first_reject. induction rej as [|[a m] r IH]; simpl; [tauto|].
  destruct (auth_eqb (auth_of V c) a); simpl; [split; discriminate | exact IH].
Qed.

(* verify succeeds iff the auth method is not a rejected one and the network name selects a port *)
Theorem verify_ok_iff V sh : verify_shape (v_stmts V) = Some sh -> forall c,
  snd (verify V c) = VOk <->
  existsb (auth_eqb (auth_of V c)) (map fst (vs_rej sh)) = false /\
  network_accepted sh (str_of (cget c (vs_netf sh))) = true.
Proof.
  intros Hs c. rewrite (verify_is_sem V sh Hs). unfold verify_sem, network_accepted.
  rewrite <- first_reject_none.
  destruct (first_reject V (vs_rej sh) c); simpl.
  - split; [discriminate | intros [H _]; discriminate].
  - destruct (port_of sh (str_of (cget c (vs_netf sh)))); simpl.
    + tauto.
    + split; [discriminate | intros [_ H]; discriminate].
Qed.

(* the names verify accepts are exactly the computed list *)
Lemma slookup_In rows k p : slookup rows k = Some p -> In k (map fst rows).
Proof.
  induction rows as [|[k' p'] r IH]; simpl; [discriminate|].
  destruct (text_eqb k k') eqn:E; [apply text_eqb_eq in E; auto | auto].
Qed.

Theorem accepted_networks_spec sh net : network_accepted sh net = true <-> In net (accepted_networks sh).
Proof.
  unfold accepted_networks. rewrite filter_In. split; [|tauto].
  intros H. split; [|exact H]. unfold network_accepted, port_of, norm_net in H.
  apply in_or_app. destruct (mem_str net (vs_names sh)) eqn:Em.
  - left. apply mem_str_In. exact Em.
  - right. destruct (slookup (vs_rows sh) net) eqn:El; [|discriminate]. exact (slookup_In _ _ _ El).
Qed.

(* the auth decision as a function of the three emptiness tests *)
Lemma all_bool3_forall p : all_bool3 p = true -> forall a b c, p a b c = true.
Proof.
  unfold all_bool3. simpl. intros H a b c.
  repeat rewrite andb_true_r in H. repeat rewrite andb_true_iff in H.
  destruct a, b, c; tauto.
Qed.

Lemma auth_of_scrutinee V Dc c : scrutinee_documented V Dc = true ->
  auth_of V c = auth_lookup (v_auth_rows V)
    [is_empty_val (cget c (dc_user Dc)); is_empty_val (cget c (dc_password Dc)); is_empty_val (cget c (dc_cookie Dc))].
Proof.
  unfold scrutinee_documented, auth_of. destruct (v_scrutinee V) as [|a [|b [|k [|]]]]; try discriminate.
  intros H. apply andb_true_iff in H as [H Hk]. apply andb_true_iff in H as [Ha Hb].
  apply text_eqb_eq in Ha, Hb, Hk. subst. reflexivity.
Qed.

Lemma auth_decision V Dc sh c : scrutinee_documented V Dc = true -> auth_table_ok V sh = true ->
  existsb (auth_eqb (auth_of V c)) (map fst (vs_rej sh)) =
  negb (clean_auth (is_empty_val (cget c (dc_user Dc))) (is_empty_val (cget c (dc_password Dc)))
                   (is_empty_val (cget c (dc_cookie Dc)))).
Proof.
  intros Hs Ht. rewrite (auth_of_scrutinee V Dc c Hs).
  pose proof (all_bool3_forall _ Ht (is_empty_val (cget c (dc_user Dc))) (is_empty_val (cget c (dc_password Dc)))
                               (is_empty_val (cget c (dc_cookie Dc)))) as H.
  apply Bool.eqb_prop in H. unfold auth_accepts in H. rewrite <- H. rewrite negb_involutive. reflexivity.
Qed.

Lemma clean_auth_iff eu ep ek : clean_auth eu ep ek = true <->
  (eu = false /\ ep = false /\ ek = true) \/ (eu = true /\ ep = true /\ ek = false).
Proof. destruct eu, ep, ek; simpl; split; intros H; try discriminate; try tauto;
       destruct H as [[? [? ?]]|[? [? ?]]]; discriminate. Qed.

Lemma clean_exactly_one eu ep ek : clean_auth eu ep ek = true -> exactly_one_auth eu ep ek = true.
Proof. destruct eu, ep, ek; simpl; auto. Qed.

(* verify accepts iff exactly one method is configured with no field of the other one set, and the
   network is one of the accepted names *)
Theorem verify_accepts_iff V Dc sh :
  verify_shape (v_stmts V) = Some sh -> scrutinee_documented V Dc = true -> auth_table_ok V sh = true ->
  forall c,
  snd (verify V c) = VOk <->
  ((configured c (dc_user Dc) /\ configured c (dc_password Dc) /\ ~ configured c (dc_cookie Dc)) \/
   (~ configured c (dc_user Dc) /\ ~ configured c (dc_password Dc) /\ configured c (dc_cookie Dc))) /\
  In (str_of (cget c (vs_netf sh))) (accepted_networks sh).
Proof.
  intros Hs Hsc Ht c. rewrite (verify_ok_iff V sh Hs), (auth_decision V Dc sh c Hsc Ht).
  rewrite negb_false_iff, clean_auth_iff, accepted_networks_spec. unfold configured.
  destruct (is_empty_val (cget c (dc_user Dc))), (is_empty_val (cget c (dc_password Dc))),
           (is_empty_val (cget c (dc_cookie Dc))); intuition congruence.
Qed.

(* the port: the explicit one unless it is the "unset" value, else the row the network selects *)
Theorem verify_port V sh : verify_shape (v_stmts V) = Some sh -> forall c,
  snd (verify V c) = VOk ->
  exists p, port_of sh (str_of (cget c (vs_netf sh))) = Some p /\
            cget (fst (verify V c)) (vs_portf sh) =
            if N.eqb (num_of (cget c (vs_portf sh))) (vs_unset sh) then VNum p else cget c (vs_portf sh).
Proof.
  intros Hs c. destruct (verify_shape_sound _ _ Hs) as [_ Hne].
  rewrite (verify_is_sem V sh Hs). unfold verify_sem.
  destruct (first_reject V (vs_rej sh) c); simpl; [discriminate|].
  destruct (port_of sh (str_of (cget c (vs_netf sh)))) as [p|]; simpl; [|discriminate].
  intros _. exists p. split; [reflexivity|].
  rewrite (normalised_other sh c (vs_portf sh)) by congruence.
  destruct (N.eqb (num_of (cget c (vs_portf sh))) (vs_unset sh)).
  - apply cget_cset_same.
  - apply normalised_other. congruence.
Qed.

(* verify touches nothing but the network name (normalised) and the port *)
Theorem verify_preserves V sh : verify_shape (v_stmts V) = Some sh -> forall c n,
  n <> vs_netf sh -> n <> vs_portf sh -> cget (fst (verify V c)) n = cget c n.
Proof.
  intros Hs c n Hn Hp. rewrite (verify_is_sem V sh Hs). unfold verify_sem.
  destruct (first_reject V (vs_rej sh) c); simpl; [reflexivity|].
  destruct (port_of sh (str_of (cget c (vs_netf sh)))); simpl.
  - destruct (N.eqb _ _); [rewrite cget_cset_other by exact Hp|]; apply normalised_other; exact Hn.
  - apply normalised_other; exact Hn.
Qed.

Theorem verify_network V sh : verify_shape (v_stmts V) = Some sh -> forall c,
  snd (verify V c) = VOk ->
  str_of (cget (fst (verify V c)) (vs_netf sh)) = norm_net sh (str_of (cget c (vs_netf sh))).
Proof.
  intros Hs c. destruct (verify_shape_sound _ _ Hs) as [_ Hne].
  rewrite (verify_is_sem V sh Hs). unfold verify_sem.
  destruct (first_reject V (vs_rej sh) c); simpl; [discriminate|].
  destruct (port_of sh (str_of (cget c (vs_netf sh)))); simpl; [|discriminate].
  intros _. destruct (N.eqb _ _); [rewrite cget_cset_other by exact Hne|]; apply normalised_net.
Qed.

(* a refused configuration is left as it was, except that the network name may have been normalised *)
Theorem verify_auth_error_unchanged V sh : verify_shape (v_stmts V) = Some sh -> forall c,
  existsb (auth_eqb (auth_of V c)) (map fst (vs_rej sh)) = true -> fst (verify V c) = c.
Proof.
  intros Hs c H. rewrite (verify_is_sem V sh Hs). unfold verify_sem.
  destruct (first_reject V (vs_rej sh) c) eqn:E; [reflexivity|].
  apply first_reject_none in E. congruence.
Qed.

(* ---------- the monitor holds on every outcome of the model ---------- *)
Lemma flat_map_nil {A B} (f : A -> list B) l : (forall x, In x l -> f x = []) -> flat_map f l = [].
Proof.
  induction l as [|a l IH]; simpl; intros H; [reflexivity|].
  rewrite (H a) by auto. simpl. apply IH. intros; apply H; auto.
Qed.

Lemma check_true b l : b = true -> check b l = [].
Proof. intros ->. reflexivity. Qed.

Lemma spec_value_with_ext d1 d2 D os seen cl f :
  d1 f = d2 f -> spec_value_with d1 D os seen cl f = spec_value_with d2 D os seen cl f.
Proof. intros H. unfold spec_value_with. rewrite H. reflexivity. Qed.

Lemma mon_precedence_holds D Dc :
  conforms D (dc_one_shot Dc) = true -> defaults_documented D Dc = true ->
  forall file cl, mon_precedence D Dc file cl (patch D cl (load D file)) = [].
Proof.
  intros Hc Hd file cl. unfold mon_precedence. cbv zeta. apply flat_map_nil. intros f Hin. apply check_true.
  rewrite (precedence_sound D _ Hc f file cl Hin). unfold spec_value.
  unfold defaults_documented in Hd. rewrite forallb_forall in Hd. specialize (Hd f Hin). apply cval_eqb_eq in Hd.
  rewrite (spec_value_with_ext (doc_default Dc) f_default) by exact Hd. apply cval_eqb_refl.
Qed.

Lemma doc_row_In rows net ch p : doc_row rows net = Some (ch, p) ->
  exists n, In (n, (ch, p)) rows /\ (net = n \/ net = ch).
Proof.
  induction rows as [|[n [c q]] r IH]; simpl; [discriminate|].
  destruct (text_eqb net n || text_eqb net c) eqn:E.
  - intros H; inversion H; subst. exists n. split; auto.
    apply orb_true_iff in E as [E|E]; apply text_eqb_eq in E; auto.
  - intros H. destruct (IH H) as [n' [Hin Ho]]. exists n'. auto.
Qed.

Lemma networks_doc_facts sh Dc : networks_documented sh Dc = true ->
  vs_unset sh = 0 /\ vs_netf sh = dc_network Dc /\ vs_portf sh = dc_port Dc /\
  (forall net, In net (accepted_networks sh) -> exists cp, doc_row (dc_networks Dc) net = Some cp) /\
  (forall n ch p net, In (n, (ch, p)) (dc_networks Dc) -> net = n \/ net = ch ->
     exists q, doc_row (dc_networks Dc) net = Some (norm_net sh net, q) /\ port_of sh net = Some q).
Proof.
  unfold networks_documented. intros H.
  apply andb_true_iff in H as [H H5]. apply andb_true_iff in H as [H H4].
  apply andb_true_iff in H as [H H3]. apply andb_true_iff in H as [H1 H2].
  apply N.eqb_eq in H1. apply text_eqb_eq in H2, H3.
  rewrite forallb_forall in H4, H5.
  repeat split; auto.
  - intros net Hin. specialize (H4 net Hin). destruct (doc_row (dc_networks Dc) net); [eauto|discriminate].
  - intros n ch p net Hin Hor. specialize (H5 _ Hin). simpl in H5.
    apply andb_true_iff in H5 as [Ha Hb]. apply andb_true_iff in Hb as [Hb _].
    assert (Hx : match doc_row (dc_networks Dc) net, port_of sh net with
                 | Some (chain', p'), Some q => text_eqb (norm_net sh net) chain' && N.eqb q p'
                 | _, _ => false end = true) by (destruct Hor; subst; assumption).
    destruct (doc_row (dc_networks Dc) net) as [[ch' p']|]; [|discriminate].
    destruct (port_of sh net) as [q|]; [|discriminate].
    apply andb_true_iff in Hx as [Hx1 Hx2]. apply text_eqb_eq in Hx1. apply N.eqb_eq in Hx2. subst.
    exists p'. split; reflexivity.
Qed.

Theorem monitor_holds D V Dc sh :
  conforms D (dc_one_shot Dc) = true -> defaults_documented D Dc = true ->
  verify_shape (v_stmts V) = Some sh -> scrutinee_documented V Dc = true -> auth_table_ok V sh = true ->
  networks_documented sh Dc = true ->
  forall file cl, mon_fails D Dc file cl (run_daemon D V file cl) = [].
Proof.
  intros Hc Hd Hs Hsc Ht Hn file cl. unfold mon_fails, run_daemon. simpl.
  rewrite (mon_precedence_holds D Dc Hc Hd). simpl.
  set (p := patch D cl (load D file)).
  destruct (networks_doc_facts sh Dc Hn) as [Hu [Hnf [Hpf [Hacc Hrows]]]].
  unfold mon_verify. simpl.
  destruct (snd (verify V p)) eqn:Er.
  - pose proof (proj1 (verify_ok_iff V sh Hs p) Er) as [Ha Hna].
    rewrite (auth_decision V Dc sh p Hsc Ht) in Ha. apply negb_false_iff in Ha.
    rewrite (clean_exactly_one _ _ _ Ha). simpl.
    rewrite Hnf in Hna.
    pose proof (proj1 (accepted_networks_spec sh _) Hna) as Hin.
    destruct (Hacc _ Hin) as [[ch dp] Hrow]. rewrite Hrow.
    destruct (doc_row_In _ _ _ _ Hrow) as [n [Hinr Hor]].
    destruct (Hrows n ch dp _ Hinr Hor) as [q [H1 H2]].
    rewrite Hrow in H1. inversion H1; subst ch dp. clear H1.
    destruct (verify_port V sh Hs p Er) as [q' [Hq Hport]].
    rewrite Hnf in Hq. rewrite H2 in Hq. inversion Hq; subst q'. clear Hq.
    rewrite Hpf, Hu in Hport. rewrite Hport.
    pose proof (verify_network V sh Hs p Er) as Hnet. rewrite Hnf in Hnet. rewrite Hnet.
    rewrite text_eqb_refl. simpl.
    assert (Hpc : N.eqb (num_of (if N.eqb (num_of (cget p (dc_port Dc))) 0 then VNum q else cget p (dc_port Dc)))
                        (if N.eqb (num_of (cget p (dc_port Dc))) 0 then q else num_of (cget p (dc_port Dc))) = true).
    { destruct (N.eqb (num_of (cget p (dc_port Dc))) 0); simpl; apply N.eqb_refl. }
    rewrite Hpc. simpl.
    apply flat_map_nil. intros fd Hfd.
    destruct (text_eqb (f_name fd) (dc_network Dc) || text_eqb (f_name fd) (dc_port Dc)) eqn:E; [reflexivity|].
    apply orb_false_iff in E as [E1 E2]. apply text_eqb_neq in E1, E2.
    apply check_true. rewrite (verify_preserves V sh Hs p (f_name fd)) by congruence. apply cval_eqb_refl.
  - apply check_true.
    destruct (clean_auth _ _ _) eqn:Ec; simpl; [|reflexivity].
    destruct (doc_documented Dc (str_of (cget p (dc_network Dc)))) eqn:Edoc; [|reflexivity].
    exfalso. assert (Hok : snd (verify V p) = VOk).
    { apply (verify_ok_iff V sh Hs p). split.
      - rewrite (auth_decision V Dc sh p Hsc Ht), Ec. reflexivity.
      - unfold doc_documented in Edoc. apply mem_str_In in Edoc. apply in_map_iff in Edoc as [[n [ch dp]] [En Hinr]].
        simpl in En. destruct (Hrows n ch dp (str_of (cget p (dc_network Dc))) Hinr (or_introl (eq_sym En))) as [q [_ H2]].
        unfold network_accepted. rewrite Hnf, H2. reflexivity. }
    congruence.
Qed.

Theorem monitor_cli_holds D Dc :
  conforms D (dc_one_shot Dc) = true -> defaults_documented D Dc = true ->
  forall file cl, mon_fails_cli D Dc file cl (run_cli D file cl) = [].
Proof. intros Hc Hd file cl. apply (mon_precedence_holds D Dc Hc Hd). Qed.
