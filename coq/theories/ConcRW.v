(* ConcRW.v — C10, a reader against a writer that writes ONCE (register).
   R: a thread that only reads.  W: a thread whose actions are reads up to one write, after which it only releases locks
   and returns (add_update_user).  In every schedule the shared state is the initial state t0 until W's write and W's
   final state t1 from then on; so R's reply is that of a SPLIT run: its first n actions read t0, the others t1.
   Whenever every split run of R answers like the run on t0 or the run on t1 (a sequential fact about R, t0, t1), the
   pair is linearizable: state and replies of a sequential order, for ALL schedules.
   Instances: get_appointment / get_subscription_info || register (same or another user). *)
From TeosModel Require Import Base ListAux TxIndex TxIndexProofs Tower ConcTower ConcTowerProofs ConcReg ConcLin ConcDisc.
From Coq Require Import Lia.
Local Open Scope N_scope.

(* reads, then at most one write followed by no action *)
Fixpoint w1 (q : prog out) : Prop :=
  match q with
  | Ret _ => True
  | Acq _ k | Rel _ k => w1 k
  | Act B f k => ((forall t, state_of (f t) = t) /\ forall b, w1 (k b)) \/ (forall b, exists o, ret_of (k b) = Some o)
  end.

Lemma ret_of_step_acq l k o : ret_of (Acq l k) = Some o -> ret_of k = Some o. Proof. intros H; exact H. Qed.

Section RW.
  Context (t0 : tower) (PR PW : prog out).
  Let t1 : tower := state_of (exec PW t0).

  (* the first n actions of q read t0, the remaining ones t1 *)
  Fixpoint split_run (q : prog out) (n : nat) : option out :=
    match q with
    | Ret o => Some o
    | Acq _ k | Rel _ k => split_run k n
    | Act B f k =>
        match n with
        | O => val (exec q t1)
        | S m => match f t0 with Ok b _ => split_run (k b) m | Abort _ _ => None end
        end
    end.

  Lemma split_run_0 q : split_run q 0 = val (exec q t1).
  Proof. induction q as [o|l k IH|l k IH|B f k IH]; cbn [split_run exec]; auto. Qed.

  Definition good (x : option out) : Prop := x = val (exec PR t0) \/ x = val (exec PR t1).

  Definition Ph (qr qw : prog out) (t : tower) : Prop :=
     (t = t0 /\ readonly qr /\ (forall n, good (split_run qr n)) /\ val (exec qr t0) = val (exec PR t0) /\
      w1 qw /\ exec qw t0 = exec PW t0)
  \/ (t = t1 /\ readonly qr /\ good (val (exec qr t1)) /\ exists o, ret_of qw = Some o).

  Definition J (c : conf) : Prop :=
    exists qr hr trr qw hw trw,
      cf_threads c = [mk_cthread (Running qr) hr trr; mk_cthread (Running qw) hw trw] /\ Ph qr qw (cf_tower c).

  Definition aborted (c : conf) : Prop :=
    exists i th r, nth_error (cf_threads c) i = Some th /\ ct_st th = Ended r /\ ended_by_abort r.

  Lemma aborted_step c i c' : aborted c -> step_thread c i = Some c' -> aborted c'.
  Proof.
    intros [j [th [r [Hn [He Hab]]]]] Hs.
    destruct (step_thread_cases c i c' Hs) as [thi [p [Hni [Hst Hc]]]].
    assert (Hij : i <> j) by (intros ->; rewrite Hn in Hni; inversion Hni; subst; congruence).
    exists j, th, r. split; [|split; [exact He|exact Hab]].
    destruct Hc as [[l [k [_ [_ [_ ->]]]]]|[[l [k [_ [_ [_ ->]]]]]|[[l [k [_ ->]]]|[[B [f [k [bb [t' [_ [_ ->]]]]]]]|[B [f [k [s [t' [_ [_ ->]]]]]]]]]]];
      cbn [die cf_threads]; rewrite nth_error_set_nth_neq by exact Hij; exact Hn.
  Qed.

  (* the reader acts *)
  Lemma Ph_act_r B (f : tower -> res B) k qw t b t' : Ph (Act B f k) qw t -> f t = Ok b t' -> t' = t /\ Ph (k b) qw t.
  Proof.
    intros [[-> [Hro [Hg [H0 [Hw He]]]]]|[-> [Hro [Hg Hr]]]] E; cbn [readonly] in Hro; destruct Hro as [Hst Hk].
    - assert (Et : t' = t0) by (pose proof (Hst t0) as X; rewrite E in X; exact X). subst t'. split; [reflexivity|].
      left. split; [reflexivity|]. split; [apply Hk|]. split.
      + intros n. specialize (Hg (S n)). cbn [split_run] in Hg. rewrite E in Hg. exact Hg.
      + split; [rewrite <- H0; cbn [exec]; rewrite E; reflexivity|]. split; assumption.
    - assert (Et : t' = t1) by (pose proof (Hst t1) as X; rewrite E in X; exact X). subst t'. split; [reflexivity|].
      right. split; [reflexivity|]. split; [apply Hk|]. split; [|exact Hr].
      cbn [exec] in Hg. rewrite E in Hg. exact Hg.
  Qed.

  (* the writer acts *)
  Lemma Ph_act_w qr B (f : tower -> res B) k t b t' : Ph qr (Act B f k) t -> f t = Ok b t' -> Ph qr (k b) t'.
  Proof.
    intros [[-> [Hro [Hg [H0 [Hw He]]]]]|[_ [_ [_ [o Hr]]]]] E; [|discriminate].
    cbn [w1] in Hw. destruct Hw as [[Hst Hk]|Hlast].
    - assert (Et : t' = t0) by (pose proof (Hst t0) as X; rewrite E in X; exact X). subst t'.
      left. split; [reflexivity|]. split; [exact Hro|]. split; [exact Hg|]. split; [exact H0|]. split; [apply Hk|].
      rewrite <- He. cbn [exec]. rewrite E. reflexivity.
    - (* THE write: from now on the state is the writer's final state *)
      destruct (Hlast b) as [o Ho].
      assert (Et : t' = t1).
      { unfold t1. rewrite <- He. cbn [exec]. rewrite E. rewrite (ret_of_exec _ _ t' Ho). reflexivity. }
      right. split; [exact Et|]. split; [exact Hro|]. split; [|exists o; exact Ho].
      specialize (Hg 0%nat). rewrite split_run_0 in Hg. exact Hg.
  Qed.

  Lemma J_step c i c' : J c -> step_thread c i = Some c' -> J c' \/ aborted c'.
  Proof.
    intros [qr [hr [trr [qw [hw [trw [Hth Hph]]]]]]] Hs.
    destruct (step_thread_cases c i c' Hs) as [th [p [Hn [Hst Hc]]]].
    rewrite Hth in Hn.
    destruct i as [|[|i]]; cbn [nth_error] in Hn; [| |destruct i; discriminate].
    - inversion Hn; subst th. cbn [ct_st ct_held ct_trace] in *. inversion Hst; subst p. clear Hst Hn.
      destruct Hc as [[l [k [-> [_ [_ ->]]]]]|[[l [k [-> [_ [_ ->]]]]]|[[l [k [-> ->]]]|[[B [f [k [bb [t' [-> [Hf ->]]]]]]]|[B [f [k [s [t' [-> [Hf ->]]]]]]]]]]].
      + left. exists k, (l :: hr), (l :: trr), qw, hw, trw. rewrite Hth. cbn [set_nth cf_threads cf_tower]. split; [reflexivity|exact Hph].
      + right. exists 0%nat. eexists. eexists. unfold die. rewrite Hth. cbn [cf_threads set_nth nth_error]. split; [reflexivity|split; [reflexivity|exact I]].
      + left. exists k, (remove_lock l hr), trr, qw, hw, trw. rewrite Hth. cbn [set_nth cf_threads cf_tower]. split; [reflexivity|exact Hph].
      + destruct (Ph_act_r B f k qw (cf_tower c) bb t' Hph Hf) as [-> Hph'].
        left. exists (k bb), hr, trr, qw, hw, trw. rewrite Hth. cbn [set_nth cf_threads cf_tower]. split; [reflexivity|exact Hph'].
      + right. exists 0%nat. eexists. eexists. unfold die. rewrite Hth. cbn [cf_threads set_nth nth_error]. split; [reflexivity|split; [reflexivity|exact I]].
    - inversion Hn; subst th. cbn [ct_st ct_held ct_trace] in *. inversion Hst; subst p. clear Hst Hn.
      destruct Hc as [[l [k [-> [_ [_ ->]]]]]|[[l [k [-> [_ [_ ->]]]]]|[[l [k [-> ->]]]|[[B [f [k [bb [t' [-> [Hf ->]]]]]]]|[B [f [k [s [t' [-> [Hf ->]]]]]]]]]]].
      + left. exists qr, hr, trr, k, (l :: hw), (l :: trw). rewrite Hth. cbn [set_nth cf_threads cf_tower]. split; [reflexivity|exact Hph].
      + right. exists 1%nat. eexists. eexists. unfold die. rewrite Hth. cbn [cf_threads set_nth nth_error]. split; [reflexivity|split; [reflexivity|exact I]].
      + left. exists qr, hr, trr, k, (remove_lock l hw), trw. rewrite Hth. cbn [set_nth cf_threads cf_tower]. split; [reflexivity|exact Hph].
      + left. exists qr, hr, trr, (k bb), hw, trw. rewrite Hth. cbn [set_nth cf_threads cf_tower]. split; [reflexivity|].
        eapply Ph_act_w; eauto.
      + right. exists 1%nat. eexists. eexists. unfold die. rewrite Hth. cbn [cf_threads set_nth nth_error]. split; [reflexivity|split; [reflexivity|exact I]].
  Qed.

  (* THE theorem *)
  Theorem reader_and_single_writer_linearizable sched tf o ow :
    readonly PR -> w1 PW -> (forall n, good (split_run PR n)) ->
    run_sched t0 [PR; PW] sched = (tf, [Some (TOut o); Some (TOut ow)]) ->
    (forall s, o <> OAbort s) -> (forall s, ow <> OAbort s) ->
    exec PW t0 = Ok ow tf /\ (exec PR t0 = Ok o t0 \/ exec PR tf = Ok o tf).
  Proof.
    intros Hro Hw Hsplit Hrun Hna Hnw.
    assert (HW : exec PW t0 = Ok ow tf).
    { pose proof (writer_among_readers_runs_alone t0 [PR; PW] sched 1 PW ow eq_refl) as Hal.
      rewrite Hrun in Hal. cbn [fst snd nth_error] in Hal. apply Hal; [|reflexivity|exact Hnw].
      intros i q Hi Hq. destruct i as [|[|i]]; cbn [nth_error] in Hq; [inversion Hq; subst; exact Hro|congruence|destruct i; discriminate]. }
    split; [exact HW|].
    assert (Et1 : t1 = tf) by (unfold t1; rewrite HW; reflexivity).
    unfold run_sched in Hrun. inversion Hrun as [[Ht Hres]]. clear Hrun.
    assert (HJ : J (run_config (init_config t0 [PR; PW]) sched) \/ aborted (run_config (init_config t0 [PR; PW]) sched)).
    { apply (run_config_inv (fun c => J c \/ aborted c)).
      - intros c1 i c2 [HJ|Ha] Hst; [eapply J_step; eauto|right; eapply aborted_step; eauto].
      - left. exists PR, [], [], PW, [], []. split; [reflexivity|]. left. split; [reflexivity|]. split; [exact Hro|].
        split; [exact Hsplit|]. split; [reflexivity|]. split; [exact Hw|reflexivity]. }
    assert (Hfin : forall x, good x -> x = Some o -> exec PR t0 = Ok o t0 \/ exec PR tf = Ok o tf).
    { intros x [Hx|Hx] Ex; subst x; [left|right; rewrite <- Et1]; (apply ro_exec; [exact Hro|exact Ex]). }
    destruct HJ as [[qr [hr [trr [qw [hw [trw [Hth Hph]]]]]]]|[i [th [x [Hn [He Hab]]]]]].
    - rewrite Hth in Hres. cbn [map thread_result ct_st] in Hres.
      assert (Er : qr = Ret o) by (destruct qr; inversion Hres; reflexivity). subst qr.
      rewrite Ht. destruct Hph as [[_ [_ [Hg _]]]|[_ [_ [Hg _]]]].
      + apply (Hfin _ (Hg 0%nat)). reflexivity.
      + apply (Hfin _ Hg). reflexivity.
    - exfalso.
      assert (Hx : nth_error (map thread_result (cf_threads (run_config (init_config t0 [PR; PW]) sched))) i = Some (Some x)).
      { rewrite nth_error_map, Hn. cbn [option_map]. unfold thread_result. rewrite He. reflexivity. }
      rewrite Hres in Hx. destruct i as [|[|[|i]]]; cbn [nth_error] in Hx; inversion Hx; subst x; cbn in Hab;
        [destruct o; try exact Hab; eapply Hna; reflexivity|destruct ow; try exact Hab; eapply Hnw; reflexivity].
  Qed.
End RW.

(* ---- register is such a writer ---- *)
Lemma register_w1 v : w1 (register_p v).
Proof.
  unfold register_p, add_update_user_p, reach_p. cbn [pbind acq rel act rd wr w1].
  left. split; [reflexivity|]. intros bc. left. split; [apply st_reg_decide|].
  intros plan. destruct plan as [|ui'|ui]; cbn [pbind w1]; [exact I| |]; right; intros _; eexists; reflexivity.
Qed.

(* what a registration changes, as far as a reader of user u is concerned *)
Lemma register_effect v t0 :
  let t1 := state_of (exec (register_p v) t0) in
  gk_height t1 = gk_height t0 /\ db_apps t1 = db_apps t0 /\ db_trks t1 = db_trks t0 /\
  forall u ui, gk_get t0 u = Some ui -> exists ui1, gk_get t1 u = Some ui1 /\ (u_expiry ui <= U32MAX -> u_expiry ui <= u_expiry ui1).
Proof.
  cbn zeta. unfold register_p. rewrite exec_bind, exec_reach, exec_bind, exec_add_update_user.
  unfold gk_add_update_user. destruct (gk_get t0 v) as [vi|] eqn:Ev.
  - destruct (u32_add (u_slots vi) (c_slots (cfg t0))) as [s|]; cbn [exec state_of].
    2:{ repeat split. intros u ui H. exists ui. split; [exact H|lia]. }
    repeat split. intros u ui H. unfold p_set_user, db_update_user, gk_put, gk_get in *. cbn [gk_users set_gk_users set_db_users aget].
    destruct (N.eqb u v) eqn:E.
    + apply N.eqb_eq in E. subst v. rewrite H in Ev. inversion Ev; subst vi. eexists. split; [reflexivity|]. cbn [u_expiry].
      unfold u32_add. destruct (N.leb (u_expiry ui + c_duration (cfg t0)) U32MAX); intros; lia.
    + rewrite aget_remove, E. exists ui. split; [exact H|lia].
  - destruct (u32_add (gk_height t0) (c_duration (cfg t0))) as [e|]; cbn [exec state_of].
    2:{ repeat split. intros u ui H. exists ui. split; [exact H|lia]. }
    destruct (amem (db_users t0) v); cbn [exec state_of].
    { repeat split. intros u ui H. exists ui. split; [exact H|lia]. }
    repeat split. intros u ui H. unfold p_new_user, gk_put, gk_get in *. cbn [gk_users set_gk_users set_db_users aget].
    destruct (N.eqb u v) eqn:E; [apply N.eqb_eq in E; subst v; congruence|].
    rewrite aget_remove, E. exists ui. split; [exact H|lia].
Qed.

Lemma get_split_good v signer loc t0 n :
  good t0 (get_p signer loc) (register_p v) (split_run t0 (register_p v) (get_p signer loc) n).
Proof.
  destruct (register_effect v t0) as [Fh [Fa [Ft Fu]]]. cbn zeta in *.
  unfold good. set (t1 := state_of (exec (register_p v) t0)) in *.
  destruct signer as [u|]; [|left; destruct n; reflexivity].
  destruct n as [|n]; [right; apply split_run_0|].
  unfold get_p, get_appointment_p, authenticate_p, expired_p, reach_p, authenticate, amem.
  cbn [pbind acq rel rd split_run exec val].
  destruct (aget (gk_users t0) u) as [ui|] eqn:Eu; cbn [pbind split_run exec val].
  2:{ left. reflexivity. }
  destruct (Fu u ui Eu) as [ui1 [Eu1 _]]. unfold gk_get in Eu1.
  destruct n as [|n].
  { right. rewrite Eu1. cbn [pbind exec val]. reflexivity. }
  unfold gk_get. rewrite Eu. cbn [fst snd].
  destruct (N.leb (u_expiry ui) (gk_height t0)); cbn [pbind split_run exec val]; [left; reflexivity|].
  destruct n as [|n]; left; [|reflexivity].
  fold t1. unfold load_for_get. rewrite Fa, Ft. reflexivity.
Qed.

Lemma getsub_split_good v signer t0 n :
  (forall u ui, signer = Some u -> gk_get t0 u = Some ui -> u_expiry ui <= U32MAX) ->
  good t0 (getsub_p signer) (register_p v) (split_run t0 (register_p v) (getsub_p signer) n).
Proof.
  intros Hexp. destruct (register_effect v t0) as [Fh [Fa [Ft Fu]]]. cbn zeta in *.
  unfold good. set (t1 := state_of (exec (register_p v) t0)) in *.
  destruct signer as [u|]; [|left; destruct n; reflexivity].
  destruct n as [|n]; [right; apply split_run_0|].
  unfold getsub_p, get_subscription_info_p, authenticate_p, expired_p, reach_p, authenticate, amem.
  cbn [pbind acq rel rd split_run exec val].
  destruct (aget (gk_users t0) u) as [ui|] eqn:Eu; cbn [pbind split_run exec val].
  2:{ left. reflexivity. }
  destruct (Fu u ui Eu) as [ui1 [Eu1 Hmono]]. unfold gk_get in Eu1. specialize (Hmono (Hexp u ui eq_refl Eu)).
  destruct n as [|n].
  { right. rewrite Eu1. cbn [pbind exec val]. reflexivity. }
  unfold gk_get. rewrite Eu. cbn [fst snd].
  destruct (N.leb (u_expiry ui) (gk_height t0)) eqn:Ex; cbn [pbind split_run exec val]; [left; reflexivity|].
  destruct n as [|n].
  { right. fold t1. rewrite Eu1. cbn [pbind exec val fst snd]. rewrite Fh.
    assert (Ex1 : N.leb (u_expiry ui1) (gk_height t0) = false) by (apply N.leb_gt; apply N.leb_gt in Ex; lia).
    rewrite ?Eu1. cbn [fst snd]. rewrite Ex1. cbn [pbind exec val]. rewrite ?Eu1. cbn [pbind exec val]. reflexivity. }
  rewrite Eu. cbn [pbind split_run exec val].
  destruct n as [|n]; left; [|reflexivity].
  fold t1. rewrite Fa. reflexivity.
Qed.
