(* ConcLin.v — C10, linearizability: what is proved, what is refuted.
   Proved (all schedules, any number of threads): threads that only read (get_appointment) return what
   they return when run alone, and leave the state untouched: get || get || ... equals every
   sequential order.
   Refuted by witness schedules (event granularity, evaluated in the kernel on a small reachable
   state; each witness is replayed on the real code by the C10 check):
     - two identical add_appointment are charged twice;
     - register || the block that purges the user: the renewal is acknowledged and lost;
     - get_appointment || the purging block: the request aborts (has_subscription_expired unwrap);
     - add_appointment || the block with its dispute: the final state carries the height stamps of
       neither sequential order. *)
From TeosModel Require Import Base ListAux TxIndex Tower ConcTower ConcTowerProofs.
From Coq Require Import Lia.
Local Open Scope N_scope.

(* ------------------------------------------------------------------------------------------ *)
(* threads that only read *)

Fixpoint readonly {A} (p : prog A) : Prop :=
  match p with
  | Ret _ => True
  | Acq _ k | Rel _ k => readonly k
  | Act B f k => (forall t, state_of (f t) = t) /\ forall b, readonly (k b)
  end.

Lemma readonly_bind {A C} (p : prog A) (g : A -> prog C) : readonly p -> (forall a, readonly (g a)) -> readonly (pbind p g).
Proof.
  induction p as [a|l k IH|l k IH|B f k IH]; intros Hp Hg; cbn [pbind readonly] in *; auto.
  destruct Hp as [H1 H2]. split; [exact H1|intros b; apply IH; [apply H2|exact Hg]].
Qed.

Lemma get_readonly signer loc : readonly (get_p signer loc).
Proof.
  unfold get_p, get_appointment_p, authenticate_p, expired_p, reach_p. destruct signer as [u|]; cbn; repeat split; auto.
  intros ou. destruct ou as [u'|]; cbn; repeat split; auto.
  intros r. destruct r as [[ex e]|]; cbn; repeat split; auto.
  - destruct ex; cbn; repeat split; auto.
  - intros [ex e]. destruct ex; cbn; repeat split; auto.
Qed.

Definition ended_by_abort (r : tout) : Prop :=
  match r with TPoisoned _ => True | TOut (OAbort _) => True | TOut _ => False end.

Definition ro_thread (t : tower) (p : prog out) (th : cthread) : Prop :=
  match ct_st th with
  | Running q => exec q t = exec p t /\ readonly q
  | Ended r => ended_by_abort r
  end.

Definition ro_inv (t : tower) (ps : list (prog out)) (c : conf) : Prop :=
  cf_tower c = t /\ length (cf_threads c) = length ps /\
  forall i th p, nth_error (cf_threads c) i = Some th -> nth_error ps i = Some p -> ro_thread t p th.

Lemma ro_step t ps c i c' : ro_inv t ps c -> step_thread c i = Some c' -> ro_inv t ps c'.
Proof.
  intros [Ht [Hlen Hall]] Hs. destruct (step_thread_cases c i c' Hs) as [th [q [Hn [Hst Hc]]]].
  assert (Hi : exists p, nth_error ps i = Some p).
  { destruct (nth_error ps i) as [p|] eqn:E; [eauto|]. apply nth_error_None in E.
    assert (nth_error (cf_threads c) i = None) by (apply nth_error_None; lia). congruence. }
  destruct Hi as [p Hp]. pose proof (Hall i th p Hn Hp) as Hth. unfold ro_thread in Hth. rewrite Hst in Hth. destruct Hth as [He Hr].
  assert (Hgen : forall t' po th', t' = t -> ro_thread t p th' ->
                   ro_inv t ps (mk_conf t' po (set_nth (cf_threads c) i th'))).
  { intros t' po th' -> Hth'. split; [reflexivity|]. split; [cbn [cf_threads]; rewrite length_set_nth; exact Hlen|].
    intros j thj pj Hj Hpj. cbn [cf_threads] in Hj. apply nth_error_set_nth in Hj. destruct Hj as [[<- ->]|[Hij Hj]].
    - assert (pj = p) by congruence. subst pj. exact Hth'.
    - eapply Hall; eauto. }
  destruct Hc as [[l [k [-> [_ [_ ->]]]]]|[[l [k [-> [_ [_ ->]]]]]|[[l [k [-> ->]]]|[[B [f [k [b [t' [-> [Hf ->]]]]]]]|[B [f [k [s [t' [-> [Hf ->]]]]]]]]]]];
    unfold die; cbn [readonly exec] in *.
  - apply Hgen; [exact Ht|]. unfold ro_thread. cbn. split; assumption.
  - apply Hgen; [exact Ht|]. exact I.
  - apply Hgen; [exact Ht|]. unfold ro_thread. cbn. split; assumption.
  - destruct Hr as [H1 H2]. pose proof (H1 (cf_tower c)) as Hsame. rewrite Hf in Hsame. cbn in Hsame.
    apply Hgen; [congruence|]. unfold ro_thread. cbn. split; [|apply H2]. rewrite <- He. rewrite Ht in Hf. rewrite Hf. congruence.
  - destruct Hr as [H1 H2]. pose proof (H1 (cf_tower c)) as Hsame. rewrite Hf in Hsame. cbn in Hsame.
    apply Hgen; [congruence|]. exact I.
Qed.

(* any number of read-only threads, any schedule: the state is untouched and every thread that
   returns returns what it returns when run alone from that state — i.e. state and replies are
   those of EVERY sequential order *)
Theorem readonly_threads_linearizable t ps sched :
  Forall readonly ps ->
  let '(tf, outs) := run_sched t ps sched in
  tf = t /\
  forall i o, nth_error outs i = Some (Some (TOut o)) -> (forall s, o <> OAbort s) ->
              exists p, nth_error ps i = Some p /\ exec p t = Ok o t.
Proof.
  intros Hro. unfold run_sched.
  assert (H : ro_inv t ps (run_config (init_config t ps) sched)).
  { apply run_config_inv; [intros; eapply ro_step; eauto|].
    split; [reflexivity|]. split; [cbn; apply map_length|].
    intros i th p Hn Hp. cbn [cf_threads init_config] in Hn. rewrite nth_error_map, Hp in Hn. inversion Hn; subst th.
    unfold ro_thread. cbn. split; [reflexivity|]. rewrite Forall_forall in Hro. apply Hro. eapply nth_error_In; eauto. }
  destruct H as [Ht [Hlen Hall]]. split; [exact Ht|].
  intros i o Hn Hna. rewrite nth_error_map in Hn.
  destruct (nth_error (cf_threads (run_config (init_config t ps) sched)) i) as [th|] eqn:Eth; [|discriminate].
  cbn [option_map] in Hn. inversion Hn as [Hres]. clear Hn.
  destruct (nth_error ps i) as [p|] eqn:Ep.
  - exists p. split; [reflexivity|]. pose proof (Hall i th p Eth Ep) as Hth. unfold ro_thread, thread_result in *.
    destruct (ct_st th) as [q|r].
    + destruct q; inversion Hres; subst. destruct Hth as [He _]. cbn [exec] in He. symmetry. exact He.
    + inversion Hres; subst. (* a thread only ends with an abort *) exfalso.
      cbn in Hth. destruct o; try exact Hth. eapply Hna. reflexivity.
  - exfalso. apply nth_error_None in Ep. assert (nth_error (cf_threads (run_config (init_config t ps) sched)) i = None) by (apply nth_error_None; lia).
    congruence.
Qed.

(* ------------------------------------------------------------------------------------------ *)
(* witnesses (evaluated by the kernel; every one is a schedule the C10 check replays on the code) *)

Definition w_blocks : list (N * list N) := map (fun k => (1000 + 120 - N.of_nat k, @nil N)) (seq 0 100).
Definition w_dummy : tower :=
  mk_tower (mk_config 0 0 0) [] 0 [] [] [] 0 (mk_txindex [] [] [] 0%Z 0) (mk_txindex [] [] [] 0%Z 0) 0 [] [] [].
Definition w_boot (c : config) : tower := match init c 120 w_blocks with Some t => t | None => w_dummy end.

(* a tower at height 120 with two registered users (10 slots, subscription 400 blocks, 10 blocks grace) *)
Definition w_reg : tower := fst (run true (w_boot (mk_config 10 400 10)) [(ORegister 1, []); (ORegister 2, [])]).
(* subscription of 2 blocks, no grace: user 1 registered at 120 holds appointment 7; tip 121; block 122 purges him *)
Definition w_blob : blob := mk_blob 7 (Some 107) 77.
Definition w_purge : tower :=
  fst (run true (w_boot (mk_config 10 2 0)) [(ORegister 1, []); (OAdd (Some 1) 7 w_blob 20 1, []); (OConnect 2010 [], [])]).

Definition w_add : prog out := add_p [] (Some 1) 7 w_blob 20 1.

(* run thread i to its end, then thread j, ...: the sequential orders, in the same semantics *)
Definition in_order (order : list nat) : list nat := flat_map (fun i => repeat i 400) order.

Definition slots_of_user (t : tower) (u : N) : option N := option_map u_slots (gk_get t u).

(* 1. two identical submissions: thread 0 is charged and preempted before it takes the cache lock (21 events),
      thread 1 runs to its end (it finds no row yet: charged too), thread 0 finishes (an update of a row of the same size) *)
Definition w_double_charge : list nat := repeat 0%nat 21 ++ repeat 1%nat 40 ++ repeat 0%nat 40.

Lemma two_identical_adds_charged_twice :
  let r := run_sched w_reg [w_add; w_add] w_double_charge in
  snd r = [Some (TOut (OAddRes (AddOk 120 1 9 520))); Some (TOut (OAddRes (AddOk 120 1 8 520)))] /\
  slots_of_user (fst r) 1 = Some 8 /\ length (db_apps (fst r)) = 1%nat /\
  slots_of_user w_reg 1 = Some 10 /\
  slots_of_user (fst (run_sched w_reg [w_add; w_add] (in_order [0; 1]%nat))) 1 = Some 9 /\
  slots_of_user (fst (run_sched w_reg [w_add; w_add] (in_order [1; 0]%nat))) 1 = Some 9.
Proof. vm_compute. repeat split; reflexivity. Qed.

(* 2. register || purging block: the block decides who is outdated (3 events), the renewal runs to its end,
      the block removes the user and everything he owns *)
Definition w_lost_renewal : list nat := repeat 1%nat 3 ++ repeat 0%nat 40 ++ repeat 1%nat 200.
Definition w_connect_purge : prog out := prog_of_op true [] w_purge (OConnect 2011 []).

Lemma renewal_acknowledged_and_lost :
  let ps := [register_p 1; w_connect_purge] in
  let r := run_sched w_purge ps w_lost_renewal in
  snd r = [Some (TOut (ORegisterRes (RegOk 19 120 124))); Some (TOut OBlockRes)] /\
  db_users (fst r) = [] /\ gk_users (fst r) = [] /\ db_apps (fst r) = [] /\
  db_users (fst (run_sched w_purge ps (in_order [0; 1]%nat))) = [(1, mk_uinfo 19 120 124)] /\
  db_users (fst (run_sched w_purge ps (in_order [1; 0]%nat))) = [(1, mk_uinfo 10 122 124)].
Proof. vm_compute. repeat split; reflexivity. Qed.

(* 3. get_appointment || purging block: authenticated (5 events), purged, has_subscription_expired(..).unwrap() *)
Definition w_get_purged : list nat := repeat 0%nat 5 ++ repeat 1%nat 200 ++ repeat 0%nat 40.

Lemma get_aborts_when_purged_in_between :
  snd (run_sched w_purge [get_p (Some 1) 7; w_connect_purge] w_get_purged) =
  [Some (TOut (OAbort S_api_expired_unwrap)); Some (TOut OBlockRes)].
Proof. vm_compute. reflexivity. Qed.

(* 4. add_appointment || the block with its dispute: the request reads the watcher's height (9 events), the block
      is processed, the request finds the dispute in the cache: start_block 120 next to a tracker stamped 121;
      the sequential orders give (120, 120) and (121, 121) *)
Definition w_stamps : list nat := repeat 0%nat 9 ++ repeat 1%nat 400 ++ repeat 0%nat 100.
Definition w_connect_dispute : prog out := prog_of_op true [] w_reg (OConnect 2001 [7]).
Definition stamps (t : tower) : list N * list N := (map a_start (db_apps t), map t_height (db_trks t)).

Lemma add_and_block_stamps_of_neither_order :
  let ps := [w_add; w_connect_dispute] in
  stamps (fst (run_sched w_reg ps w_stamps)) = ([120], [121]) /\
  stamps (fst (run_sched w_reg ps (in_order [0; 1]%nat))) = ([120], [120]) /\
  stamps (fst (run_sched w_reg ps (in_order [1; 0]%nat))) = ([121], [121]).
Proof. vm_compute. repeat split; reflexivity. Qed.

(* 5. add_appointment || purging block: authenticated and not expired (8 events), purged, then
      add_update_appointment's get_mut(&user_id).unwrap(): the users mutex stays poisoned *)
Definition w_add_purged : list nat := repeat 0%nat 12 ++ repeat 1%nat 200 ++ repeat 0%nat 40.

Lemma add_aborts_and_poisons_when_purged_in_between :
  let c := run_config (init_config w_purge [add_p [] (Some 1) 8 (mk_blob 8 (Some 108) 77) 20 2; w_connect_purge]) w_add_purged in
  map thread_result (cf_threads c) = [Some (TOut (OAbort S_gk_charge_user_unwrap)); Some (TOut OBlockRes)] /\
  cf_poisoned c = [L_users].
Proof. vm_compute. repeat split; reflexivity. Qed.

(* ------------------------------------------------------------------------------------------ *)
(* the guard is necessary: add_appointment with the locator-cache guard dropped after the look-up (the
   store happens outside the critical section) — everything else unchanged — misses a breach: the
   block updates the cache and asks the database between the look-up and the store *)
Definition cache_section_short (sc : script) (a : app) : prog unit :=
  acq L_cache ;;; od <- rd (fun t => ti_get (w_cache t) (a_loc a)) ;; rel L_cache ;;;
  match od with
  | Some dispute => store_triggered_p sc a dispute
  | None => store_appointment_p a
  end.

Definition add_short (sc : script) (signer : option N) (loc : N) (b : blob) (delay sig : N) : prog out :=
  reach_p ;;;
  x <- add_pre_p signer loc b delay sig ;;
  match x with
  | inl r => Ret (OAddRes r)
  | inr (a, available, expiry) => cache_section_short sc a ;;; Ret (OAddRes (AddOk (a_start a) (a_sig a) available expiry))
  end.

Definition w_short_guard : list nat := repeat 0%nat 24 ++ repeat 1%nat 400 ++ repeat 0%nat 40.

Lemma short_guard_misses_the_breach :
  let r := run_sched w_reg [add_short [] (Some 1) 7 w_blob 20 1; w_connect_dispute] w_short_guard in
  snd r = [Some (TOut (OAddRes (AddOk 120 1 9 520))); Some (TOut OBlockRes)] /\
  map a_loc (db_apps (fst r)) = [7] /\ db_trks (fst r) = [] /\
  ti_get (w_cache (fst r)) 7 = Some 7.
Proof. vm_compute. repeat split; reflexivity. Qed.
