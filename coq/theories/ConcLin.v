(* ConcLin.v — C10, linearizability: what is proved, what is refuted.
   Proved (all schedules, any number of threads):
     - threads that only read (get_appointment) return what they return when run alone, and leave the
       state untouched: get || get || ... equals every sequential order;
     - a request never panics at a site its own program does not contain, whatever the other threads do
       (`only_own_aborts`): add_appointment can only abort in the responder's get_height unwrap (which the
       sequential half of C11 proves unreachable), get_appointment nowhere - in particular not when the
       block that purges the user is processed in between (the repaired unwraps: ConcPurge.v has the
       purge itself).
   Refuted by witness schedules (event granularity, evaluated in the kernel on a small reachable
   state; each witness is replayed on the real code by the C10 check):
     - two identical add_appointment are charged twice;
     - add_appointment || the block with its dispute: the final state carries the height stamps of
       neither sequential order.
   Witnesses that are now POSITIVE (the schedules that used to kill the tower, same states):
     - get_appointment || the purging block: authentication failure, no abort;
     - add_appointment || the purging block: refused, no abort, no poisoned lock. *)
From TeosModel Require Import Base ListAux TxIndex Tower ConcTower ConcTowerProofs.
From Coq Require Import Lia.
Local Open Scope N_scope.

(* ------------------------------------------------------------------------------------------ *)
(* threads that only read *)

Fixpoint readonly {A} (p : prog A) : Prop :=
  match p with
  | Ret _ => True
  | Acq _ k | Rel _ k => readonly k
  | Act B f k => (forall t, state_of (f t) = t) /\ forall b, readonly (k b)
  end.

Lemma readonly_bind {A C} (p : prog A) (g : A -> prog C) : readonly p -> (forall a, readonly (g a)) -> readonly (pbind p g).
Proof.
  induction p as [a|l k IH|l k IH|B f k IH]; intros Hp Hg; cbn [pbind readonly] in *; auto.
  destruct Hp as [H1 H2]. split; [exact H1|intros b; apply IH; [apply H2|exact Hg]].
Qed.

Lemma get_readonly signer loc : readonly (get_p signer loc).
Proof.
  unfold get_p, get_appointment_p, authenticate_p, expired_p, reach_p. destruct signer as [u|]; cbn; repeat split; auto.
  intros ou. destruct ou as [u'|]; cbn; repeat split; auto.
  intros r. destruct r as [[ex e]|]; cbn; repeat split; auto.
  destruct ex; cbn; repeat split; auto.
Qed.

Lemma getsub_readonly signer : readonly (getsub_p signer).
Proof.
  unfold getsub_p, get_subscription_info_p, authenticate_p, expired_p, reach_p. destruct signer as [u|]; cbn; repeat split; auto.
  intros ou. destruct ou as [u'|]; cbn; repeat split; auto.
  intros r. destruct r as [[ex e]|]; cbn; repeat split; auto.
  destruct ex; cbn; repeat split; auto.
  intros oi. destruct oi as [ui|]; cbn; repeat split; auto.
Qed.

Definition ended_by_abort (r : tout) : Prop :=
  match r with TPoisoned _ => True | TOut (OAbort _) => True | TOut _ => False end.

Definition ro_thread (t : tower) (p : prog out) (th : cthread) : Prop :=
  match ct_st th with
  | Running q => exec q t = exec p t /\ readonly q
  | Ended r => ended_by_abort r
  end.

Definition ro_inv (t : tower) (ps : list (prog out)) (c : conf) : Prop :=
  cf_tower c = t /\ length (cf_threads c) = length ps /\
  forall i th p, nth_error (cf_threads c) i = Some th -> nth_error ps i = Some p -> ro_thread t p th.

Lemma ro_step t ps c i c' : ro_inv t ps c -> step_thread c i = Some c' -> ro_inv t ps c'.
Proof.
  intros [Ht [Hlen Hall]] Hs. destruct (step_thread_cases c i c' Hs) as [th [q [Hn [Hst Hc]]]].
  assert (Hi : exists p, nth_error ps i = Some p).
  { destruct (nth_error ps i) as [p|] eqn:E; [eauto|]. apply nth_error_None in E.
    assert (nth_error (cf_threads c) i = None) by (apply nth_error_None; lia). congruence. }
  destruct Hi as [p Hp]. pose proof (Hall i th p Hn Hp) as Hth. unfold ro_thread in Hth. rewrite Hst in Hth. destruct Hth as [He Hr].
  assert (Hgen : forall t' po th', t' = t -> ro_thread t p th' ->
                   ro_inv t ps (mk_conf t' po (set_nth (cf_threads c) i th'))).
  { intros t' po th' -> Hth'. split; [reflexivity|]. split; [cbn [cf_threads]; rewrite length_set_nth; exact Hlen|].
    intros j thj pj Hj Hpj. cbn [cf_threads] in Hj. apply nth_error_set_nth in Hj. destruct Hj as [[<- ->]|[Hij Hj]].
    - assert (pj = p) by congruence. subst pj. exact Hth'.
    - eapply Hall; eauto. }
  destruct Hc as [[l [k [-> [_ [_ ->]]]]]|[[l [k [-> [_ [_ ->]]]]]|[[l [k [-> ->]]]|[[B [f [k [b [t' [-> [Hf ->]]]]]]]|[B [f [k [s [t' [-> [Hf ->]]]]]]]]]]];
    unfold die; cbn [readonly exec] in *.
  - apply Hgen; [exact Ht|]. unfold ro_thread. cbn. split; assumption.
  - apply Hgen; [exact Ht|]. exact I.
  - apply Hgen; [exact Ht|]. unfold ro_thread. cbn. split; assumption.
  - destruct Hr as [H1 H2]. pose proof (H1 (cf_tower c)) as Hsame. rewrite Hf in Hsame. cbn in Hsame.
    apply Hgen; [congruence|]. unfold ro_thread. cbn. split; [|apply H2]. rewrite <- He. rewrite Ht in Hf. rewrite Hf. congruence.
  - destruct Hr as [H1 H2]. pose proof (H1 (cf_tower c)) as Hsame. rewrite Hf in Hsame. cbn in Hsame.
    apply Hgen; [congruence|]. exact I.
Qed.

(* any number of read-only threads, any schedule: the state is untouched and every thread that
   returns returns what it returns when run alone from that state — i.e. state and replies are
   those of EVERY sequential order *)
Theorem readonly_threads_linearizable t ps sched :
  Forall readonly ps ->
  let '(tf, outs) := run_sched t ps sched in
  tf = t /\
  forall i o, nth_error outs i = Some (Some (TOut o)) -> (forall s, o <> OAbort s) ->
              exists p, nth_error ps i = Some p /\ exec p t = Ok o t.
Proof.
  intros Hro. unfold run_sched.
  assert (H : ro_inv t ps (run_config (init_config t ps) sched)).
  { apply run_config_inv; [intros; eapply ro_step; eauto|].
    split; [reflexivity|]. split; [cbn; apply map_length|].
    intros i th p Hn Hp. cbn [cf_threads init_config] in Hn. rewrite nth_error_map, Hp in Hn. inversion Hn; subst th.
    unfold ro_thread. cbn. split; [reflexivity|]. rewrite Forall_forall in Hro. apply Hro. eapply nth_error_In; eauto. }
  destruct H as [Ht [Hlen Hall]]. split; [exact Ht|].
  intros i o Hn Hna. rewrite nth_error_map in Hn.
  destruct (nth_error (cf_threads (run_config (init_config t ps) sched)) i) as [th|] eqn:Eth; [|discriminate].
  cbn [option_map] in Hn. inversion Hn as [Hres]. clear Hn.
  destruct (nth_error ps i) as [p|] eqn:Ep.
  - exists p. split; [reflexivity|]. pose proof (Hall i th p Eth Ep) as Hth. unfold ro_thread, thread_result in *.
    destruct (ct_st th) as [q|r].
    + destruct q; inversion Hres; subst. destruct Hth as [He _]. cbn [exec] in He. symmetry. exact He.
    + inversion Hres; subst. (* a thread only ends with an abort *) exfalso.
      cbn in Hth. destruct o; try exact Hth. eapply Hna. reflexivity.
  - exfalso. apply nth_error_None in Ep. assert (nth_error (cf_threads (run_config (init_config t ps) sched)) i = None) by (apply nth_error_None; lia).
    congruence.
Qed.

(* ------------------------------------------------------------------------------------------ *)
(* one thread among threads that only read: its run is its run alone *)

Definition alone_thread (t0 : tower) (p : prog out) (tc : tower) (th : cthread) : Prop :=
  match ct_st th with
  | Running q => exec q tc = exec p t0
  | Ended r => ended_by_abort r
  end.
Definition reader_thread (th : cthread) : Prop := match ct_st th with Running q => readonly q | Ended _ => True end.

Definition wr_inv (t0 : tower) (j : nat) (p : prog out) (c : conf) : Prop :=
  (exists thj, nth_error (cf_threads c) j = Some thj /\ alone_thread t0 p (cf_tower c) thj) /\
  forall i th, i <> j -> nth_error (cf_threads c) i = Some th -> reader_thread th.

Lemma wr_step t0 j p c i c' : wr_inv t0 j p c -> step_thread c i = Some c' -> wr_inv t0 j p c'.
Proof.
  intros [[thj [Hj Hal]] Hro] Hs. destruct (step_thread_cases c i c' Hs) as [th [q [Hn [Hst Hc]]]].
  destruct (Nat.eq_dec i j) as [->|Hij].
  - assert (th = thj) by congruence. subst thj. unfold alone_thread in Hal. rewrite Hst in Hal.
    assert (Hoth : forall t' po th', (forall i0 th0, i0 <> j -> nth_error (cf_threads (mk_conf t' po (set_nth (cf_threads c) j th'))) i0 = Some th0 -> reader_thread th0)).
    { intros t' po th' i0 th0 Hi0 H0. cbn [cf_threads] in H0. rewrite nth_error_set_nth_neq in H0 by congruence. eapply Hro; eauto. }
    destruct Hc as [[l [k [-> [_ [_ ->]]]]]|[[l [k [-> [_ [_ ->]]]]]|[[l [k [-> ->]]]|[[B [f [k [b [t' [-> [Hf ->]]]]]]]|[B [f [k [s [t' [-> [Hf ->]]]]]]]]]]];
      unfold die; (split; [|apply Hoth]); eexists; (split; [cbn [cf_threads]; eapply nth_error_set_nth_eq; eauto|]);
      unfold alone_thread; cbn [ct_st cf_tower exec ended_by_abort] in *; try exact I; try exact Hal.
    rewrite Hf in Hal. exact Hal.
  - pose proof (Hro i th Hij Hn) as Hr. unfold reader_thread in Hr. rewrite Hst in Hr.
    assert (Hgen : forall t' po th', t' = cf_tower c -> reader_thread th' -> wr_inv t0 j p (mk_conf t' po (set_nth (cf_threads c) i th'))).
    { intros t' po th' -> Hth'. split.
      - exists thj. split; [cbn [cf_threads]; rewrite nth_error_set_nth_neq by exact Hij; exact Hj|exact Hal].
      - intros i0 th0 Hi0 H0. cbn [cf_threads] in H0. apply nth_error_set_nth in H0. destruct H0 as [[<- ->]|[_ H0]]; [exact Hth'|eapply Hro; eauto]. }
    destruct Hc as [[l [k [-> [_ [_ ->]]]]]|[[l [k [-> [_ [_ ->]]]]]|[[l [k [-> ->]]]|[[B [f [k [b [t' [-> [Hf ->]]]]]]]|[B [f [k [s [t' [-> [Hf ->]]]]]]]]]]];
      unfold die; cbn [readonly] in Hr; apply Hgen; unfold reader_thread; cbn [ct_st]; try reflexivity; try exact I; try exact Hr.
    + destruct Hr as [H1 _]. specialize (H1 (cf_tower c)). rewrite Hf in H1. exact H1.
    + apply Hr.
    + destruct Hr as [H1 _]. specialize (H1 (cf_tower c)). rewrite Hf in H1. exact H1.
Qed.

(* ANY number of read-only threads (get_appointment, get_subscription_info) next to one arbitrary thread j, any
   schedule: if thread j returns, its reply and the final state are those of its program run alone from the initial
   state - which is what BOTH sequential orders give for thread j and the state, since readers change nothing.
   (What the readers themselves return is the subject of reader_sees_* below.) *)
Theorem writer_among_readers_runs_alone t ps sched j p o :
  nth_error ps j = Some p ->
  (forall i q, i <> j -> nth_error ps i = Some q -> readonly q) ->
  nth_error (snd (run_sched t ps sched)) j = Some (Some (TOut o)) -> (forall s, o <> OAbort s) ->
  exec p t = Ok o (fst (run_sched t ps sched)).
Proof.
  intros Hp Hro. unfold run_sched. cbn [fst snd].
  assert (H : wr_inv t j p (run_config (init_config t ps) sched)).
  { apply run_config_inv; [intros; eapply wr_step; eauto|]. split.
    - exists (spawn p). split; [cbn [cf_threads init_config]; rewrite nth_error_map, Hp; reflexivity|reflexivity].
    - intros i th Hi Hn. cbn [cf_threads init_config] in Hn. rewrite nth_error_map in Hn.
      destruct (nth_error ps i) as [q|] eqn:Eq; [|discriminate]. inversion Hn; subst th. exact (Hro i q Hi Eq). }
  destruct H as [[thj [Hj Hal]] _]. rewrite nth_error_map, Hj. cbn [option_map]. intros Hr Hna. inversion Hr as [Hres]. clear Hr.
  unfold thread_result, alone_thread in *. destruct (ct_st thj) as [q|r].
  - destruct q; try discriminate. inversion Hres; subst. cbn [exec] in Hal. symmetry. exact Hal.
  - inversion Hres; subst. exfalso. cbn in Hal. destruct o; try exact Hal. eapply Hna. reflexivity.
Qed.

(* ------------------------------------------------------------------------------------------ *)
(* a thread panics only at the sites of its own program, whatever the other threads do *)

Fixpoint absites {A} (S : site -> Prop) (K : A -> Prop) (p : prog A) : Prop :=
  match p with
  | Ret a => K a
  | Acq _ k | Rel _ k => absites S K k
  | Act B f k => (forall t s t', f t = Abort s t' -> S s) /\ forall b, absites S K (k b)
  end.

Lemma absites_bind {A C} S (K : C -> Prop) (p : prog A) (g : A -> prog C) :
  absites S (fun a => absites S K (g a)) p -> absites S K (pbind p g).
Proof.
  induction p as [a|l k IH|l k IH|B f k IH]; intros Hp; cbn [pbind absites] in *; auto.
  destruct Hp as [H1 H2]. split; [exact H1|intros b; apply IH; apply H2].
Qed.

(* a returned value that is not itself an abort at a foreign site *)
Definition okout (S : site -> Prop) (o : out) : Prop := match o with OAbort s => S s | _ => True end.

Definition own_aborts (S : site -> Prop) (th : cthread) : Prop :=
  match ct_st th with
  | Running q => absites S (okout S) q
  | Ended (TOut o) => okout S o
  | Ended (TPoisoned _) => True
  end.

Lemma own_aborts_step S c i j c' th :
  step_thread c i = Some c' -> nth_error (cf_threads c) j = Some th -> own_aborts S th ->
  exists th', nth_error (cf_threads c') j = Some th' /\ own_aborts S th'.
Proof.
  intros Hs Hj Hth. destruct (step_thread_cases c i c' Hs) as [thi [q [Hn [Hst Hc]]]].
  destruct (Nat.eq_dec i j) as [->|Hij].
  - assert (thi = th) by congruence. subst thi. unfold own_aborts in Hth. rewrite Hst in Hth.
    destruct Hc as [[l [k [-> [_ [_ ->]]]]]|[[l [k [-> [_ [_ ->]]]]]|[[l [k [-> ->]]]|[[B [f [k [b [t' [-> [Hf ->]]]]]]]|[B [f [k [s [t' [-> [Hf ->]]]]]]]]]]];
      unfold die; cbn [cf_threads]; eexists; (split; [eapply nth_error_set_nth_eq; eauto|]); unfold own_aborts; cbn [ct_st absites okout] in *.
    + exact Hth.
    + exact I.
    + exact Hth.
    + apply Hth.
    + destruct Hth as [H1 _]. eapply H1. exact Hf.
  - exists th. split; [|exact Hth].
    destruct Hc as [[l [k [_ [_ [_ ->]]]]]|[[l [k [_ [_ [_ ->]]]]]|[[l [k [_ ->]]]|[[B [f [k [b [t' [_ [_ ->]]]]]]]|[B [f [k [s [t' [_ [_ ->]]]]]]]]]]];
      unfold die; cbn [cf_threads]; rewrite nth_error_set_nth_neq by exact Hij; exact Hj.
Qed.

(* ANY threads, ANY schedule: thread j, started with program p, can only end with `OAbort s` for a site s
   that p itself contains (a poisoned lock it runs into is reported as TPoisoned, not as an abort of its own) *)
Theorem only_own_aborts S t ps sched j p s :
  nth_error ps j = Some p -> absites S (okout S) p ->
  nth_error (snd (run_sched t ps sched)) j = Some (Some (TOut (OAbort s))) -> S s.
Proof.
  intros Hp Hab. unfold run_sched. cbn [snd].
  assert (H : exists th, nth_error (cf_threads (run_config (init_config t ps) sched)) j = Some th /\ own_aborts S th).
  { apply (run_config_inv (fun c => exists th, nth_error (cf_threads c) j = Some th /\ own_aborts S th)).
    - intros c i c' [th [Hj Hth]] Hs. eapply own_aborts_step; eauto.
    - exists (spawn p). split; [cbn [cf_threads init_config]; rewrite nth_error_map, Hp; reflexivity|exact Hab]. }
  destruct H as [th [Hj Hth]]. rewrite nth_error_map, Hj. cbn [option_map]. intros Hr. inversion Hr as [Hres]. clear Hr.
  unfold thread_result, own_aborts in *. destruct (ct_st th) as [q|r].
  - destruct q; try discriminate. inversion Hres; subst. exact Hth.
  - inversion Hres; subst. exact Hth.
Qed.

(* ---- the sites of the requests ---- *)
Lemma index_lookup_abort p t s t' : index_lookup p t = Abort s t' -> s = S_r_get_height_unwrap.
Proof.
  unfold index_lookup. destruct (ti_get (r_index t) p); [|discriminate].
  destruct (ti_get_height (r_index t) _); [discriminate|]. intros H; inversion H; reflexivity.
Qed.
Lemma ask_mempool_ok sc p t s t' : ask_mempool sc p t = Abort s t' -> False.
Proof. unfold ask_mempool. destruct (in_mempool sc t p). discriminate. Qed.
Lemma send_act_ok sc tx t s t' : send_act sc tx t = Abort s t' -> False.
Proof. unfold send_act. destruct (send_transaction sc t tx). discriminate. Qed.
Lemma store_act_ok a t s t' : store_act a t = Abort s t' -> False.
Proof.
  unfold store_act, w_store_appointment. destruct (find_app (db_apps t) (app_uuid a)); [discriminate|].
  destruct (amem (db_users t) (a_user a)); discriminate.
Qed.
Lemma delete_norefund_ok t us s t' : gk_delete_appointments t us false = Abort s t' -> False.
Proof. unfold gk_delete_appointments. discriminate. Qed.

Ltac abstep :=
  match goal with
  | |- absites _ _ (match ?x with _ => _ end) => destruct x
  | |- absites _ _ (if ?x then _ else _) => destruct x
  | |- _ /\ _ => split
  | |- forall _, _ => intro
  | |- absites _ _ ?p =>
      match p with
      | context [match ?x with _ => _ end] => is_var x; destruct x
      | context [if ?x then _ else _] => is_var x; destruct x
      | context [if ?f ?x then _ else _] => is_var x; destruct (f x)
      | context [if ?c then _ else _] => destruct c
      | context [store_triggered_p _ _ _] => unfold store_triggered_p
      | context [match ?x with _ => _ end] => destruct x
      end
  | |- absites _ _ (pbind _ _) => apply absites_bind
  end.
Ltac abwalk :=
  repeat (cbn [absites pbind acq rel act rd wr reach_p charge_p delete_apps_p authenticate_p expired_p send_p handle_breach_p
                 store_appointment_p store_triggered_p cache_section_p has_tracker_p add_pre_p add_finish add_appointment_p
                 get_appointment_p add_p get_p okout fst snd];
          try abstep).
Ltac ableaf :=
  first [ exact I
        | discriminate
        | match goal with H : index_lookup _ _ = Abort _ _ |- _ => exact (index_lookup_abort _ _ _ _ H) end
        | exfalso; match goal with
                   | H : ask_mempool _ _ _ = Abort _ _ |- _ => exact (ask_mempool_ok _ _ _ _ _ H)
                   | H : send_act _ _ _ = Abort _ _ |- _ => exact (send_act_ok _ _ _ _ _ H)
                   | H : store_act _ _ = Abort _ _ |- _ => exact (store_act_ok _ _ _ _ H)
                   | H : gk_delete_appointments _ _ false = Abort _ _ |- _ => exact (delete_norefund_ok _ _ _ _ H)
                   end ].

(* add_appointment: the only abort site left on the whole path is the responder's get_height unwrap *)
Lemma add_sites sc signer loc b delay sig :
  absites (fun s => s = S_r_get_height_unwrap) (okout (fun s => s = S_r_get_height_unwrap)) (add_p sc signer loc b delay sig).
Proof. unfold add_p, add_appointment_p, add_pre_p, authenticate_p. abwalk; ableaf. Qed.

(* get_appointment has no abort site at all *)
Lemma get_sites signer loc : absites (fun _ => False) (okout (fun _ => False)) (get_p signer loc).
Proof. unfold get_p, get_appointment_p, authenticate_p. abwalk; ableaf. Qed.

(* ------------------------------------------------------------------------------------------ *)
(* witnesses (evaluated by the kernel; every one is a schedule the C10 check replays on the code) *)

Definition w_blocks : list (N * list N) := map (fun k => (1000 + 120 - N.of_nat k, @nil N)) (seq 0 100).
Definition w_dummy : tower :=
  mk_tower (mk_config 0 0 0) [] 0 [] [] [] 0 (mk_txindex [] [] [] 0%Z 0) (mk_txindex [] [] [] 0%Z 0) 0 [] [] [].
Definition w_boot (c : config) : tower := match init c 120 w_blocks with Some t => t | None => w_dummy end.

(* a tower at height 120 with two registered users (10 slots, subscription 400 blocks, 10 blocks grace) *)
Definition w_reg : tower := fst (run true (w_boot (mk_config 10 400 10)) [(ORegister 1, []); (ORegister 2, [])]).
(* subscription of 2 blocks, no grace: user 1 registered at 120 holds appointment 7; tip 121; block 122 purges him *)
Definition w_blob : blob := mk_blob 7 (Some 107) 77.
Definition w_purge : tower :=
  fst (run true (w_boot (mk_config 10 2 0)) [(ORegister 1, []); (OAdd (Some 1) 7 w_blob 20 1, []); (OConnect 2010 [], [])]).

Definition w_add : prog out := add_p [] (Some 1) 7 w_blob 20 1.

(* run thread i to its end, then thread j, ...: the sequential orders, in the same semantics *)
Definition in_order (order : list nat) : list nat := flat_map (fun i => repeat i 400) order.

Definition slots_of_user (t : tower) (u : N) : option N := option_map u_slots (gk_get t u).

(* 1. two identical submissions: thread 0 is charged and preempted before it takes the cache lock (21 events),
      thread 1 runs to its end (it finds no row yet: charged too), thread 0 finishes (an update of a row of the same size) *)
Definition w_double_charge : list nat := repeat 0%nat 21 ++ repeat 1%nat 40 ++ repeat 0%nat 40.

Lemma two_identical_adds_charged_twice :
  let r := run_sched w_reg [w_add; w_add] w_double_charge in
  snd r = [Some (TOut (OAddRes (AddOk 120 1 9 520))); Some (TOut (OAddRes (AddOk 120 1 8 520)))] /\
  slots_of_user (fst r) 1 = Some 8 /\ length (db_apps (fst r)) = 1%nat /\
  slots_of_user w_reg 1 = Some 10 /\
  slots_of_user (fst (run_sched w_reg [w_add; w_add] (in_order [0; 1]%nat))) 1 = Some 9 /\
  slots_of_user (fst (run_sched w_reg [w_add; w_add] (in_order [1; 0]%nat))) 1 = Some 9.
Proof. vm_compute. repeat split; reflexivity. Qed.

(* the block that purges user 1 *)
Definition w_connect_purge : prog out := prog_of_op true [] w_purge (OConnect 2011 []).

(* 2. get_appointment || purging block: authenticated (5 events), purged, then has_subscription_expired finds
      nobody: the reply is the authentication failure (it used to be `.unwrap()` on the missing user) *)
Definition w_get_purged : list nat := repeat 0%nat 5 ++ repeat 1%nat 200 ++ repeat 0%nat 40.

Lemma get_refused_when_purged_in_between :
  let c := run_config (init_config w_purge [get_p (Some 1) 7; w_connect_purge]) w_get_purged in
  map thread_result (cf_threads c) = [Some (TOut (OGetRes GetAuth)); Some (TOut OBlockRes)] /\
  cf_poisoned c = [].
Proof. vm_compute. repeat split; reflexivity. Qed.

(* 3. add_appointment || the block with its dispute: the request reads the watcher's height (9 events), the block
      is processed, the request finds the dispute in the cache: start_block 120 next to a tracker stamped 121;
      the sequential orders give (120, 120) and (121, 121) *)
Definition w_stamps : list nat := repeat 0%nat 9 ++ repeat 1%nat 400 ++ repeat 0%nat 100.
Definition w_connect_dispute : prog out := prog_of_op true [] w_reg (OConnect 2001 [7]).
Definition stamps (t : tower) : list N * list N := (map a_start (db_apps t), map t_height (db_trks t)).

Lemma add_and_block_stamps_of_neither_order :
  let ps := [w_add; w_connect_dispute] in
  stamps (fst (run_sched w_reg ps w_stamps)) = ([120], [121]) /\
  stamps (fst (run_sched w_reg ps (in_order [0; 1]%nat))) = ([120], [120]) /\
  stamps (fst (run_sched w_reg ps (in_order [1; 0]%nat))) = ([121], [121]).
Proof. vm_compute. repeat split; reflexivity. Qed.

(* 4. add_appointment || purging block: authenticated and not expired (12 events), purged, then
      add_update_appointment finds nobody: refused (it used to be get_mut(&user_id).unwrap() under the users
      lock, which stayed poisoned) *)
Definition w_add_purged : list nat := repeat 0%nat 12 ++ repeat 1%nat 200 ++ repeat 0%nat 40.

Lemma add_refused_when_purged_in_between :
  let c := run_config (init_config w_purge [add_p [] (Some 1) 8 (mk_blob 8 (Some 108) 77) 20 2; w_connect_purge]) w_add_purged in
  map thread_result (cf_threads c) = [Some (TOut (OAddRes AddAuthOrSlots)); Some (TOut OBlockRes)] /\
  cf_poisoned c = [] /\ db_apps (cf_tower c) = [] /\ db_users (cf_tower c) = [].
Proof. vm_compute. repeat split; reflexivity. Qed.

(* 5. get_appointment || add_appointment whose dispute is already in the locator cache: the request stores the row
      (27 events), the reader finds the appointment, the request hands the breach to the responder (tracker).  Run one
      after the other the reader sees nothing (before) or the tracker (after): the reply "appointment" is the reply
      of neither order - a reader next to a writer with several critical sections is NOT linearizable in its own
      reply (the writer's reply and the final state are: writer_among_readers_runs_alone) *)
Definition w_trig : tower := fst (run true w_reg [(OConnect 2001 [7], [])]).
Definition w_get_midway : list nat := repeat 0%nat 27 ++ repeat 1%nat 60 ++ repeat 0%nat 300.

Lemma reader_sees_appointment_before_its_tracker :
  let ps := [w_add; get_p (Some 1) 7] in
  snd (run_sched w_trig ps w_get_midway) =
    [Some (TOut (OAddRes (AddOk 121 1 9 520))); Some (TOut (OGetRes (GetApp 7 w_blob 20)))] /\
  snd (run_sched w_trig ps (in_order [0; 1]%nat)) =
    [Some (TOut (OAddRes (AddOk 121 1 9 520))); Some (TOut (OGetRes (GetTrk 7 107)))] /\
  snd (run_sched w_trig ps (in_order [1; 0]%nat)) =
    [Some (TOut (OAddRes (AddOk 121 1 9 520))); Some (TOut (OGetRes GetNotFound))] /\
  fst (run_sched w_trig ps w_get_midway) = fst (run_sched w_trig ps (in_order [0; 1]%nat)).
Proof. vm_compute. repeat split; reflexivity. Qed.

(* 6. a reader || the block that purges its user: authenticated and not expired (8 resp. 11 events), purged, then the
      last critical section of the reader (the tables) finds nothing: "not found" resp. "subscription, no locators" -
      before the block the reader is told the appointment / its locator, after it "authentication failure" *)
Definition w_reader_purged (n : nat) : list nat := repeat 0%nat n ++ repeat 1%nat 200 ++ repeat 0%nat 60.

Lemma readers_straddle_the_purge :
  let pg := [get_p (Some 1) 7; w_connect_purge] in
  let ps := [getsub_p (Some 1); w_connect_purge] in
  snd (run_sched w_purge pg (w_reader_purged 8)) = [Some (TOut (OGetRes GetNotFound)); Some (TOut OBlockRes)] /\
  snd (run_sched w_purge pg (in_order [0; 1]%nat)) = [Some (TOut (OGetRes (GetApp 7 w_blob 20))); Some (TOut OBlockRes)] /\
  snd (run_sched w_purge pg (in_order [1; 0]%nat)) = [Some (TOut (OGetRes GetAuth)); Some (TOut OBlockRes)] /\
  snd (run_sched w_purge ps (w_reader_purged 11)) = [Some (TOut (OSubRes (SubOk 9 122 []))); Some (TOut OBlockRes)] /\
  snd (run_sched w_purge ps (in_order [0; 1]%nat)) = [Some (TOut (OSubRes (SubOk 9 122 [7]))); Some (TOut OBlockRes)] /\
  snd (run_sched w_purge ps (in_order [1; 0]%nat)) = [Some (TOut (OSubRes SubAuth)); Some (TOut OBlockRes)].
Proof. vm_compute. repeat split; reflexivity. Qed.

(* 7. get_subscription_info || add_appointment of the same user: the request is charged (21 events), the reader reads the
      user's info (9 slots) and the locators (none yet), the request stores the row: "9 slots, no appointment" - before
      the request the reader is told 10 slots and no locator, after it 9 slots and locator 7 *)
Definition w_getsub_midway : list nat := repeat 0%nat 21 ++ repeat 1%nat 60 ++ repeat 0%nat 300.

Lemma reader_sees_the_charge_before_the_appointment :
  let ps := [w_add; getsub_p (Some 1)] in
  snd (run_sched w_reg ps w_getsub_midway) =
    [Some (TOut (OAddRes (AddOk 120 1 9 520))); Some (TOut (OSubRes (SubOk 9 520 [])))] /\
  snd (run_sched w_reg ps (in_order [0; 1]%nat)) =
    [Some (TOut (OAddRes (AddOk 120 1 9 520))); Some (TOut (OSubRes (SubOk 9 520 [7])))] /\
  snd (run_sched w_reg ps (in_order [1; 0]%nat)) =
    [Some (TOut (OAddRes (AddOk 120 1 9 520))); Some (TOut (OSubRes (SubOk 10 520 [])))].
Proof. vm_compute. repeat split; reflexivity. Qed.

(* 8. get_appointment || the block at whose height the subscription expires and that carries the appointment's dispute
      (no purge: 10 blocks of grace): the reader passes the expiry test (8 events: the gatekeeper is still at 121), the
      block is processed (gatekeeper at 122 = expiry, tracker inserted), the reader finds the tracker.  Before the block
      it is told the appointment, after it "subscription expired" *)
Definition w_exp : tower :=
  fst (run true (w_boot (mk_config 10 2 10)) [(ORegister 1, []); (OAdd (Some 1) 7 w_blob 20 1, []); (OConnect 2010 [], [])]).
Definition w_connect_expiry_dispute : prog out := prog_of_op true [] w_exp (OConnect 2011 [7]).
Definition w_get_across_block : list nat := repeat 0%nat 8 ++ repeat 1%nat 400 ++ repeat 0%nat 60.

Lemma reader_straddles_the_expiring_block :
  let ps := [get_p (Some 1) 7; w_connect_expiry_dispute] in
  snd (run_sched w_exp ps w_get_across_block) = [Some (TOut (OGetRes (GetTrk 7 107))); Some (TOut OBlockRes)] /\
  snd (run_sched w_exp ps (in_order [0; 1]%nat)) = [Some (TOut (OGetRes (GetApp 7 w_blob 20))); Some (TOut OBlockRes)] /\
  snd (run_sched w_exp ps (in_order [1; 0]%nat)) = [Some (TOut (OGetRes (GetExpired 122))); Some (TOut OBlockRes)].
Proof. vm_compute. repeat split; reflexivity. Qed.

(* 9. register || add_appointment of the same user: the request passes the expiry test (8 events: expiry 520), the renewal
      is served (balance 20, expiry 920), the request is charged (balance 19): its receipt says "19 slots, expiry 520" -
      after the renewal it would say 19 / 920, before it 9 / 520.  The final state is that of register ; add *)
Definition w_add_across_renewal : list nat := repeat 1%nat 8 ++ repeat 0%nat 60 ++ repeat 1%nat 300.

Lemma receipt_mixes_the_renewal :
  let ps := [register_p 1; w_add] in
  snd (run_sched w_reg ps w_add_across_renewal) =
    [Some (TOut (ORegisterRes (RegOk 20 120 920))); Some (TOut (OAddRes (AddOk 120 1 19 520)))] /\
  snd (run_sched w_reg ps (in_order [0; 1]%nat)) =
    [Some (TOut (ORegisterRes (RegOk 20 120 920))); Some (TOut (OAddRes (AddOk 120 1 19 920)))] /\
  snd (run_sched w_reg ps (in_order [1; 0]%nat)) =
    [Some (TOut (ORegisterRes (RegOk 19 120 920))); Some (TOut (OAddRes (AddOk 120 1 9 520)))] /\
  gk_users (fst (run_sched w_reg ps w_add_across_renewal)) = gk_users (fst (run_sched w_reg ps (in_order [0; 1]%nat))) /\
  db_apps (fst (run_sched w_reg ps w_add_across_renewal)) = db_apps (fst (run_sched w_reg ps (in_order [0; 1]%nat))).
Proof. vm_compute. repeat split; reflexivity. Qed.

(* ------------------------------------------------------------------------------------------ *)
(* the guard is necessary: add_appointment with the locator-cache guard dropped after the look-up (the
   store happens outside the critical section) — everything else unchanged — misses a breach: the
   block updates the cache and asks the database between the look-up and the store *)
Definition cache_section_short (sc : script) (a : app) : prog bool :=
  acq L_cache ;;; od <- rd (fun t => ti_get (w_cache t) (a_loc a)) ;; rel L_cache ;;;
  match od with
  | Some dispute => store_triggered_p sc a dispute
  | None => store_appointment_p a
  end.

Definition add_short (sc : script) (signer : option N) (loc : N) (b : blob) (delay sig : N) : prog out :=
  reach_p ;;;
  x <- add_pre_p signer loc b delay sig ;;
  match x with
  | inl r => Ret (OAddRes r)
  | inr (a, available, expiry) =>
      ok <- cache_section_short sc a ;;
      Ret (OAddRes (if ok then AddOk (a_start a) (a_sig a) available expiry else AddAuthOrSlots))
  end.

Definition w_short_guard : list nat := repeat 0%nat 24 ++ repeat 1%nat 400 ++ repeat 0%nat 40.

Lemma short_guard_misses_the_breach :
  let r := run_sched w_reg [add_short [] (Some 1) 7 w_blob 20 1; w_connect_dispute] w_short_guard in
  snd r = [Some (TOut (OAddRes (AddOk 120 1 9 520))); Some (TOut OBlockRes)] /\
  map a_loc (db_apps (fst r)) = [7] /\ db_trks (fst r) = [] /\
  ti_get (w_cache (fst r)) 7 = Some 7.
Proof. vm_compute. repeat split; reflexivity. Qed.
