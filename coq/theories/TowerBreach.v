(* TowerBreach.v — C01 / C02: what the tower does with a breach, and what it gives to the node.
   Functional specifications of the Carrier and of Responder::handle_breach, the Watcher's
   block path (handle_breaches) and late-appointment path (store_triggered_appointment),
   and the justification of every sendrawtransaction of a step.  Lemmas only; the statements
   are collected in Properties/C01_breach.v and Properties/C02_sends.v. *)
From TeosModel Require Import Base ListAux TxIndex TxIndexProofs Tower TowerStable TowerInv TowerProofs.
From TeosModel.Gen Require Consts.
From Coq Require Import Lia.
Local Open Scope N_scope.

(* ------------------------------------------------------------------------------------------ *)
(* 0. vocabulary *)

(* every field but the tracker table, the carrier's memo and the ghost RPC log *)
Definition same_core (t t' : tower) : Prop :=
  cfg t = cfg t' /\ gk_users t = gk_users t' /\ gk_height t = gk_height t' /\ db_users t = db_users t' /\
  db_apps t = db_apps t' /\ w_height t = w_height t' /\ w_cache t = w_cache t' /\ r_index t = r_index t' /\
  car_height t = car_height t' /\ reorged t = reorged t'.

Lemma same_core_refl t : same_core t t.
Proof. repeat split. Qed.
Lemma same_core_trans a b c : same_core a b -> same_core b c -> same_core a c.
Proof. unfold same_core. intuition congruence. Qed.

Definition says_in_mempool (sc : script) (tx : N) : bool :=
  match fst (script_get sc tx) with G_in_mempool => true | _ => false end.

Definition ev_getraw (tx : N) (b : bool) : rpc_event := mk_rpc K_getraw tx (InMempoolSince (if b then 1 else 0)).
Definition ev_send (tx : N) (r : cstatus) : rpc_event := mk_rpc K_send tx r.

(* ------------------------------------------------------------------------------------------ *)
(* 1. Carrier *)

(* send_transaction: the memo of the current block period answers first; otherwise the node is
   asked exactly once (one K_send event) and its answer is memoised.  No table is touched. *)
Lemma send_transaction_spec sc t tx r t' :
  send_transaction sc t tx = (r, t') ->
  same_tables t t' /\ same_core t t' /\
  match aget (car_memo t) tx with
  | Some r0 => r = r0 /\ t' = t
  | None => r = send_status t (snd (script_get sc tx)) /\
            car_memo t' = (tx, r) :: car_memo t /\
            rpc_log t' = ev_send tx r :: rpc_log t
  end.
Proof.
  unfold send_transaction. destruct (aget (car_memo t) tx) as [r0|]; intros H; inversion H; subst; clear H.
  - repeat split.
  - repeat split.
Qed.

Lemma in_mempool_spec sc t tx b t' :
  in_mempool sc t tx = (b, t') ->
  b = says_in_mempool sc tx /\ same_tables t t' /\ same_core t t' /\ car_memo t' = car_memo t /\
  rpc_log t' = ev_getraw tx b :: rpc_log t.
Proof. unfold in_mempool. intros H. inversion H; subst; clear H. repeat split. Qed.

(* ------------------------------------------------------------------------------------------ *)
(* 2. Responder::handle_breach *)

(* the status handle_breach computes for penalty p in state t: a function of the responder's
   index, the node's answers, the carrier's height and memo — NOT of the appointment: two rows
   with the same penalty get the same verdict.  (The IrrevocablyResolved in the second line is
   the place where the code panics — S_r_get_height_unwrap; never reached in a run that returns.) *)
Definition breach_status (sc : script) (t : tower) (p : N) : cstatus :=
  match ti_get (r_index t) p with
  | Some bh => match ti_get_height (r_index t) bh with
               | Some h => ConfirmedIn (Z.to_N h)
               | None => IrrevocablyResolved
               end
  | None =>
      if says_in_mempool sc p then InMempoolSince (car_height t)
      else match aget (car_memo t) p with
           | Some r => r
           | None => send_status t (snd (script_get sc p))
           end
  end.

(* the RPCs handle_breach issues for p, newest first *)
Definition breach_events (sc : script) (t : tower) (p : N) : list rpc_event :=
  match ti_get (r_index t) p with
  | Some _ => []
  | None =>
      if says_in_mempool sc p then [ev_getraw p true]
      else match aget (car_memo t) p with
           | Some _ => [ev_getraw p false]
           | None => [ev_send p (send_status t (snd (script_get sc p))); ev_getraw p false]
           end
  end.

Definition breach_memo (sc : script) (t : tower) (p : N) : list (N * cstatus) :=
  match ti_get (r_index t) p with
  | Some _ => car_memo t
  | None =>
      if says_in_mempool sc p then car_memo t
      else match aget (car_memo t) p with
           | Some _ => car_memo t
           | None => (p, send_status t (snd (script_get sc p))) :: car_memo t
           end
  end.

Definition status_height (s : cstatus) : N := match s with ConfirmedIn h | InMempoolSince h => h | _ => 0 end.
Definition status_conf (s : cstatus) : bool := match s with ConfirmedIn _ => true | _ => false end.

(* the tracker row add_tracker writes *)
Definition new_trk (uuid : N * N) (d p : N) (s : cstatus) : trk :=
  mk_trk (fst uuid) (snd uuid) d p (status_height s) (status_conf s).

Definition breach_trks (t : tower) (uuid : N * N) (d p : N) (s : cstatus) : list trk :=
  if status_accepted s then
    match find_trk (db_trks t) uuid, find_app (db_apps t) uuid with
    | None, Some _ => db_trks t ++ [new_trk uuid d p s]
    | _, _ => db_trks t
    end
  else db_trks t.

Lemma new_trk_uuid uuid d p s : trk_uuid (new_trk uuid d p s) = uuid.
Proof. destruct uuid. reflexivity. Qed.

Lemma status_of_new_trk uuid d p s : status_accepted s = true -> status_of_row (new_trk uuid d p s) = s.
Proof. destruct s; cbn; intros H; try discriminate; reflexivity. Qed.

(* the carrier half of handle_breach *)
Definition breach_carrier (sc : script) (t : tower) (p : N) : res cstatus :=
  match ti_get (r_index t) p with
  | Some bh =>
      match ti_get_height (r_index t) bh with
      | Some h => Ok (ConfirmedIn (Z.to_N h)) t
      | None => Abort S_r_get_height_unwrap t
      end
  | None =>
      let '(inm, t1) := in_mempool sc t p in
      if inm then Ok (InMempoolSince (car_height t1)) t1
      else let '(s, t2) := send_transaction sc t1 p in Ok s t2
  end.

Lemma handle_breach_unfold sc t uuid d p :
  r_handle_breach sc t uuid d p =
  bind (breach_carrier sc t p)
       (fun s t1 => Ok s (if status_accepted s then r_add_tracker t1 uuid d p s else t1)).
Proof. reflexivity. Qed.

Lemma send_status_core t t' a : car_height t = car_height t' -> send_status t a = send_status t' a.
Proof. unfold send_status. intros ->. reflexivity. Qed.

Lemma breach_carrier_spec sc t p s t1 :
  breach_carrier sc t p = Ok s t1 ->
  s = breach_status sc t p /\ same_tables t t1 /\ same_core t t1 /\
  rpc_log t1 = breach_events sc t p ++ rpc_log t /\ car_memo t1 = breach_memo sc t p.
Proof.
  unfold breach_carrier, breach_status, breach_events, breach_memo.
  destruct (ti_get (r_index t) p) as [bh|].
  - destruct (ti_get_height (r_index t) bh) as [h|]; [|discriminate].
    intros H. inversion H; subst; clear H. repeat split.
  - destruct (in_mempool sc t p) as [inm t0] eqn:Em.
    apply in_mempool_spec in Em. destruct Em as [Hb [Ht0 [Hc0 [Hm0 Hl0]]]].
    rewrite <- Hb. destruct inm.
    + intros H. inversion H; subst s t1; clear H. repeat split; try apply Ht0; try apply Hc0; try assumption.
      f_equal. symmetry. apply Hc0.
    + destruct (send_transaction sc t0 p) as [s' t2] eqn:Es.
      apply send_transaction_spec in Es. destruct Es as [Ht2 [Hc2 Hcase]].
      intros H. inversion H; subst s' t2; clear H. rewrite Hm0 in Hcase.
      assert (Hh : car_height t = car_height t0) by apply Hc0.
      destruct (aget (car_memo t) p) as [r0|].
      * destruct Hcase as [Hs Ht]. subst t1.
        split; [exact Hs|]. split; [exact Ht0|]. split; [exact Hc0|]. split; [exact Hl0|exact Hm0].
      * destruct Hcase as [Hs [Hm Hl]].
        rewrite <- (send_status_core t t0 _ Hh) in Hs.
        split; [exact Hs|]. split; [eapply same_tables_trans; eassumption|].
        split; [eapply same_core_trans; eassumption|].
        split; [rewrite Hl, Hl0, Hs; reflexivity|rewrite Hm, Hs; reflexivity].
Qed.

Lemma add_tracker_spec t uuid d p s :
  let t' := if status_accepted s then r_add_tracker t uuid d p s else t in
  same_core t t' /\ rpc_log t' = rpc_log t /\ car_memo t' = car_memo t /\
  db_trks t' = breach_trks t uuid d p s.
Proof.
  unfold breach_trks, r_add_tracker, new_trk.
  destruct s as [h|h| |c]; cbn [status_accepted status_height status_conf];
    try (destruct (find_trk (db_trks t) uuid), (find_app (db_apps t) uuid)); repeat split.
Qed.

Lemma handle_breach_spec sc t uuid d p s t' :
  r_handle_breach sc t uuid d p = Ok s t' ->
  s = breach_status sc t p /\
  same_core t t' /\
  rpc_log t' = breach_events sc t p ++ rpc_log t /\
  car_memo t' = breach_memo sc t p /\
  db_trks t' = breach_trks t uuid d p s.
Proof.
  rewrite handle_breach_unfold.
  destruct (breach_carrier sc t p) as [s1 t1|] eqn:Ec; cbn [bind]; [|discriminate].
  intros H. injection H as -> <-.
  apply breach_carrier_spec in Ec. destruct Ec as [Hs [Ht1 [Hc1 [Hl1 Hm1]]]].
  destruct (add_tracker_spec t1 uuid d p s) as [Hc2 [Hl2 [Hm2 Hk2]]].
  split; [exact Hs|]. split; [eapply same_core_trans; eassumption|].
  split; [rewrite Hl2; exact Hl1|]. split; [rewrite Hm2; exact Hm1|].
  rewrite Hk2. unfold breach_trks.
  destruct Ht1 as [_ [_ [_ [Ha Hk]]]]. rewrite <- Ha, <- Hk. reflexivity.
Qed.

(* handle_breach aborts only where the code unwraps get_height, and then nothing has happened *)
Lemma handle_breach_abort sc t uuid d p site t' :
  r_handle_breach sc t uuid d p = Abort site t' ->
  site = S_r_get_height_unwrap /\ t' = t /\
  exists bh, ti_get (r_index t) p = Some bh /\ ti_get_height (r_index t) bh = None.
Proof.
  unfold r_handle_breach.
  destruct (ti_get (r_index t) p) as [bh|].
  - destruct (ti_get_height (r_index t) bh) as [h|] eqn:Eh; cbn [bind]; [discriminate|].
    intros H. inversion H; subst. repeat split. eauto.
  - destruct (in_mempool sc t p) as [inm t1]. destruct inm; cbn [bind]; [discriminate|].
    destruct (send_transaction sc t1 p) as [s t2]. cbn [bind]. discriminate.
Qed.

(* ------------------------------------------------------------------------------------------ *)
(* 3. Watcher, block path: handle_breaches *)

Lemma find_app_NoDup apps a : NoDup (map app_uuid apps) -> In a apps -> find_app apps (app_uuid a) = Some a.
Proof.
  unfold find_app. induction apps as [|x apps IH]; cbn [map In find]; intros Hn Hi; [contradiction|].
  apply NoDup_cons_iff in Hn. destruct Hn as [Hx Hn].
  destruct (uuid_eqb (app_uuid x) (app_uuid a)) eqn:E.
  - destruct Hi as [->|Hi]; [reflexivity|]. apply uuid_eqb_eq in E. exfalso. apply Hx. rewrite E. apply in_map. exact Hi.
  - destruct Hi as [->|Hi]; [rewrite uuid_eqb_refl in E; discriminate|]. apply IH; assumption.
Qed.

Lemma app_uuid_inj apps a a' :
  NoDup (map app_uuid apps) -> In a apps -> In a' apps -> app_uuid a = app_uuid a' -> a = a'.
Proof.
  intros Hn Ha Ha' He. pose proof (find_app_NoDup apps a Hn Ha) as H1.
  pose proof (find_app_NoDup apps a' Hn Ha') as H2. rewrite He in H1. congruence.
Qed.

Lemma find_trk_NoDup trks k : NoDup (map trk_uuid trks) -> In k trks -> find_trk trks (trk_uuid k) = Some k.
Proof.
  unfold find_trk. induction trks as [|x trks IH]; cbn [map In find]; intros Hn Hi; [contradiction|].
  apply NoDup_cons_iff in Hn. destruct Hn as [Hx Hn].
  destruct (uuid_eqb (trk_uuid x) (trk_uuid k)) eqn:E.
  - destruct Hi as [->|Hi]; [reflexivity|]. apply uuid_eqb_eq in E. exfalso. apply Hx. rewrite E. apply in_map. exact Hi.
  - destruct Hi as [->|Hi]; [rewrite uuid_eqb_refl in E; discriminate|]. apply IH; assumption.
Qed.

Lemma find_trk_None_iff trks u : find_trk trks u = None <-> ~ In u (map trk_uuid trks).
Proof.
  split; [apply find_trk_None|]. intros Hn. destruct (find_trk trks u) as [k|] eqn:E; [|reflexivity].
  apply find_trk_Some in E. destruct E as [Hi He]. exfalso. apply Hn. rewrite <- He. apply in_map. exact Hi.
Qed.

Lemma find_app_None_iff apps u : find_app apps u = None <-> ~ In u (map app_uuid apps).
Proof.
  split; [apply find_app_None|]. intros Hn. destruct (find_app apps u) as [k|] eqn:E; [|reflexivity].
  apply find_app_Some in E. destruct E as [Hi He]. exfalso. apply Hn. rewrite <- He. apply in_map. exact Hi.
Qed.

Lemma accepted_not_rejected s : status_accepted s = true -> status_rejected s = false.
Proof. destruct s; cbn; congruence. Qed.

(* the status depends on the responder's index, the carrier's height and memo only *)
Lemma breach_status_core sc t t' p :
  r_index t = r_index t' -> car_height t = car_height t' -> car_memo t = car_memo t' ->
  breach_status sc t p = breach_status sc t' p.
Proof. unfold breach_status, send_status. intros -> -> ->. reflexivity. Qed.

(* the log and the tracker table only grow while breaches are handed to the responder *)
Definition grows (t t' : tower) : Prop :=
  (exists new, db_trks t' = db_trks t ++ new) /\ (exists evs, rpc_log t' = evs ++ rpc_log t).

Lemma grows_refl t : grows t t.
Proof. split; exists []; [rewrite app_nil_r|]; reflexivity. Qed.
Lemma grows_trans a b c : grows a b -> grows b c -> grows a c.
Proof.
  intros [[n1 H1] [e1 G1]] [[n2 H2] [e2 G2]]. split.
  - exists (n1 ++ n2). rewrite H2, H1, app_assoc. reflexivity.
  - exists (e2 ++ e1). rewrite G2, G1, app_assoc. reflexivity.
Qed.
Lemma grows_trk a b k : grows a b -> In k (db_trks a) -> In k (db_trks b).
Proof. intros [[n H] _] Hi. rewrite H. apply in_or_app. left. exact Hi. Qed.
Lemma grows_log a b e : grows a b -> In e (rpc_log a) -> In e (rpc_log b).
Proof. intros [_ [n H]] Hi. rewrite H. apply in_or_app. right. exact Hi. Qed.

(* the four ways a penalty is dealt with, as handle_breach tries them *)
Lemma breach_events_evidence sc t p :
  ti_get (r_index t) p <> None \/
  (In (ev_getraw p true) (breach_events sc t p) /\ says_in_mempool sc p = true) \/
  (exists r, In (ev_send p r) (breach_events sc t p)) \/
  aget (car_memo t) p <> None.
Proof.
  unfold breach_events. destruct (ti_get (r_index t) p); [left; discriminate|right].
  destruct (says_in_mempool sc p); [left; split; [left|]; reflexivity|right].
  destruct (aget (car_memo t) p); [right; discriminate|left].
  eexists. left. reflexivity.
Qed.

Lemma breach_memo_cases sc t p :
  breach_memo sc t p = car_memo t \/
  (aget (car_memo t) p = None /\
   breach_memo sc t p = (p, send_status t (snd (script_get sc p))) :: car_memo t /\
   In (ev_send p (send_status t (snd (script_get sc p)))) (breach_events sc t p)).
Proof.
  unfold breach_memo, breach_events. destruct (ti_get (r_index t) p); [left; reflexivity|].
  destruct (says_in_mempool sc p); [left; reflexivity|].
  destruct (aget (car_memo t) p); [left; reflexivity|right].
  repeat split. left. reflexivity.
Qed.

Lemma breach_events_tx sc t p e : In e (breach_events sc t p) -> r_tx e = p.
Proof.
  unfold breach_events. destruct (ti_get (r_index t) p); [intros []|].
  destruct (says_in_mempool sc p); [intros [<-|[]]; reflexivity|].
  destruct (aget (car_memo t) p); [intros [<-|[]]; reflexivity|intros [<-|[<-|[]]]; reflexivity].
Qed.

Section BreachPhase.
  (* t0: the state in which the watcher starts handing breaches over (or any earlier state of
     the same block period with the same apps/index/carrier height: what matters is below) *)
  Context (sc : script) (t0 : tower) (D : N -> Prop).   (* D: the disputes being handled *)
  Context (Hnodup : NoDup (map app_uuid (db_apps t0))).

  (* tracker k was created in this phase from row a *)
  Definition made_from (k : trk) (a : app) : Prop :=
    D (a_loc a) /\ trk_uuid k = app_uuid a /\ t_dispute k = a_loc a /\
    decrypt (a_blob a) (a_loc a) = Some (t_penalty k) /\
    status_of_row k = breach_status sc t0 (t_penalty k) /\
    status_accepted (breach_status sc t0 (t_penalty k)) = true /\
    find_trk (db_trks t0) (trk_uuid k) = None.

  Record Ext (t : tower) : Prop := {
    ext_core : same_core t0 t;
    ext_log : exists evs, rpc_log t = evs ++ rpc_log t0 /\
                forall e, In e evs ->
                  exists a, In a (db_apps t0) /\ D (a_loc a) /\ decrypt (a_blob a) (a_loc a) = Some (r_tx e);
    ext_memo_old : forall p r, aget (car_memo t0) p = Some r -> aget (car_memo t) p = Some r;
    ext_memo_new : forall p r, aget (car_memo t0) p = None -> aget (car_memo t) p = Some r ->
                               r = send_status t0 (snd (script_get sc p)) /\ In (ev_send p r) (rpc_log t);
    ext_trks : exists new, db_trks t = db_trks t0 ++ new /\
                           forall k, In k new -> exists a, In a (db_apps t0) /\ made_from k a
  }.

  Lemma ext_refl : Ext t0.
  Proof.
    constructor.
    - apply same_core_refl.
    - exists []. split; [reflexivity|intros e []].
    - auto.
    - intros p r H1 H2. congruence.
    - exists []. split; [rewrite app_nil_r; reflexivity|intros k []].
  Qed.

  (* verdict by txid: whenever a penalty is handled during the phase, the status is the one
     determined by the state at the start of the phase (the memo pins the node's first answer) *)
  Lemma ext_status t p : Ext t -> breach_status sc t p = breach_status sc t0 p.
  Proof.
    intros E. destruct (ext_core t E) as [_ [_ [_ [_ [_ [_ [_ [Hi [Hh _]]]]]]]]].
    unfold breach_status. rewrite <- Hi, <- Hh.
    destruct (ti_get (r_index t0) p); [reflexivity|].
    destruct (says_in_mempool sc p); [reflexivity|].
    destruct (aget (car_memo t0) p) as [r|] eqn:E0.
    - rewrite (ext_memo_old t E p r E0). reflexivity.
    - destruct (aget (car_memo t) p) as [r|] eqn:E1.
      + apply (ext_memo_new t E p r E0 E1).
      + apply send_status_core. symmetry. exact Hh.
  Qed.

  (* what has been done about penalty p on behalf of row uuid, seen from a later state t *)
  Definition answered (t : tower) (uuid : N * N) (p : N) : Prop :=
    (ti_get (r_index t0) p <> None \/
     (In (ev_getraw p true) (rpc_log t) /\ says_in_mempool sc p = true) \/
     (exists r, In (ev_send p r) (rpc_log t)) \/
     aget (car_memo t0) p <> None) /\
    (status_accepted (breach_status sc t0 p) = true -> exists k, In k (db_trks t) /\ trk_uuid k = uuid).

  Lemma answered_mono t t' uuid p : grows t t' -> answered t uuid p -> answered t' uuid p.
  Proof.
    intros Hg [He Hk]. split.
    - destruct He as [He|[[He Hs]|[[r He]|He]]]; [left; exact He| | |right; right; right; exact He].
      + right. left. split; [eapply grows_log; eassumption|exact Hs].
      + right. right. left. exists r. eapply grows_log; eassumption.
    - intros Ha. destruct (Hk Ha) as [k [Hi Hu]]. exists k. split; [eapply grows_trk; eassumption|exact Hu].
  Qed.

  Lemma ext_handle t uuid a p s t' :
    Ext t -> find_app (db_apps t0) uuid = Some a -> D (a_loc a) -> decrypt (a_blob a) (a_loc a) = Some p ->
    r_handle_breach sc t uuid (a_loc a) p = Ok s t' ->
    Ext t' /\ grows t t' /\ s = breach_status sc t0 p /\ answered t' uuid p.
  Proof.
    intros E Hf HD Hd Hr. apply handle_breach_spec in Hr.
    destruct Hr as [Hs [Hc [Hl [Hm Hk]]]]. rewrite (ext_status t p E) in Hs.
    pose proof (ext_core t E) as Hc0.
    assert (Hh : car_height t0 = car_height t) by apply Hc0.
    assert (Hi : r_index t0 = r_index t) by apply Hc0.
    assert (Happs : db_apps t0 = db_apps t) by apply Hc0.
    destruct (find_app_Some _ _ _ Hf) as [Hin Hu].
    assert (Hg : grows t t').
    { split; [|exists (breach_events sc t p); exact Hl].
      rewrite Hk. unfold breach_trks. destruct (status_accepted s); [|exists []; rewrite app_nil_r; reflexivity].
      destruct (find_trk (db_trks t) uuid), (find_app (db_apps t) uuid);
        first [exists []; rewrite app_nil_r; reflexivity|eexists; reflexivity]. }
    assert (Hans : answered t' uuid p).
    { split.
      - rewrite Hi. destruct (breach_events_evidence sc t p) as [He|[[He Hsm]|[[r He]|He]]].
        + left. exact He.
        + right. left. split; [rewrite Hl; apply in_or_app; left; exact He|exact Hsm].
        + right. right. left. exists r. rewrite Hl. apply in_or_app. left. exact He.
        + destruct (aget (car_memo t) p) as [r|] eqn:E1; [|congruence].
          destruct (aget (car_memo t0) p) as [r0|] eqn:E0; [right; right; right; discriminate|].
          right. right. left. exists r. rewrite Hl. apply in_or_app. right.
          apply (ext_memo_new t E p r E0 E1).
      - rewrite <- Hs. intros Ha. rewrite Hk. unfold breach_trks. rewrite Ha, <- Happs, Hf.
        destruct (find_trk (db_trks t) uuid) as [k|] eqn:Ek.
        + apply find_trk_Some in Ek. exists k. exact Ek.
        + exists (new_trk uuid (a_loc a) p s). split; [apply in_or_app; right; left; reflexivity|].
          destruct uuid; reflexivity. }
    split; [|split; [exact Hg|split; [exact Hs|exact Hans]]].
    constructor.
    - eapply same_core_trans; eassumption.
    - destruct (ext_log t E) as [evs [He Hj]]. exists (breach_events sc t p ++ evs).
      split; [rewrite Hl, He, app_assoc; reflexivity|].
      intros e Hie. apply in_app_or in Hie. destruct Hie as [Hie|Hie]; [|apply Hj; exact Hie].
      exists a. split; [exact Hin|]. split; [exact HD|].
      rewrite (breach_events_tx _ _ _ _ Hie). exact Hd.
    - intros q r Hq. rewrite Hm. pose proof (ext_memo_old t E q r Hq) as Hq'.
      destruct (breach_memo_cases sc t p) as [->|[Hn [-> _]]]; [exact Hq'|].
      cbn [aget]. destruct (N.eqb q p) eqn:Eqp; [|exact Hq'].
      apply N.eqb_eq in Eqp. subst q. congruence.
    - intros q r Hq. rewrite Hm.
      destruct (breach_memo_cases sc t p) as [->|[Hn [-> Hev]]].
      + intros Hq'. destruct (ext_memo_new t E q r Hq Hq') as [H1 H2]. split; [exact H1|].
        eapply grows_log; eassumption.
      + cbn [aget]. destruct (N.eqb q p) eqn:Eqp.
        * apply N.eqb_eq in Eqp. subst q. intros Hr. injection Hr as <-.
          split; [apply send_status_core; symmetry; exact Hh|].
          rewrite Hl. apply in_or_app. left. exact Hev.
        * intros Hq'. destruct (ext_memo_new t E q r Hq Hq') as [H1 H2]. split; [exact H1|].
          eapply grows_log; eassumption.
    - destruct (ext_trks t E) as [new [Hn Hall]]. rewrite Hk. unfold breach_trks.
      destruct (status_accepted s) eqn:Ha; [|exists new; split; assumption].
      destruct (find_trk (db_trks t) uuid) eqn:Ek; [exists new; split; assumption|].
      rewrite <- Happs, Hf. exists (new ++ [new_trk uuid (a_loc a) p s]). split; [rewrite Hn, app_assoc; reflexivity|].
      intros k Hik. apply in_app_or in Hik. destruct Hik as [Hik|[<-|[]]]; [apply Hall; exact Hik|].
      exists a. split; [exact Hin|]. unfold made_from.
      cbn [new_trk t_penalty t_dispute]. rewrite <- Hs.
      repeat split; [exact HD|rewrite Hu; destruct uuid; reflexivity|exact Hd|apply status_of_new_trk; exact Ha|exact Ha|].
      rewrite new_trk_uuid.
      apply find_trk_None_iff. intros Hi0. apply (find_trk_None _ _ Ek). rewrite Hn, map_app. apply in_or_app. left. exact Hi0.
  Qed.

  (* the rows with locator d, one after the other *)
  Definition row_outcome (t' : tower) (inv' : list (N * N)) (a : app) : Prop :=
    match decrypt (a_blob a) (a_loc a) with
    | None => In (app_uuid a) inv'
    | Some p => answered t' (app_uuid a) p /\
                (status_rejected (breach_status sc t0 p) = true -> In (app_uuid a) inv')
    end.

  (* why a uuid is in the list of appointments to delete *)
  Definition row_invalid (a : app) : Prop :=
    match decrypt (a_blob a) (a_loc a) with
    | None => True
    | Some p => status_rejected (breach_status sc t0 p) = true
    end.

  Lemma row_outcome_mono t t' inv inv' a :
    grows t t' -> incl inv inv' -> row_outcome t inv a -> row_outcome t' inv' a.
  Proof.
    unfold row_outcome. intros Hg Hi. destruct (decrypt (a_blob a) (a_loc a)) as [p|]; [|apply Hi].
    intros [H1 H2]. split; [eapply answered_mono; eassumption|intros H; apply Hi, H2, H].
  Qed.

  Lemma breach_uuid_loop_spec d us : forall t inv inv' t',
    Ext t -> D d -> (forall u, In u us -> fst u = d) ->
    (forall u, In u us -> find_app (db_apps t0) u <> None) ->      (* the uuids were just loaded from the table *)
    breach_uuid_loop sc d us t inv = Ok inv' t' ->
    Ext t' /\ grows t t' /\ incl inv inv' /\
    (forall u, In u us -> exists a, find_app (db_apps t0) u = Some a /\ row_outcome t' inv' a) /\
    (forall u, In u inv' -> In u inv \/ (In u us /\ exists a, find_app (db_apps t0) u = Some a /\ row_invalid a)).
  Proof.
    induction us as [|uuid us IH]; intros t inv inv' t' E HD Hd Hrows; cbn [breach_uuid_loop].
    - intros H. injection H as <- <-. split; [exact E|]. split; [apply grows_refl|]. split; [apply incl_refl|].
      split; [intros u []|intros u Hu; left; exact Hu].
    - assert (Happs : db_apps t0 = db_apps t) by apply (ext_core t E).
      rewrite <- Happs.
      destruct (find_app (db_apps t0) uuid) as [a|] eqn:Ef; [|exfalso; apply (Hrows uuid (or_introl eq_refl)); exact Ef].
      assert (Hrows' : forall u, In u us -> find_app (db_apps t0) u <> None) by (intros u Hi; apply Hrows; right; exact Hi).
      destruct (find_app_Some _ _ _ Ef) as [Hin Hu].
      assert (Hloc : d = a_loc a).
      { rewrite <- (Hd uuid (or_introl eq_refl)), <- Hu. reflexivity. }
      assert (Hd' : forall u, In u us -> fst u = d) by (intros u Hi; apply Hd; right; exact Hi).
      rewrite Hloc.
      destruct (decrypt (a_blob a) (a_loc a)) as [p|] eqn:Edec.
      + destruct (r_handle_breach sc t uuid (a_loc a) p) as [s t1|] eqn:Er; cbn [bind]; [|discriminate].
        assert (HDa : D (a_loc a)) by (rewrite <- Hloc; exact HD).
        destruct (ext_handle t uuid a p s t1 E Ef HDa Edec Er) as [E1 [Hg1 [Hs Hans]]].
        intros Hloop. rewrite <- Hloc in Hloop.
        destruct (IH t1 _ inv' t' E1 HD Hd' Hrows' Hloop) as [E' [Hg' [Hincl [Hall Hinv]]]].
        split; [exact E'|]. split; [eapply grows_trans; eassumption|].
        assert (Hincl0 : incl inv inv').
        { intros x Hx. apply Hincl. destruct (status_rejected s); [apply in_or_app; left|]; exact Hx. }
        split; [exact Hincl0|]. split.
        * intros u [<-|Hu']; [|apply Hall; exact Hu'].
          exists a. split; [exact Ef|]. unfold row_outcome. rewrite Edec, Hu. split.
          -- eapply answered_mono; eassumption.
          -- rewrite <- Hs. intros Hrej. apply Hincl. rewrite Hrej. apply in_or_app. right. left. reflexivity.
        * intros u Hu'. destruct (Hinv u Hu') as [H1|[H1 H2]]; [|right; split; [right; exact H1|exact H2]].
          destruct (status_rejected s) eqn:Hrej; [|left; exact H1].
          apply in_app_or in H1. destruct H1 as [H1|[<-|[]]]; [left; exact H1|].
          right. split; [left; reflexivity|]. exists a. split; [exact Ef|].
          unfold row_invalid. rewrite Edec, <- Hs. exact Hrej.
      + intros Hloop. rewrite <- Hloc in Hloop.
        destruct (IH t _ inv' t' E HD Hd' Hrows' Hloop) as [E' [Hg' [Hincl [Hall Hinv]]]].
        split; [exact E'|]. split; [exact Hg'|].
        split; [intros x Hx; apply Hincl, in_or_app; left; exact Hx|]. split.
        * intros u [<-|Hu']; [|apply Hall; exact Hu'].
          exists a. split; [exact Ef|]. unfold row_outcome. rewrite Edec, Hu.
          apply Hincl, in_or_app. right. left. reflexivity.
        * intros u Hu'. destruct (Hinv u Hu') as [H1|[H1 H2]]; [|right; split; [right; exact H1|exact H2]].
          apply in_app_or in H1. destruct H1 as [H1|[<-|[]]]; [left; exact H1|].
          right. split; [left; reflexivity|]. exists a. split; [exact Ef|].
          unfold row_invalid. rewrite Edec. exact I.
  Qed.

  (* every breached locator of the block *)
  Lemma breach_loop_spec ds : forall t inv inv' t',
    Ext t -> (forall d, In d ds -> D d) -> breach_loop sc ds t inv = Ok inv' t' ->
    Ext t' /\ grows t t' /\ incl inv inv' /\
    (forall a, In a (db_apps t0) -> In (a_loc a) ds -> row_outcome t' inv' a) /\
    (forall u, In u inv' -> In u inv \/
               exists a, In a (db_apps t0) /\ app_uuid a = u /\ In (a_loc a) ds /\ row_invalid a).
  Proof.
    induction ds as [|d ds IH]; intros t inv inv' t' E HD; cbn [breach_loop].
    - intros H. injection H as <- <-. split; [exact E|]. split; [apply grows_refl|]. split; [apply incl_refl|].
      split; [intros a _ []|intros u Hu; left; exact Hu].
    - assert (Happs : db_apps t0 = db_apps t) by apply (ext_core t E).
      rewrite <- Happs.
      set (us := map app_uuid (filter (fun a => N.eqb (a_loc a) d) (db_apps t0))).
      assert (Hus : forall u, In u us -> fst u = d).
      { intros u Hu. apply in_map_iff in Hu. destruct Hu as [a [<- Ha]]. apply filter_In in Ha.
        destruct Ha as [_ Ha]. apply N.eqb_eq in Ha. exact Ha. }
      assert (Hrows : forall u, In u us -> find_app (db_apps t0) u <> None).
      { intros u Hu. apply in_map_iff in Hu. destruct Hu as [a [<- Ha]]. apply filter_In in Ha. destruct Ha as [Ha _].
        destruct (find_app_In _ _ Ha) as [a' Hf]. rewrite Hf. discriminate. }
      destruct (breach_uuid_loop sc d us t inv) as [inv1 t1|] eqn:El; cbn [bind]; [|discriminate].
      destruct (breach_uuid_loop_spec d us t inv inv1 t1 E (HD d (or_introl eq_refl)) Hus Hrows El) as [E1 [Hg1 [Hincl1 [Hall1 Hinv1]]]].
      intros Hloop. destruct (IH t1 inv1 inv' t' E1 (fun x Hx => HD x (or_intror Hx)) Hloop) as [E' [Hg' [Hincl' [Hall' Hinv']]]].
      split; [exact E'|]. split; [eapply grows_trans; eassumption|].
      split; [intros x Hx; apply Hincl', Hincl1, Hx|]. split.
      + intros a Ha [Hd|Hd]; [|apply Hall'; assumption].
        assert (Hu : In (app_uuid a) us).
        { apply in_map. apply filter_In. split; [exact Ha|]. apply N.eqb_eq. symmetry. exact Hd. }
        destruct (Hall1 _ Hu) as [a' [Hf Hout]].
        rewrite (find_app_NoDup _ a Hnodup Ha) in Hf. injection Hf as <-.
        eapply row_outcome_mono; eassumption.
      + intros u Hu. destruct (Hinv' u Hu) as [H1|[a [Ha [Hua [Hl Hri]]]]].
        * destruct (Hinv1 u H1) as [H2|[H2 [a [Hf Hri]]]]; [left; exact H2|right].
          destruct (find_app_Some _ _ _ Hf) as [Hin Hua]. exists a.
          split; [exact Hin|]. split; [exact Hua|]. split; [|exact Hri].
          left. rewrite <- (Hus u H2), <- Hua. reflexivity.
        * right. exists a. split; [exact Ha|]. split; [exact Hua|]. split; [right; exact Hl|exact Hri].
  Qed.
End BreachPhase.

(* ---------- the watcher's listener ---------- *)

(* every field but the appointment / tracker tables and the watcher's height *)
Definition same_but_rows (t t' : tower) : Prop :=
  cfg t = cfg t' /\ gk_users t = gk_users t' /\ gk_height t = gk_height t' /\ db_users t = db_users t' /\
  w_cache t = w_cache t' /\ r_index t = r_index t' /\ car_height t = car_height t' /\
  car_memo t = car_memo t' /\ reorged t = reorged t' /\ rpc_log t = rpc_log t'.

Lemma filter_all {A} (f : A -> bool) l : (forall x, In x l -> f x = true) -> filter f l = l.
Proof.
  induction l as [|x l IH]; cbn [filter]; intros H; [reflexivity|].
  rewrite (H x (or_introl eq_refl)). f_equal. apply IH. intros y Hy. apply H. right. exact Hy.
Qed.

Lemma delete_invalid_spec t2 inv t3 :
  (match inv with [] => Ok tt t2 | l => gk_delete_appointments t2 l false end) = Ok tt t3 ->
  db_apps t3 = filter (fun a => negb (mem_uuid (app_uuid a) inv)) (db_apps t2) /\
  db_trks t3 = filter (fun k => negb (mem_uuid (trk_uuid k) inv)) (db_trks t2) /\
  same_but_rows t2 t3 /\ w_height t2 = w_height t3.
Proof.
  destruct inv as [|u inv].
  - intros H. injection H as <-.
    split; [symmetry; apply filter_all; reflexivity|].
    split; [symmetry; apply filter_all; reflexivity|]. repeat split.
  - cbn [gk_delete_appointments]. intros H. injection H as <-. repeat split.
Qed.

Lemma keys_of_cache_block hash txs : keys_of (ib_data (cache_block hash txs)) = txs.
Proof.
  unfold cache_block, keys_of. cbn [ib_data]. rewrite map_map. cbn [fst]. apply map_id.
Qed.

Lemma find_app_deleted apps us u :
  mem_uuid u us = true -> find_app (filter (fun a => negb (mem_uuid (app_uuid a) us)) apps) u = None.
Proof.
  intros Hm. apply find_app_None_iff. intros Hin. apply in_map_iff in Hin. destruct Hin as [a [Hu Ha]].
  apply filter_In in Ha. destruct Ha as [_ Ha]. rewrite Hu, Hm in Ha. discriminate.
Qed.

Lemma find_trk_deleted trks us u :
  mem_uuid u us = true -> find_trk (filter (fun k => negb (mem_uuid (trk_uuid k) us)) trks) u = None.
Proof.
  intros Hm. apply find_trk_None_iff. intros Hin. apply in_map_iff in Hin. destruct Hin as [a [Hu Ha]].
  apply filter_In in Ha. destruct Ha as [_ Ha]. rewrite Hu, Hm in Ha. discriminate.
Qed.

Lemma w_block_connected_inner sc t hash txs h t' :
  NoDup (map app_uuid (db_apps t)) ->
  w_block_connected sc t (cache_block hash txs) h = Ok tt t' ->
  exists c inv t2,
    ti_update (w_cache t) (cache_block hash txs) = Some c /\
    Ext sc (set_w_cache t c) (fun d => In d txs) t2 /\
    (forall a, In a (db_apps t) -> In (a_loc a) txs -> row_outcome sc (set_w_cache t c) t2 inv a) /\
    (forall u, In u inv -> exists a, In a (db_apps t) /\ app_uuid a = u /\ In (a_loc a) txs /\
                                     row_invalid sc (set_w_cache t c) a) /\
    db_apps t' = filter (fun a => negb (mem_uuid (app_uuid a) inv)) (db_apps t) /\
    db_trks t' = filter (fun k => negb (mem_uuid (trk_uuid k) inv)) (db_trks t2) /\
    same_but_rows t2 t' /\ w_height t' = h.
Proof.
  intros Hnd. unfold w_block_connected.
  destruct (ti_update (w_cache t) (cache_block hash txs)) as [c|]; [|discriminate].
  rewrite keys_of_cache_block. cbn [db_apps set_w_cache].
  set (t1 := set_w_cache t c).
  set (ds := filter (fun d => existsb (fun a => N.eqb (a_loc a) d) (db_apps t)) txs).
  destruct (breach_loop sc ds t1 []) as [inv t2|] eqn:El; cbn [bind]; [|discriminate].
  assert (HD : forall d, In d ds -> In d txs) by (intros d Hd; apply filter_In in Hd; apply Hd).
  destruct (breach_loop_spec sc t1 (fun d => In d txs) Hnd ds t1 [] inv t2 (ext_refl sc t1 _) HD El)
    as [E2 [Hg [_ [Hall Hinv]]]].
  destruct (match inv with [] => Ok tt t2 | _ :: _ => gk_delete_appointments t2 inv false end) as [[] t3|] eqn:Edel;
    cbn [bind]; [|discriminate].
  apply delete_invalid_spec in Edel. destruct Edel as [Ha3 [Hk3 [Hs3 Hw3]]].
  intros H. injection H as <-.
  exists c, inv, t2. split; [reflexivity|]. split; [exact E2|].
  assert (Happs : db_apps t = db_apps t2) by apply (ext_core sc t1 _ t2 E2).
  split; [|split; [|split; [|split; [|split]]]].
  - intros a Ha Hl. apply Hall; [exact Ha|]. apply filter_In. split; [exact Hl|].
    apply existsb_exists. exists a. split; [exact Ha|apply N.eqb_refl].
  - intros u Hu. destruct (Hinv u Hu) as [[]|[a [Ha [Hua [Hl Hri]]]]].
    exists a. repeat split; auto.
  - cbn [db_apps set_w_height]. rewrite Ha3, <- Happs. reflexivity.
  - cbn [db_trks set_w_height]. exact Hk3.
  - unfold same_but_rows in *. cbn. exact Hs3.
  - reflexivity.
Qed.

(* what the theorem says about one breached row *)
Definition penalty_handled (sc : script) (t t' : tower) (p : N) : Prop :=
  ti_get (r_index t) p <> None \/                                            (* found in the responder's index *)
  (In (ev_getraw p true) (rpc_log t') /\ says_in_mempool sc p = true) \/     (* the node has it in its mempool *)
  (exists r, In (ev_send p r) (rpc_log t')) \/                               (* submitted in this step *)
  aget (car_memo t) p <> None.                                               (* submitted earlier in this block period *)

Definition responded (t' : tower) (uuid : N * N) (d p : N) (s : cstatus) : Prop :=
  exists k, In k (db_trks t') /\ trk_uuid k = uuid /\ t_dispute k = d /\ t_penalty k = p /\ status_of_row k = s.

Definition dropped (t' : tower) (uuid : N * N) : Prop :=
  find_app (db_apps t') uuid = None /\ find_trk (db_trks t') uuid = None.

(* the rows of the appointments table that survive the block *)
Definition survives_block (sc : script) (t : tower) (txs : list N) (a : app) : bool :=
  if memN (a_loc a) txs then
    match decrypt (a_blob a) (a_loc a) with
    | None => false
    | Some p => negb (status_rejected (breach_status sc t p))
    end
  else true.

Theorem w_block_connected_breaches sc t hash txs h t' :
  Inv t ->
  w_block_connected sc t (cache_block hash txs) h = Ok tt t' ->
  forall a, In a (db_apps t) -> memN (a_loc a) txs = true -> find_trk (db_trks t) (app_uuid a) = None ->
  match decrypt (a_blob a) (a_loc a) with
  | None => dropped t' (app_uuid a)
  | Some p =>
      let s := breach_status sc t p in
      penalty_handled sc t t' p /\
      (status_accepted s = true -> In a (db_apps t') /\ responded t' (app_uuid a) (a_loc a) p s) /\
      (status_rejected s = true -> dropped t' (app_uuid a)) /\
      (status_accepted s = false -> status_rejected s = false ->
       In a (db_apps t') /\ find_trk (db_trks t') (app_uuid a) = None)
  end.
Proof.
  intros HI Hw a Ha Hl Hnt. pose proof (inv_apps_nodup t HI) as Hnd.
  destruct (w_block_connected_inner sc t hash txs h t' Hnd Hw)
    as [c [inv [t2 [_ [E2 [Hall [Hinv [Happs [Htrks [Hrest Hh]]]]]]]]]].
  apply memN_In in Hl. specialize (Hall a Ha Hl). unfold row_outcome in Hall.
  assert (Hlog : rpc_log t2 = rpc_log t') by apply Hrest.
  (* membership in the list of invalid appointments is decided by the row *)
  assert (Hin_inv : In (app_uuid a) inv -> row_invalid sc (set_w_cache t c) a).
  { intros Hi. destruct (Hinv _ Hi) as [a' [Ha' [Hu [_ Hri]]]].
    rewrite (app_uuid_inj _ a a' Hnd Ha Ha' (eq_sym Hu)). exact Hri. }
  assert (Hdrop : In (app_uuid a) inv -> dropped t' (app_uuid a)).
  { intros Hi. apply mem_uuid_In in Hi. split; [rewrite Happs; apply find_app_deleted|rewrite Htrks; apply find_trk_deleted]; exact Hi. }
  assert (Hstay : ~ In (app_uuid a) inv -> In a (db_apps t')).
  { intros Hn. rewrite Happs. apply filter_In. split; [exact Ha|].
    destruct (mem_uuid (app_uuid a) inv) eqn:Em; [apply mem_uuid_In in Em; contradiction|reflexivity]. }
  (* trackers with this uuid after the breach phase were made from this row *)
  destruct (ext_trks _ _ _ _ E2) as [new [Hnew Hmade]]. cbn [db_trks set_w_cache] in Hnew.
  assert (Hmine : forall k, In k (db_trks t2) -> trk_uuid k = app_uuid a ->
                            made_from sc (set_w_cache t c) (fun d => In d txs) k a).
  { intros k Hk Hu. rewrite Hnew in Hk. apply in_app_or in Hk. destruct Hk as [Hk|Hk].
    - exfalso. apply (find_trk_None _ _ Hnt). rewrite <- Hu. apply in_map. exact Hk.
    - destruct (Hmade k Hk) as [a' [Ha' Hm]]. cbn [db_apps set_w_cache] in Ha'.
      assert (a' = a).
      { apply (app_uuid_inj _ a' a Hnd Ha' Ha). destruct Hm as [_ [Hm _]]. congruence. }
      subst a'. exact Hm. }
  unfold row_invalid in Hin_inv.
  destruct (decrypt (a_blob a) (a_loc a)) as [p|] eqn:Edec; [|apply Hdrop; exact Hall].
  change (breach_status sc (set_w_cache t c) p) with (breach_status sc t p) in *.
  cbv zeta. destruct Hall as [[Hev Hacc] Hrej].
  split; [|split; [|split]].
  - unfold penalty_handled. rewrite <- Hlog. exact Hev.
  - intros Hs. assert (Hn : ~ In (app_uuid a) inv).
    { intros Hi. specialize (Hin_inv Hi). rewrite (accepted_not_rejected _ Hs) in Hin_inv. discriminate. }
    split; [apply Hstay; exact Hn|].
    destruct (Hacc Hs) as [k [Hk Hu]]. exists k.
    destruct (Hmine k Hk Hu) as [_ [_ [Hd [Hp [Hst _]]]]].
    assert (Hpk : t_penalty k = p) by congruence.
    split; [|repeat split; [exact Hu|exact Hd|exact Hpk|rewrite <- Hpk; exact Hst]].
    rewrite Htrks. apply filter_In. split; [exact Hk|]. rewrite Hu.
    destruct (mem_uuid (app_uuid a) inv) eqn:Em; [apply mem_uuid_In in Em; contradiction|reflexivity].
  - intros Hs. apply Hdrop, Hrej, Hs.
  - intros Hna Hnr. assert (Hn : ~ In (app_uuid a) inv).
    { intros Hi. specialize (Hin_inv Hi). congruence. }
    split; [apply Hstay; exact Hn|].
    apply find_trk_None_iff. intros Hi. apply in_map_iff in Hi. destruct Hi as [k [Hu Hk]].
    rewrite Htrks in Hk. apply filter_In in Hk. destruct Hk as [Hk _].
    destruct (Hmine k Hk Hu) as [_ [_ [_ [Hp [_ [Hst _]]]]]].
    assert (Hpk : t_penalty k = p) by congruence. rewrite Hpk in Hst.
    change (breach_status sc (set_w_cache t c) p) with (breach_status sc t p) in Hst. congruence.
Qed.

(* frame: the appointments table after the block is exactly the rows that were not dropped (in
   particular every row whose locator is not in the block is untouched); users are untouched;
   trackers of other locators are untouched; the only new trackers are made from breached rows;
   every RPC of the listener concerns the decrypted penalty of a breached row. *)
Theorem w_block_connected_frame sc t hash txs h t' :
  Inv t ->
  w_block_connected sc t (cache_block hash txs) h = Ok tt t' ->
  db_apps t' = filter (survives_block sc t txs) (db_apps t) /\
  db_users t' = db_users t /\ gk_users t' = gk_users t /\ cfg t' = cfg t /\ gk_height t' = gk_height t /\
  r_index t' = r_index t /\ car_height t' = car_height t /\ reorged t' = reorged t /\ w_height t' = h /\
  (forall k, In k (db_trks t) -> memN (t_loc k) txs = false -> In k (db_trks t')) /\
  (forall k, In k (db_trks t') ->
             In k (db_trks t) \/ exists a, In a (db_apps t) /\ made_from sc t (fun d => In d txs) k a) /\
  (exists evs, rpc_log t' = evs ++ rpc_log t /\
               forall e, In e evs -> exists a, In a (db_apps t) /\ In (a_loc a) txs /\
                                               decrypt (a_blob a) (a_loc a) = Some (r_tx e)).
Proof.
  intros HI Hw. pose proof (inv_apps_nodup t HI) as Hnd.
  destruct (w_block_connected_inner sc t hash txs h t' Hnd Hw)
    as [c [inv [t2 [_ [E2 [Hall [Hinv [Happs [Htrks [Hrest Hh]]]]]]]]]].
  pose proof (ext_core _ _ _ _ E2) as Hc. unfold same_core in Hc. cbn in Hc.
  unfold same_but_rows in Hrest.
  assert (Hin_inv : forall a, In a (db_apps t) -> In (app_uuid a) inv ->
                              In (a_loc a) txs /\ row_invalid sc (set_w_cache t c) a).
  { intros a Ha Hi. destruct (Hinv _ Hi) as [a' [Ha' [Hu [Hl Hri]]]].
    rewrite (app_uuid_inj _ a a' Hnd Ha Ha' (eq_sym Hu)). split; assumption. }
  split; [|repeat split; try (intuition congruence)].
  - rewrite Happs. apply filter_ext_in. intros a Ha. unfold survives_block.
    destruct (memN (a_loc a) txs) eqn:Em.
    + apply memN_In in Em. specialize (Hall a Ha Em). unfold row_outcome in Hall.
      specialize (Hin_inv a Ha). unfold row_invalid in Hin_inv.
      destruct (decrypt (a_blob a) (a_loc a)) as [p|].
      * change (breach_status sc (set_w_cache t c) p) with (breach_status sc t p) in *.
        destruct Hall as [_ Hrej].
        destruct (status_rejected (breach_status sc t p)) eqn:Er.
        -- specialize (Hrej eq_refl). apply mem_uuid_In in Hrej. rewrite Hrej. reflexivity.
        -- destruct (mem_uuid (app_uuid a) inv) eqn:Eu; [|reflexivity].
           apply mem_uuid_In in Eu. destruct (Hin_inv Eu). discriminate.
      * apply mem_uuid_In in Hall. rewrite Hall. reflexivity.
    + destruct (mem_uuid (app_uuid a) inv) eqn:Eu; [|reflexivity].
      apply mem_uuid_In in Eu. destruct (Hin_inv a Ha Eu) as [Hl _].
      apply memN_In in Hl. congruence.
  - intros k Hk Hm. rewrite Htrks. apply filter_In. split.
    + destruct (ext_trks _ _ _ _ E2) as [new [Hnew _]]. rewrite Hnew. apply in_or_app. left. exact Hk.
    + destruct (mem_uuid (trk_uuid k) inv) eqn:Eu; [|reflexivity].
      apply mem_uuid_In in Eu. destruct (Hinv _ Eu) as [a [_ [Hu [Hl _]]]].
      apply memN_In in Hl. assert (a_loc a = t_loc k) by (unfold app_uuid, trk_uuid in Hu; congruence). congruence.
  - intros k Hk. rewrite Htrks in Hk. apply filter_In in Hk. destruct Hk as [Hk _].
    destruct (ext_trks _ _ _ _ E2) as [new [Hnew Hmade]]. rewrite Hnew in Hk.
    apply in_app_or in Hk. destruct Hk as [Hk|Hk]; [left; exact Hk|right].
    destruct (Hmade k Hk) as [a [Ha Hm]]. exists a. split; [exact Ha|exact Hm].
  - destruct (ext_log _ _ _ _ E2) as [evs [Hl Hj]]. exists evs. split.
    + destruct Hrest as [_ [_ [_ [_ [_ [_ [_ [_ [_ Hlog]]]]]]]]]. rewrite <- Hlog. exact Hl.
    + intros e He. destruct (Hj e He) as [a [Ha [Hd Hp]]]. exists a. repeat split; assumption.
Qed.

(* ------------------------------------------------------------------------------------------ *)
(* 4. Watcher, late-appointment path: add_appointment with the dispute already in the cache *)

(* everything but the users (memory and table) *)
Definition same_but_users (t t' : tower) : Prop :=
  cfg t = cfg t' /\ gk_height t = gk_height t' /\ db_apps t = db_apps t' /\ db_trks t = db_trks t' /\
  w_height t = w_height t' /\ w_cache t = w_cache t' /\ r_index t = r_index t' /\ car_height t = car_height t' /\
  car_memo t = car_memo t' /\ reorged t = reorged t' /\ rpc_log t = rpc_log t'.

Lemma add_update_appointment_spec t u uuid blen r t1 :
  gk_add_update_appointment t u uuid blen = Ok r t1 ->
  same_but_users t t1 /\ (r = None -> t1 = t).
Proof.
  unfold gk_add_update_appointment. destruct (gk_get t u) as [ui|]; [|intros H; injection H as <- <-; split; [repeat split|reflexivity]].
  match goal with |- context [if ?c then _ else _] => destruct c end; intros H; injection H as <- <-.
  - split; [repeat split|discriminate].
  - split; [repeat split|reflexivity].
Qed.

(* the charge rewrites a row of table users, it never adds or removes one *)
Lemma charge_keeps_rows t u uuid blen r t1 :
  gk_add_update_appointment t u uuid blen = Ok r t1 -> forall v, amem (db_users t1) v = amem (db_users t) v.
Proof.
  unfold gk_add_update_appointment. destruct (gk_get t u) as [ui|]; [|intros H; injection H as <- <-; reflexivity].
  match goal with |- context [if ?c then _ else _] => destruct c end; intros H; injection H as <- <-; intros v; [|reflexivity].
  unfold p_set_user, db_update_user. cbn [db_users set_db_users gk_put set_gk_users]. apply amem_update_user.
Qed.

(* the appointments table after store_appointment(a) *)
Definition store_row (apps : list app) (a : app) : list app :=
  match find_app apps (app_uuid a) with
  | Some _ => map (fun x => if uuid_eqb (app_uuid x) (app_uuid a) then a else x) apps
  | None => apps ++ [a]
  end.

Lemma store_appointment_spec t a t' :
  w_store_ok t a = true ->
  w_store_appointment t a = Ok tt t' -> t' = set_db_apps t (store_row (db_apps t) a).
Proof.
  unfold w_store_ok, w_store_appointment, store_row, p_update_app, p_insert_app.
  destruct (find_app (db_apps t) (app_uuid a)); [intros _ H; injection H as <-; reflexivity|].
  destruct (amem (db_users t) (a_user a)); [intros _ H; injection H as <-; reflexivity|discriminate].
Qed.

(* nothing is stored when the owner's row is gone *)
Lemma store_appointment_unknown t a : w_store_ok t a = false -> w_store_appointment t a = Ok tt t.
Proof.
  unfold w_store_ok, w_store_appointment. destruct (find_app (db_apps t) (app_uuid a)); [discriminate|].
  intros ->. reflexivity.
Qed.

Lemma find_app_map f apps u :
  (forall x, app_uuid (f x) = app_uuid x) -> find_app (map f apps) u = option_map f (find_app apps u).
Proof.
  intros Hf. unfold find_app. induction apps as [|x apps IH]; cbn [map find]; [reflexivity|].
  rewrite Hf. destruct (uuid_eqb (app_uuid x) u); [reflexivity|exact IH].
Qed.

Lemma find_app_app l1 l2 u :
  find_app (l1 ++ l2) u = match find_app l1 u with Some x => Some x | None => find_app l2 u end.
Proof.
  unfold find_app. induction l1 as [|x l1 IH]; cbn [List.app find]; [reflexivity|].
  destruct (uuid_eqb (app_uuid x) u); [reflexivity|exact IH].
Qed.

Lemma uuid_eqb_neq a b : uuid_eqb a b = false <-> a <> b.
Proof.
  split.
  - intros H He. apply uuid_eqb_eq in He. congruence.
  - intros H. destruct (uuid_eqb a b) eqn:E; [apply uuid_eqb_eq in E; contradiction|reflexivity].
Qed.

Lemma find_app_store apps a u :
  find_app (store_row apps a) u = if uuid_eqb (app_uuid a) u then Some a else find_app apps u.
Proof.
  unfold store_row. destruct (find_app apps (app_uuid a)) as [a0|] eqn:Ef.
  - rewrite find_app_map.
    2: { intros x. destruct (uuid_eqb (app_uuid x) (app_uuid a)) eqn:E; [apply uuid_eqb_eq in E; congruence|reflexivity]. }
    destruct (uuid_eqb (app_uuid a) u) eqn:E.
    + apply uuid_eqb_eq in E. subst u. rewrite Ef. cbn [option_map].
      apply find_app_Some in Ef. destruct Ef as [_ Ef]. rewrite Ef, uuid_eqb_refl. reflexivity.
    + destruct (find_app apps u) as [x|] eqn:Ex; [|reflexivity]. cbn [option_map].
      apply find_app_Some in Ex. destruct Ex as [_ Ex]. rewrite Ex.
      destruct (uuid_eqb u (app_uuid a)) eqn:E2; [apply uuid_eqb_eq in E2; apply uuid_eqb_neq in E; congruence|reflexivity].
  - rewrite find_app_app. unfold find_app at 2. cbn [find].
    destruct (uuid_eqb (app_uuid a) u) eqn:E.
    + apply uuid_eqb_eq in E. subst u. rewrite Ef. reflexivity.
    + destruct (find_app apps u); reflexivity.
Qed.

Lemma In_store_old apps a x : In x apps -> app_uuid x <> app_uuid a -> In x (store_row apps a).
Proof.
  intros Hi Hn. unfold store_row. destruct (find_app apps (app_uuid a)).
  - apply in_map_iff. exists x. split; [|exact Hi]. apply uuid_eqb_neq in Hn. rewrite Hn. reflexivity.
  - apply in_or_app. left. exact Hi.
Qed.

Lemma In_store_inv apps a x : In x (store_row apps a) -> x = a \/ (In x apps /\ app_uuid x <> app_uuid a).
Proof.
  unfold store_row. destruct (find_app apps (app_uuid a)) eqn:Ef.
  - intros Hi. apply in_map_iff in Hi. destruct Hi as [y [Hy Hi]].
    destruct (uuid_eqb (app_uuid y) (app_uuid a)) eqn:E; [left; congruence|right].
    subst y. split; [exact Hi|apply uuid_eqb_neq; exact E].
  - intros Hi. apply in_app_or in Hi. destruct Hi as [Hi|[<-|[]]]; [right|left; reflexivity].
    split; [exact Hi|]. intros He. apply (find_app_None _ _ Ef). rewrite <- He. apply in_map. exact Hi.
Qed.

(* rows and trackers of other uuids are exactly those of before *)
Definition others_kept (t t' : tower) (uuid : N * N) : Prop :=
  (forall a, app_uuid a <> uuid -> (In a (db_apps t) <-> In a (db_apps t'))) /\
  (forall k, trk_uuid k <> uuid -> (In k (db_trks t) <-> In k (db_trks t'))).

Lemma In_delete_one_app apps uuid a :
  In a (filter (fun x => negb (mem_uuid (app_uuid x) [uuid])) apps) <-> In a apps /\ app_uuid a <> uuid.
Proof.
  rewrite filter_In. unfold mem_uuid. cbn [existsb]. rewrite orb_false_r, negb_true_iff, uuid_eqb_neq. reflexivity.
Qed.

Lemma In_delete_one_trk trks uuid k :
  In k (filter (fun x => negb (mem_uuid (trk_uuid x) [uuid])) trks) <-> In k trks /\ trk_uuid k <> uuid.
Proof.
  rewrite filter_In. unfold mem_uuid. cbn [existsb]. rewrite orb_false_r, negb_true_iff, uuid_eqb_neq. reflexivity.
Qed.

Lemma authenticate_Some' t signer u : authenticate t signer = Some u -> signer = Some u.
Proof.
  unfold authenticate. destruct signer as [v|]; [|discriminate].
  destruct (amem (gk_users t) v); [|discriminate]. intros H. injection H as ->. reflexivity.
Qed.

(* was the appointment stored (or dropped as undecryptable), or is its owner's row gone? *)
Definition stored_flag (t t1 : tower) (loc : N) (b : blob) (a : app) : bool :=
  match ti_get (w_cache t) loc with
  | Some d => match decrypt b d with Some _ => w_store_ok t1 a | None => true end
  | None => w_store_ok t1 a
  end.

(* the shape of add_appointment: refused with nothing changed; or accepted: charged, then stored / handed over;
   or - only when the gatekeeper knows a user whose row is not in table users, which no reachable state
   allows - charged and refused because the row cannot be stored *)
Lemma w_add_appointment_inner sc t signer loc b delay sig r t' :
  w_add_appointment sc t signer loc b delay sig = Ok r t' ->
  (t' = t /\ match r with AddOk _ _ _ _ => False | _ => True end) \/
  (exists u ui av t1,
    signer = Some u /\ gk_get t u = Some ui /\ gk_height t < u_expiry ui /\
    find_trk (db_trks t) (loc, u) = None /\
    same_but_users t t1 /\
    r = AddOk (w_height t) sig av (u_expiry ui) /\
    (match ti_get (w_cache t) loc with
     | Some d => w_store_triggered sc t1 (mk_app loc u b delay sig (w_height t)) d
     | None => w_store_appointment t1 (mk_app loc u b delay sig (w_height t))
     end) = Ok tt t' /\
    stored_flag t t1 loc b (mk_app loc u b delay sig (w_height t)) = true) \/
  (exists u t1,
    signer = Some u /\ amem (gk_users t) u = true /\ amem (db_users t) u = false /\
    same_but_users t t1 /\ t' = t1 /\ r = AddAuthOrSlots).
Proof.
  unfold w_add_appointment.
  destruct (authenticate t signer) as [u|] eqn:Ea; [|intros H; injection H as <- <-; left; split; [reflexivity|exact I]].
  pose proof (authenticate_Some _ _ _ Ea) as [_ Hmem]. apply authenticate_Some' in Ea.
  destruct (gk_get t u) as [ui|] eqn:Eg; [|intros H; injection H as <- <-; left; split; [reflexivity|exact I]].
  destruct (N.leb (u_expiry ui) (gk_height t)) eqn:El; [intros H; injection H as <- <-; left; split; [reflexivity|exact I]|].
  apply N.leb_gt in El.
  destruct (find_trk (db_trks t) (loc, u)) eqn:Ek; [intros H; injection H as <- <-; left; split; [reflexivity|exact I]|].
  destruct (gk_add_update_appointment t u (loc, u) (b_len b)) as [charged t1|] eqn:Ec; cbn [bind]; [|discriminate].
  pose proof (charge_keeps_rows _ _ _ _ _ _ Ec) as Hrows.
  apply add_update_appointment_spec in Ec. destruct Ec as [Hsame Hnone].
  destruct charged as [av|]; [|intros H; injection H as <- <-; left; split; [apply Hnone; reflexivity|exact I]].
  assert (Hc : w_cache t = w_cache t1) by apply Hsame. rewrite <- Hc.
  cbn [a_start]. cbv zeta.
  set (a := mk_app loc u b delay sig (w_height t)).
  fold (stored_flag t t1 loc b a).
  destruct (stored_flag t t1 loc b a) eqn:Esf.
  - match goal with |- bind ?X _ = _ -> _ => destruct X as [[] t2|] eqn:Est end; cbn [bind]; [|discriminate].
    intros H. injection H as <- <-. right. left. exists u, ui, av, t1.
    split; [exact Ea|]. split; [exact Eg|]. split; [exact El|]. split; [exact Ek|].
    split; [exact Hsame|]. split; [reflexivity|]. split; [exact Est|exact Esf].
  - (* not stored: the owner's row is gone; nothing but the charge happened *)
    assert (Hno : w_store_ok t1 a = false).
    { unfold stored_flag in Esf. destruct (ti_get (w_cache t) loc) as [d|]; [destruct (decrypt b d); [exact Esf|discriminate]|exact Esf]. }
    assert (Hst : (match ti_get (w_cache t) loc with
                   | Some d => w_store_triggered sc t1 a d
                   | None => w_store_appointment t1 a
                   end) = Ok tt t1).
    { unfold stored_flag in Esf. destruct (ti_get (w_cache t) loc) as [d|].
      - unfold w_store_triggered. change (a_blob a) with b. destruct (decrypt b d); [rewrite Hno; reflexivity|discriminate].
      - apply store_appointment_unknown. exact Hno. }
    rewrite Hst. cbn [bind]. intros H. injection H as <- <-. right. right. exists u, t1.
    split; [exact Ea|]. split; [exact Hmem|]. split; [|split; [exact Hsame|split; reflexivity]].
    unfold w_store_ok in Hno. destruct (find_app (db_apps t1) (app_uuid a)); [discriminate|].
    change (a_user a) with u in Hno. rewrite Hrows in Hno. exact Hno.
Qed.

(* store_triggered_appointment for a row that has no tracker yet *)
Lemma store_triggered_spec sc t1 a d t' :
  find_trk (db_trks t1) (app_uuid a) = None ->
  (decrypt (a_blob a) d <> None -> w_store_ok t1 a = true) ->
  w_store_triggered sc t1 a d = Ok tt t' ->
  same_but_rows t1 (set_rpc_log (set_car_memo t' (car_memo t1)) (rpc_log t1)) /\ w_height t' = w_height t1 /\
  others_kept t1 t' (app_uuid a) /\
  match decrypt (a_blob a) d with
  | None => dropped t' (app_uuid a) /\ rpc_log t' = rpc_log t1 /\ car_memo t' = car_memo t1
  | Some p =>
      let s := breach_status sc t1 p in
      rpc_log t' = breach_events sc t1 p ++ rpc_log t1 /\ car_memo t' = breach_memo sc t1 p /\
      (status_accepted s = true ->
       find_app (db_apps t') (app_uuid a) = Some a /\ responded t' (app_uuid a) d p s) /\
      (status_rejected s = true -> dropped t' (app_uuid a)) /\
      (status_accepted s = false -> status_rejected s = false ->
       find_app (db_apps t') (app_uuid a) = Some a /\ find_trk (db_trks t') (app_uuid a) = None)
  end.
Proof.
  intros Hnt Hok. unfold w_store_triggered.
  destruct (decrypt (a_blob a) d) as [p|].
  - assert (Hok' : w_store_ok t1 a = true) by (apply Hok; discriminate). rewrite Hok'.
    destruct (w_store_appointment t1 a) as [[] t2|] eqn:Est; cbn [bind]; [|discriminate].
    apply (store_appointment_spec _ _ _ Hok') in Est. subst t2.
    set (t2 := set_db_apps t1 (store_row (db_apps t1) a)).
    destruct (r_handle_breach sc t2 (app_uuid a) d p) as [s t3|] eqn:Er; cbn [bind]; [|discriminate].
    apply handle_breach_spec in Er. destruct Er as [Hs [Hc [Hl [Hm Hk]]]].
    change (breach_status sc t2 p) with (breach_status sc t1 p) in Hs.
    change (breach_events sc t2 p) with (breach_events sc t1 p) in Hl.
    change (breach_memo sc t2 p) with (breach_memo sc t1 p) in Hm.
    change (rpc_log t2) with (rpc_log t1) in Hl.
    assert (Hfa : find_app (db_apps t2) (app_uuid a) = Some a).
    { cbn [t2 db_apps set_db_apps]. rewrite find_app_store, uuid_eqb_refl. reflexivity. }
    unfold breach_trks in Hk. change (db_trks t2) with (db_trks t1) in Hk. rewrite Hnt, Hfa in Hk.
    assert (Ha3 : db_apps t3 = store_row (db_apps t1) a) by (symmetry; apply Hc).
    unfold same_core in Hc. cbn [t2 cfg gk_users gk_height db_users db_apps w_height w_cache r_index car_height reorged set_db_apps] in Hc.
    rewrite <- Hs.
    (* the rows / trackers of other uuids after handle_breach *)
    assert (Hoth3 : others_kept t1 t3 (app_uuid a)).
    { split.
      - intros x Hx. rewrite Ha3. split; [intros Hi; apply In_store_old; assumption|].
        intros Hi. apply In_store_inv in Hi. destruct Hi as [->|[Hi _]]; [contradiction|exact Hi].
      - intros k Hku. rewrite Hk. destruct (status_accepted s); [|reflexivity].
        split; [intros Hi; apply in_or_app; left; exact Hi|].
        intros Hi. apply in_app_or in Hi. destruct Hi as [Hi|[<-|[]]]; [exact Hi|].
        rewrite new_trk_uuid in Hku. contradiction. }
    destruct (status_rejected s) eqn:Hrej.
    + cbn [gk_delete_appointments]. intros H. injection H as <-.
      split; [unfold same_but_rows; cbn; intuition congruence|].
      split; [cbn; symmetry; apply Hc|].
      split.
      { destruct Hoth3 as [H1 H2]. split.
        - intros x Hx. cbn [db_apps db_delete_apps set_db_apps set_db_trks]. rewrite In_delete_one_app, (H1 x Hx). tauto.
        - intros k Hku. cbn [db_trks db_delete_apps set_db_apps set_db_trks]. rewrite In_delete_one_trk, (H2 k Hku). tauto. }
      split; [exact Hl|]. split; [exact Hm|].
      split; [intros Ha; rewrite (accepted_not_rejected _ Ha) in Hrej; discriminate|].
      split; [|intros _ H; discriminate].
      intros _. split.
      * cbn [db_apps db_delete_apps set_db_apps set_db_trks]. apply find_app_deleted. cbn. rewrite uuid_eqb_refl. reflexivity.
      * cbn [db_trks db_delete_apps set_db_apps set_db_trks]. apply find_trk_deleted. cbn. rewrite uuid_eqb_refl. reflexivity.
    + intros H. injection H as <-.
      split; [unfold same_but_rows; cbn; intuition congruence|].
      split; [symmetry; apply Hc|]. split; [exact Hoth3|].
      split; [exact Hl|]. split; [exact Hm|].
      rewrite Ha3, find_app_store, uuid_eqb_refl.
      split; [|split; [intros H; discriminate|]].
      * intros Ha. split; [reflexivity|]. rewrite Ha in Hk.
        exists (new_trk (app_uuid a) d p s). split; [rewrite Hk; apply in_or_app; right; left; reflexivity|].
        split; [apply new_trk_uuid|]. repeat split. apply status_of_new_trk. exact Ha.
      * intros Ha _. split; [reflexivity|]. rewrite Ha in Hk. rewrite Hk. exact Hnt.
  - destruct (find_app (db_apps t1) (app_uuid a)) eqn:Ef.
    + cbn [gk_delete_appointments]. intros H. injection H as <-.
      split; [repeat split|]. split; [reflexivity|]. split.
      { split.
        - intros x Hx. cbn [db_apps db_delete_apps set_db_apps set_db_trks]. rewrite In_delete_one_app. tauto.
        - intros k Hku. cbn [db_trks db_delete_apps set_db_apps set_db_trks]. rewrite In_delete_one_trk. tauto. }
      split; [|split; reflexivity]. split.
      * cbn [db_apps db_delete_apps set_db_apps set_db_trks]. apply find_app_deleted. cbn. rewrite uuid_eqb_refl. reflexivity.
      * cbn [db_trks db_delete_apps set_db_apps set_db_trks]. apply find_trk_deleted. cbn. rewrite uuid_eqb_refl. reflexivity.
    + intros H. injection H as <-.
      split; [repeat split|]. split; [reflexivity|]. split; [split; intros; reflexivity|].
      split; [split; assumption|split; reflexivity].
Qed.

Lemma penalty_handled_of_events sc t t' p :
  rpc_log t' = breach_events sc t p ++ rpc_log t -> penalty_handled sc t t' p.
Proof.
  intros Hl. unfold penalty_handled. rewrite Hl.
  destruct (breach_events_evidence sc t p) as [He|[[He Hs]|[[r He]|He]]].
  - left. exact He.
  - right. left. split; [apply in_or_app; left; exact He|exact Hs].
  - right. right. left. exists r. apply in_or_app. left. exact He.
  - right. right. right. exact He.
Qed.

(* C01, late path: the dispute of the submitted locator is in the watcher's cache.  Before the
   request is answered the penalty has been handled; what is left of the appointment afterwards
   is decided by the verdict on the penalty's txid. *)
Theorem add_appointment_triggered sc t signer loc b delay sig d r t' :
  (forall u, user_row_ok t u) ->
  ti_get (w_cache t) loc = Some d ->
  w_add_appointment sc t signer loc b delay sig = Ok r t' ->
  match r with
  | AddOk st sg sl e =>
      exists u, signer = Some u /\ st = w_height t /\ sg = sig /\
        let a := mk_app loc u b delay sig (w_height t) in
        find_trk (db_trks t) (loc, u) = None /\
        others_kept t t' (loc, u) /\
        match decrypt b d with
        | None => dropped t' (loc, u) /\ rpc_log t' = rpc_log t
        | Some p =>
            let s := breach_status sc t p in
            rpc_log t' = breach_events sc t p ++ rpc_log t /\
            penalty_handled sc t t' p /\
            (status_accepted s = true -> find_app (db_apps t') (loc, u) = Some a /\ responded t' (loc, u) d p s) /\
            (status_rejected s = true -> dropped t' (loc, u)) /\
            (status_accepted s = false -> status_rejected s = false ->
             find_app (db_apps t') (loc, u) = Some a /\ find_trk (db_trks t') (loc, u) = None)
        end
  | _ => t' = t
  end.
Proof.
  intros Hrow Hc Hw. apply w_add_appointment_inner in Hw.
  destruct Hw as [[-> Hr]|[[u [ui [av [t1 [Hs [Hg [He [Hnt [Hsame [-> [Hst Hok]]]]]]]]]]]|[u [t1 [_ [Hm [Hn _]]]]]]].
  - destruct r; [contradiction|reflexivity..].
  - unfold stored_flag in Hok. rewrite Hc in Hst, Hok. exists u. split; [exact Hs|]. split; [reflexivity|]. split; [reflexivity|].
    cbv zeta. split; [exact Hnt|].
    unfold same_but_users in Hsame.
    assert (Hk1 : db_trks t = db_trks t1) by apply Hsame.
    assert (Ha1 : db_apps t = db_apps t1) by apply Hsame.
    assert (Hl1 : rpc_log t = rpc_log t1) by apply Hsame.
    set (a := mk_app loc u b delay sig (w_height t)) in *.
    assert (Hnt1 : find_trk (db_trks t1) (app_uuid a) = None) by (rewrite <- Hk1; exact Hnt).
    assert (Hok1 : decrypt (a_blob a) d <> None -> w_store_ok t1 a = true).
    { change (a_blob a) with b. destruct (decrypt b d); [intros _; exact Hok|intros H; contradiction]. }
    destruct (store_triggered_spec sc t1 a d t' Hnt1 Hok1 Hst) as [_ [_ [Hoth Hcase]]].
    change (app_uuid a) with (loc, u) in *. change (a_blob a) with b in Hcase.
    split; [unfold others_kept in *; rewrite Ha1, Hk1; exact Hoth|].
    destruct (decrypt b d) as [p|].
    + assert (Hbs : breach_status sc t1 p = breach_status sc t p).
      { apply breach_status_core; symmetry; apply Hsame. }
      assert (Hbe : breach_events sc t1 p = breach_events sc t p).
      { unfold breach_events, send_status.
        replace (r_index t1) with (r_index t) by apply Hsame.
        replace (car_memo t1) with (car_memo t) by apply Hsame.
        replace (car_height t1) with (car_height t) by apply Hsame. reflexivity. }
      cbv zeta in Hcase. rewrite Hbs, Hbe, <- Hl1 in Hcase.
      destruct Hcase as [Hl [_ Hrest]]. split; [exact Hl|].
      split; [apply penalty_handled_of_events; exact Hl|exact Hrest].
    + rewrite Hl1. split; apply Hcase.
  - rewrite (Hrow u Hm) in Hn. discriminate.
Qed.

(* C01, watch_until_triggered (first half): when the cache does not hold the locator the
   appointment is stored exactly as submitted and nothing else happens *)
Theorem add_appointment_stored sc t signer loc b delay sig r t' :
  (forall u, user_row_ok t u) ->
  ti_get (w_cache t) loc = None ->
  w_add_appointment sc t signer loc b delay sig = Ok r t' ->
  match r with
  | AddOk st sg sl e =>
      exists u, signer = Some u /\ st = w_height t /\ sg = sig /\
        find_app (db_apps t') (loc, u) = Some (mk_app loc u b delay sig (w_height t)) /\
        others_kept t t' (loc, u) /\
        db_trks t' = db_trks t /\ rpc_log t' = rpc_log t /\ car_memo t' = car_memo t
  | _ => t' = t
  end.
Proof.
  intros Hrow Hc Hw. apply w_add_appointment_inner in Hw.
  destruct Hw as [[-> Hr]|[[u [ui [av [t1 [Hs [Hg [He [Hnt [Hsame [-> [Hst Hok]]]]]]]]]]]|[u [t1 [_ [Hm [Hn _]]]]]]].
  2: unfold stored_flag in Hok; rewrite Hc in Hst, Hok.
  3: { rewrite (Hrow u Hm) in Hn. discriminate. }
  - destruct r; [contradiction|reflexivity..].
  - exists u. split; [exact Hs|]. split; [reflexivity|]. split; [reflexivity|].
    apply (store_appointment_spec _ _ _ Hok) in Hst. subst t'. unfold same_but_users in Hsame.
    cbn [db_apps db_trks rpc_log car_memo set_db_apps].
    assert (Ha1 : db_apps t = db_apps t1) by apply Hsame.
    split; [rewrite find_app_store; change (app_uuid _) with (loc, u); rewrite uuid_eqb_refl; reflexivity|].
    split.
    { split.
      - intros x Hx. cbn [db_apps set_db_apps]. rewrite Ha1.
        split; [intros Hi; apply In_store_old; assumption|].
        intros Hi. apply In_store_inv in Hi. destruct Hi as [->|[Hi _]]; [contradiction Hx; reflexivity|exact Hi].
      - intros k _. cbn [db_trks set_db_apps]. replace (db_trks t1) with (db_trks t) by apply Hsame. reflexivity. }
    repeat split; symmetry; apply Hsame.
Qed.

(* the trackers after store_triggered_appointment: those of before, plus at most the one made
   from the submitted appointment when its penalty was accepted *)
Lemma store_triggered_trks sc t1 a d t' :
  w_store_triggered sc t1 a d = Ok tt t' ->
  forall k, In k (db_trks t') ->
    In k (db_trks t1) \/
    exists p, decrypt (a_blob a) d = Some p /\ k = new_trk (app_uuid a) d p (breach_status sc t1 p) /\
              status_accepted (breach_status sc t1 p) = true.
Proof.
  unfold w_store_triggered. destruct (decrypt (a_blob a) d) as [p|].
  - destruct (w_store_ok t1 a) eqn:Eok; [|intros H; injection H as <-; intros k Hk; left; exact Hk].
    destruct (w_store_appointment t1 a) as [[] t2|] eqn:Est; cbn [bind]; [|discriminate].
    apply (store_appointment_spec _ _ _ Eok) in Est. subst t2.
    set (t2 := set_db_apps t1 (store_row (db_apps t1) a)).
    destruct (r_handle_breach sc t2 (app_uuid a) d p) as [s t3|] eqn:Er; cbn [bind]; [|discriminate].
    apply handle_breach_spec in Er. destruct Er as [Hs [_ [_ [_ Hk]]]].
    change (breach_status sc t2 p) with (breach_status sc t1 p) in Hs.
    assert (H3 : forall k, In k (db_trks t3) -> In k (db_trks t1) \/
                   (k = new_trk (app_uuid a) d p s /\ status_accepted s = true)).
    { intros k. rewrite Hk. unfold breach_trks. change (db_trks t2) with (db_trks t1).
      destruct (status_accepted s); [|left; assumption].
      destruct (find_trk (db_trks t1) (app_uuid a)); [left; assumption|].
      destruct (find_app (db_apps t2) (app_uuid a)); [|left; assumption].
      intros Hi. apply in_app_or in Hi. destruct Hi as [Hi|[<-|[]]]; [left; exact Hi|right; split; reflexivity]. }
    assert (H4 : forall k, In k (db_trks t') -> In k (db_trks t3) -> In k (db_trks t1) \/
              exists p0, Some p = Some p0 /\ k = new_trk (app_uuid a) d p0 (breach_status sc t1 p0) /\
                         status_accepted (breach_status sc t1 p0) = true).
    { intros k _ Hi. destruct (H3 k Hi) as [H|[H1 H2]]; [left; exact H|right]. exists p. rewrite <- Hs. auto. }
    destruct (status_rejected s).
    + cbn [gk_delete_appointments]. intros H. injection H as <-. intros k Hi. apply (H4 k Hi).
      cbn [db_trks db_delete_apps set_db_apps set_db_trks] in Hi. apply filter_In in Hi. apply Hi.
    + intros H. injection H as <-. intros k Hi. apply (H4 k Hi Hi).
  - destruct (find_app (db_apps t1) (app_uuid a)).
    + cbn [gk_delete_appointments]. intros H. injection H as <-. intros k Hi. left.
      cbn [db_trks db_delete_apps set_db_apps set_db_trks] in Hi. apply filter_In in Hi. apply Hi.
    + intros H. injection H as <-. intros k Hi. left. exact Hi.
Qed.

(* ------------------------------------------------------------------------------------------ *)
(* 5. Responder listener: what it submits, and what it leaves alone *)

Lemma same_but_users_refl t : same_but_users t t.
Proof. repeat split. Qed.
Lemma same_but_users_trans a b c : same_but_users a b -> same_but_users b c -> same_but_users a c.
Proof. unfold same_but_users. intuition congruence. Qed.

Lemma refund_loop_same us : forall t t', refund_loop t us = Ok tt t' -> same_but_users t t'.
Proof.
  induction us as [|uuid us IH]; intros t t'; cbn [refund_loop].
  - intros H. injection H as <-. apply same_but_users_refl.
  - destruct (find_app (db_apps t) uuid) as [a|]; [|discriminate].
    destruct (gk_get t (a_user a)) as [ui|]; [|discriminate].
    destruct (u32_add (u_slots ui) (slots_of (b_len (a_blob a)))) as [s|]; [|discriminate].
    intros H. apply IH in H. eapply same_but_users_trans; [|exact H]. repeat split.
Qed.

(* what identifies a tracker: whose it is and which two transactions it is about *)
Definition trk_id (k : trk) : (N * N) * N * N := (trk_uuid k, t_dispute k, t_penalty k).

Lemma trk_id_inj k0 k :
  trk_id k0 = trk_id k -> trk_uuid k0 = trk_uuid k /\ t_dispute k0 = t_dispute k /\ t_penalty k0 = t_penalty k.
Proof. unfold trk_id. intros H. repeat split; congruence. Qed.

(* the trackers the responder may act upon when the block (txs, height h) is connected:
   confirmed by this block, reorged out earlier, completing, or stale *)
Definition touchable (txs : list N) (h : N) (R : list (N * N)) (k : trk) : bool :=
  memN (t_penalty k) txs || mem_uuid (trk_uuid k) R
  || (t_conf k && N.eqb (h - t_height k) (Z.to_N Consts.IRREVOCABLY_RESOLVED))
  || (negb (t_conf k) && N.leb (t_height k) (h - Z.to_N Consts.CONFIRMATIONS_BEFORE_RETRY)).

Section Responder.
  Context (tb : tower) (txs : list N) (h : N).   (* tb: the state the responder's listener starts from *)

  Definition touched (u : N * N) : bool :=
    existsb (fun k => uuid_eqb (trk_uuid k) u && touchable txs h (reorged tb) k) (db_trks tb).

  (* a justified RPC of the responder: re-broadcast of a tracker's penalty, or re-announcement
     of the dispute of a tracker whose confirmation was reorged out *)
  Definition jr (e : rpc_event) : Prop :=
    r_kind e = K_send /\
    exists k, In k (db_trks tb) /\
              (r_tx e = t_penalty k \/ (r_tx e = t_dispute k /\ In (trk_uuid k) (reorged tb))).

  Record RInv (t : tower) : Prop := {
    ri_ids : incl (map trk_id (db_trks t)) (map trk_id (db_trks tb));
    ri_reorged : incl (reorged t) (reorged tb);
    ri_log : exists evs, rpc_log t = evs ++ rpc_log tb /\ forall e, In e evs -> jr e;
    ri_apps_sub : incl (db_apps t) (db_apps tb);
    ri_apps_out : forall a, touched (app_uuid a) = false -> In a (db_apps tb) -> In a (db_apps t);
    ri_trks_out : forall k, touched (trk_uuid k) = false -> (In k (db_trks tb) <-> In k (db_trks t))
  }.

  Lemma rinv_base : RInv tb.
  Proof.
    constructor; try apply incl_refl; auto.
    - exists []. split; [reflexivity|intros e []].
    - intros; reflexivity.
  Qed.

  Lemma rinv_frame t t' :
    db_apps t = db_apps t' -> db_trks t = db_trks t' -> incl (reorged t') (reorged t) ->
    rpc_log t = rpc_log t' -> RInv t -> RInv t'.
  Proof.
    intros Ha Hk Hr Hl [I1 I2 I3 I4 I5 I6]. constructor; rewrite <- ?Ha, <- ?Hk, <- ?Hl; auto.
    eapply incl_tran; eassumption.
  Qed.

  Lemma touched_of k : In k (db_trks tb) -> touchable txs h (reorged tb) k = true -> touched (trk_uuid k) = true.
  Proof.
    intros Hi Ht. unfold touched. apply existsb_exists. exists k. split; [exact Hi|].
    rewrite uuid_eqb_refl, Ht. reflexivity.
  Qed.

  (* a tracker of the current table has the identity of one of the start *)
  Lemma rinv_origin t k : RInv t -> In k (db_trks t) -> exists k0, In k0 (db_trks tb) /\ trk_id k0 = trk_id k.
  Proof.
    intros RI Hi. apply (in_map trk_id) in Hi. apply (ri_ids t RI) in Hi.
    apply in_map_iff in Hi. destruct Hi as [k0 [He Hi]]. exists k0. split; assumption.
  Qed.

  Lemma rinv_send sc t tx s t1 :
    RInv t ->
    (exists k, In k (db_trks tb) /\ (tx = t_penalty k \/ (tx = t_dispute k /\ In (trk_uuid k) (reorged tb)))) ->
    send_transaction sc t tx = (s, t1) -> RInv t1.
  Proof.
    intros RI Hj Hs. apply send_transaction_spec in Hs. destruct Hs as [Ht [Hc Hcase]].
    destruct (aget (car_memo t) tx).
    - destruct Hcase as [_ ->]. exact RI.
    - destruct Hcase as [_ [_ Hl]]. destruct RI as [I1 I2 I3 I4 I5 I6].
      assert (Ha : db_apps t = db_apps t1) by apply Ht.
      assert (Hk : db_trks t = db_trks t1) by apply Ht.
      assert (Hr : reorged t = reorged t1) by apply Hc.
      constructor; rewrite <- ?Ha, <- ?Hk, <- ?Hr; auto.
      destruct I3 as [evs [He Hall]]. exists (ev_send tx s :: evs). split; [rewrite Hl, He; reflexivity|].
      intros e [<-|Hi]; [|apply Hall; exact Hi]. split; [reflexivity|exact Hj].
  Qed.

  Lemma rinv_status t uuid hh c : RInv t -> touched uuid = true -> RInv (set_trk_status t uuid hh c).
  Proof.
    intros [I1 I2 I3 I4 I5 I6] HU. unfold set_trk_status.
    constructor; cbn [db_apps db_trks reorged rpc_log set_db_trks]; auto.
    - rewrite map_map. intros x Hx. apply I1. apply in_map_iff in Hx. destruct Hx as [k [He Hi]].
      apply in_map_iff. exists k. split; [|exact Hi]. rewrite <- He.
      destruct (uuid_eqb (trk_uuid k) uuid); reflexivity.
    - intros k Hk. rewrite (I6 k Hk). split.
      + intros Hi. apply in_map_iff. exists k. split; [|exact Hi].
        destruct (uuid_eqb (trk_uuid k) uuid) eqn:E; [|reflexivity].
        apply uuid_eqb_eq in E. congruence.
      + intros Hi. apply in_map_iff in Hi. destruct Hi as [y [He Hi]].
        destruct (uuid_eqb (trk_uuid y) uuid) eqn:E; [|subst y; exact Hi].
        apply uuid_eqb_eq in E. subst k. change (touched (trk_uuid y) = false) in Hk. congruence.
  Qed.

  Lemma rinv_delete t us : RInv t -> (forall u, In u us -> touched u = true) -> RInv (db_delete_apps t us).
  Proof.
    intros [I1 I2 I3 I4 I5 I6] HU. unfold db_delete_apps.
    assert (Hout : forall u, touched u = false -> mem_uuid u us = false).
    { intros u Hu. destruct (mem_uuid u us) eqn:E; [|reflexivity]. apply mem_uuid_In in E. apply HU in E. congruence. }
    constructor; cbn [db_apps db_trks reorged rpc_log set_db_trks set_db_apps]; auto.
    - intros x Hx. apply I1. apply in_map_iff in Hx. destruct Hx as [k [He Hi]]. apply filter_In in Hi.
      apply in_map_iff. exists k. split; [exact He|apply Hi].
    - intros a Ha. apply filter_In in Ha. apply I4, Ha.
    - intros a Ha Hi. apply filter_In. split; [apply I5; assumption|]. rewrite (Hout _ Ha). reflexivity.
    - intros k Hk. rewrite (I6 k Hk), filter_In, (Hout _ Hk). cbn. tauto.
  Qed.

  Lemma rinv_gk_delete t us refund t' :
    RInv t -> (forall u, In u us -> touched u = true) -> gk_delete_appointments t us refund = Ok tt t' -> RInv t'.
  Proof.
    intros RI HU. unfold gk_delete_appointments. destruct refund.
    - destruct (refund_loop t us) as [[] t1|] eqn:Er; cbn [bind]; [|discriminate].
      apply refund_loop_same in Er. intros H. injection H as <-. apply rinv_delete; [|exact HU].
      unfold same_but_users in Er.
      apply (rinv_frame t t1); try (apply Er); [|exact RI].
      replace (reorged t1) with (reorged t) by apply Er. apply incl_refl.
    - intros H. injection H as <-. apply rinv_delete; assumption.
  Qed.

  Lemma check_conf_spec le snap : forall t comp comp' t',
    (forall k, In k snap -> In k (db_trks tb)) -> RInv t ->
    check_conf_loop le txs h snap t comp = Ok comp' t' ->
    RInv t' /\ (forall u, In u comp' -> In u comp \/ touched u = true).
  Proof.
    induction snap as [|k snap IH]; intros t comp comp' t' Hsnap RI; cbn [check_conf_loop].
    - intros H. injection H as <- <-. split; [exact RI|intros u Hu; left; exact Hu].
    - assert (Hk : In k (db_trks tb)) by (apply Hsnap; left; reflexivity).
      assert (Hsnap' : forall k, In k snap -> In k (db_trks tb)) by (intros x Hx; apply Hsnap; right; exact Hx).
      destruct (memN (t_penalty k) txs) eqn:Em.
      + destruct (find_trk (db_trks t) (trk_uuid k)); [|discriminate].
        assert (HU : touched (trk_uuid k) = true).
        { apply touched_of; [exact Hk|]. unfold touchable. rewrite Em. reflexivity. }
        apply IH; [exact Hsnap'|].
        eapply rinv_frame; [| | | |apply (rinv_status t (trk_uuid k) h true RI HU)]; try reflexivity.
        cbn [reorged set_reorged]. intros x Hx. apply filter_In in Hx. apply Hx.
      + destruct (mem_uuid (trk_uuid k) (reorged t)); [apply IH; assumption|].
        destruct (t_conf k) eqn:Ec; [|apply IH; assumption].
        intros Hl. destruct (IH _ _ _ _ Hsnap' RI Hl) as [RI' Hcomp]. split; [exact RI'|].
        intros u Hu. destruct (Hcomp u Hu) as [H1|H1]; [|right; exact H1].
        destruct (N.eqb (h - t_height k) (Z.to_N Consts.IRREVOCABLY_RESOLVED)) eqn:E100; [|left; exact H1].
        apply in_app_or in H1. destruct H1 as [H1|[<-|[]]]; [left; exact H1|right].
        apply touched_of; [exact Hk|]. unfold touchable. rewrite Ec, E100. cbn. rewrite orb_true_r. reflexivity.
  Qed.

  Lemma reorged_loop_spec sc us : forall t rej rej' t',
    (forall u, In u us -> In u (reorged tb)) -> RInv t ->
    reorged_loop sc h us t rej = Ok rej' t' ->
    RInv t' /\ (forall u, In u rej' -> In u rej \/ touched u = true).
  Proof.
    induction us as [|uuid us IH]; intros t rej rej' t' Hus RI; cbn [reorged_loop].
    - intros H. injection H as <- <-. split; [exact RI|intros u Hu; left; exact Hu].
    - assert (Hus' : forall u, In u us -> In u (reorged tb)) by (intros x Hx; apply Hus; right; exact Hx).
      destruct (find_trk (db_trks t) uuid) as [k|] eqn:Ef; [|apply IH; assumption].
      apply find_trk_Some in Ef. destruct Ef as [Hik Huk].
      destruct (rinv_origin t k RI Hik) as [k0 [Hk0 Hid]]. apply trk_id_inj in Hid. destruct Hid as [Hu0 [Hd0 Hp0]].
      assert (HR : In (trk_uuid k0) (reorged tb)) by (rewrite Hu0, Huk; apply Hus; left; reflexivity).
      assert (HU : touched uuid = true).
      { rewrite <- Huk, <- Hu0. apply touched_of; [exact Hk0|]. unfold touchable.
        apply mem_uuid_In in HR. rewrite HR. rewrite orb_true_r. reflexivity. }
      assert (Hrej : forall rej0 t0, RInv t0 -> reorged_loop sc h us t0 (rej0 ++ [uuid]) = Ok rej' t' ->
                       RInv t' /\ (forall u, In u rej' -> In u rej0 \/ touched u = true)).
      { intros rej0 t0 RI0 Hl. destruct (IH _ _ _ _ Hus' RI0 Hl) as [RI' Hr]. split; [exact RI'|].
        intros u Hu. destruct (Hr u Hu) as [H1|H1]; [|right; exact H1].
        apply in_app_or in H1. destruct H1 as [H1|[<-|[]]]; [left; exact H1|right; exact HU]. }
      destruct (send_transaction sc t (t_dispute k)) as [s t1] eqn:Es1.
      assert (RI1 : RInv t1).
      { apply (rinv_send sc t (t_dispute k) s t1 RI); [|exact Es1]. exists k0. split; [exact Hk0|]. right. split; [congruence|exact HR]. }
      assert (Hpen : forall s2 t2, send_transaction sc t1 (t_penalty k) = (s2, t2) -> RInv t2).
      { intros s2 t2 Es2. apply (rinv_send sc t1 (t_penalty k) s2 t2 RI1); [|exact Es2]. exists k0. split; [exact Hk0|]. left. congruence. }
      destruct s as [hh|hh| |c]; [discriminate| | |apply Hrej; exact RI1].
      + destruct (send_transaction sc t1 (t_penalty k)) as [s2 t2] eqn:Es2. specialize (Hpen s2 t2 eq_refl).
        destruct (status_rejected s2); [apply Hrej; exact Hpen|].
        apply IH; [exact Hus'|]. apply rinv_status; assumption.
      + destruct (send_transaction sc t1 (t_penalty k)) as [s2 t2] eqn:Es2. specialize (Hpen s2 t2 eq_refl).
        destruct (status_rejected s2); [apply Hrej; exact Hpen|].
        apply IH; [exact Hus'|]. apply rinv_status; assumption.
  Qed.

  Lemma stale_loop_spec sc us : forall t rej rej' t',
    (forall u, In u us -> touched u = true) -> RInv t ->
    stale_loop sc h us t rej = Ok rej' t' ->
    RInv t' /\ (forall u, In u rej' -> In u rej \/ touched u = true).
  Proof.
    induction us as [|uuid us IH]; intros t rej rej' t' Hus RI; cbn [stale_loop].
    - intros H. injection H as <- <-. split; [exact RI|intros u Hu; left; exact Hu].
    - assert (Hus' : forall u, In u us -> touched u = true) by (intros x Hx; apply Hus; right; exact Hx).
      assert (HU : touched uuid = true) by (apply Hus; left; reflexivity).
      destruct (find_trk (db_trks t) uuid) as [k|] eqn:Ef; [|discriminate].
      apply find_trk_Some in Ef. destruct Ef as [Hik Huk].
      destruct (rinv_origin t k RI Hik) as [k0 [Hk0 Hid]]. apply trk_id_inj in Hid. destruct Hid as [Hu0 [Hd0 Hp0]].
      destruct (send_transaction sc t (t_penalty k)) as [s t1] eqn:Es1.
      assert (RI1 : RInv t1).
      { apply (rinv_send sc t (t_penalty k) s t1 RI); [|exact Es1]. exists k0. split; [exact Hk0|]. left. congruence. }
      destruct s as [hh|hh| |c]; try (apply IH; [exact Hus'|apply rinv_status; assumption]).
      intros Hl. destruct (IH _ _ _ _ Hus' RI1 Hl) as [RI' Hr]. split; [exact RI'|].
      intros u Hu. destruct (Hr u Hu) as [H1|H1]; [|right; exact H1].
      apply in_app_or in H1. destruct H1 as [H1|[<-|[]]]; [left; exact H1|right; exact HU].
  Qed.

  Lemma r_block_tail sc rej1 t4 t' :
    RInv t4 -> (forall u, In u rej1 -> touched u = true) ->
    match u32_sub h (Z.to_N Consts.CONFIRMATIONS_BEFORE_RETRY) with
    | None => Abort S_r_stale_underflow t4
    | Some lim =>
        let stale := map trk_uuid (filter (fun k => negb (t_conf k) && N.leb (t_height k) lim) (db_trks t4)) in
        do rej2, t5 <- stale_loop sc h stale t4 [];
        do _, t6 <- (match rej1 ++ rej2 with [] => Ok tt t5 | l => gk_delete_appointments t5 l false end);
        Ok tt (set_car_memo t6 [])
    end = Ok tt t' -> RInv t'.
  Proof.
    intros RI4 Hrej1.
    unfold u32_sub. destruct (N.leb (Z.to_N Consts.CONFIRMATIONS_BEFORE_RETRY) h); [|discriminate].
    cbv zeta.
    set (stale := map trk_uuid (filter (fun k => negb (t_conf k) && N.leb (t_height k) (h - Z.to_N Consts.CONFIRMATIONS_BEFORE_RETRY)) (db_trks t4))).
    assert (Hstale : forall u, In u stale -> touched u = true).
    { intros u Hu. apply in_map_iff in Hu. destruct Hu as [k [<- Hk]]. apply filter_In in Hk. destruct Hk as [Hk Hcond].
      destruct (touched (trk_uuid k)) eqn:E; [reflexivity|].
      apply (ri_trks_out t4 RI4 k E) in Hk. rewrite <- E. apply touched_of; [exact Hk|].
      unfold touchable. rewrite Hcond. apply orb_true_r. }
    destruct (stale_loop sc h stale t4 []) as [rej2 t5|] eqn:Es; cbn [bind]; [|discriminate].
    destruct (stale_loop_spec sc stale t4 [] rej2 t5 Hstale RI4 Es) as [RI5 Hrej2].
    assert (Hrej : forall u, In u (rej1 ++ rej2) -> touched u = true).
    { intros u Hu. apply in_app_or in Hu. destruct Hu as [Hu|Hu]; [apply Hrej1; exact Hu|].
      destruct (Hrej2 u Hu) as [[]|H]. exact H. }
    destruct (rej1 ++ rej2) as [|r0 rs] eqn:Erej; cbn [bind].
    - intros H. injection H as <-. apply (rinv_frame t5 _); try reflexivity; [apply incl_refl|exact RI5].
    - destruct (gk_delete_appointments t5 (r0 :: rs) false) as [[] t6|] eqn:Ed2; cbn [bind]; [|discriminate].
      intros H. injection H as <-. apply (rinv_frame t6 _); try reflexivity; [apply incl_refl|].
      eapply rinv_gk_delete; eassumption.
  Qed.

  Lemma r_block_connected_rinv le sc b t' :
    keys_of (ib_data b) = txs ->
    r_block_connected le sc tb b h = Ok tt t' -> RInv t'.
  Proof.
    intros Hkeys. unfold r_block_connected. rewrite Hkeys.
    destruct (ti_update (r_index (set_car_height tb h)) b) as [idx|]; [|discriminate].
    set (t1 := set_r_index (set_car_height tb h) idx).
    assert (RI1 : RInv t1) by (apply (rinv_frame tb t1); try reflexivity; [apply incl_refl|apply rinv_base]).
    destruct (check_conf_loop le txs h (db_trks t1) t1 []) as [comp t2|] eqn:Ec; cbn [bind]; [|discriminate].
    destruct (check_conf_spec le (db_trks t1) t1 [] comp t2 (fun k Hk => Hk) RI1 Ec) as [RI2 Hcomp].
    assert (Hcomp' : forall u, In u comp -> touched u = true).
    { intros u Hu. destruct (Hcomp u Hu) as [[]|H]. exact H. }
    destruct (match comp with [] => Ok tt t2 | _ :: _ => gk_delete_appointments t2 comp true end) as [[] t3|] eqn:Ed1;
      cbn [bind]; [|discriminate].
    assert (RI3 : RInv t3).
    { destruct comp; [injection Ed1 as <-; exact RI2|]. eapply rinv_gk_delete; eassumption. }
    destruct (reorged t3) as [|r0 rs] eqn:Ere; cbn [bind].
    - apply r_block_tail; [exact RI3|intros u []].
    - destruct (reorged_loop sc h (r0 :: rs) (set_reorged t3 []) []) as [rej1 t4|] eqn:Er; cbn [bind]; [|discriminate].
      assert (RI3' : RInv (set_reorged t3 [])).
      { apply (rinv_frame t3 _); try reflexivity; [intros x []|exact RI3]. }
      assert (Hus : forall u, In u (r0 :: rs) -> In u (reorged tb)).
      { rewrite <- Ere. apply (ri_reorged t3 RI3). }
      destruct (reorged_loop_spec sc (r0 :: rs) _ [] rej1 t4 Hus RI3' Er) as [RI4 Hr].
      apply r_block_tail; [exact RI4|].
      intros u Hu. destruct (Hr u Hu) as [[]|H]. exact H.
  Qed.
End Responder.

(* ------------------------------------------------------------------------------------------ *)
(* 6. Gatekeeper listener, and the Connect step as the composition of the three listeners *)

(* everything the gatekeeper's listener does not touch *)
Definition same_engine (t t' : tower) : Prop :=
  cfg t = cfg t' /\ w_height t = w_height t' /\ w_cache t = w_cache t' /\ r_index t = r_index t' /\
  car_height t = car_height t' /\ car_memo t = car_memo t' /\ reorged t = reorged t' /\ rpc_log t = rpc_log t'.

Lemma gk_block_connected_spec t h tg :
  gk_block_connected t h = Ok tt tg ->
  exists out, outdated_users (c_delta (cfg t)) h (gk_users t) = Some out /\
    db_users tg = filter (fun r => negb (memN (fst r) out)) (db_users t) /\
    db_apps tg = filter (fun a => negb (memN (a_user a) out)) (db_apps t) /\
    db_trks tg = filter (fun k => negb (memN (t_user k) out)) (db_trks t) /\
    same_engine t tg /\ gk_height tg = h.
Proof.
  unfold gk_block_connected. destruct (outdated_users (c_delta (cfg t)) h (gk_users t)) as [out|]; [|discriminate].
  intros H. injection H as <-. exists out. split; [reflexivity|].
  destruct out as [|u out].
  - cbn [db_users db_apps db_trks set_gk_height gk_height].
    repeat split; symmetry; apply filter_all; reflexivity.
  - repeat split.
Qed.

Lemma connect_unfold le sc hash txs h t0 :
  run_listeners (listener_connected le sc hash txs h) Consts.LISTENER_ORDER t0 =
  (do _, tg <- gk_block_connected t0 h;
   do _, tw <- w_block_connected sc tg (cache_block hash txs) h;
   do _, tr <- r_block_connected le sc tw (index_block hash txs) h;
   Ok tt tr).
Proof. reflexivity. Qed.

Lemma inv_fresh t : Inv t -> Inv (fresh t).
Proof. apply inv_frame. repeat split. Qed.

(* a Connect step that returns: the three listeners ran in the generated order, gatekeeper first *)
Lemma connect_ok le t hash txs sc t' x :
  step le t (OConnect hash txs) sc = (t', x) -> not_abort x ->
  exists tg tw,
    gk_block_connected (fresh t) (gk_height t + 1) = Ok tt tg /\
    w_block_connected sc tg (cache_block hash txs) (gk_height t + 1) = Ok tt tw /\
    r_block_connected le sc tw (index_block hash txs) (gk_height t + 1) = Ok tt t'.
Proof.
  cbn [step]. change (set_rpc_log t []) with (fresh t). change (gk_height (fresh t)) with (gk_height t).
  rewrite connect_unfold.
  destruct (gk_block_connected (fresh t) (gk_height t + 1)) as [[] tg|] eqn:Eg; cbn [bind wrap];
    [|intros H; injection H as <- <-; intros []].
  destruct (w_block_connected sc tg (cache_block hash txs) (gk_height t + 1)) as [[] tw|] eqn:Ew; cbn [bind wrap];
    [|intros H; injection H as <- <-; intros []].
  destruct (r_block_connected le sc tw (index_block hash txs) (gk_height t + 1)) as [[] tr|] eqn:Er; cbn [bind wrap];
    [|intros H; injection H as <- <-; intros []].
  intros H _. injection H as <- <-. exists tg, tw. repeat split; assumption.
Qed.

Lemma keys_of_index_block hash txs : keys_of (ib_data (index_block hash txs)) = txs.
Proof.
  unfold index_block, keys_of. cbn [ib_data]. rewrite map_map. cbn [fst]. apply map_id.
Qed.

(* ------------------------------------------------------------------------------------------ *)
(* 7. C02: every RPC of a step is justified *)

(* why the tower may submit tx in the step that performs o from state t *)
Definition just_send (t : tower) (o : op) (tx : N) : Prop :=
  (* the decrypted penalty of an appointment whose locator is in the block being connected *)
  (exists hash txs a, o = OConnect hash txs /\ In a (db_apps t) /\ In (a_loc a) txs /\
                      decrypt (a_blob a) (a_loc a) = Some tx) \/
  (* the penalty of an existing tracker (re-broadcast) *)
  (exists k, In k (db_trks t) /\ t_penalty k = tx) \/
  (* the dispute of an existing tracker whose confirmation was reorged out *)
  (exists k, In k (db_trks t) /\ mem_uuid (trk_uuid k) (reorged t) = true /\ t_dispute k = tx) \/
  (* the decrypted penalty of the appointment being added, its dispute being in the cache *)
  (exists u loc b delay sig d, o = OAdd (Some u) loc b delay sig /\ ti_get (w_cache t) loc = Some d /\
                               decrypt b d = Some tx) \/
  (* corner, unreachable (see reorged_tracked below): the dispute — confirmed in the block being
     connected — of an appointment responded to in this very step whose uuid is in `reorged`
     although it has no tracker *)
  (exists hash txs a, o = OConnect hash txs /\ In a (db_apps t) /\ In (a_loc a) txs /\ a_loc a = tx /\
                      find_trk (db_trks t) (app_uuid a) = None /\ mem_uuid (app_uuid a) (reorged t) = true).

(* the mempool is only queried about penalties the tower is about to submit *)
Definition just_getraw (t : tower) (o : op) (tx : N) : Prop :=
  (exists hash txs a, o = OConnect hash txs /\ In a (db_apps t) /\ In (a_loc a) txs /\
                      decrypt (a_blob a) (a_loc a) = Some tx) \/
  (exists u loc b delay sig d, o = OAdd (Some u) loc b delay sig /\ ti_get (w_cache t) loc = Some d /\
                               decrypt b d = Some tx).

Definition just_rpc (t : tower) (o : op) (e : rpc_event) : Prop :=
  match r_kind e with
  | K_send => just_send t o (r_tx e)
  | K_getraw => just_getraw t o (r_tx e)
  end.

(* no_send_for_purged: in a Connect step the gatekeeper's purge comes first (generated listener
   order) and every RPC of the step is justified by the rows that are left after it *)
Theorem connect_rpcs_justified le t hash txs sc t' x :
  Inv t -> step le t (OConnect hash txs) sc = (t', x) -> not_abort x ->
  exists tg, gk_block_connected (fresh t) (gk_height t + 1) = Ok tt tg /\
             forall e, In e (rpc_log t') -> just_rpc tg (OConnect hash txs) e.
Proof.
  intros HI Hstep Hna. destruct (connect_ok le t hash txs sc t' x Hstep Hna) as [tg [tw [Eg [Ew Er]]]].
  exists tg. split; [exact Eg|].
  assert (HIg : Inv tg).
  { pose proof (gk_block_connected_pres Inv (sa_block Inv inv_stable) (fresh t) (gk_height t + 1) (inv_fresh t HI)) as Hp.
    rewrite Eg in Hp. exact Hp. }
  destruct (gk_block_connected_spec _ _ _ Eg) as [out [_ [_ [_ [_ [Heng _]]]]]].
  assert (Hlg : rpc_log tg = []) by (symmetry; apply Heng).
  destruct (w_block_connected_frame sc tg hash txs _ tw HIg Ew)
    as [_ [_ [_ [_ [_ [_ [_ [Hre [_ [_ [Hnewk [evw [Hlw Hjw]]]]]]]]]]]]].
  pose proof (r_block_connected_rinv tw txs _ le sc _ t' (keys_of_index_block hash txs) Er) as RI.
  destruct (ri_log _ _ _ _ RI) as [evr [Hlr Hjr]].
  intros e He. rewrite Hlr, Hlw, Hlg, app_nil_r in He. apply in_app_or in He. destruct He as [He|He].
  - destruct (Hjr e He) as [Hk [k [Hik Hcase]]]. unfold just_rpc. rewrite Hk. unfold just_send.
    destruct (Hnewk k Hik) as [Hold|[a [Ha Hm]]].
    + destruct Hcase as [Hp|[Hd HR]].
      * right. left. exists k. split; [exact Hold|symmetry; exact Hp].
      * right. right. left. exists k. split; [exact Hold|]. split; [|symmetry; exact Hd].
        apply mem_uuid_In. rewrite <- Hre. exact HR.
    + destruct Hm as [HD [Hu [Hdis [Hdec [_ [_ Hfresh]]]]]].
      destruct Hcase as [Hp|[Hd HR]].
      * left. exists hash, txs, a. repeat split; [exact Ha|exact HD|]. rewrite Hp. exact Hdec.
      * right. right. right. right. exists hash, txs, a. repeat split; [exact Ha|exact HD|congruence|congruence|].
        apply mem_uuid_In. rewrite <- Hu, <- Hre. exact HR.
  - destruct (Hjw e He) as [a [Ha [Hl Hdec]]]. unfold just_rpc.
    destruct (r_kind e); left; exists hash, txs, a; repeat split; assumption.
Qed.

Lemma just_rpc_purge t h tg o e :
  gk_block_connected (fresh t) h = Ok tt tg -> just_rpc tg o e -> just_rpc t o e.
Proof.
  intros Eg. destruct (gk_block_connected_spec _ _ _ Eg) as [out [_ [_ [Ha [Hk [Heng _]]]]]].
  cbn [db_apps db_trks fresh set_rpc_log] in Ha, Hk. unfold same_engine in Heng. cbn in Heng.
  assert (Hia : forall a, In a (db_apps tg) -> In a (db_apps t)) by (intros a; rewrite Ha, filter_In; tauto).
  assert (Hik : forall k, In k (db_trks tg) -> In k (db_trks t)) by (intros k; rewrite Hk, filter_In; tauto).
  assert (Hre : reorged t = reorged tg) by apply Heng.
  assert (Hca : w_cache t = w_cache tg) by apply Heng.
  assert (Hg : just_getraw tg o (r_tx e) -> just_getraw t o (r_tx e)).
  { intros [[hash [txs [a H]]]|[u [loc [b [delay [sig [d H]]]]]]].
    - left. exists hash, txs, a. intuition.
    - right. exists u, loc, b, delay, sig, d. rewrite Hca. exact H. }
  unfold just_rpc. destruct (r_kind e); [exact Hg|].
  intros [[hash [txs [a H]]]|[[k H]|[[k H]|[[u [loc [b [delay [sig [d H]]]]]]|[hash [txs [a H]]]]]]].
  - left. exists hash, txs, a. intuition.
  - right. left. exists k. intuition.
  - right. right. left. exists k. rewrite Hre. intuition.
  - right. right. right. left. exists u, loc, b, delay, sig, d. rewrite Hca. exact H.
  - right. right. right. right. exists hash, txs, a. rewrite Hre.
    destruct H as [Ho [Hin [Hl [Htx [Hf HR]]]]]. repeat split; auto.
    apply find_trk_None_iff. intros Hi. apply in_map_iff in Hi. destruct Hi as [k [Hu Hkin]].
    apply (find_trk_None _ _ Hf). rewrite <- Hu. apply in_map. rewrite Hk. apply filter_In. split; [exact Hkin|].
    rewrite Ha in Hin. apply filter_In in Hin. destruct Hin as [_ Hin].
    assert (t_user k = a_user a) by (unfold trk_uuid, app_uuid in Hu; congruence). congruence.
Qed.

Lemma add_update_user_log t u :
  match gk_add_update_user t u with Ok _ t' | Abort _ t' => rpc_log t' = rpc_log t end.
Proof.
  unfold gk_add_update_user. destruct (gk_get t u) as [ui|].
  - destruct (u32_add (u_slots ui) (c_slots (cfg t))); reflexivity.
  - destruct (u32_add (gk_height t) (c_duration (cfg t))); [|reflexivity].
    destruct (amem (db_users t) u); reflexivity.
Qed.

Lemma disconnect_log hash h t :
  match run_listeners (listener_disconnected hash h) Consts.LISTENER_ORDER t with
  | Ok _ t' | Abort _ t' => rpc_log t' = rpc_log t /\ db_trks t' = db_trks t
  end.
Proof.
  change (run_listeners (listener_disconnected hash h) Consts.LISTENER_ORDER t) with
    (do _, t1 <- gk_block_disconnected t h; do _, t2 <- w_block_disconnected t1 hash h;
     do _, t3 <- r_block_disconnected t2 hash h; Ok tt t3).
  unfold gk_block_disconnected, w_block_disconnected, r_block_disconnected.
  destruct (u32_sub h 1); cbn; split; reflexivity.
Qed.

(* C02, every_send_justified: whatever the operation, the node answers and the state (satisfying
   the structural invariant), every RPC in the log of the step is justified by the state the step
   started from.  API reads, registrations and disconnections issue no RPC at all. *)
Theorem every_rpc_justified le t o sc t' x :
  Inv t -> step le t o sc = (t', x) -> not_abort x ->
  forall e, In e (rpc_log t') -> just_rpc t o e.
Proof.
  intros HI Hstep Hna. destruct o as [u|signer loc b delay sig|signer loc|signer|hash txs|].
  - cbn [step] in Hstep. pose proof (add_update_user_log (set_rpc_log t []) u) as Hl.
    destruct (gk_add_update_user (set_rpc_log t []) u); cbn [wrap] in Hstep; injection Hstep as <- <-;
      rewrite Hl; intros e [].
  - cbn [step] in Hstep. change (set_rpc_log t []) with (fresh t) in Hstep.
    destruct (w_add_appointment sc (fresh t) signer loc b delay sig) as [r t1|] eqn:Ew; cbn [wrap] in Hstep;
      injection Hstep as <- <-; [|destruct Hna].
    destruct (ti_get (w_cache t) loc) as [d|] eqn:Ec.
    + pose proof (add_appointment_triggered sc (fresh t) signer loc b delay sig d r t1 (inv_user_rows (fresh t) (inv_fresh t HI)) Ec Ew) as H.
      destruct r; try (rewrite H; intros e []).
      destruct H as [u [Hs [_ [_ [_ [_ Hcase]]]]]]. subst signer.
      destruct (decrypt b d) as [p|] eqn:Ed; [|destruct Hcase as [_ ->]; intros e []].
      destruct Hcase as [Hl _]. rewrite Hl. cbn [rpc_log fresh set_rpc_log]. rewrite app_nil_r.
      intros e He. apply breach_events_tx in He. unfold just_rpc.
      destruct (r_kind e); [right|right; right; right; left]; exists u, loc, b, delay, sig, d; rewrite He; auto.
    + pose proof (add_appointment_stored sc (fresh t) signer loc b delay sig r t1 (inv_user_rows (fresh t) (inv_fresh t HI)) Ec Ew) as H.
      destruct r; try (rewrite H; intros e []).
      destruct H as [u [_ [_ [_ [_ [_ [_ [-> _]]]]]]]]. intros e [].
  - destruct (get_unchanged le t sc signer loc) as [r Hr]. rewrite Hr in Hstep. injection Hstep as <- <-. intros e [].
  - destruct (getsub_unchanged le t sc signer) as [r Hr]. rewrite Hr in Hstep. injection Hstep as <- <-. intros e [].
  - destruct (connect_rpcs_justified le t hash txs sc t' x HI Hstep Hna) as [tg [Eg Hj]].
    intros e He. eapply just_rpc_purge; [exact Eg|]. apply Hj. exact He.
  - cbn [step] in Hstep. destruct (last_hash (set_rpc_log t [])) as [hash|].
    + pose proof (disconnect_log hash (gk_height (set_rpc_log t [])) (set_rpc_log t [])) as Hl.
      destruct (run_listeners _ _ _); cbn [wrap] in Hstep; injection Hstep as <- <-;
        destruct Hl as [-> _]; intros e [].
    + injection Hstep as <- <-. intros e [].
Qed.

(* ---------- responded_implies_given ---------- *)

Lemma find_trk_In trks k : In k trks -> find_trk trks (trk_uuid k) <> None.
Proof. intros Hi Hn. apply (find_trk_None _ _ Hn). apply in_map. exact Hi. Qed.

(* where an accepted status comes from *)
Lemma breach_status_accepted_cases sc t p :
  status_accepted (breach_status sc t p) = true ->
  (exists bh h, ti_get (r_index t) p = Some bh /\ ti_get_height (r_index t) bh = Some h) \/   (* in the index *)
  (ti_get (r_index t) p = None /\
   (says_in_mempool sc p = true \/                                                           (* in the node's mempool *)
    (says_in_mempool sc p = false /\
     ((exists r, aget (car_memo t) p = Some r /\ status_accepted r = true) \/                (* memoised accepted answer *)
      (aget (car_memo t) p = None /\ snd (script_get sc p) = A_ok))))).                      (* the node took it *)
Proof.
  unfold breach_status. destruct (ti_get (r_index t) p) as [bh|].
  - destruct (ti_get_height (r_index t) bh) as [h|] eqn:Eh; [|discriminate]. intros _. left. exists bh, h. split; [reflexivity|exact Eh].
  - intros H. right. split; [reflexivity|].
    destruct (says_in_mempool sc p); [left; reflexivity|right]. split; [reflexivity|].
    destruct (aget (car_memo t) p) as [r|]; [left; eauto|right]. split; [reflexivity|].
    unfold send_status in H. destruct (snd (script_get sc p)) as [|c]; [reflexivity|].
    repeat match type of H with context [if ?b then _ else _] => destruct b end; discriminate.
Qed.

Lemma add_update_user_trks t u :
  match gk_add_update_user t u with Ok _ t' | Abort _ t' => db_trks t' = db_trks t /\ reorged t' = reorged t end.
Proof.
  unfold gk_add_update_user. destruct (gk_get t u) as [ui|].
  - destruct (u32_add (u_slots ui) (c_slots (cfg t))); split; reflexivity.
  - destruct (u32_add (gk_height t) (c_duration (cfg t))); [|split; reflexivity].
    destruct (amem (db_users t) u); split; reflexivity.
Qed.

(* C02, responded_implies_given: a tracker appears (for a uuid that had none) only with a penalty
   whose status — verdict by txid, in the state the step started from — is an accepted one: found
   in the responder's index, in the node's mempool, or taken by the node (now, or earlier in this
   block period). *)
Theorem responded_implies_given le t o sc t' x :
  Inv t -> step le t o sc = (t', x) -> not_abort x ->
  forall k, In k (db_trks t') -> find_trk (db_trks t) (trk_uuid k) = None ->
            status_accepted (breach_status sc t (t_penalty k)) = true.
Proof.
  intros HI Hstep Hna k Hk Hnone.
  assert (Hsame : db_trks t' = db_trks t -> status_accepted (breach_status sc t (t_penalty k)) = true).
  { intros He. rewrite He in Hk. exfalso. exact (find_trk_In _ _ Hk Hnone). }
  destruct o as [u|signer loc b delay sig|signer loc|signer|hash txs|].
  - cbn [step] in Hstep. pose proof (add_update_user_trks (set_rpc_log t []) u) as Hl.
    destruct (gk_add_update_user (set_rpc_log t []) u); cbn [wrap] in Hstep; injection Hstep as <- <-;
      apply Hsame, Hl.
  - cbn [step] in Hstep. change (set_rpc_log t []) with (fresh t) in Hstep.
    destruct (w_add_appointment sc (fresh t) signer loc b delay sig) as [r t1|] eqn:Ew; cbn [wrap] in Hstep;
      injection Hstep as <- <-; [|destruct Hna].
    apply w_add_appointment_inner in Ew.
    destruct Ew as [[-> _]|[[u [ui [av [t2 [_ [_ [_ [_ [Hsu [_ [Hst Hok]]]]]]]]]]]|[u [t2 [_ [_ [_ [Hsu [-> _]]]]]]]]];
      [apply Hsame; reflexivity| |apply Hsame; symmetry; apply Hsu].
    unfold same_but_users in Hsu. cbn in Hsu.
    assert (Hk2 : db_trks t = db_trks t2) by apply Hsu.
    unfold stored_flag in Hok.
    destruct (ti_get (w_cache (fresh t)) loc) as [d|].
    + destruct (store_triggered_trks sc t2 _ d t1 Hst k Hk) as [Hold|[p [_ [-> Hacc]]]].
      * rewrite <- Hk2 in Hold. exfalso. exact (find_trk_In _ _ Hold Hnone).
      * cbn [new_trk t_penalty]. rewrite <- Hacc. f_equal. apply breach_status_core; apply Hsu.
    + apply (store_appointment_spec _ _ _ Hok) in Hst. subst t1. apply Hsame. symmetry. exact Hk2.
  - destruct (get_unchanged le t sc signer loc) as [r Hr]. rewrite Hr in Hstep. injection Hstep as <- <-.
    apply Hsame. reflexivity.
  - destruct (getsub_unchanged le t sc signer) as [r Hr]. rewrite Hr in Hstep. injection Hstep as <- <-.
    apply Hsame. reflexivity.
  - destruct (connect_ok le t hash txs sc t' x Hstep Hna) as [tg [tw [Eg [Ew Er]]]].
    assert (HIg : Inv tg).
    { pose proof (gk_block_connected_pres Inv (sa_block Inv inv_stable) (fresh t) (gk_height t + 1) (inv_fresh t HI)) as Hp.
      rewrite Eg in Hp. exact Hp. }
    destruct (gk_block_connected_spec _ _ _ Eg) as [out [_ [_ [_ [Hkg [Heng _]]]]]].
    cbn [db_trks fresh set_rpc_log] in Hkg. unfold same_engine in Heng. cbn in Heng.
    destruct (w_block_connected_frame sc tg hash txs _ tw HIg Ew)
      as [_ [_ [_ [_ [_ [_ [_ [_ [_ [_ [Hnewk _]]]]]]]]]]].
    pose proof (r_block_connected_rinv tw txs _ le sc _ t' (keys_of_index_block hash txs) Er) as RI.
    destruct (rinv_origin _ _ _ _ k RI Hk) as [k0 [Hk0 Hid]]. apply trk_id_inj in Hid. destruct Hid as [Hu0 [_ Hp0]].
    destruct (Hnewk k0 Hk0) as [Hold|[a [_ Hm]]].
    + exfalso. rewrite Hkg in Hold. apply filter_In in Hold. destruct Hold as [Hold _].
      rewrite <- Hu0 in Hnone. exact (find_trk_In _ _ Hold Hnone).
    + destruct Hm as [_ [_ [_ [_ [_ [Hacc _]]]]]]. rewrite <- Hp0, <- Hacc. f_equal.
      apply breach_status_core; apply Heng.
  - cbn [step] in Hstep. destruct (last_hash (set_rpc_log t [])) as [hash|].
    + pose proof (disconnect_log hash (gk_height (set_rpc_log t [])) (set_rpc_log t [])) as Hl.
      destruct (run_listeners _ _ _); cbn [wrap] in Hstep; injection Hstep as <- <-; apply Hsame, Hl.
    + injection Hstep as <- <-. apply Hsame. reflexivity.
Qed.

(* ---------- the `reorged` list only names uuids that have a tracker (reachable invariant) ---------- *)

Definition reorged_tracked (t : tower) : Prop :=
  forall u, In u (reorged t) -> find_trk (db_trks t) u <> None.

Lemma send_reorged sc t tx : reorged (snd (send_transaction sc t tx)) = reorged t.
Proof. unfold send_transaction. destruct (aget (car_memo t) tx); reflexivity. Qed.

Lemma reorged_loop_reorged sc h us : forall t rej rej' t',
  reorged_loop sc h us t rej = Ok rej' t' -> reorged t' = reorged t.
Proof.
  induction us as [|uuid us IH]; intros t rej rej' t'; cbn [reorged_loop].
  - intros H. injection H as _ <-. reflexivity.
  - destruct (find_trk (db_trks t) uuid) as [k|]; [|apply IH].
    pose proof (send_reorged sc t (t_dispute k)) as H1.
    destruct (send_transaction sc t (t_dispute k)) as [s t1]. cbn [snd] in H1.
    pose proof (send_reorged sc t1 (t_penalty k)) as H2.
    destruct (send_transaction sc t1 (t_penalty k)) as [s2 t2]. cbn [snd] in H2.
    destruct s as [hh|hh| |c]; [discriminate| | |intros H; apply IH in H; congruence];
      (destruct (status_rejected s2); intros H; apply IH in H; [congruence|]);
      cbn [reorged set_trk_status set_db_trks] in H; congruence.
Qed.

Lemma stale_loop_reorged sc h us : forall t rej rej' t',
  stale_loop sc h us t rej = Ok rej' t' -> reorged t' = reorged t.
Proof.
  induction us as [|uuid us IH]; intros t rej rej' t'; cbn [stale_loop].
  - intros H. injection H as _ <-. reflexivity.
  - destruct (find_trk (db_trks t) uuid) as [k|]; [|discriminate].
    pose proof (send_reorged sc t (t_penalty k)) as H1.
    destruct (send_transaction sc t (t_penalty k)) as [s t1]. cbn [snd] in H1.
    destruct s as [hh|hh| |c]; intros H; apply IH in H; cbn [reorged set_trk_status set_db_trks] in H; congruence.
Qed.

Lemma gk_delete_reorged t us refund t' :
  gk_delete_appointments t us refund = Ok tt t' -> reorged t' = reorged t.
Proof.
  unfold gk_delete_appointments. destruct refund.
  - destruct (refund_loop t us) as [[] t1|] eqn:Er; cbn [bind]; [|discriminate].
    apply refund_loop_same in Er. intros H. injection H as <-. cbn. symmetry. apply Er.
  - intros H. injection H as <-. reflexivity.
Qed.

(* after the responder's listener the list of reorged trackers is empty *)
Lemma r_block_connected_reorged le sc t b h t' :
  r_block_connected le sc t b h = Ok tt t' -> reorged t' = [].
Proof.
  unfold r_block_connected.
  destruct (ti_update (r_index (set_car_height t h)) b) as [idx|]; [|discriminate].
  destruct (check_conf_loop le _ h _ _ []) as [comp t2|]; cbn [bind]; [|discriminate].
  destruct (match comp with [] => Ok tt t2 | _ :: _ => gk_delete_appointments t2 comp true end) as [[] t3|];
    cbn [bind]; [|discriminate].
  assert (Htail : forall rej1 t4, reorged t4 = [] ->
            match u32_sub h (Z.to_N Consts.CONFIRMATIONS_BEFORE_RETRY) with
            | None => Abort S_r_stale_underflow t4
            | Some lim =>
                let stale := map trk_uuid (filter (fun k => negb (t_conf k) && N.leb (t_height k) lim) (db_trks t4)) in
                do rej2, t5 <- stale_loop sc h stale t4 [];
                do _, t6 <- (match rej1 ++ rej2 with [] => Ok tt t5 | l => gk_delete_appointments t5 l false end);
                Ok tt (set_car_memo t6 [])
            end = Ok tt t' -> reorged t' = []).
  { intros rej1 t4 H4. destruct (u32_sub h (Z.to_N Consts.CONFIRMATIONS_BEFORE_RETRY)) as [lim|]; [|discriminate].
    cbv zeta. destruct (stale_loop sc h _ t4 []) as [rej2 t5|] eqn:Es; cbn [bind]; [|discriminate].
    apply stale_loop_reorged in Es.
    destruct (rej1 ++ rej2) as [|r0 rs]; cbn [bind].
    - intros H. injection H as <-. cbn. congruence.
    - destruct (gk_delete_appointments t5 (r0 :: rs) false) as [[] t6|] eqn:Ed; cbn [bind]; [|discriminate].
      apply gk_delete_reorged in Ed. intros H. injection H as <-. cbn. congruence. }
  destruct (reorged t3) as [|r0 rs] eqn:Ere; cbn [bind].
  - apply Htail. exact Ere.
  - destruct (reorged_loop sc h (r0 :: rs) (set_reorged t3 []) []) as [rej1 t4|] eqn:Er; cbn [bind]; [|discriminate].
    apply reorged_loop_reorged in Er. apply Htail. exact Er.
Qed.

Lemma add_appointment_keeps_trks sc t signer loc b delay sig r t' :
  w_add_appointment sc t signer loc b delay sig = Ok r t' ->
  reorged t' = reorged t /\ forall k, In k (db_trks t) -> In k (db_trks t').
Proof.
  intros Hw. apply w_add_appointment_inner in Hw.
  destruct Hw as [[-> _]|[[u [ui [av [t1 [_ [_ [_ [Hnt [Hsu [_ [Hst Hok]]]]]]]]]]]|[u [t1 [_ [_ [_ [Hsu [-> _]]]]]]]]]; [split; auto| |].
  2: { unfold same_but_users in Hsu. split; [symmetry; apply Hsu|]. intros k Hk. replace (db_trks t1) with (db_trks t) by apply Hsu. exact Hk. }
  unfold same_but_users in Hsu.
  assert (Hk1 : db_trks t = db_trks t1) by apply Hsu.
  assert (Hr1 : reorged t = reorged t1) by apply Hsu.
  unfold stored_flag in Hok.
  destruct (ti_get (w_cache t) loc) as [d|].
  - set (a := mk_app loc u b delay sig (w_height t)) in *.
    assert (Hnt1 : find_trk (db_trks t1) (app_uuid a) = None) by (rewrite <- Hk1; exact Hnt).
    assert (Hok1 : decrypt (a_blob a) d <> None -> w_store_ok t1 a = true).
    { change (a_blob a) with b. destruct (decrypt b d); [intros _; exact Hok|intros H; contradiction]. }
    destruct (store_triggered_spec sc t1 a d t' Hnt1 Hok1 Hst) as [Hsr [_ [[_ Hoth] _]]].
    split; [rewrite Hr1; symmetry; apply Hsr|].
    intros k Hk. rewrite Hk1 in Hk. apply Hoth; [|exact Hk].
    intros He. rewrite <- He in Hnt1. exact (find_trk_In _ _ Hk Hnt1).
  - apply (store_appointment_spec _ _ _ Hok) in Hst. subst t'. cbn. split; [symmetry; exact Hr1|].
    intros k Hk. rewrite <- Hk1. exact Hk.
Qed.

Lemma disconnect_reorged hash h t :
  match run_listeners (listener_disconnected hash h) Consts.LISTENER_ORDER t with
  | Ok _ t' => db_trks t' = db_trks t /\
               forall u, In u (reorged t') -> In u (reorged t) \/ In u (map trk_uuid (db_trks t))
  | Abort _ _ => True
  end.
Proof.
  change (run_listeners (listener_disconnected hash h) Consts.LISTENER_ORDER t) with
    (do _, t1 <- gk_block_disconnected t h; do _, t2 <- w_block_disconnected t1 hash h;
     do _, t3 <- r_block_disconnected t2 hash h; Ok tt t3).
  unfold gk_block_disconnected, w_block_disconnected, r_block_disconnected.
  destruct (u32_sub h 1); cbn; [|exact I]. split; [reflexivity|].
  intros u Hu. apply in_app_or in Hu. destruct Hu as [Hu|Hu]; [left; exact Hu|right].
  apply filter_In in Hu. destruct Hu as [Hu _]. apply in_map_iff in Hu. destruct Hu as [k [<- Hk]].
  apply filter_In in Hk. apply in_map. apply Hk.
Qed.

Lemma in_uuids_find trks u : In u (map trk_uuid trks) -> find_trk trks u <> None.
Proof. intros Hi Hn. exact (find_trk_None _ _ Hn Hi). Qed.

Theorem reorged_tracked_step le t o sc t' x :
  reorged_tracked t -> step le t o sc = (t', x) -> not_abort x -> reorged_tracked t'.
Proof.
  intros HR Hstep Hna.
  assert (Hkeep : reorged t' = reorged t -> (forall k, In k (db_trks t) -> In k (db_trks t')) -> reorged_tracked t').
  { intros Hr Hk u Hu. rewrite Hr in Hu. specialize (HR u Hu).
    destruct (find_trk (db_trks t) u) as [k|] eqn:Ef; [|congruence].
    apply find_trk_Some in Ef. destruct Ef as [Hi <-]. apply find_trk_In, Hk, Hi. }
  destruct o as [u|signer loc b delay sig|signer loc|signer|hash txs|].
  - cbn [step] in Hstep. pose proof (add_update_user_trks (set_rpc_log t []) u) as Hl.
    destruct (gk_add_update_user (set_rpc_log t []) u); cbn [wrap] in Hstep; injection Hstep as <- <-;
      destruct Hl as [Hl1 Hl2]; apply Hkeep; [exact Hl2|rewrite Hl1; auto|exact Hl2|rewrite Hl1; auto].
  - cbn [step] in Hstep.
    destruct (w_add_appointment sc (set_rpc_log t []) signer loc b delay sig) as [r t1|] eqn:Ew; cbn [wrap] in Hstep;
      injection Hstep as <- <-; [|destruct Hna].
    apply add_appointment_keeps_trks in Ew. destruct Ew as [H1 H2]. apply Hkeep; [exact H1|exact H2].
  - destruct (get_unchanged le t sc signer loc) as [r Hr]. rewrite Hr in Hstep. injection Hstep as <- <-.
    apply Hkeep; [reflexivity|auto].
  - destruct (getsub_unchanged le t sc signer) as [r Hr]. rewrite Hr in Hstep. injection Hstep as <- <-.
    apply Hkeep; [reflexivity|auto].
  - destruct (connect_ok le t hash txs sc t' x Hstep Hna) as [tg [tw [_ [_ Er]]]].
    apply r_block_connected_reorged in Er. intros u Hu. rewrite Er in Hu. destruct Hu.
  - cbn [step] in Hstep. destruct (last_hash (set_rpc_log t [])) as [hash|].
    + pose proof (disconnect_reorged hash (gk_height (set_rpc_log t [])) (set_rpc_log t [])) as Hl.
      destruct (run_listeners _ _ _); cbn [wrap] in Hstep; injection Hstep as <- <-; [|destruct Hna].
      destruct Hl as [Hk Hr]. cbn [db_trks reorged set_rpc_log] in Hk, Hr. intros u Hu. rewrite Hk.
      destruct (Hr u Hu) as [H|H]; [apply HR; exact H|apply in_uuids_find; exact H].
    + injection Hstep as <- <-. apply Hkeep; [reflexivity|auto].
Qed.

Theorem reorged_tracked_reachable le c h0 blocks t0 : forall h,
  init c h0 blocks = Some t0 -> Forall not_abort (snd (run le t0 h)) -> reorged_tracked (fst (run le t0 h)).
Proof.
  intros h Hi. assert (H0 : reorged_tracked t0).
  { unfold init in Hi. destruct (ti_new _ _); [|discriminate]. destruct (ti_new _ _); [|discriminate].
    injection Hi as <-. intros u []. }
  clear Hi. revert t0 H0. induction h as [|[o sc] h IH]; intros t0 H0; cbn [run]; [intros _; exact H0|].
  pose proof (reorged_tracked_step le t0 o sc) as H1.
  destruct (step le t0 o sc) as [t1 x]. specialize (H1 t1 x H0 eq_refl).
  destruct x; try (specialize (IH t1); destruct (run le t1 h) as [t2 xs]; cbn [fst snd] in *;
                   intros Hall; inversion Hall; subst; apply IH; [apply H1; exact I|assumption]).
  cbn [fst snd]. intros Hall. inversion Hall; subst. contradiction.
Qed.

(* C02, every_send_justified in its four-way form: with `reorged` naming only uuids that have a
   tracker (true of every reachable state: reorged_tracked_reachable) the corner case of just_send
   cannot occur *)
Definition just_send4 (t : tower) (o : op) (tx : N) : Prop :=
  (exists hash txs a, o = OConnect hash txs /\ In a (db_apps t) /\ In (a_loc a) txs /\
                      decrypt (a_blob a) (a_loc a) = Some tx) \/
  (exists k, In k (db_trks t) /\ t_penalty k = tx) \/
  (exists k, In k (db_trks t) /\ mem_uuid (trk_uuid k) (reorged t) = true /\ t_dispute k = tx) \/
  (exists u loc b delay sig d, o = OAdd (Some u) loc b delay sig /\ ti_get (w_cache t) loc = Some d /\
                               decrypt b d = Some tx).

Theorem every_send_justified le t o sc t' x :
  Inv t -> reorged_tracked t -> step le t o sc = (t', x) -> not_abort x ->
  forall e, In e (rpc_log t') -> r_kind e = K_send -> just_send4 t o (r_tx e).
Proof.
  intros HI HR Hstep Hna e He Hk. pose proof (every_rpc_justified le t o sc t' x HI Hstep Hna e He) as Hj.
  unfold just_rpc in Hj. rewrite Hk in Hj. unfold just_send4.
  destruct Hj as [H|[H|[H|[H|[hash [txs [a [_ [_ [_ [_ [Hf Hm]]]]]]]]]]]]; auto.
  exfalso. apply mem_uuid_In in Hm. exact (HR _ Hm Hf).
Qed.

(* ------------------------------------------------------------------------------------------ *)
(* 8. C01 at the level of whole steps *)

Lemma touched_no_tracker tb txs h u : find_trk (db_trks tb) u = None -> touched tb txs h u = false.
Proof.
  intros Hn. destruct (touched tb txs h u) eqn:E; [|reflexivity].
  unfold touched in E. apply existsb_exists in E. destruct E as [k [Hk Hc]].
  apply andb_true_iff in Hc. destruct Hc as [Hu _]. apply uuid_eqb_eq in Hu.
  exfalso. apply (find_trk_None _ _ Hn). rewrite <- Hu. apply in_map. exact Hk.
Qed.

Lemma touched_single tb txs h k :
  NoDup (map trk_uuid (db_trks tb)) -> In k (db_trks tb) ->
  touchable txs h (reorged tb) k = false -> touched tb txs h (trk_uuid k) = false.
Proof.
  intros Hnd Hk Ht. destruct (touched tb txs h (trk_uuid k)) eqn:E; [|reflexivity].
  unfold touched in E. apply existsb_exists in E. destruct E as [k' [Hk' Hc]].
  apply andb_true_iff in Hc. destruct Hc as [Hu Ht']. apply uuid_eqb_eq in Hu.
  pose proof (find_trk_NoDup _ _ Hnd Hk) as F1. pose proof (find_trk_NoDup _ _ Hnd Hk') as F2.
  rewrite Hu in F2. assert (k' = k) by congruence. subst k'. congruence.
Qed.

Lemma trk_eta k : k = new_trk (trk_uuid k) (t_dispute k) (t_penalty k) (status_of_row k).
Proof. destruct k as [l u d p hh c]. destruct c; reflexivity. Qed.

(* the responder's pass leaves a uuid without tracker alone *)
Lemma responder_keeps_untracked le sc tw hash txs h t' u :
  r_block_connected le sc tw (index_block hash txs) h = Ok tt t' ->
  find_trk (db_trks tw) u = None ->
  find_trk (db_trks t') u = None /\
  (forall a, app_uuid a = u -> (In a (db_apps tw) <-> In a (db_apps t'))).
Proof.
  intros Er Hn. pose proof (r_block_connected_rinv tw txs h le sc _ t' (keys_of_index_block hash txs) Er) as RI.
  pose proof (touched_no_tracker tw txs h u Hn) as HU. split.
  - apply find_trk_None_iff. intros Hi. apply in_map_iff in Hi. destruct Hi as [k [Hu Hk]].
    destruct (rinv_origin _ _ _ _ k RI Hk) as [k0 [Hk0 Hid]]. apply trk_id_inj in Hid. destruct Hid as [Hu0 _].
    apply (find_trk_None _ _ Hn). rewrite <- Hu, <- Hu0. apply in_map. exact Hk0.
  - intros a Ha. split.
    + apply (ri_apps_out _ _ _ _ RI). rewrite Ha. exact HU.
    + apply (ri_apps_sub _ _ _ _ RI).
Qed.

(* Stretch: the whole Connect step.  Gatekeeper (purge), watcher (breaches), responder, in the
   generated order.  For a row whose owner survives the purge and whose locator is in the block:
   the outcome of the watcher's pass survives the responder's pass of the same block, except that
   the responder may at once act on the tracker just created when it is `touchable`: its penalty
   is in this very block (re-stamped ConfirmedIn h), its uuid is in `reorged`, it is stale, or —
   the corner — it was found in the index exactly IRREVOCABLY_RESOLVED blocks deep and completes
   immediately. *)
Theorem connect_step_breaches le t hash txs sc t' x tg :
  Inv t -> step le t (OConnect hash txs) sc = (t', x) -> not_abort x ->
  gk_block_connected (fresh t) (gk_height t + 1) = Ok tt tg ->
  forall a, In a (db_apps tg) -> memN (a_loc a) txs = true -> find_trk (db_trks t) (app_uuid a) = None ->
  match decrypt (a_blob a) (a_loc a) with
  | None => dropped t' (app_uuid a)
  | Some p =>
      let s := breach_status sc t p in
      penalty_handled sc t t' p /\
      (status_accepted s = true ->
       touchable txs (gk_height t + 1) (reorged t) (new_trk (app_uuid a) (a_loc a) p s) = false ->
       In a (db_apps t') /\ In (new_trk (app_uuid a) (a_loc a) p s) (db_trks t')) /\
      (status_rejected s = true -> dropped t' (app_uuid a)) /\
      (status_accepted s = false -> status_rejected s = false ->
       In a (db_apps t') /\ find_trk (db_trks t') (app_uuid a) = None)
  end.
Proof.
  intros HI Hstep Hna Eg a Ha Hl Hnt.
  destruct (connect_ok le t hash txs sc t' x Hstep Hna) as [tg' [tw [Eg' [Ew Er]]]].
  rewrite Eg in Eg'. injection Eg' as <-.
  assert (HIg : Inv tg).
  { pose proof (gk_block_connected_pres Inv (sa_block Inv inv_stable) (fresh t) (gk_height t + 1) (inv_fresh t HI)) as Hp.
    rewrite Eg in Hp. exact Hp. }
  assert (HIw : Inv tw).
  { pose proof (w_block_connected_pres Inv (sb_wr Inv (sa_block Inv inv_stable)) sc tg (cache_block hash txs) (gk_height t + 1) HIg) as Hp.
    rewrite Ew in Hp. exact Hp. }
  destruct (gk_block_connected_spec _ _ _ Eg) as [out [_ [_ [_ [Hkg [Heng _]]]]]].
  cbn [db_trks fresh set_rpc_log] in Hkg. unfold same_engine in Heng. cbn in Heng.
  assert (Hntg : find_trk (db_trks tg) (app_uuid a) = None).
  { apply find_trk_None_iff. intros Hi. apply (find_trk_None _ _ Hnt). apply in_map_iff in Hi.
    destruct Hi as [k [Hu Hk]]. rewrite <- Hu. apply in_map. rewrite Hkg in Hk. apply filter_In in Hk. apply Hk. }
  pose proof (w_block_connected_breaches sc tg hash txs _ tw HIg Ew a Ha Hl Hntg) as Hb.
  destruct (w_block_connected_frame sc tg hash txs _ tw HIg Ew) as [_ [_ [_ [_ [_ [_ [_ [Hre _]]]]]]]].
  pose proof (r_block_connected_rinv tw txs _ le sc _ t' (keys_of_index_block hash txs) Er) as RI.
  assert (Hdrop : dropped tw (app_uuid a) -> dropped t' (app_uuid a)).
  { intros [Hda Hdk]. destruct (responder_keeps_untracked le sc tw hash txs _ t' _ Er Hdk) as [Hk' Ha'].
    split; [|exact Hk']. apply find_app_None_iff. intros Hi. apply in_map_iff in Hi. destruct Hi as [a' [Hu Hia]].
    apply (find_app_None _ _ Hda). rewrite <- Hu. apply in_map. apply (Ha' a' Hu). exact Hia. }
  destruct (decrypt (a_blob a) (a_loc a)) as [p|]; [|apply Hdrop; exact Hb].
  assert (Hbs : breach_status sc tg p = breach_status sc t p) by (apply breach_status_core; symmetry; apply Heng).
  cbv zeta in Hb |- *. rewrite Hbs in Hb. destruct Hb as [Hev [Hacc [Hrej Hnei]]].
  split; [|split; [|split]].
  - destruct (ri_log _ _ _ _ RI) as [evr [Hlr _]]. unfold penalty_handled in *.
    replace (r_index t) with (r_index tg) by (symmetry; apply Heng).
    replace (car_memo t) with (car_memo tg) by (symmetry; apply Heng).
    rewrite Hlr. destruct Hev as [H|[[H1 H2]|[[r H]|H]]]; [left; exact H| | |right; right; right; exact H].
    + right. left. split; [apply in_or_app; right; exact H1|exact H2].
    + right. right. left. exists r. apply in_or_app. right. exact H.
  - intros Hs Htouch. destruct (Hacc Hs) as [Haw [k [Hk [Hu [Hd [Hp Hst]]]]]].
    assert (Hke : k = new_trk (app_uuid a) (a_loc a) p (breach_status sc t p)).
    { rewrite (trk_eta k), Hu, Hd, Hp, Hst. reflexivity. }
    assert (HU : touched tw txs (gk_height t + 1) (trk_uuid k) = false).
    { apply touched_single; [apply (inv_trks_nodup tw HIw)|exact Hk|].
      rewrite Hre. replace (reorged tg) with (reorged t) by apply Heng. rewrite Hke. exact Htouch. }
    split.
    + apply (ri_apps_out _ _ _ _ RI); [rewrite <- Hu; exact HU|exact Haw].
    + rewrite <- Hke. apply (ri_trks_out _ _ _ _ RI k HU). exact Hk.
  - intros Hs. apply Hdrop, Hrej, Hs.
  - intros H1 H2. destruct (Hnei H1 H2) as [Haw Hkw].
    destruct (responder_keeps_untracked le sc tw hash txs _ t' _ Er Hkw) as [Hk' Ha'].
    split; [apply (Ha' a eq_refl); exact Haw|exact Hk'].
Qed.

(* when the responder does NOT act on a tracker the watcher has just created *)
Lemma fresh_tracker_untouchable txs h R uuid d p s :
  memN p txs = false -> mem_uuid uuid R = false ->
  (forall hk, s = ConfirmedIn hk -> h - hk <> Z.to_N Consts.IRREVOCABLY_RESOLVED) ->
  (forall hm, s = InMempoolSince hm -> h - Z.to_N Consts.CONFIRMATIONS_BEFORE_RETRY < hm) ->
  status_accepted s = true ->
  touchable txs h R (new_trk uuid d p s) = false.
Proof.
  intros Hp Hr Hc Hm Ha. unfold touchable. cbn [new_trk t_penalty t_conf t_height]. rewrite new_trk_uuid, Hp, Hr.
  destruct s as [hk|hm| |c]; try discriminate; cbn [status_conf status_height orb andb negb].
  - rewrite orb_false_r. apply N.eqb_neq. apply Hc. reflexivity.
  - apply N.leb_gt. apply Hm. reflexivity.
Qed.

Lemma add_update_user_apps t u :
  match gk_add_update_user t u with Ok _ t' | Abort _ t' => db_apps t' = db_apps t end.
Proof.
  unfold gk_add_update_user. destruct (gk_get t u) as [ui|].
  - destruct (u32_add (u_slots ui) (c_slots (cfg t))); reflexivity.
  - destruct (u32_add (gk_height t) (c_duration (cfg t))); [|reflexivity].
    destruct (amem (db_users t) u); reflexivity.
Qed.

Lemma disconnect_apps hash h t :
  match run_listeners (listener_disconnected hash h) Consts.LISTENER_ORDER t with
  | Ok _ t' | Abort _ t' => db_apps t' = db_apps t
  end.
Proof.
  change (run_listeners (listener_disconnected hash h) Consts.LISTENER_ORDER t) with
    (do _, t1 <- gk_block_disconnected t h; do _, t2 <- w_block_disconnected t1 hash h;
     do _, t3 <- r_block_disconnected t2 hash h; Ok tt t3).
  unfold gk_block_disconnected, w_block_disconnected, r_block_disconnected.
  destruct (u32_sub h 1); reflexivity.
Qed.

(* C01, watch_until_triggered: an appointment that has not been triggered stays in the table,
   byte-identical, through every step except: a block containing its locator (trigger), a block
   at which the gatekeeper purges its owner, and a new add_appointment by its owner for the same
   locator (replacement). *)
Theorem watch_until_triggered le t o sc t' x a :
  Inv t -> step le t o sc = (t', x) -> not_abort x ->
  In a (db_apps t) -> find_trk (db_trks t) (app_uuid a) = None ->
  In a (db_apps t') \/
  (exists hash txs, o = OConnect hash txs /\ memN (a_loc a) txs = true) \/
  (exists hash txs tg, o = OConnect hash txs /\
                       gk_block_connected (fresh t) (gk_height t + 1) = Ok tt tg /\
                       amem (db_users t) (a_user a) = true /\ amem (db_users tg) (a_user a) = false) \/
  (exists b delay sig, o = OAdd (Some (a_user a)) (a_loc a) b delay sig).
Proof.
  intros HI Hstep Hna Ha Hnt.
  destruct o as [u|signer loc b delay sig|signer loc|signer|hash txs|].
  - left. cbn [step] in Hstep. pose proof (add_update_user_apps (set_rpc_log t []) u) as Hl.
    destruct (gk_add_update_user (set_rpc_log t []) u); cbn [wrap] in Hstep; injection Hstep as <- <-;
      rewrite Hl; exact Ha.
  - cbn [step] in Hstep. change (set_rpc_log t []) with (fresh t) in Hstep.
    destruct (w_add_appointment sc (fresh t) signer loc b delay sig) as [r t1|] eqn:Ew; cbn [wrap] in Hstep;
      injection Hstep as <- <-; [|destruct Hna].
    assert (Hcase : match r with
                    | AddOk _ _ _ _ => exists u, signer = Some u /\ others_kept (fresh t) t1 (loc, u)
                    | _ => t1 = fresh t
                    end).
    { destruct (ti_get (w_cache (fresh t)) loc) as [d|] eqn:Ec.
      - pose proof (add_appointment_triggered sc (fresh t) signer loc b delay sig d r t1 (inv_user_rows (fresh t) (inv_fresh t HI)) Ec Ew) as H.
        destruct r; try exact H. destruct H as [u [Hs [_ [_ [_ [Hoth _]]]]]]. exists u. split; assumption.
      - pose proof (add_appointment_stored sc (fresh t) signer loc b delay sig r t1 (inv_user_rows (fresh t) (inv_fresh t HI)) Ec Ew) as H.
        destruct r; try exact H. destruct H as [u [Hs [_ [_ [_ [Hoth _]]]]]]. exists u. split; assumption. }
    destruct r; try (left; rewrite Hcase; exact Ha).
    destruct Hcase as [u [-> [Hoth _]]].
    destruct (uuid_eqb (app_uuid a) (loc, u)) eqn:E.
    + apply uuid_eqb_eq in E. unfold app_uuid in E. injection E as <- <-.
      right. right. right. exists b, delay, sig. reflexivity.
    + left. apply uuid_eqb_neq in E. apply (Hoth a E). exact Ha.
  - left. destruct (get_unchanged le t sc signer loc) as [r Hr]. rewrite Hr in Hstep. injection Hstep as <- <-. exact Ha.
  - left. destruct (getsub_unchanged le t sc signer) as [r Hr]. rewrite Hr in Hstep. injection Hstep as <- <-. exact Ha.
  - destruct (memN (a_loc a) txs) eqn:Em; [right; left; exists hash, txs; split; [reflexivity|exact Em]|].
    destruct (connect_ok le t hash txs sc t' x Hstep Hna) as [tg [tw [Eg [Ew Er]]]].
    assert (HIg : Inv tg).
    { pose proof (gk_block_connected_pres Inv (sa_block Inv inv_stable) (fresh t) (gk_height t + 1) (inv_fresh t HI)) as Hp.
      rewrite Eg in Hp. exact Hp. }
    destruct (gk_block_connected_spec _ _ _ Eg) as [out [_ [Hug [Hag [Hkg _]]]]].
    cbn [db_users db_apps db_trks fresh set_rpc_log] in Hug, Hag, Hkg.
    destruct (memN (a_user a) out) eqn:Eo.
    + right. right. left. exists hash, txs, tg. split; [reflexivity|]. split; [exact Eg|].
      split; [apply (inv_fk_app t HI a Ha)|].
      unfold amem. rewrite Hug, (aget_filter_key (fun k => negb (memN k out))), Eo. reflexivity.
    + left. assert (Hag' : In a (db_apps tg)) by (rewrite Hag; apply filter_In; split; [exact Ha|rewrite Eo; reflexivity]).
      assert (Hntg : find_trk (db_trks tg) (app_uuid a) = None).
      { apply find_trk_None_iff. intros Hi. apply (find_trk_None _ _ Hnt). apply in_map_iff in Hi.
        destruct Hi as [k [Hu Hk]]. rewrite <- Hu. apply in_map. rewrite Hkg in Hk. apply filter_In in Hk. apply Hk. }
      destruct (w_block_connected_frame sc tg hash txs _ tw HIg Ew) as [Haw [_ [_ [_ [_ [_ [_ [_ [_ [_ [Hnewk _]]]]]]]]]]].
      assert (Haw' : In a (db_apps tw)).
      { rewrite Haw. apply filter_In. split; [exact Hag'|]. unfold survives_block. rewrite Em. reflexivity. }
      assert (Hntw : find_trk (db_trks tw) (app_uuid a) = None).
      { apply find_trk_None_iff. intros Hi. apply in_map_iff in Hi. destruct Hi as [k [Hu Hk]].
        destruct (Hnewk k Hk) as [Hold|[a' [Ha' Hm]]].
        - apply (find_trk_None _ _ Hntg). rewrite <- Hu. apply in_map. exact Hold.
        - destruct Hm as [HD [Hu' _]].
          assert (a' = a) by (apply (app_uuid_inj _ a' a (inv_apps_nodup tg HIg) Ha' Hag'); congruence).
          subst a'. apply memN_In in HD. congruence. }
      destruct (responder_keeps_untracked le sc tw hash txs _ t' _ Er Hntw) as [_ Hkeep].
      apply (Hkeep a eq_refl). exact Haw'.
  - left. cbn [step] in Hstep. destruct (last_hash (set_rpc_log t [])) as [hash|].
    + pose proof (disconnect_apps hash (gk_height (set_rpc_log t [])) (set_rpc_log t [])) as Hl.
      destruct (run_listeners _ _ _); cbn [wrap] in Hstep; injection Hstep as <- <-; rewrite Hl; exact Ha.
    + injection Hstep as <- <-. exact Ha.
Qed.

(* registrations, reads and disconnections issue no RPC at all (aborting or not) *)
Theorem quiet_step le t o sc t' x :
  step le t o sc = (t', x) ->
  match o with
  | ORegister _ | OGet _ _ | OGetSub _ | ODisconnect => rpc_log t' = []
  | _ => True
  end.
Proof.
  intros Hstep. destruct o as [u|signer loc b delay sig|signer loc|signer|hash txs|]; try exact I.
  - cbn [step] in Hstep. pose proof (add_update_user_log (set_rpc_log t []) u) as Hl.
    destruct (gk_add_update_user (set_rpc_log t []) u); cbn [wrap] in Hstep; injection Hstep as <- <-; exact Hl.
  - destruct (get_unchanged le t sc signer loc) as [r Hr]. rewrite Hr in Hstep. injection Hstep as <- <-. reflexivity.
  - destruct (getsub_unchanged le t sc signer) as [r Hr]. rewrite Hr in Hstep. injection Hstep as <- <-. reflexivity.
  - cbn [step] in Hstep. destruct (last_hash (set_rpc_log t [])) as [hash|].
    + pose proof (disconnect_log hash (gk_height (set_rpc_log t [])) (set_rpc_log t [])) as Hl.
      destruct (run_listeners _ _ _); cbn [wrap] in Hstep; injection Hstep as <- <-; apply Hl.
    + injection Hstep as <- <-. reflexivity.
Qed.

(* ------------------------------------------------------------------------------------------ *)
(* 9. C02 for ALL outcomes: what was submitted before a handler aborted (a panic of the process
      does not take a sendrawtransaction back) is justified just the same *)

Definition state_of {A} (r : res A) : tower := match r with Ok _ t | Abort _ t => t end.

Lemma ext_handle_all sc t0 D t uuid a p :
  Ext sc t0 D t -> find_app (db_apps t0) uuid = Some a -> D (a_loc a) ->
  decrypt (a_blob a) (a_loc a) = Some p ->
  Ext sc t0 D (state_of (r_handle_breach sc t uuid (a_loc a) p)).
Proof.
  intros E Hf HD Hd. destruct (r_handle_breach sc t uuid (a_loc a) p) as [s t'|site t'] eqn:Er; cbn [state_of].
  - apply (ext_handle sc t0 D t uuid a p s t' E Hf HD Hd Er).
  - apply handle_breach_abort in Er. destruct Er as [_ [-> _]]. exact E.
Qed.

Lemma breach_uuid_loop_ext sc t0 D d us : forall t inv,
  Ext sc t0 D t -> D d -> (forall u, In u us -> fst u = d) ->
  Ext sc t0 D (state_of (breach_uuid_loop sc d us t inv)).
Proof.
  induction us as [|uuid us IH]; intros t inv E HD Hd; cbn [breach_uuid_loop]; [exact E|].
  assert (Happs : db_apps t0 = db_apps t) by apply (ext_core sc t0 D t E).
  rewrite <- Happs.
  assert (Hd' : forall u, In u us -> fst u = d) by (intros u Hi; apply Hd; right; exact Hi).
  destruct (find_app (db_apps t0) uuid) as [a|] eqn:Ef; [|apply IH; assumption].
  destruct (find_app_Some _ _ _ Ef) as [Hin Hu].
  assert (Hloc : d = a_loc a).
  { rewrite <- (Hd uuid (or_introl eq_refl)), <- Hu. reflexivity. }
  destruct (decrypt (a_blob a) d) as [p|] eqn:Edec; [|apply IH; assumption].
  rewrite Hloc in Edec. assert (HDa : D (a_loc a)) by (rewrite <- Hloc; exact HD).
  pose proof (ext_handle_all sc t0 D t uuid a p E Ef HDa Edec) as H1. rewrite <- Hloc in H1.
  destruct (r_handle_breach sc t uuid d p) as [s t1|site t1]; cbn [bind state_of] in *; [|exact H1].
  apply IH; assumption.
Qed.

Lemma breach_loop_ext sc t0 D ds : forall t inv,
  Ext sc t0 D t -> (forall d, In d ds -> D d) -> Ext sc t0 D (state_of (breach_loop sc ds t inv)).
Proof.
  induction ds as [|d ds IH]; intros t inv E HD; cbn [breach_loop]; [exact E|].
  assert (Happs : db_apps t0 = db_apps t) by apply (ext_core sc t0 D t E).
  set (us := map app_uuid (filter (fun a => N.eqb (a_loc a) d) (db_apps t))).
  assert (Hus : forall u, In u us -> fst u = d).
  { intros u Hu. apply in_map_iff in Hu. destruct Hu as [a [<- Ha]]. apply filter_In in Ha.
    destruct Ha as [_ Ha]. apply N.eqb_eq in Ha. exact Ha. }
  pose proof (breach_uuid_loop_ext sc t0 D d us t inv E (HD d (or_introl eq_refl)) Hus) as H1.
  destruct (breach_uuid_loop sc d us t inv) as [inv1 t1|site t1]; cbn [bind state_of] in *; [|exact H1].
  apply IH; [exact H1|]. intros x Hx. apply HD. right. exact Hx.
Qed.

(* the watcher's listener, whatever its outcome *)
Lemma w_block_connected_log_all sc t hash txs h :
  exists evs, rpc_log (state_of (w_block_connected sc t (cache_block hash txs) h)) = evs ++ rpc_log t /\
    forall e, In e evs -> exists a, In a (db_apps t) /\ In (a_loc a) txs /\
                                    decrypt (a_blob a) (a_loc a) = Some (r_tx e).
Proof.
  unfold w_block_connected.
  destruct (ti_update (w_cache t) (cache_block hash txs)) as [c|]; [|exists []; split; [reflexivity|intros e []]].
  rewrite keys_of_cache_block. cbn [db_apps set_w_cache].
  set (t1 := set_w_cache t c).
  set (ds := filter (fun d => existsb (fun a => N.eqb (a_loc a) d) (db_apps t)) txs).
  assert (HD : forall d, In d ds -> In d txs) by (intros d Hd; apply filter_In in Hd; apply Hd).
  pose proof (breach_loop_ext sc t1 (fun d => In d txs) ds t1 [] (ext_refl sc t1 _) HD) as E.
  destruct (breach_loop sc ds t1 []) as [inv t2|site t2]; cbn [bind state_of] in *.
  - destruct (ext_log _ _ _ _ E) as [evs [Hl Hj]].
    assert (Hlog : forall t3, match inv with [] => Ok tt t2 | _ :: _ => gk_delete_appointments t2 inv false end = Ok tt t3 ->
                              rpc_log t3 = rpc_log t2).
    { intros t3 H. apply delete_invalid_spec in H. symmetry. apply H. }
    destruct (match inv with [] => Ok tt t2 | _ :: _ => gk_delete_appointments t2 inv false end) as [[] t3|site t3] eqn:Ed.
    + cbn [bind state_of rpc_log set_w_height]. exists evs. split; [rewrite (Hlog t3 eq_refl); exact Hl|exact Hj].
    + exfalso. destruct inv; [discriminate|]. cbn in Ed. discriminate.
  - destruct (ext_log _ _ _ _ E) as [evs [Hl Hj]]. exists evs. split; [exact Hl|exact Hj].
Qed.

Lemma refund_loop_same_all us : forall t, same_but_users t (state_of (refund_loop t us)).
Proof.
  induction us as [|uuid us IH]; intros t; cbn [refund_loop]; [apply same_but_users_refl|].
  destruct (find_app (db_apps t) uuid) as [a|]; [|apply same_but_users_refl].
  destruct (gk_get t (a_user a)) as [ui|]; [|apply same_but_users_refl].
  destruct (u32_add (u_slots ui) (slots_of (b_len (a_blob a)))) as [s|]; [|apply same_but_users_refl].
  eapply same_but_users_trans; [|apply IH]. repeat split.
Qed.

Section ResponderAll.
  Context (tb : tower).

  (* the part of the responder's invariant that concerns what is submitted *)
  Record RL (t : tower) : Prop := {
    rl_ids : incl (map trk_id (db_trks t)) (map trk_id (db_trks tb));
    rl_reorged : incl (reorged t) (reorged tb);
    rl_log : exists evs, rpc_log t = evs ++ rpc_log tb /\ forall e, In e evs -> jr tb e
  }.

  Lemma rl_base : RL tb.
  Proof. constructor; try apply incl_refl. exists []. split; [reflexivity|intros e []]. Qed.

  Lemma rl_frame t t' :
    db_trks t = db_trks t' -> incl (reorged t') (reorged t) -> rpc_log t = rpc_log t' -> RL t -> RL t'.
  Proof.
    intros Hk Hr Hl [I1 I2 I3]. constructor; rewrite <- ?Hk, <- ?Hl; auto. eapply incl_tran; eassumption.
  Qed.

  Lemma rl_origin t k : RL t -> In k (db_trks t) -> exists k0, In k0 (db_trks tb) /\ trk_id k0 = trk_id k.
  Proof.
    intros R Hi. apply (in_map trk_id) in Hi. apply (rl_ids t R) in Hi.
    apply in_map_iff in Hi. destruct Hi as [k0 [He Hi]]. exists k0. split; assumption.
  Qed.

  Lemma rl_send sc t tx :
    RL t ->
    (exists k, In k (db_trks tb) /\ (tx = t_penalty k \/ (tx = t_dispute k /\ In (trk_uuid k) (reorged tb)))) ->
    RL (snd (send_transaction sc t tx)).
  Proof.
    intros R Hj. destruct (send_transaction sc t tx) as [s t1] eqn:Hs. cbn [snd].
    apply send_transaction_spec in Hs. destruct Hs as [Ht [Hc Hcase]].
    destruct (aget (car_memo t) tx).
    - destruct Hcase as [_ ->]. exact R.
    - destruct Hcase as [_ [_ Hl]]. destruct R as [I1 I2 I3].
      assert (Hk : db_trks t = db_trks t1) by apply Ht.
      assert (Hr : reorged t = reorged t1) by apply Hc.
      constructor; rewrite <- ?Hk, <- ?Hr; auto.
      destruct I3 as [evs [He Hall]]. exists (ev_send tx s :: evs). split; [rewrite Hl, He; reflexivity|].
      intros e [<-|Hi]; [|apply Hall; exact Hi]. split; [reflexivity|exact Hj].
  Qed.

  Lemma rl_status t uuid hh c : RL t -> RL (set_trk_status t uuid hh c).
  Proof.
    intros [I1 I2 I3]. unfold set_trk_status. constructor; cbn [db_trks reorged rpc_log set_db_trks]; auto.
    rewrite map_map. intros x Hx. apply I1. apply in_map_iff in Hx. destruct Hx as [k [He Hi]].
    apply in_map_iff. exists k. split; [|exact Hi]. rewrite <- He.
    destruct (uuid_eqb (trk_uuid k) uuid); reflexivity.
  Qed.

  Lemma rl_gk_delete t us refund : RL t -> RL (state_of (gk_delete_appointments t us refund)).
  Proof.
    intros R.
    assert (Hdel : forall t1, RL t1 -> RL (db_delete_apps t1 us)).
    { intros t1 [I1 I2 I3]. unfold db_delete_apps. constructor; cbn [db_trks reorged rpc_log set_db_trks set_db_apps]; auto.
      intros x Hx. apply I1. apply in_map_iff in Hx. destruct Hx as [k [He Hi]]. apply filter_In in Hi.
      apply in_map_iff. exists k. split; [exact He|apply Hi]. }
    unfold gk_delete_appointments. destruct refund; [|cbn [state_of]; apply Hdel; exact R].
    pose proof (refund_loop_same_all us t) as Hs. unfold same_but_users in Hs.
    assert (R1 : RL (state_of (refund_loop t us))).
    { apply (rl_frame t _); try apply Hs; [|exact R].
      replace (reorged (state_of (refund_loop t us))) with (reorged t) by apply Hs. apply incl_refl. }
    destruct (refund_loop t us) as [[] t1|site t1]; cbn [bind state_of] in *; [apply Hdel; exact R1|exact R1].
  Qed.

  Lemma check_conf_all le txs h snap : forall t comp, RL t -> RL (state_of (check_conf_loop le txs h snap t comp)).
  Proof.
    induction snap as [|k snap IH]; intros t comp R; cbn [check_conf_loop]; [exact R|].
    destruct (memN (t_penalty k) txs).
    - destruct (find_trk (db_trks t) (trk_uuid k)); [|exact R].
      apply IH. eapply rl_frame; [| | |apply (rl_status t (trk_uuid k) h true R)]; try reflexivity.
      cbn [reorged set_reorged]. intros x Hx. apply filter_In in Hx. apply Hx.
    - destruct (mem_uuid (trk_uuid k) (reorged t)); [apply IH; exact R|].
      destruct (t_conf k); apply IH; exact R.
  Qed.

  Lemma reorged_loop_all sc h us : forall t rej,
    (forall u, In u us -> In u (reorged tb)) -> RL t -> RL (state_of (reorged_loop sc h us t rej)).
  Proof.
    induction us as [|uuid us IH]; intros t rej Hus R; cbn [reorged_loop]; [exact R|].
    assert (Hus' : forall u, In u us -> In u (reorged tb)) by (intros x Hx; apply Hus; right; exact Hx).
    destruct (find_trk (db_trks t) uuid) as [k|] eqn:Ef; [|apply IH; assumption].
    apply find_trk_Some in Ef. destruct Ef as [Hik Huk].
    destruct (rl_origin t k R Hik) as [k0 [Hk0 Hid]]. apply trk_id_inj in Hid. destruct Hid as [Hu0 [Hd0 Hp0]].
    assert (HR : In (trk_uuid k0) (reorged tb)) by (rewrite Hu0, Huk; apply Hus; left; reflexivity).
    assert (R1 : RL (snd (send_transaction sc t (t_dispute k)))).
    { apply rl_send; [exact R|]. exists k0. split; [exact Hk0|]. right. split; [congruence|exact HR]. }
    destruct (send_transaction sc t (t_dispute k)) as [s t1]. cbn [snd] in R1.
    assert (R2 : RL (snd (send_transaction sc t1 (t_penalty k)))).
    { apply rl_send; [exact R1|]. exists k0. split; [exact Hk0|]. left. congruence. }
    destruct (send_transaction sc t1 (t_penalty k)) as [s2 t2]. cbn [snd] in R2.
    destruct s as [hh|hh| |c]; [exact R1| | |apply IH; assumption];
      (destruct (status_rejected s2); apply IH; [exact Hus'|exact R2|exact Hus'|apply rl_status; exact R2]).
  Qed.

  Lemma stale_loop_all sc h us : forall t rej, RL t -> RL (state_of (stale_loop sc h us t rej)).
  Proof.
    induction us as [|uuid us IH]; intros t rej R; cbn [stale_loop]; [exact R|].
    destruct (find_trk (db_trks t) uuid) as [k|] eqn:Ef; [|exact R].
    apply find_trk_Some in Ef. destruct Ef as [Hik Huk].
    destruct (rl_origin t k R Hik) as [k0 [Hk0 Hid]]. apply trk_id_inj in Hid. destruct Hid as [Hu0 [Hd0 Hp0]].
    assert (R1 : RL (snd (send_transaction sc t (t_penalty k)))).
    { apply rl_send; [exact R|]. exists k0. split; [exact Hk0|]. left. congruence. }
    destruct (send_transaction sc t (t_penalty k)) as [s t1]. cbn [snd] in R1.
    destruct s as [hh|hh| |c]; apply IH; try exact R1; apply rl_status; exact R1.
  Qed.

  Lemma r_block_connected_all le sc b h : RL (state_of (r_block_connected le sc tb b h)).
  Proof.
    unfold r_block_connected.
    assert (R0 : RL (set_car_height tb h)) by (apply (rl_frame tb _); try reflexivity; [apply incl_refl|apply rl_base]).
    destruct (ti_update (r_index (set_car_height tb h)) b) as [idx|]; [|exact R0].
    set (t1 := set_r_index (set_car_height tb h) idx).
    assert (R1 : RL t1) by (apply (rl_frame tb t1); try reflexivity; [apply incl_refl|apply rl_base]).
    pose proof (check_conf_all le (keys_of (ib_data b)) h (db_trks t1) t1 [] R1) as R2.
    destruct (check_conf_loop le (keys_of (ib_data b)) h (db_trks t1) t1 []) as [comp t2|site t2];
      cbn [bind state_of] in *; [|exact R2].
    assert (R3 : RL (state_of (match comp with [] => Ok tt t2 | _ :: _ => gk_delete_appointments t2 comp true end))).
    { destruct comp; [exact R2|apply rl_gk_delete; exact R2]. }
    destruct (match comp with [] => Ok tt t2 | _ :: _ => gk_delete_appointments t2 comp true end) as [[] t3|site t3];
      cbn [bind state_of] in *; [|exact R3].
    assert (Htail : forall rej1 t4, RL t4 ->
              RL (state_of (match u32_sub h (Z.to_N Consts.CONFIRMATIONS_BEFORE_RETRY) with
                            | None => Abort S_r_stale_underflow t4
                            | Some lim =>
                                let stale := map trk_uuid (filter (fun k => negb (t_conf k) && N.leb (t_height k) lim) (db_trks t4)) in
                                do rej2, t5 <- stale_loop sc h stale t4 [];
                                do _, t6 <- (match rej1 ++ rej2 with [] => Ok tt t5 | l => gk_delete_appointments t5 l false end);
                                Ok tt (set_car_memo t6 [])
                            end))).
    { intros rej1 t4 R4. destruct (u32_sub h (Z.to_N Consts.CONFIRMATIONS_BEFORE_RETRY)) as [lim|]; [|exact R4].
      cbv zeta.
      pose proof (stale_loop_all sc h (map trk_uuid (filter (fun k => negb (t_conf k) && N.leb (t_height k) lim) (db_trks t4))) t4 [] R4) as R5.
      destruct (stale_loop sc h _ t4 []) as [rej2 t5|site t5]; cbn [bind state_of] in *; [|exact R5].
      destruct (rej1 ++ rej2) as [|r0 rs]; cbn [bind state_of].
      - apply (rl_frame t5 _); try reflexivity; [apply incl_refl|exact R5].
      - pose proof (rl_gk_delete t5 (r0 :: rs) false R5) as R6.
        destruct (gk_delete_appointments t5 (r0 :: rs) false) as [[] t6|site t6]; cbn [bind state_of] in *; [|exact R6].
        apply (rl_frame t6 _); try reflexivity; [apply incl_refl|exact R6]. }
    destruct (reorged t3) as [|r0 rs] eqn:Ere; cbn [bind].
    - apply Htail. exact R3.
    - assert (R3' : RL (set_reorged t3 [])).
      { apply (rl_frame t3 _); try reflexivity; [intros x []|exact R3]. }
      assert (Hus : forall u, In u (r0 :: rs) -> In u (reorged tb)) by (rewrite <- Ere; apply (rl_reorged t3 R3)).
      pose proof (reorged_loop_all sc h (r0 :: rs) (set_reorged t3 []) [] Hus R3') as R4.
      destruct (reorged_loop sc h (r0 :: rs) (set_reorged t3 []) []) as [rej1 t4|site t4]; cbn [bind state_of] in *; [|exact R4].
      apply Htail. exact R4.
  Qed.
End ResponderAll.

Lemma store_appointment_no_abort t a s t' : w_store_appointment t a = Abort s t' -> False.
Proof.
  unfold w_store_appointment. destruct (find_app (db_apps t) (app_uuid a)); [discriminate|].
  destruct (amem (db_users t) (a_user a)); discriminate.
Qed.

Lemma w_add_appointment_abort_log sc t signer loc b delay sig site t' :
  w_add_appointment sc t signer loc b delay sig = Abort site t' -> rpc_log t' = rpc_log t.
Proof.
  unfold w_add_appointment.
  destruct (authenticate t signer) as [u|]; [|discriminate].
  destruct (gk_get t u) as [ui|] eqn:Eg; [|discriminate].
  destruct (N.leb (u_expiry ui) (gk_height t)); [discriminate|].
  destruct (find_trk (db_trks t) (loc, u)); [discriminate|].
  destruct (gk_add_update_appointment t u (loc, u) (b_len b)) as [charged t1|site1 t1] eqn:Ec; cbn [bind].
  2: { unfold gk_add_update_appointment in Ec. rewrite Eg in Ec.
       match type of Ec with (if ?c then _ else _) = _ => destruct c end; discriminate. }
  apply add_update_appointment_spec in Ec. destruct Ec as [Hsame _].
  assert (Hl1 : rpc_log t = rpc_log t1) by apply Hsame.
  destruct charged as [av|]; [|discriminate].
  cbv zeta. set (a := mk_app loc u b delay sig (w_height t)).
  destruct (ti_get (w_cache t1) loc) as [d|].
  - unfold w_store_triggered. change (a_blob a) with b. destruct (decrypt b d) as [p|].
    + destruct (w_store_ok t1 a) eqn:Eok; [|cbn [bind]; discriminate].
      destruct (w_store_appointment t1 a) as [[] t2|s2 t2] eqn:Est; cbn [bind];
        [|exfalso; eapply store_appointment_no_abort; eauto].
      apply (store_appointment_spec _ _ _ Eok) in Est. subst t2.
      destruct (r_handle_breach sc _ (app_uuid a) d p) as [s t3|s3 t3] eqn:Er; cbn [bind].
      * destruct (status_rejected s); cbn [gk_delete_appointments bind]; discriminate.
      * apply handle_breach_abort in Er. destruct Er as [_ [-> _]]. intros H. injection H as _ <-. cbn. symmetry. exact Hl1.
    + destruct (find_app (db_apps t1) (app_uuid a)); cbn [gk_delete_appointments bind]; discriminate.
  - destruct (w_store_appointment t1 a) as [[] t2|s2 t2] eqn:Est; cbn [bind];
      [destruct (w_store_ok t1 a); discriminate|exfalso; eapply store_appointment_no_abort; eauto].
Qed.

(* C02, no_send_for_purged for every outcome of the Connect step, aborts included: when the
   gatekeeper's listener (first in the generated order) aborts nothing has been issued; otherwise
   every RPC issued before the step ended is justified by the rows left after its purge *)
Theorem connect_rpcs_justified_all le t hash txs sc t' x :
  Inv t -> step le t (OConnect hash txs) sc = (t', x) ->
  match gk_block_connected (fresh t) (gk_height t + 1) with
  | Ok _ tg => forall e, In e (rpc_log t') -> just_rpc tg (OConnect hash txs) e
  | Abort _ _ => rpc_log t' = []
  end.
Proof.
  intros HI Hstep.
  cbn [step] in Hstep. change (set_rpc_log t []) with (fresh t) in Hstep.
  change (gk_height (fresh t)) with (gk_height t) in Hstep. rewrite connect_unfold in Hstep.
  destruct (gk_block_connected (fresh t) (gk_height t + 1)) as [[] tg|site tg] eqn:Eg; cbn [bind wrap] in Hstep.
  2: { injection Hstep as <- _. unfold gk_block_connected in Eg.
       destruct (outdated_users _ _ _); [discriminate|]. injection Eg as _ <-. reflexivity. }
  assert (HIg : Inv tg).
  { pose proof (gk_block_connected_pres Inv (sa_block Inv inv_stable) (fresh t) (gk_height t + 1) (inv_fresh t HI)) as Hp.
    rewrite Eg in Hp. exact Hp. }
  destruct (gk_block_connected_spec _ _ _ Eg) as [out [_ [_ [_ [_ [Heng _]]]]]].
  assert (Hlg : rpc_log tg = []) by (symmetry; apply Heng).
  destruct (w_block_connected_log_all sc tg hash txs (gk_height t + 1)) as [evw [Hlw Hjw]].
  assert (Hwj : forall e, In e evw -> just_rpc tg (OConnect hash txs) e).
  { intros e He. destruct (Hjw e He) as [a [Ha [Hl Hdec]]]. unfold just_rpc.
    destruct (r_kind e); left; exists hash, txs, a; repeat split; assumption. }
  destruct (w_block_connected sc tg (cache_block hash txs) (gk_height t + 1)) as [[] tw|site tw] eqn:Ew;
    cbn [bind wrap state_of] in *.
  2: { injection Hstep as <- _. rewrite Hlw, Hlg, app_nil_r. exact Hwj. }
  destruct (w_block_connected_frame sc tg hash txs _ tw HIg Ew)
    as [_ [_ [_ [_ [_ [_ [_ [Hre [_ [_ [Hnewk _]]]]]]]]]]].
  pose proof (r_block_connected_all tw le sc (index_block hash txs) (gk_height t + 1)) as R.
  assert (Ht' : t' = state_of (r_block_connected le sc tw (index_block hash txs) (gk_height t + 1))).
  { destruct (r_block_connected le sc tw (index_block hash txs) (gk_height t + 1)) as [[] tr|site tr];
      cbn [bind wrap] in Hstep; injection Hstep as <- _; reflexivity. }
  rewrite <- Ht' in R. destruct (rl_log _ _ R) as [evr [Hlr Hjr]].
  intros e He. rewrite Hlr, Hlw, Hlg, app_nil_r in He. apply in_app_or in He. destruct He as [He|He]; [|apply Hwj; exact He].
  destruct (Hjr e He) as [Hk [k [Hik Hcase]]]. unfold just_rpc. rewrite Hk. unfold just_send.
  destruct (Hnewk k Hik) as [Hold|[a [Ha Hm]]].
  + destruct Hcase as [Hp|[Hd HR]].
    * right. left. exists k. split; [exact Hold|symmetry; exact Hp].
    * right. right. left. exists k. split; [exact Hold|]. split; [|symmetry; exact Hd].
      apply mem_uuid_In. rewrite <- Hre. exact HR.
  + destruct Hm as [HD [Hu [Hdis [Hdec [_ [_ Hfresh]]]]]].
    destruct Hcase as [Hp|[Hd HR]].
    * left. exists hash, txs, a. repeat split; [exact Ha|exact HD|]. rewrite Hp. exact Hdec.
    * right. right. right. right. exists hash, txs, a. repeat split; [exact Ha|exact HD|congruence|congruence|].
      apply mem_uuid_In. rewrite <- Hu, <- Hre. exact HR.
Qed.

(* C02, every_send_justified for every outcome of the step, aborts included *)
Theorem every_rpc_justified_all le t o sc t' x :
  Inv t -> step le t o sc = (t', x) -> forall e, In e (rpc_log t') -> just_rpc t o e.
Proof.
  intros HI Hstep.
  destruct o as [u|signer loc b delay sig|signer loc|signer|hash txs|];
    try (pose proof (quiet_step le t _ sc t' x Hstep) as Hq; cbv beta iota in Hq; rewrite Hq; intros e []).
  - destruct x; try (apply (every_rpc_justified le t _ sc t' _ HI Hstep I)).
    cbn [step] in Hstep.
    destruct (w_add_appointment sc (set_rpc_log t []) signer loc b delay sig) as [r t1|site t1] eqn:Ew; cbn [wrap] in Hstep;
      injection Hstep as <- Hx; [discriminate|].
    apply w_add_appointment_abort_log in Ew. rewrite Ew. intros e [].
  - pose proof (connect_rpcs_justified_all le t hash txs sc t' x HI Hstep) as H.
    destruct (gk_block_connected (fresh t) (gk_height t + 1)) as [[] tg|site tg] eqn:Eg.
    + intros e He. eapply just_rpc_purge; [exact Eg|]. apply H. exact He.
    + rewrite H. intros e [].
Qed.

Theorem every_send_justified_all le t o sc t' x :
  Inv t -> reorged_tracked t -> step le t o sc = (t', x) ->
  forall e, In e (rpc_log t') -> r_kind e = K_send -> just_send4 t o (r_tx e).
Proof.
  intros HI HR Hstep e He Hk. pose proof (every_rpc_justified_all le t o sc t' x HI Hstep e He) as Hj.
  unfold just_rpc in Hj. rewrite Hk in Hj. unfold just_send4.
  destruct Hj as [H|[H|[H|[H|[hash [txs [a [_ [_ [_ [_ [Hf Hm]]]]]]]]]]]]; auto.
  exfalso. apply mem_uuid_In in Hm. exact (HR _ Hm Hf).
Qed.

(* ------------------------------------------------------------------------------------------ *)
(* 10. complements *)

(* frame of the watcher's listener, row by row *)
Corollary w_block_connected_rows_kept sc t hash txs h t' a :
  Inv t -> w_block_connected sc t (cache_block hash txs) h = Ok tt t' ->
  In a (db_apps t) -> memN (a_loc a) txs = false -> In a (db_apps t').
Proof.
  intros HI Hw Ha Hm. destruct (w_block_connected_frame sc t hash txs h t' HI Hw) as [-> _].
  apply filter_In. split; [exact Ha|]. unfold survives_block. rewrite Hm. reflexivity.
Qed.

(* "reported as dispute_responded with exactly that penalty and dispute": while the tracker row is
   held, its owner's get_appointment answers with the tracker's dispute and penalty *)
Theorem get_reports_responded le t sc k ui :
  Inv t -> In k (db_trks t) ->
  amem (gk_users t) (t_user k) = true -> gk_get t (t_user k) = Some ui -> gk_height t < u_expiry ui ->
  step le t (OGet (Some (t_user k)) (t_loc k)) sc = (fresh t, OGetRes (GetTrk (t_dispute k) (t_penalty k))).
Proof.
  intros HI Hk Hm Hg He. cbn [step wrap]. unfold w_get_appointment, authenticate.
  change (set_rpc_log t []) with (fresh t).
  change (gk_users (fresh t)) with (gk_users t). rewrite Hm.
  change (gk_get (fresh t) (t_user k)) with (gk_get t (t_user k)). rewrite Hg.
  change (gk_height (fresh t)) with (gk_height t).
  apply N.leb_gt in He. rewrite He.
  change (db_trks (fresh t)) with (db_trks t). change (db_apps (fresh t)) with (db_apps t).
  change (t_loc k, t_user k) with (trk_uuid k).
  rewrite (find_trk_NoDup _ k (inv_trks_nodup t HI) Hk).
  destruct (inv_fk_trk t HI k Hk) as [a [Ha Hu]].
  destruct (find_app_In _ _ Ha) as [a' Hf]. rewrite Hu in Hf. rewrite Hf. reflexivity.
Qed.

(* The four-way form of every_send_justified is FALSE of states that merely satisfy Inv: the
   hypothesis reorged_tracked (or the fifth case of just_send) is needed.  Witness: the state
   after a registration and an appointment (500,1), with `reorged` set to [(500,1)] although there
   is no tracker; the block [500] makes the watcher respond (penalty 900) and the responder
   re-announce the DISPUTE 500 of the tracker just created. *)
Module Refute.
  Definition c0 := mk_config 10 1000 6.
  Definition blocks0 : list (N * list N) := [(1006,[]);(1005,[]);(1004,[]);(1003,[]);(1002,[]);(1001,[])].
  Definition pre : list (op * script) :=
    [(ORegister 1, []); (OAdd (Some 1) 500 (mk_blob 500 (Some 900) 100) 20 77, [])].
  Definition witness (t0 : tower) : tower := set_reorged (fst (run true t0 pre)) [(500, 1)].
End Refute.

Theorem every_send_justified_refuted :
  exists le t o sc t' x e,
    Inv t /\ step le t o sc = (t', x) /\ not_abort x /\ In e (rpc_log t') /\ r_kind e = K_send /\
    ~ just_send4 t o (r_tx e).
Proof.
  destruct (init Refute.c0 200 Refute.blocks0) as [t0|] eqn:Ei; [|vm_compute in Ei; discriminate].
  exists true, (Refute.witness t0), (OConnect 2001 [500]), [].
  assert (HI : Inv (Refute.witness t0)).
  { apply (inv_frame (fst (run true t0 Refute.pre))); [repeat split|].
    apply (inv_reachable true Refute.c0 200 Refute.blocks0 t0 Refute.pre Ei).
    vm_compute in Ei. injection Ei as <-. vm_compute. repeat constructor. }
  vm_compute in Ei. injection Ei as <-.
  eexists. eexists. exists (mk_rpc K_send 500 (InMempoolSince 201)).
  split; [exact HI|]. split; [vm_compute; reflexivity|]. split; [exact I|].
  split; [vm_compute; left; reflexivity|]. split; [reflexivity|].
  cbn [r_tx]. intros [H|[H|[H|H]]].
  - destruct H as [hash [txs [a [_ [Ha [_ Hd]]]]]]. vm_compute in Ha. destruct Ha as [<-|[]].
    vm_compute in Hd. discriminate.
  - destruct H as [k [Hk _]]. vm_compute in Hk. exact Hk.
  - destruct H as [k [Hk _]]. vm_compute in Hk. exact Hk.
  - destruct H as [u [loc [b [delay [sig [d [Ho _]]]]]]]. discriminate.
Qed.

(* verdict by txid, made explicit: two breached rows (of two users, or of two locators) whose
   blobs decrypt to the same penalty share one fate *)
Corollary shared_verdict sc t hash txs h t' a1 a2 p :
  Inv t -> w_block_connected sc t (cache_block hash txs) h = Ok tt t' ->
  In a1 (db_apps t) -> In a2 (db_apps t) ->
  memN (a_loc a1) txs = true -> memN (a_loc a2) txs = true ->
  decrypt (a_blob a1) (a_loc a1) = Some p -> decrypt (a_blob a2) (a_loc a2) = Some p ->
  (In a1 (db_apps t') <-> In a2 (db_apps t')).
Proof.
  intros HI Hw H1 H2 M1 M2 D1 D2. destruct (w_block_connected_frame sc t hash txs h t' HI Hw) as [-> _].
  rewrite !filter_In. unfold survives_block. rewrite M1, M2, D1, D2. tauto.
Qed.
