(* TowerBreach.v — C01 / C02: what the tower does with a breach, and what it gives to the node.
   Functional specifications of the Carrier and of Responder::handle_breach, the Watcher's
   block path (handle_breaches) and late-appointment path (store_triggered_appointment),
   and the justification of every sendrawtransaction of a step.  Lemmas only; the statements
   are collected in Properties/C01_breach.v and Properties/C02_sends.v. *)
From TeosModel Require Import Base ListAux TxIndex TxIndexProofs Tower TowerStable TowerInv.
From TeosModel.Gen Require Consts.
From Coq Require Import Lia.
Local Open Scope N_scope.

(* ------------------------------------------------------------------------------------------ *)
(* 0. vocabulary *)

(* every field but the tracker table, the carrier's memo and the ghost RPC log *)
Definition same_core (t t' : tower) : Prop :=
  cfg t = cfg t' /\ gk_users t = gk_users t' /\ gk_height t = gk_height t' /\ db_users t = db_users t' /\
  db_apps t = db_apps t' /\ w_height t = w_height t' /\ w_cache t = w_cache t' /\ r_index t = r_index t' /\
  car_height t = car_height t' /\ reorged t = reorged t'.

Lemma same_core_refl t : same_core t t.
Proof. repeat split. Qed.
Lemma same_core_trans a b c : same_core a b -> same_core b c -> same_core a c.
Proof. unfold same_core. intuition congruence. Qed.

Definition says_in_mempool (sc : script) (tx : N) : bool :=
  match fst (script_get sc tx) with G_in_mempool => true | _ => false end.

Definition ev_getraw (tx : N) (b : bool) : rpc_event := mk_rpc K_getraw tx (InMempoolSince (if b then 1 else 0)).
Definition ev_send (tx : N) (r : cstatus) : rpc_event := mk_rpc K_send tx r.

(* ------------------------------------------------------------------------------------------ *)
(* 1. Carrier *)

(* send_transaction: the memo of the current block period answers first; otherwise the node is
   asked exactly once (one K_send event) and its answer is memoised.  No table is touched. *)
Lemma send_transaction_spec sc t tx r t' :
  send_transaction sc t tx = (r, t') ->
  same_tables t t' /\ same_core t t' /\
  match aget (car_memo t) tx with
  | Some r0 => r = r0 /\ t' = t
  | None => r = send_status t (snd (script_get sc tx)) /\
            car_memo t' = (tx, r) :: car_memo t /\
            rpc_log t' = ev_send tx r :: rpc_log t
  end.
Proof.
  unfold send_transaction. destruct (aget (car_memo t) tx) as [r0|]; intros H; inversion H; subst; clear H.
  - repeat split.
  - repeat split.
Qed.

Lemma in_mempool_spec sc t tx b t' :
  in_mempool sc t tx = (b, t') ->
  b = says_in_mempool sc tx /\ same_tables t t' /\ same_core t t' /\ car_memo t' = car_memo t /\
  rpc_log t' = ev_getraw tx b :: rpc_log t.
Proof. unfold in_mempool. intros H. inversion H; subst; clear H. repeat split. Qed.

(* ------------------------------------------------------------------------------------------ *)
(* 2. Responder::handle_breach *)

(* the status handle_breach computes for penalty p in state t: a function of the responder's
   index, the node's answers, the carrier's height and memo — NOT of the appointment: two rows
   with the same penalty get the same verdict.  (The IrrevocablyResolved in the second line is
   the place where the code panics — S_r_get_height_unwrap; never reached in a run that returns.) *)
Definition breach_status (sc : script) (t : tower) (p : N) : cstatus :=
  match ti_get (r_index t) p with
  | Some bh => match ti_get_height (r_index t) bh with
               | Some h => ConfirmedIn (Z.to_N h)
               | None => IrrevocablyResolved
               end
  | None =>
      if says_in_mempool sc p then InMempoolSince (car_height t)
      else match aget (car_memo t) p with
           | Some r => r
           | None => send_status t (snd (script_get sc p))
           end
  end.

(* the RPCs handle_breach issues for p, newest first *)
Definition breach_events (sc : script) (t : tower) (p : N) : list rpc_event :=
  match ti_get (r_index t) p with
  | Some _ => []
  | None =>
      if says_in_mempool sc p then [ev_getraw p true]
      else match aget (car_memo t) p with
           | Some _ => [ev_getraw p false]
           | None => [ev_send p (send_status t (snd (script_get sc p))); ev_getraw p false]
           end
  end.

Definition breach_memo (sc : script) (t : tower) (p : N) : list (N * cstatus) :=
  match ti_get (r_index t) p with
  | Some _ => car_memo t
  | None =>
      if says_in_mempool sc p then car_memo t
      else match aget (car_memo t) p with
           | Some _ => car_memo t
           | None => (p, send_status t (snd (script_get sc p))) :: car_memo t
           end
  end.

Definition status_height (s : cstatus) : N := match s with ConfirmedIn h | InMempoolSince h => h | _ => 0 end.
Definition status_conf (s : cstatus) : bool := match s with ConfirmedIn _ => true | _ => false end.

(* the tracker row add_tracker writes *)
Definition new_trk (uuid : N * N) (d p : N) (s : cstatus) : trk :=
  mk_trk (fst uuid) (snd uuid) d p (status_height s) (status_conf s).

Definition breach_trks (t : tower) (uuid : N * N) (d p : N) (s : cstatus) : list trk :=
  if status_accepted s then
    match find_trk (db_trks t) uuid, find_app (db_apps t) uuid with
    | None, Some _ => db_trks t ++ [new_trk uuid d p s]
    | _, _ => db_trks t
    end
  else db_trks t.

Lemma status_of_new_trk uuid d p s : status_accepted s = true -> status_of_row (new_trk uuid d p s) = s.
Proof. destruct s; cbn; intros H; try discriminate; reflexivity. Qed.

(* the carrier half of handle_breach *)
Definition breach_carrier (sc : script) (t : tower) (p : N) : res cstatus :=
  match ti_get (r_index t) p with
  | Some bh =>
      match ti_get_height (r_index t) bh with
      | Some h => Ok (ConfirmedIn (Z.to_N h)) t
      | None => Abort S_r_get_height_unwrap t
      end
  | None =>
      let '(inm, t1) := in_mempool sc t p in
      if inm then Ok (InMempoolSince (car_height t1)) t1
      else let '(s, t2) := send_transaction sc t1 p in Ok s t2
  end.

Lemma handle_breach_unfold sc t uuid d p :
  r_handle_breach sc t uuid d p =
  bind (breach_carrier sc t p)
       (fun s t1 => Ok s (if status_accepted s then r_add_tracker t1 uuid d p s else t1)).
Proof. reflexivity. Qed.

Lemma send_status_core t t' a : car_height t = car_height t' -> send_status t a = send_status t' a.
Proof. unfold send_status. intros ->. reflexivity. Qed.

Lemma breach_carrier_spec sc t p s t1 :
  breach_carrier sc t p = Ok s t1 ->
  s = breach_status sc t p /\ same_tables t t1 /\ same_core t t1 /\
  rpc_log t1 = breach_events sc t p ++ rpc_log t /\ car_memo t1 = breach_memo sc t p.
Proof.
  unfold breach_carrier, breach_status, breach_events, breach_memo.
  destruct (ti_get (r_index t) p) as [bh|].
  - destruct (ti_get_height (r_index t) bh) as [h|]; [|discriminate].
    intros H. inversion H; subst; clear H. repeat split.
  - destruct (in_mempool sc t p) as [inm t0] eqn:Em.
    apply in_mempool_spec in Em. destruct Em as [Hb [Ht0 [Hc0 [Hm0 Hl0]]]].
    rewrite <- Hb. destruct inm.
    + intros H. inversion H; subst s t1; clear H. repeat split; try apply Ht0; try apply Hc0; try assumption.
      f_equal. symmetry. apply Hc0.
    + destruct (send_transaction sc t0 p) as [s' t2] eqn:Es.
      apply send_transaction_spec in Es. destruct Es as [Ht2 [Hc2 Hcase]].
      intros H. inversion H; subst s' t2; clear H. rewrite Hm0 in Hcase.
      assert (Hh : car_height t = car_height t0) by apply Hc0.
      destruct (aget (car_memo t) p) as [r0|].
      * destruct Hcase as [Hs Ht]. subst t1.
        split; [exact Hs|]. split; [exact Ht0|]. split; [exact Hc0|]. split; [exact Hl0|exact Hm0].
      * destruct Hcase as [Hs [Hm Hl]].
        rewrite <- (send_status_core t t0 _ Hh) in Hs.
        split; [exact Hs|]. split; [eapply same_tables_trans; eassumption|].
        split; [eapply same_core_trans; eassumption|].
        split; [rewrite Hl, Hl0, Hs; reflexivity|rewrite Hm, Hs; reflexivity].
Qed.

Lemma add_tracker_spec t uuid d p s :
  let t' := if status_accepted s then r_add_tracker t uuid d p s else t in
  same_core t t' /\ rpc_log t' = rpc_log t /\ car_memo t' = car_memo t /\
  db_trks t' = breach_trks t uuid d p s.
Proof.
  unfold breach_trks, r_add_tracker, new_trk.
  destruct s as [h|h| |c]; cbn [status_accepted status_height status_conf];
    try (destruct (find_trk (db_trks t) uuid), (find_app (db_apps t) uuid)); repeat split.
Qed.

Lemma handle_breach_spec sc t uuid d p s t' :
  r_handle_breach sc t uuid d p = Ok s t' ->
  s = breach_status sc t p /\
  same_core t t' /\
  rpc_log t' = breach_events sc t p ++ rpc_log t /\
  car_memo t' = breach_memo sc t p /\
  db_trks t' = breach_trks t uuid d p s.
Proof.
  rewrite handle_breach_unfold.
  destruct (breach_carrier sc t p) as [s1 t1|] eqn:Ec; cbn [bind]; [|discriminate].
  intros H. injection H as -> <-.
  apply breach_carrier_spec in Ec. destruct Ec as [Hs [Ht1 [Hc1 [Hl1 Hm1]]]].
  destruct (add_tracker_spec t1 uuid d p s) as [Hc2 [Hl2 [Hm2 Hk2]]].
  split; [exact Hs|]. split; [eapply same_core_trans; eassumption|].
  split; [rewrite Hl2; exact Hl1|]. split; [rewrite Hm2; exact Hm1|].
  rewrite Hk2. unfold breach_trks.
  destruct Ht1 as [_ [_ [_ [Ha Hk]]]]. rewrite <- Ha, <- Hk. reflexivity.
Qed.

(* handle_breach aborts only where the code unwraps get_height, and then nothing has happened *)
Lemma handle_breach_abort sc t uuid d p site t' :
  r_handle_breach sc t uuid d p = Abort site t' ->
  site = S_r_get_height_unwrap /\ t' = t /\
  exists bh, ti_get (r_index t) p = Some bh /\ ti_get_height (r_index t) bh = None.
Proof.
  unfold r_handle_breach.
  destruct (ti_get (r_index t) p) as [bh|].
  - destruct (ti_get_height (r_index t) bh) as [h|] eqn:Eh; cbn [bind]; [discriminate|].
    intros H. inversion H; subst. repeat split. eauto.
  - destruct (in_mempool sc t p) as [inm t1]. destruct inm; cbn [bind]; [discriminate|].
    destruct (send_transaction sc t1 p) as [s t2]. cbn [bind]. discriminate.
Qed.
