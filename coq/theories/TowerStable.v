(* TowerStable.v — the structural induction done once: a predicate on tower states that is
   preserved by the primitive table updates is preserved by every procedure of the model
   (all loops, all listeners, every operation).  Invariants then only discharge the primitive
   obligations (TowerInv.v). *)
From TeosModel Require Import Base ListAux TxIndex Tower.
From TeosModel.Gen Require Consts.
From Coq Require Import Lia.
Local Open Scope N_scope.

Definition same_tables (t t' : tower) : Prop :=
  cfg t = cfg t' /\ gk_users t = gk_users t' /\ db_users t = db_users t' /\
  db_apps t = db_apps t' /\ db_trks t = db_trks t'.

Lemma same_tables_refl t : same_tables t t.
Proof. repeat split. Qed.
Lemma same_tables_trans a b c : same_tables a b -> same_tables b c -> same_tables a c.
Proof. unfold same_tables. intuition congruence. Qed.

(* the predicate holds in the state a procedure returns normally (after an abort the history ends) *)
Definition pres {A} (P : tower -> Prop) (r : res A) : Prop :=
  match r with Ok _ t => P t | Abort _ _ => True end.

Lemma pres_bind {A B} (P : tower -> Prop) (r : res A) (f : A -> tower -> res B) :
  pres P r -> (forall a t, P t -> pres P (f a t)) -> pres P (bind r f).
Proof. destruct r as [a t|s t]; cbn; auto. Qed.

(* obligations for the watcher / responder listeners *)
Record StableWR (P : tower -> Prop) : Prop := {
  st_frame : forall t t', same_tables t t' -> P t -> P t';
  st_delete : forall t us, P t -> P (db_delete_apps t us);
  st_refund : forall t u ui s, P t -> gk_get t u = Some ui -> P (p_refund_user t u ui s);
  st_insert_trk : forall t k, P t -> find_trk (db_trks t) (trk_uuid k) = None ->
                              (exists a, find_app (db_apps t) (trk_uuid k) = Some a) -> P (p_insert_trk t k);
  st_trk_status : forall t uuid h c, P t -> P (set_trk_status t uuid h c)
}.

(* ... plus the gatekeeper's purge *)
Record StableBlock (P : tower -> Prop) : Prop := {
  sb_wr : StableWR P;
  sb_purge : forall t out, P t -> P (p_purge t out)
}.

(* ... plus the API procedures *)
Record StableAll (P : tower -> Prop) : Prop := {
  sa_block : StableBlock P;
  sa_new_user : forall t u ui, P t -> gk_get t u = None -> amem (db_users t) u = false -> P (p_new_user t u ui);
  sa_set_user : forall t u ui ui', P t -> gk_get t u = Some ui -> P (p_set_user t u ui');
  sa_insert_app : forall t a, P t -> find_app (db_apps t) (app_uuid a) = None ->
                              amem (db_users t) (a_user a) = true -> P (p_insert_app t a);
  sa_update_app : forall t a a0, P t -> find_app (db_apps t) (app_uuid a) = Some a0 -> P (p_update_app t a)
}.

Section WR.
  Context (P : tower -> Prop) (HS : StableWR P).

  Ltac frame := eapply (st_frame P HS); [|eassumption]; repeat split.

  Lemma send_same sc t tx : same_tables t (snd (send_transaction sc t tx)).
  Proof. unfold send_transaction. destruct (aget (car_memo t) tx); repeat split. Qed.

  Lemma send_pres sc t tx : P t -> P (snd (send_transaction sc t tx)).
  Proof. intros H. eapply (st_frame P HS); [apply send_same|first [exact I|exact H]]. Qed.

  Lemma in_mempool_pres sc t tx : P t -> P (snd (in_mempool sc t tx)).
  Proof. intros H. unfold in_mempool. cbn [snd]. first [exact I|first [exact I|frame]]. Qed.

  Lemma refund_loop_pres us : forall t, P t -> pres P (refund_loop t us).
  Proof.
    induction us as [|uuid us IH]; intros t H; cbn [refund_loop]; [exact H|].
    destruct (find_app (db_apps t) uuid) as [a|]; [|exact I].
    destruct (gk_get t (a_user a)) as [ui|] eqn:Eg; [|exact I].
    destruct (u32_add (u_slots ui) (slots_of (b_len (a_blob a)))) as [s|]; [|exact I].
    apply IH. eapply (st_refund P HS); eassumption.
  Qed.

  Lemma delete_pres t us refund : P t -> pres P (gk_delete_appointments t us refund).
  Proof.
    intros H. unfold gk_delete_appointments. destruct refund.
    - apply pres_bind; [apply refund_loop_pres; exact H|].
      intros _ t1 H1. cbn. apply (st_delete P HS). exact H1.
    - cbn. apply (st_delete P HS). exact H.
  Qed.

  Lemma add_tracker_pres t uuid d p s : P t -> P (r_add_tracker t uuid d p s).
  Proof.
    intros H. unfold r_add_tracker.
    destruct s as [h|h| |c]; try first [exact I|exact H];
      destruct (find_trk (db_trks t) uuid) eqn:Et; try first [exact I|exact H];
      destruct (find_app (db_apps t) uuid) eqn:Ea; try first [exact I|exact H];
      (apply (st_insert_trk P HS); [first [exact I|exact H]|destruct uuid; exact Et|destruct uuid; eauto]).
  Qed.

  Lemma handle_breach_pres sc t uuid d p : P t -> pres P (r_handle_breach sc t uuid d p).
  Proof.
    intros H. unfold r_handle_breach. apply pres_bind.
    - destruct (ti_get (r_index t) p) as [bh|].
      + destruct (ti_get_height (r_index t) bh); cbn; first [exact I|exact H].
      + pose proof (in_mempool_pres sc t p H) as H1.
        destruct (in_mempool sc t p) as [inm t1]. cbn [snd] in H1.
        destruct inm; [cbn; first [exact I|exact H1]|].
        pose proof (send_pres sc t1 p H1) as H2.
        destruct (send_transaction sc t1 p) as [s t2]. cbn [snd] in H2. cbn. first [exact I|exact H2].
    - intros s t1 H1. cbn. destruct (status_accepted s); [apply add_tracker_pres|]; first [exact I|exact H1].
  Qed.

  Lemma breach_uuid_loop_pres sc d us : forall t inv, P t -> pres P (breach_uuid_loop sc d us t inv).
  Proof.
    induction us as [|uuid us IH]; intros t inv H; cbn [breach_uuid_loop]; [first [exact I|exact H]|].
    destruct (find_app (db_apps t) uuid) as [a|]; [|apply IH; first [exact I|exact H]].
    destruct (decrypt (a_blob a) d) as [p|]; [|apply IH; first [exact I|exact H]].
    apply pres_bind; [apply handle_breach_pres; first [exact I|exact H]|].
    intros s t1 H1. apply IH. first [exact I|exact H1].
  Qed.

  Lemma breach_loop_pres sc ds : forall t inv, P t -> pres P (breach_loop sc ds t inv).
  Proof.
    induction ds as [|d ds IH]; intros t inv H; cbn [breach_loop]; [first [exact I|exact H]|].
    apply pres_bind; [apply breach_uuid_loop_pres; first [exact I|exact H]|].
    intros inv' t1 H1. apply IH. first [exact I|exact H1].
  Qed.

  Lemma w_block_connected_pres sc t b h : P t -> pres P (w_block_connected sc t b h).
  Proof.
    intros H. unfold w_block_connected.
    destruct (ti_update (w_cache t) b) as [c|]; [|first [exact I|exact H]].
    apply pres_bind; [apply breach_loop_pres; first [exact I|first [exact I|frame]]|].
    intros inv t2 H2. apply pres_bind.
    - destruct inv; [first [exact I|exact H2]|apply delete_pres; first [exact I|exact H2]].
    - intros _ t3 H3. cbn. first [exact I|first [exact I|frame]].
  Qed.

  Lemma w_block_disconnected_pres t hash h : P t -> pres P (w_block_disconnected t hash h).
  Proof.
    intros H. unfold w_block_disconnected. destruct (u32_sub h 1); cbn; first [exact I|first [exact I|frame]].
  Qed.

  Lemma check_conf_loop_pres le txids h snap : forall t comp, P t -> pres P (check_conf_loop le txids h snap t comp).
  Proof.
    induction snap as [|k snap IH]; intros t comp H; cbn [check_conf_loop]; [first [exact I|exact H]|].
    destruct (memN (t_penalty k) txids).
    - destruct (find_trk (db_trks t) (trk_uuid k)); [|first [exact I|exact H]].
      apply IH. eapply (st_frame P HS); [|apply (st_trk_status P HS); first [exact I|exact H]]. repeat split.
    - destruct (mem_uuid (trk_uuid k) (reorged t)); [apply IH; first [exact I|exact H]|].
      destruct (t_conf k); apply IH; first [exact I|exact H].
  Qed.

  Lemma reorged_loop_pres sc h us : forall t rej, P t -> pres P (reorged_loop sc h us t rej).
  Proof.
    induction us as [|uuid us IH]; intros t rej H; cbn [reorged_loop]; [first [exact I|exact H]|].
    destruct (find_trk (db_trks t) uuid) as [k|]; [|apply IH; first [exact I|exact H]].
    pose proof (send_pres sc t (t_dispute k) H) as H1.
    destruct (send_transaction sc t (t_dispute k)) as [s t1]. cbn [snd] in H1.
    destruct s as [hh|hh| |c]; [first [exact I|exact H1]| | |apply IH; first [exact I|exact H1]].
    - pose proof (send_pres sc t1 (t_penalty k) H1) as H2.
      destruct (send_transaction sc t1 (t_penalty k)) as [s2 t2]. cbn [snd] in H2.
      destruct (status_rejected s2); apply IH; [first [exact I|exact H2]|apply (st_trk_status P HS); first [exact I|exact H2]].
    - pose proof (send_pres sc t1 (t_penalty k) H1) as H2.
      destruct (send_transaction sc t1 (t_penalty k)) as [s2 t2]. cbn [snd] in H2.
      destruct (status_rejected s2); apply IH; [first [exact I|exact H2]|apply (st_trk_status P HS); first [exact I|exact H2]].
  Qed.

  Lemma stale_loop_pres sc h us : forall t rej, P t -> pres P (stale_loop sc h us t rej).
  Proof.
    induction us as [|uuid us IH]; intros t rej H; cbn [stale_loop]; [first [exact I|exact H]|].
    destruct (find_trk (db_trks t) uuid) as [k|]; [|first [exact I|exact H]].
    pose proof (send_pres sc t (t_penalty k) H) as H1.
    destruct (send_transaction sc t (t_penalty k)) as [s t1]. cbn [snd] in H1.
    destruct s as [hh|hh| |c]; apply IH; try first [exact I|exact H1]; apply (st_trk_status P HS); first [exact I|exact H1].
  Qed.

  Lemma r_block_connected_pres le sc t b h : P t -> pres P (r_block_connected le sc t b h).
  Proof.
    intros H. unfold r_block_connected.
    destruct (ti_update (r_index (set_car_height t h)) b) as [idx|]; [|first [exact I|frame]].
    apply pres_bind; [apply check_conf_loop_pres; first [exact I|first [exact I|frame]]|].
    intros comp t2 H2. apply pres_bind.
    { destruct comp; [first [exact I|exact H2]|apply delete_pres; first [exact I|exact H2]]. }
    intros _ t3 H3. apply pres_bind.
    { destruct (reorged t3) eqn:Er; [first [exact I|exact H3]|]. apply reorged_loop_pres. first [exact I|first [exact I|frame]]. }
    intros rej1 t4 H4.
    destruct (u32_sub h (Z.to_N Consts.CONFIRMATIONS_BEFORE_RETRY)); [|first [exact I|exact H4]].
    apply pres_bind; [apply stale_loop_pres; first [exact I|exact H4]|].
    intros rej2 t5 H5. apply pres_bind.
    { destruct (rej1 ++ rej2); [first [exact I|exact H5]|apply delete_pres; first [exact I|exact H5]]. }
    intros _ t6 H6. cbn. first [exact I|first [exact I|frame]].
  Qed.

  Lemma r_block_disconnected_pres t hash h : P t -> pres P (r_block_disconnected t hash h).
  Proof. intros H. unfold r_block_disconnected. cbn. first [exact I|first [exact I|frame]]. Qed.

  Lemma gk_block_disconnected_pres t h : P t -> pres P (gk_block_disconnected t h).
  Proof. intros H. unfold gk_block_disconnected. destruct (u32_sub h 1); cbn; [first [exact I|first [exact I|frame]]|first [exact I|exact H]]. Qed.
End WR.

Section Block.
  Context (P : tower -> Prop) (HB : StableBlock P).
  Let HS := sb_wr P HB.

  Lemma gk_block_connected_pres t h : P t -> pres P (gk_block_connected t h).
  Proof.
    intros H. unfold gk_block_connected.
    destruct (outdated_users (c_delta (cfg t)) h (gk_users t)) as [out|]; [|first [exact I|exact H]].
    cbn. destruct out.
    - eapply (st_frame P HS); [|first [exact I|exact H]]. repeat split.
    - eapply (st_frame P HS); [|apply (sb_purge P HB); first [exact I|exact H]]. repeat split.
  Qed.

  Lemma listener_connected_pres le sc hash txs h w t : P t -> pres P (listener_connected le sc hash txs h w t).
  Proof.
    intros H. unfold listener_connected.
    destruct (Z.eqb w 0); [apply gk_block_connected_pres; first [exact I|exact H]|].
    destruct (Z.eqb w 1); [apply (w_block_connected_pres P HS); first [exact I|exact H]|apply (r_block_connected_pres P HS); first [exact I|exact H]].
  Qed.

  Lemma listener_disconnected_pres hash h w t : P t -> pres P (listener_disconnected hash h w t).
  Proof.
    intros H. unfold listener_disconnected.
    destruct (Z.eqb w 0); [apply (gk_block_disconnected_pres P HS); first [exact I|exact H]|].
    destruct (Z.eqb w 1); [apply (w_block_disconnected_pres P HS); first [exact I|exact H]|apply (r_block_disconnected_pres P HS); first [exact I|exact H]].
  Qed.

  Lemma run_listeners_pres (f : Z -> tower -> res unit) order :
    (forall w t, P t -> pres P (f w t)) -> forall t, P t -> pres P (run_listeners f order t).
  Proof.
    intros Hf. induction order as [|w order IH]; intros t H; cbn [run_listeners]; [first [exact I|exact H]|].
    apply pres_bind; [apply Hf; first [exact I|exact H]|]. intros _ t1 H1. apply IH. first [exact I|exact H1].
  Qed.
End Block.

Section All.
  Context (P : tower -> Prop) (HA : StableAll P).
  Let HB := sa_block P HA.
  Let HS := sb_wr P HB.

  Lemma add_update_user_pres t u : P t -> pres P (gk_add_update_user t u).
  Proof.
    intros H. unfold gk_add_update_user.
    destruct (gk_get t u) as [ui|] eqn:Eg.
    - destruct (u32_add (u_slots ui) (c_slots (cfg t))); cbn; [|first [exact I|exact H]].
      eapply (sa_set_user P HA); eassumption.
    - destruct (u32_add (gk_height t) (c_duration (cfg t))); [|first [exact I|exact H]].
      destruct (amem (db_users t) u) eqn:Em; cbn; [first [exact I|exact H]|].
      apply (sa_new_user P HA); assumption.
  Qed.

  Lemma add_update_appointment_pres t u uuid blen : P t -> pres P (gk_add_update_appointment t u uuid blen).
  Proof.
    intros H. unfold gk_add_update_appointment.
    destruct (gk_get t u) as [ui|] eqn:Eg; [|first [exact I|exact H]].
    match goal with |- context [if ?c then _ else _] => destruct c end; cbn; [|first [exact I|exact H]].
    eapply (sa_set_user P HA); eassumption.
  Qed.

  Lemma store_appointment_pres t a : P t -> pres P (w_store_appointment t a).
  Proof.
    intros H. unfold w_store_appointment.
    destruct (find_app (db_apps t) (app_uuid a)) as [a0|] eqn:Ef; cbn.
    - eapply (sa_update_app P HA); eassumption.
    - destruct (amem (db_users t) (a_user a)) eqn:Em; cbn; [|first [exact I|exact H]].
      apply (sa_insert_app P HA); assumption.
  Qed.

  Lemma store_triggered_pres sc t a d : P t -> pres P (w_store_triggered sc t a d).
  Proof.
    intros H. unfold w_store_triggered.
    destruct (decrypt (a_blob a) d) as [p|].
    - destruct (w_store_ok t a); [|first [exact I|exact H]].
      apply pres_bind; [apply store_appointment_pres; first [exact I|exact H]|].
      intros _ t1 H1. apply pres_bind; [apply (handle_breach_pres P HS); first [exact I|exact H1]|].
      intros s t2 H2. destruct (status_rejected s); [apply (delete_pres P HS); first [exact I|exact H2]|first [exact I|exact H2]].
    - destruct (find_app (db_apps t) (app_uuid a)); [apply (delete_pres P HS); first [exact I|exact H]|first [exact I|exact H]].
  Qed.

  Lemma add_appointment_pres sc t signer loc b delay sig : P t -> pres P (w_add_appointment sc t signer loc b delay sig).
  Proof.
    intros H. unfold w_add_appointment.
    destruct (authenticate t signer) as [u|]; [|first [exact I|exact H]].
    destruct (gk_get t u) as [ui|]; [|first [exact I|exact H]].
    destruct (N.leb (u_expiry ui) (gk_height t)); [first [exact I|exact H]|].
    destruct (find_trk (db_trks t) (loc, u)); [first [exact I|exact H]|].
    apply pres_bind; [apply add_update_appointment_pres; first [exact I|exact H]|].
    intros charged t1 H1. destruct charged as [av|]; [|first [exact I|exact H1]].
    apply pres_bind.
    - destruct (ti_get (w_cache t1) loc); [apply store_triggered_pres|apply store_appointment_pres]; first [exact I|exact H1].
    - intros _ t2 H2. match goal with |- context [if ?c then _ else _] => destruct c end; first [exact I|exact H2].
  Qed.

  (* every operation that returns normally preserves a predicate stable under the primitives *)
  Definition not_abort (x : out) : Prop := match x with OAbort _ => False | _ => True end.

  Lemma wrap_pres {A} (f : A -> out) (r : res A) :
    (forall a, not_abort (f a)) -> pres P r -> not_abort (snd (wrap f r)) -> P (fst (wrap f r)).
  Proof. intros Hf Hp. destruct r as [a t|s t]; cbn; [intros _; exact Hp|intros []]. Qed.

  Theorem step_pres le t o sc : P t -> not_abort (snd (step le t o sc)) -> P (fst (step le t o sc)).
  Proof.
    intros H.
    assert (Hf : P (set_rpc_log t [])) by (eapply (st_frame P HS); [|exact H]; repeat split).
    destruct o as [u|signer loc b delay sig|signer loc|signer|hash txs|]; cbn [step].
    - apply wrap_pres; [intros; exact I|apply add_update_user_pres; exact Hf].
    - apply wrap_pres; [intros; exact I|apply add_appointment_pres; exact Hf].
    - apply wrap_pres; [intros; exact I|]. unfold w_get_appointment.
      destruct (authenticate (set_rpc_log t []) signer) as [u|]; [|exact Hf].
      destruct (gk_get (set_rpc_log t []) u) as [ui|]; [|exact Hf].
      destruct (N.leb (u_expiry ui) (gk_height (set_rpc_log t []))); [exact Hf|].
      destruct (find_trk (db_trks (set_rpc_log t [])) (loc, u)), (find_app (db_apps (set_rpc_log t [])) (loc, u)); exact Hf.
    - apply wrap_pres; [intros; exact I|]. unfold w_get_subscription_info.
      destruct (authenticate (set_rpc_log t []) signer) as [u|]; [|exact Hf].
      destruct (gk_get (set_rpc_log t []) u) as [ui|]; [|exact Hf].
      destruct (N.leb (u_expiry ui) (gk_height (set_rpc_log t []))); exact Hf.
    - apply wrap_pres; [intros; exact I|].
      apply (run_listeners_pres P (listener_connected le sc hash txs (gk_height (set_rpc_log t []) + 1))
               Consts.LISTENER_ORDER (fun w t0 => listener_connected_pres P HB le sc hash txs _ w t0) _ Hf).
    - destruct (last_hash (set_rpc_log t [])) as [hash|]; [|intros _; exact Hf].
      apply wrap_pres; [intros; exact I|].
      apply (run_listeners_pres P (listener_disconnected hash (gk_height (set_rpc_log t [])))
               Consts.LISTENER_ORDER (fun w t0 => listener_disconnected_pres P HB hash _ w t0) _ Hf).
  Qed.

  (* ... hence every state reached by a history in which nothing aborted *)
  Theorem run_pres le : forall h t, P t -> Forall not_abort (snd (run le t h)) -> P (fst (run le t h)).
  Proof.
    induction h as [|[o sc] h IH]; intros t H; cbn [run]; [intros _; exact H|].
    pose proof (step_pres le t o sc H) as H1.
    destruct (step le t o sc) as [t1 x]. cbn [fst snd] in H1.
    destruct x; try (specialize (IH t1); destruct (run le t1 h) as [t2 xs]; cbn [fst snd] in *;
                     intros Hall; inversion Hall; subst; apply IH; [apply H1; exact I|assumption]).
    cbn [fst snd]. intros Hall. inversion Hall; subst. contradiction.
  Qed.
End All.
