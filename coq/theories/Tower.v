(* Tower.v — executable sequential model of the tower: Gatekeeper, Watcher, Responder, Carrier and
   the three tables, statement by statement (teos/src/{gatekeeper,watcher,responder,carrier,dbm}.rs).
   Abstractions (DESIGN.md 3.2): a transaction is an id (N) and its locator is that id; a blob is
   {key, payload, length}; a request carries the user its signature recovers to; a UUID is the
   pair (locator, user).  The Bitcoin node is an oracle: per step, a script txid -> (answer to
   getrawtransaction, answer to sendrawtransaction).  Every unwrap / unchecked u32 operation on
   a modelled path is an explicit abort with a site label.  Definitions only. *)
From TeosModel Require Import Base TxIndex.
From TeosModel.Gen Require Consts.

(* ------------------------------------------------------------------------------------------ *)
(* data *)

Record uinfo := mk_uinfo { u_slots : N; u_start : N; u_expiry : N }.

Record blob := mk_blob { b_key : N; b_pay : option N; b_len : N }.

Record app := mk_app {
  a_loc : N; a_user : N; a_blob : blob; a_delay : N; a_sig : N; a_start : N }.

Inductive cstatus :=
| ConfirmedIn (h : N)
| InMempoolSince (h : N)
| IrrevocablyResolved
| Rejected (code : Z).

Record trk := mk_trk {
  t_loc : N; t_user : N; t_dispute : N; t_penalty : N; t_height : N; t_conf : bool }.

Record config := mk_config { c_slots : N; c_duration : N; c_delta : N }.

Inductive site :=
| S_gk_new_user_expiry_overflow      (* block_count + subscription_duration *)
| S_gk_store_user_unwrap             (* store_user(..).unwrap() *)
| S_gk_outdated_overflow             (* subscription_expiry + expiry_delta *)
| S_gk_refund_row_unwrap             (* get_appointment_user_and_length(uuid).unwrap() *)
| S_gk_refund_user_unwrap            (* registered_users.get_mut(&user_id).unwrap() in delete_appointments *)
| S_gk_refund_overflow               (* available_slots += slots *)
| S_gk_disconnect_underflow          (* height - 1 *)
| S_w_store_update_unwrap            (* update_appointment(..).unwrap() *)
| S_w_store_triggered_unwrap         (* store_appointment(..).unwrap() in store_triggered_appointment *)
| S_w_cache_update                   (* unwraps inside TxIndex::remove_oldest_block (locator cache) *)
| S_w_disconnect_underflow
| S_r_get_height_unwrap              (* tx_index.get_height(block_hash).unwrap() *)
| S_r_index_update
| S_r_confirm_update_unwrap          (* update_tracker_status(ConfirmedIn).unwrap() *)
| S_r_confirmations_underflow        (* current_height - h, ConfirmedIn branch *)
| S_r_missed_log_underflow           (* current_height - h, InMempoolSince branch (log argument) *)
| S_r_reorg_load_tracker_unwrap      (* load_tracker(uuid).unwrap() in handle_reorged_txs *)
| S_r_reorg_update_unwrap
| S_r_reorg_unreachable              (* unreachable!() on ConfirmedIn from send_transaction *)
| S_r_stale_underflow                (* height - CONFIRMATIONS_BEFORE_RETRY *)
| S_r_stale_load_tracker_unwrap
| S_r_stale_update_unwrap.           (* update_tracker_status(status).unwrap() with status = IrrevocablyResolved *)

(* node answers *)
Inductive getraw_ans := G_in_mempool | G_confirmed | G_not_found | G_other.
Inductive send_ans := A_ok | A_code (c : Z).
Definition script := list (N * (getraw_ans * send_ans)).

Inductive rpc_kind := K_getraw | K_send.
Record rpc_event := mk_rpc { r_kind : rpc_kind; r_tx : N; r_res : cstatus }.
(* for K_getraw the result is encoded as InMempoolSince 1 (true) / InMempoolSince 0 (false) *)

Record tower := mk_tower {
  cfg : config;
  gk_users : list (N * uinfo);        (* Gatekeeper.registered_users (memory) *)
  gk_height : N;
  db_users : list (N * uinfo);        (* table users *)
  db_apps : list app;                 (* table appointments, insertion (rowid) order *)
  db_trks : list trk;                 (* table trackers, insertion order *)
  w_height : N;
  w_cache : txindex N;                (* locator -> dispute tx *)
  r_index : txindex N;                (* txid -> block hash *)
  car_height : N;
  car_memo : list (N * cstatus);      (* Carrier.issued_receipts *)
  reorged : list (N * N);             (* Responder.reorged_trackers: uuids *)
  rpc_log : list rpc_event            (* ghost: the RPCs issued in the current step, newest first *)
}.

(* field updates *)
Definition set_gk_users t v := mk_tower (cfg t) v (gk_height t) (db_users t) (db_apps t) (db_trks t) (w_height t) (w_cache t) (r_index t) (car_height t) (car_memo t) (reorged t) (rpc_log t).
Definition set_gk_height t v := mk_tower (cfg t) (gk_users t) v (db_users t) (db_apps t) (db_trks t) (w_height t) (w_cache t) (r_index t) (car_height t) (car_memo t) (reorged t) (rpc_log t).
Definition set_db_users t v := mk_tower (cfg t) (gk_users t) (gk_height t) v (db_apps t) (db_trks t) (w_height t) (w_cache t) (r_index t) (car_height t) (car_memo t) (reorged t) (rpc_log t).
Definition set_db_apps t v := mk_tower (cfg t) (gk_users t) (gk_height t) (db_users t) v (db_trks t) (w_height t) (w_cache t) (r_index t) (car_height t) (car_memo t) (reorged t) (rpc_log t).
Definition set_db_trks t v := mk_tower (cfg t) (gk_users t) (gk_height t) (db_users t) (db_apps t) v (w_height t) (w_cache t) (r_index t) (car_height t) (car_memo t) (reorged t) (rpc_log t).
Definition set_w_height t v := mk_tower (cfg t) (gk_users t) (gk_height t) (db_users t) (db_apps t) (db_trks t) v (w_cache t) (r_index t) (car_height t) (car_memo t) (reorged t) (rpc_log t).
Definition set_w_cache t v := mk_tower (cfg t) (gk_users t) (gk_height t) (db_users t) (db_apps t) (db_trks t) (w_height t) v (r_index t) (car_height t) (car_memo t) (reorged t) (rpc_log t).
Definition set_r_index t v := mk_tower (cfg t) (gk_users t) (gk_height t) (db_users t) (db_apps t) (db_trks t) (w_height t) (w_cache t) v (car_height t) (car_memo t) (reorged t) (rpc_log t).
Definition set_car_height t v := mk_tower (cfg t) (gk_users t) (gk_height t) (db_users t) (db_apps t) (db_trks t) (w_height t) (w_cache t) (r_index t) v (car_memo t) (reorged t) (rpc_log t).
Definition set_car_memo t v := mk_tower (cfg t) (gk_users t) (gk_height t) (db_users t) (db_apps t) (db_trks t) (w_height t) (w_cache t) (r_index t) (car_height t) v (reorged t) (rpc_log t).
Definition set_reorged t v := mk_tower (cfg t) (gk_users t) (gk_height t) (db_users t) (db_apps t) (db_trks t) (w_height t) (w_cache t) (r_index t) (car_height t) (car_memo t) v (rpc_log t).
Definition set_rpc_log t v := mk_tower (cfg t) (gk_users t) (gk_height t) (db_users t) (db_apps t) (db_trks t) (w_height t) (w_cache t) (r_index t) (car_height t) (car_memo t) (reorged t) v.

(* results of internal procedures: a value and the new state, or an abort *)
Inductive res (A : Type) := Ok (a : A) (t : tower) | Abort (s : site) (t : tower).
Arguments Ok {A}. Arguments Abort {A}.
Definition bind {A B} (r : res A) (f : A -> tower -> res B) : res B :=
  match r with Ok a t => f a t | Abort s t => Abort s t end.
Notation "'do' x , t <- r ; k" := (bind r (fun x t => k)) (at level 200, x pattern, t ident, r at level 100, k at level 200).

(* ------------------------------------------------------------------------------------------ *)
(* small helpers *)

Definition uuid_eqb (a b : N * N) : bool := N.eqb (fst a) (fst b) && N.eqb (snd a) (snd b).
Definition app_uuid (a : app) : N * N := (a_loc a, a_user a).
Definition trk_uuid (k : trk) : N * N := (t_loc k, t_user k).
Definition mem_uuid (u : N * N) (l : list (N * N)) : bool := existsb (uuid_eqb u) l.

Definition find_app (apps : list app) (u : N * N) : option app := find (fun a => uuid_eqb (app_uuid a) u) apps.
Definition find_trk (trks : list trk) (u : N * N) : option trk := find (fun k => uuid_eqb (trk_uuid k) u) trks.

(* u32 arithmetic of the debug build (overflow checks on): None = panic *)
Definition u32_add (a b : N) : option N := if N.leb (a + b) U32MAX then Some (a + b) else None.
Definition u32_sub (a b : N) : option N := if N.leb b a then Some (a - b) else None.

(* compute_appointment_slots(n, ENCRYPTED_BLOB_MAX_SIZE) in exact arithmetic: ceil(n / 2048).
   Slots.v proves that the f32 formula of the code equals this for every n <= 2^24. *)
Definition BLOB_SLOT : N := Z.to_N Consts.ENCRYPTED_BLOB_MAX_SIZE.
Definition slots_of (n : N) : N := (n + (BLOB_SLOT - 1)) / BLOB_SLOT.

Definition decrypt (b : blob) (dispute : N) : option N :=
  if N.eqb (b_key b) dispute then b_pay b else None.

Definition status_of_row (k : trk) : cstatus :=
  if t_conf k then ConfirmedIn (t_height k) else InMempoolSince (t_height k).
Definition status_accepted (s : cstatus) : bool :=
  match s with ConfirmedIn _ | InMempoolSince _ => true | _ => false end.
Definition status_rejected (s : cstatus) : bool :=
  match s with Rejected _ => true | _ => false end.

(* ------------------------------------------------------------------------------------------ *)
(* the tables (teos/src/dbm.rs; schema with ON DELETE CASCADE: users <- appointments <- trackers) *)

Definition db_delete_apps (t : tower) (us : list (N * N)) : tower :=
  let t1 := set_db_apps t (filter (fun a => negb (mem_uuid (app_uuid a) us)) (db_apps t)) in
  set_db_trks t1 (filter (fun k => negb (mem_uuid (trk_uuid k) us)) (db_trks t1)).

Definition db_delete_users (t : tower) (users : list N) : tower :=
  let t1 := set_db_users t (filter (fun r => negb (memN (fst r) users)) (db_users t)) in
  let t2 := set_db_apps t1 (filter (fun a => negb (memN (a_user a) users)) (db_apps t1)) in
  set_db_trks t2 (filter (fun k => negb (memN (t_user k) users)) (db_trks t2)).

(* UPDATE users SET ... WHERE user_id: no row -> logged, nothing happens *)
Definition db_update_user (t : tower) (u : N) (ui : uinfo) : tower :=
  set_db_users t (map (fun r => if N.eqb (fst r) u then (u, ui) else r) (db_users t)).
Definition db_update_user_slots (t : tower) (u : N) (s : N) : tower :=
  set_db_users t (map (fun r => if N.eqb (fst r) u
                                then (u, mk_uinfo s (u_start (snd r)) (u_expiry (snd r))) else r) (db_users t)).

(* memory map of the gatekeeper *)
Definition gk_get (t : tower) (u : N) : option uinfo := aget (gk_users t) u.
Definition gk_put (t : tower) (u : N) (ui : uinfo) : tower :=
  set_gk_users t ((u, ui) :: aremove (gk_users t) u).

(* ---- the primitive table updates every procedure below is composed of ---- *)
(* a user appears: row stored, then memory *)
Definition p_new_user (t : tower) (u : N) (ui : uinfo) : tower :=
  gk_put (set_db_users t (db_users t ++ [(u, ui)])) u ui.
(* an existing user's info changes: memory, then UPDATE users *)
Definition p_set_user (t : tower) (u : N) (ui : uinfo) : tower := db_update_user (gk_put t u ui) u ui.
(* outdated users: removed from memory, then batch_remove_users (cascade) *)
Definition p_purge (t : tower) (outdated : list N) : tower :=
  db_delete_users (set_gk_users t (aretain (fun u => negb (memN u outdated)) (gk_users t))) outdated.
Definition p_insert_app (t : tower) (a : app) : tower := set_db_apps t (db_apps t ++ [a]).
Definition p_update_app (t : tower) (a : app) : tower :=
  set_db_apps t (map (fun x => if uuid_eqb (app_uuid x) (app_uuid a) then a else x) (db_apps t)).
Definition p_insert_trk (t : tower) (k : trk) : tower := set_db_trks t (db_trks t ++ [k]).

(* ------------------------------------------------------------------------------------------ *)
(* Carrier *)

Definition script_get (sc : script) (tx : N) : getraw_ans * send_ans :=
  match aget sc tx with Some a => a | None => (G_not_found, A_ok) end.

Definition log_rpc (t : tower) (e : rpc_event) : tower := set_rpc_log t (e :: rpc_log t).

Definition send_status (t : tower) (a : send_ans) : cstatus :=
  match a with
  | A_ok => InMempoolSince (car_height t)
  | A_code c =>
      if Z.eqb c Consts.RPC_VERIFY_REJECTED then Rejected Consts.RPC_VERIFY_REJECTED
      else if Z.eqb c Consts.RPC_VERIFY_ERROR then Rejected Consts.RPC_VERIFY_ERROR
      else if Z.eqb c Consts.RPC_VERIFY_ALREADY_IN_CHAIN then IrrevocablyResolved
      else if Z.eqb c Consts.RPC_DESERIALIZATION_ERROR then Rejected Consts.RPC_DESERIALIZATION_ERROR
      else Rejected Consts.UNKNOWN_JSON_RPC_EXCEPTION
  end.

(* Carrier::send_transaction (no transport errors in the sequential model: see Reach.v) *)
Definition send_transaction (sc : script) (t : tower) (tx : N) : cstatus * tower :=
  match aget (car_memo t) tx with
  | Some r => (r, t)
  | None =>
      let r := send_status t (snd (script_get sc tx)) in
      let t1 := log_rpc t (mk_rpc K_send tx r) in
      (r, set_car_memo t1 ((tx, r) :: car_memo t1))
  end.

(* Carrier::in_mempool *)
Definition in_mempool (sc : script) (t : tower) (tx : N) : bool * tower :=
  let b := match fst (script_get sc tx) with G_in_mempool => true | _ => false end in
  (b, log_rpc t (mk_rpc K_getraw tx (InMempoolSince (if b then 1 else 0)))).

(* ------------------------------------------------------------------------------------------ *)
(* Gatekeeper *)

Inductive reg_result := RegOk (slots start expiry : N) | RegMaxSlots.

(* add_update_user *)
Definition gk_add_update_user (t : tower) (u : N) : res reg_result :=
  let block_count := gk_height t in
  match gk_get t u with
  | Some ui =>
      match u32_add (u_slots ui) (c_slots (cfg t)) with
      | None => Ok RegMaxSlots t
      | Some s =>
          let e := match u32_add (u_expiry ui) (c_duration (cfg t)) with Some e => e | None => U32MAX end in
          let ui' := mk_uinfo s (u_start ui) e in
          Ok (RegOk s (u_start ui) e) (p_set_user t u ui')
      end
  | None =>
      match u32_add block_count (c_duration (cfg t)) with
      | None => Abort S_gk_new_user_expiry_overflow t
      | Some e =>
          let ui := mk_uinfo (c_slots (cfg t)) block_count e in
          if amem (db_users t) u then Abort S_gk_store_user_unwrap t
          else
            Ok (RegOk (u_slots ui) block_count e) (p_new_user t u ui)
      end
  end.

(* add_update_appointment: Some slots = Ok(available), None = NotEnoughSlots *)
Definition gk_add_update_appointment (t : tower) (u : N) (uuid : N * N) (blen : N) : res (option N) :=
  match gk_get t u with
  | None => Ok None t                 (* the user is gone (purged since it was authenticated): NotEnoughSlots *)
  | Some ui =>
      let used := match find_app (db_apps t) uuid with Some a => slots_of (b_len (a_blob a)) | None => 0 end in
      let required := slots_of blen in
      (* diff = required - used (i64); diff <= available  <->  required <= available + used *)
      if N.leb required (u_slots ui + used) then
        let s := ((u_slots ui + used - required) mod U32MOD) in   (* `as u32` *)
        let ui' := mk_uinfo s (u_start ui) (u_expiry ui) in
        Ok (Some s) (p_set_user t u ui')
      else Ok None t
  end.

(* get_outdated_users: None = overflow panic *)
Fixpoint outdated_users (delta h : N) (us : list (N * uinfo)) : option (list N) :=
  match us with
  | [] => Some []
  | (u, ui) :: r =>
      match u32_add (u_expiry ui) delta, outdated_users delta h r with
      | Some lim, Some l => Some (if N.leb lim h then u :: l else l)
      | _, _ => None
      end
  end.

(* delete_appointments(uuids, refund).  The code gives the slots back in memory while walking the
   list and writes the users' new balances inside the transaction that deletes the rows; here the
   balance is written to memory and to the row together, user by user, which yields the same
   state whenever the call returns (what the correspondence check compares); the actual write
   order matters only for crashes and is modelled in Crash.v. *)
Definition p_refund_user (t : tower) (u : N) (ui : uinfo) (s : N) : tower :=
  db_update_user_slots (gk_put t u (mk_uinfo s (u_start ui) (u_expiry ui))) u s.

Fixpoint refund_loop (t : tower) (us : list (N * N)) : res unit :=
  match us with
  | [] => Ok tt t
  | uuid :: r =>
      match find_app (db_apps t) uuid with
      | None => Abort S_gk_refund_row_unwrap t
      | Some a =>
          match gk_get t (a_user a) with
          | None => Abort S_gk_refund_user_unwrap t
          | Some ui =>
              match u32_add (u_slots ui) (slots_of (b_len (a_blob a))) with
              | None => Abort S_gk_refund_overflow t
              | Some s => refund_loop (p_refund_user t (a_user a) ui s) r
              end
          end
      end
  end.

Definition gk_delete_appointments (t : tower) (us : list (N * N)) (refund : bool) : res unit :=
  if refund then
    do _, t1 <- refund_loop t us;
    Ok tt (db_delete_apps t1 us)
  else Ok tt (db_delete_apps t us).

(* Gatekeeper::filtered_block_connected *)
Definition gk_block_connected (t : tower) (h : N) : res unit :=
  match outdated_users (c_delta (cfg t)) h (gk_users t) with
  | None => Abort S_gk_outdated_overflow t
  | Some outdated =>
      let t1 := if match outdated with [] => true | _ => false end then t else p_purge t outdated in
      Ok tt (set_gk_height t1 h)
  end.

Definition gk_block_disconnected (t : tower) (h : N) : res unit :=
  match u32_sub h 1 with
  | None => Abort S_gk_disconnect_underflow t
  | Some h' => Ok tt (set_gk_height t h')
  end.

(* ------------------------------------------------------------------------------------------ *)
(* Responder *)

(* add_tracker: store_tracker; a primary-key or foreign-key failure is only logged *)
Definition r_add_tracker (t : tower) (uuid : N * N) (dispute penalty : N) (s : cstatus) : tower :=
  match s with
  | ConfirmedIn h | InMempoolSince h =>
      match find_trk (db_trks t) uuid, find_app (db_apps t) uuid with
      | None, Some _ =>
          p_insert_trk t (mk_trk (fst uuid) (snd uuid) dispute penalty h
                                 (match s with ConfirmedIn _ => true | _ => false end))
      | _, _ => t
      end
  | _ => t
  end.

(* handle_breach *)
Definition r_handle_breach (sc : script) (t : tower) (uuid : N * N) (dispute penalty : N) : res cstatus :=
  let st :=
    match ti_get (r_index t) penalty with
    | Some bh =>
        match ti_get_height (r_index t) bh with
        | Some h => Ok (ConfirmedIn (Z.to_N h)) t
        | None => Abort S_r_get_height_unwrap t
        end
    | None =>
        let '(inm, t1) := in_mempool sc t penalty in
        if inm then Ok (InMempoolSince (car_height t1)) t1
        else let '(s, t2) := send_transaction sc t1 penalty in Ok s t2
    end in
  do s, t1 <- st;
  Ok s (if status_accepted s then r_add_tracker t1 uuid dispute penalty s else t1).

Definition set_trk_status (t : tower) (uuid : N * N) (h : N) (conf : bool) : tower :=
  set_db_trks t (map (fun k => if uuid_eqb (trk_uuid k) uuid
                               then mk_trk (t_loc k) (t_user k) (t_dispute k) (t_penalty k) h conf else k)
                     (db_trks t)).

(* check_confirmations: iterates over a snapshot of the trackers *)
Fixpoint check_conf_loop (log_enabled : bool) (txids : list N) (h : N) (snapshot : list trk) (t : tower)
         (completed : list (N * N)) : res (list (N * N)) :=
  match snapshot with
  | [] => Ok completed t
  | k :: r =>
      let uuid := trk_uuid k in
      if memN (t_penalty k) txids then
        match find_trk (db_trks t) uuid with
        | None => Abort S_r_confirm_update_unwrap t
        | Some _ =>
            let t1 := set_trk_status t uuid h true in
            check_conf_loop log_enabled txids h r
              (set_reorged t1 (filter (fun u => negb (uuid_eqb u uuid)) (reorged t1))) completed
        end
      else if mem_uuid uuid (reorged t) then check_conf_loop log_enabled txids h r t completed
      else if t_conf k then
        (* confirmations = current_height.saturating_sub(h) (N subtraction truncates at 0) *)
        check_conf_loop log_enabled txids h r t
          (if N.eqb (h - t_height k) (Z.to_N Consts.IRREVOCABLY_RESOLVED) then completed ++ [uuid] else completed)
      else
        (* InMempoolSince: only logged (saturating_sub since the fix of F17) *)
        check_conf_loop log_enabled txids h r t completed
  end.

(* handle_reorged_txs *)
Fixpoint reorged_loop (sc : script) (h : N) (us : list (N * N)) (t : tower) (rejected : list (N * N))
  : res (list (N * N)) :=
  match us with
  | [] => Ok rejected t
  | uuid :: r =>
      match find_trk (db_trks t) uuid with
      | None => reorged_loop sc h r t rejected          (* the tracker is gone: skipped *)
      | Some k =>
          let '(s, t1) := send_transaction sc t (t_dispute k) in
          match s with
          | ConfirmedIn _ => Abort S_r_reorg_unreachable t1
          | Rejected _ => reorged_loop sc h r t1 (rejected ++ [uuid])
          | InMempoolSince _ | IrrevocablyResolved =>
              let '(s2, t2) := send_transaction sc t1 (t_penalty k) in
              if status_rejected s2 then reorged_loop sc h r t2 (rejected ++ [uuid])
              else reorged_loop sc h r (set_trk_status t2 uuid h false) rejected
          end
      end
  end.

(* rebroadcast_stale_txs *)
Fixpoint stale_loop (sc : script) (h : N) (us : list (N * N)) (t : tower) (rejected : list (N * N))
  : res (list (N * N)) :=
  match us with
  | [] => Ok rejected t
  | uuid :: r =>
      match find_trk (db_trks t) uuid with
      | None => Abort S_r_stale_load_tracker_unwrap t
      | Some k =>
          let '(s, t1) := send_transaction sc t (t_penalty k) in
          match s with
          | Rejected _ => stale_loop sc h r t1 (rejected ++ [uuid])
          | ConfirmedIn hh => stale_loop sc h r (set_trk_status t1 uuid hh true) rejected
          | InMempoolSince hh => stale_loop sc h r (set_trk_status t1 uuid hh false) rejected
          (* already in a block the tower has not been handed yet: keep waiting for it *)
          | IrrevocablyResolved => stale_loop sc h r (set_trk_status t1 uuid h false) rejected
          end
      end
  end.

Definition r_block_connected (log_enabled : bool) (sc : script) (t : tower) (b : iblock N) (h : N) : res unit :=
  let t0 := set_car_height t h in
  let txids := keys_of (ib_data b) in
  match ti_update (r_index t0) b with
  | None => Abort S_r_index_update t0
  | Some idx =>
      let t1 := set_r_index t0 idx in
      do completed, t2 <- check_conf_loop log_enabled txids h (db_trks t1) t1 [];
      do _, t3 <- (match completed with [] => Ok tt t2 | _ => gk_delete_appointments t2 completed true end);
      do rej1, t4 <- (match reorged t3 with
                      | [] => Ok [] t3
                      | us => reorged_loop sc h us (set_reorged t3 []) []
                      end);
      match u32_sub h (Z.to_N Consts.CONFIRMATIONS_BEFORE_RETRY) with
      | None => Abort S_r_stale_underflow t4
      | Some lim =>
          let stale := map trk_uuid (filter (fun k => negb (t_conf k) && N.leb (t_height k) lim) (db_trks t4)) in
          do rej2, t5 <- stale_loop sc h stale t4 [];
          do _, t6 <- (match rej1 ++ rej2 with [] => Ok tt t5 | l => gk_delete_appointments t5 l false end);
          Ok tt (set_car_memo t6 [])
      end
  end.

Definition r_block_disconnected (t : tower) (hash : N) (h : N) : res unit :=
  let t1 := set_car_height t h in
  let t2 := set_r_index t1 (ti_disconnect (r_index t1) hash) in
  Ok tt (set_reorged t2 (reorged t2 ++
           filter (fun u => negb (mem_uuid u (reorged t2)))
                  (map trk_uuid (filter (fun k => t_conf k && N.eqb (t_height k) h) (db_trks t2))))).

(* ------------------------------------------------------------------------------------------ *)
(* Watcher *)

Inductive add_result :=
| AddOk (start_block sig slots expiry : N)
| AddAuthOrSlots                 (* AuthenticationFailure and NotEnoughSlots share one reply *)
| AddExpired (expiry : N)
| AddTriggered.

Inductive get_result :=
| GetApp (loc : N) (b : blob) (delay : N)
| GetTrk (dispute penalty : N)
| GetNotFound
| GetAuth
| GetExpired (expiry : N).

Inductive sub_result :=
| SubOk (slots expiry : N) (locators : list N)
| SubAuth
| SubExpired (expiry : N).

(* authenticate_user: the signature recovers to `signer`; it must be a registered user *)
Definition authenticate (t : tower) (signer : option N) : option N :=
  match signer with
  | Some u => if amem (gk_users t) u then Some u else None
  | None => None
  end.

(* Watcher::store_appointment: StoredAppointment::{Update, New} = stored, UnknownUser = the INSERT failed on the
   foreign key (the owner's row is gone) and nothing is stored *)
Definition w_store_ok (t : tower) (a : app) : bool :=
  match find_app (db_apps t) (app_uuid a) with
  | Some _ => true
  | None => amem (db_users t) (a_user a)
  end.

(* a user the gatekeeper knows has its row in table users (true in every reachable state of the sequential
   tower: TowerInv.inv_user_rows); it is what makes the store after a charge succeed *)
Definition user_row_ok (t : tower) (u : N) : Prop := amem (gk_users t) u = true -> amem (db_users t) u = true.

Definition w_store_appointment (t : tower) (a : app) : res unit :=
  match find_app (db_apps t) (app_uuid a) with
  | Some _ =>
      (* UPDATE appointments SET encrypted_blob, to_self_delay, user_signature, start_block *)
      Ok tt (p_update_app t a)
  | None =>
      if amem (db_users t) (a_user a) then Ok tt (p_insert_app t a)
      else Ok tt t
  end.

Definition w_store_triggered (sc : script) (t : tower) (a : app) (dispute : N) : res unit :=
  match decrypt (a_blob a) dispute with
  | Some penalty =>
      (* store_appointment: update when the row exists, insert otherwise; nothing else happens when it cannot be stored *)
      if w_store_ok t a then
        do _, t1 <- w_store_appointment t a;
        do s, t2 <- r_handle_breach sc t1 (app_uuid a) dispute penalty;
        if status_rejected s then gk_delete_appointments t2 [app_uuid a] false else Ok tt t2
      else Ok tt t
  | None =>
      (* invalid: nothing is stored, and the version it replaces (if any) goes too *)
      match find_app (db_apps t) (app_uuid a) with
      | Some _ => gk_delete_appointments t [app_uuid a] false
      | None => Ok tt t
      end
  end.

Definition w_add_appointment (sc : script) (t : tower) (signer : option N)
           (loc : N) (b : blob) (delay sig : N) : res add_result :=
  match authenticate t signer with
  | None => Ok AddAuthOrSlots t
  | Some u =>
      match gk_get t u with
      | None => Ok AddAuthOrSlots t          (* has_subscription_expired: the user is gone *)
      | Some ui =>
          if N.leb (u_expiry ui) (gk_height t) then Ok (AddExpired (u_expiry ui)) t
          else
            let a := mk_app loc u b delay sig (w_height t) in
            let uuid := (loc, u) in
            match find_trk (db_trks t) uuid with
            | Some _ => Ok AddTriggered t
            | None =>
                do charged, t1 <- gk_add_update_appointment t u uuid (b_len b);
                match charged with
                | None => Ok AddAuthOrSlots t1
                | Some available =>
                    (* was the appointment stored (or dropped as undecryptable), or is its owner's row gone? *)
                    let stored := match ti_get (w_cache t1) loc with
                                  | Some dispute => match decrypt b dispute with Some _ => w_store_ok t1 a | None => true end
                                  | None => w_store_ok t1 a
                                  end in
                    do _, t2 <- (match ti_get (w_cache t1) loc with
                                 | Some dispute => w_store_triggered sc t1 a dispute
                                 | None => w_store_appointment t1 a
                                 end);
                    if stored then Ok (AddOk (a_start a) sig available (u_expiry ui)) t2
                    else Ok AddAuthOrSlots t2
                end
            end
      end
  end.

Definition w_get_appointment (t : tower) (signer : option N) (loc : N) : res get_result :=
  match authenticate t signer with
  | None => Ok GetAuth t
  | Some u =>
      match gk_get t u with
      | None => Ok GetAuth t
      | Some ui =>
          if N.leb (u_expiry ui) (gk_height t) then Ok (GetExpired (u_expiry ui)) t
          else
            (* load_tracker is an INNER JOIN with appointments *)
            match find_trk (db_trks t) (loc, u), find_app (db_apps t) (loc, u) with
            | Some k, Some _ => Ok (GetTrk (t_dispute k) (t_penalty k)) t
            | _, Some a => Ok (GetApp (a_loc a) (a_blob a) (a_delay a)) t
            | _, None => Ok GetNotFound t
            end
      end
  end.

Definition w_get_subscription_info (t : tower) (signer : option N) : res sub_result :=
  match authenticate t signer with
  | None => Ok SubAuth t
  | Some u =>
      match gk_get t u with
      | None => Ok SubAuth t
      | Some ui =>
          if N.leb (u_expiry ui) (gk_height t) then Ok (SubExpired (u_expiry ui)) t
          else Ok (SubOk (u_slots ui) (u_expiry ui)
                         (map a_loc (filter (fun a => N.eqb (a_user a) u) (db_apps t)))) t
      end
  end.

(* handle_breaches: for every breached locator, every appointment row with that locator *)
Fixpoint breach_uuid_loop (sc : script) (dispute : N) (us : list (N * N)) (t : tower) (invalid : list (N * N))
  : res (list (N * N)) :=
  match us with
  | [] => Ok invalid t
  | uuid :: r =>
      match find_app (db_apps t) uuid with
      | None => breach_uuid_loop sc dispute r t invalid      (* the row is gone by now: skipped *)
      | Some a =>
          match decrypt (a_blob a) dispute with
          | Some penalty =>
              do s, t1 <- r_handle_breach sc t uuid dispute penalty;
              breach_uuid_loop sc dispute r t1 (if status_rejected s then invalid ++ [uuid] else invalid)
          | None => breach_uuid_loop sc dispute r t (invalid ++ [uuid])
          end
      end
  end.

Fixpoint breach_loop (sc : script) (disputes : list N) (t : tower) (invalid : list (N * N))
  : res (list (N * N)) :=
  match disputes with
  | [] => Ok invalid t
  | d :: r =>
      (* load_uuids(locator) *)
      let us := map app_uuid (filter (fun a => N.eqb (a_loc a) d) (db_apps t)) in
      do inv, t1 <- breach_uuid_loop sc d us t invalid;
      breach_loop sc r t1 inv
  end.

Definition w_block_connected (sc : script) (t : tower) (b : iblock N) (h : N) : res unit :=
  match ti_update (w_cache t) b with
  | None => Abort S_w_cache_update t
  | Some c =>
      let t1 := set_w_cache t c in
      (* get_breaches: the block's locators that have at least one row in appointments *)
      let breaches := filter (fun d => existsb (fun a => N.eqb (a_loc a) d) (db_apps t1)) (keys_of (ib_data b)) in
      do invalid, t2 <- breach_loop sc breaches t1 [];
      do _, t3 <- (match invalid with [] => Ok tt t2 | l => gk_delete_appointments t2 l false end);
      Ok tt (set_w_height t3 h)
  end.

Definition w_block_disconnected (t : tower) (hash : N) (h : N) : res unit :=
  let t1 := set_w_cache t (ti_disconnect (w_cache t) hash) in
  match u32_sub h 1 with
  | None => Abort S_w_disconnect_underflow t1
  | Some h' => Ok tt (set_w_height t1 h')
  end.

(* ------------------------------------------------------------------------------------------ *)
(* operations of the whole tower *)

Inductive op :=
| ORegister (u : N)
| OAdd (signer : option N) (loc : N) (b : blob) (delay sig : N)
| OGet (signer : option N) (loc : N)
| OGetSub (signer : option N)
| OConnect (hash : N) (txs : list N)       (* block at height gk_height + 1 *)
| ODisconnect.                              (* the block at the back of the indexes *)

Inductive out :=
| ORegisterRes (r : reg_result)
| OAddRes (r : add_result)
| OGetRes (r : get_result)
| OSubRes (r : sub_result)
| OBlockRes
| OAbort (s : site).

(* a block as the two indexes see it: the watcher maps locator -> tx, the responder txid -> hash *)
Definition cache_block (hash : N) (txs : list N) : iblock N := mk_iblock hash (map (fun x => (x, x)) txs).
Definition index_block (hash : N) (txs : list N) : iblock N := mk_iblock hash (map (fun x => (x, hash)) txs).

(* the listeners, in the order of the generated LISTENER_ORDER (0 gatekeeper, 1 watcher, 2 responder) *)
Definition listener_connected (log_enabled : bool) (sc : script) (hash : N) (txs : list N) (h : N) (which : Z) (t : tower)
  : res unit :=
  if Z.eqb which 0 then gk_block_connected t h
  else if Z.eqb which 1 then w_block_connected sc t (cache_block hash txs) h
  else r_block_connected log_enabled sc t (index_block hash txs) h.

Definition listener_disconnected (hash : N) (h : N) (which : Z) (t : tower) : res unit :=
  if Z.eqb which 0 then gk_block_disconnected t h
  else if Z.eqb which 1 then w_block_disconnected t hash h
  else r_block_disconnected t hash h.

Fixpoint run_listeners (f : Z -> tower -> res unit) (order : list Z) (t : tower) : res unit :=
  match order with
  | [] => Ok tt t
  | w :: r => do _, t1 <- f w t; run_listeners f r t1
  end.

Definition last_hash (t : tower) : option N := last (map Some (ti_blocks (r_index t))) None.

Definition wrap {A} (f : A -> out) (r : res A) : tower * out :=
  match r with Ok a t => (t, f a) | Abort s t => (t, OAbort s) end.

(* one operation; `log_enabled` = whether log::info! arguments are evaluated (a logger is installed
   at level Info, as teosd does); sc = the node's answers during this step *)
Definition step (log_enabled : bool) (t : tower) (o : op) (sc : script) : tower * out :=
  let t := set_rpc_log t [] in
  match o with
  | ORegister u => wrap ORegisterRes (gk_add_update_user t u)
  | OAdd signer loc b delay sig => wrap OAddRes (w_add_appointment sc t signer loc b delay sig)
  | OGet signer loc => wrap OGetRes (w_get_appointment t signer loc)
  | OGetSub signer => wrap OSubRes (w_get_subscription_info t signer)
  | OConnect hash txs =>
      wrap (fun _ => OBlockRes)
           (run_listeners (listener_connected log_enabled sc hash txs (gk_height t + 1)) Consts.LISTENER_ORDER t)
  | ODisconnect =>
      match last_hash t with
      | Some hash =>
          wrap (fun _ => OBlockRes)
               (run_listeners (listener_disconnected hash (gk_height t)) Consts.LISTENER_ORDER t)
      | None => (t, OBlockRes)
      end
  end.

(* initial state: a tower bootstrapped at height h0 on a chain whose last blocks are given
   (newest first; the responder takes all of them, the watcher the generated slice) *)
Definition sublist {A} (from to : nat) (l : list A) : list A := firstn (to - from) (skipn from l).

Definition init (c : config) (h0 : N) (last_blocks_newest_first : list (N * list N)) : option tower :=
  let wslice := sublist (Z.to_nat Consts.WATCHER_CACHE_FROM) (Z.to_nat Consts.WATCHER_CACHE_TO) last_blocks_newest_first in
  match ti_new (map (fun b => cache_block (fst b) (snd b)) wslice) (Z.of_N h0),
        ti_new (map (fun b => index_block (fst b) (snd b)) last_blocks_newest_first) (Z.of_N h0) with
  | Some wc, Some ri => Some (mk_tower c [] h0 [] [] [] h0 wc ri h0 [] [] [])
  | _, _ => None
  end.

(* a history: operations with the node script of each step; stops at the first abort *)
Fixpoint run (log_enabled : bool) (t : tower) (h : list (op * script)) : tower * list out :=
  match h with
  | [] => (t, [])
  | (o, sc) :: r =>
      let '(t1, x) := step log_enabled t o sc in
      match x with
      | OAbort _ => (t1, [x])
      | _ => let '(t2, xs) := run log_enabled t1 r in (t2, x :: xs)
      end
  end.
