(* Base.v — shared conventions: numbers, association lists (the model of Rust HashMap), results.
   Model files contain definitions only; proofs live in the *Proofs.v / *Inv.v files. *)
From Coq Require Export List NArith ZArith Bool Lia.
Export ListNotations.
Open Scope N_scope.

Arguments N.add : simpl never.
Arguments N.sub : simpl never.
Arguments N.mul : simpl never.
Arguments N.eqb : simpl never.
Arguments N.ltb : simpl never.
Arguments N.leb : simpl never.

(* ---------- association lists: the model of a HashMap<N, V> ----------
   insert = cons (shadowing), remove/retain = filter on the key, get = first match.
   As a finite map this satisfies exactly the HashMap laws used by the code:
     get (insert k v m) k' = if k = k' then Some v else get m k'
     get (retain p m) k    = if p k then get m k else None                       *)
Section Assoc.
  Context {V : Type}.
  Definition amap := list (N * V).

  Fixpoint aget (m : amap) (k : N) : option V :=
    match m with
    | [] => None
    | (k', v) :: m' => if N.eqb k k' then Some v else aget m' k
    end.

  Definition ainsert (m : amap) (k : N) (v : V) : amap := (k, v) :: m.

  Definition aretain (p : N -> bool) (m : amap) : amap :=
    filter (fun kv => p (fst kv)) m.

  Definition aremove (m : amap) (k : N) : amap :=
    aretain (fun k' => negb (N.eqb k' k)) m.

  Definition amem (m : amap) (k : N) : bool :=
    match aget m k with Some _ => true | None => false end.
End Assoc.
Arguments amap : clear implicits.

Definition memN (k : N) (l : list N) : bool := existsb (N.eqb k) l.

(* keys of an association list without shadowed duplicates, in first-occurrence order *)
Fixpoint nodupN (l : list N) : list N :=
  match l with
  | [] => []
  | x :: r => x :: filter (fun y => negb (N.eqb y x)) (nodupN r)
  end.

(* u32 arithmetic as the code performs it.  Checked = debug build (overflow panics),
   Wrapping = release build. *)
Definition U32MAX : N := 4294967295.
Definition U32MOD : N := 4294967296.
Inductive arith_mode := Checked | Wrapping.
