(* ConcDisc.v — C10, linearizability of a reader against a block disconnection (and against any thread that leaves the
   reader's tables alone and stores the gatekeeper's height at most to one value).
   get_appointment / get_subscription_info read the gatekeeper's user map, the gatekeeper's height (once: in the expiry
   test) and the appointment / tracker tables.  A block disconnection changes, of these, the height only - by one
   atomic store.  Hence, for ALL schedules: the reader is told what it is told when run before the other thread (it read
   the old height) or after it (it read the new one), and the other thread's reply and the final state are those of its
   run alone (ConcLin.writer_among_readers_runs_alone): state and replies of a sequential order.
   The reader's outline: every action is read-only and depends only on the view (user map, tables, height); up to
   the one action that looks at the height the actions do not depend on it, after it nothing does. *)
From TeosModel Require Import Base ListAux TxIndex Tower ConcTower ConcTowerProofs ConcReg ConcLin.
From TeosModel.Gen Require Consts.
From Coq Require Import Lia.
Local Open Scope N_scope.

Definition sameP (t t' : tower) : Prop := gk_users t' = gk_users t /\ db_apps t' = db_apps t /\ db_trks t' = db_trks t.
Definition same_view (t t' : tower) : Prop := sameP t t' /\ gk_height t' = gk_height t.

Lemma sameP_refl t : sameP t t. Proof. repeat split. Qed.
Lemma sameP_trans a b c : sameP a b -> sameP b c -> sameP a c.
Proof. intros [A1 [A2 A3]] [B1 [B2 B3]]. repeat split; congruence. Qed.
Lemma sameP_sym a b : sameP a b -> sameP b a.
Proof. intros [A1 [A2 A3]]. repeat split; congruence. Qed.

(* height-independent residual *)
Fixpoint hi (q : prog out) : Prop :=
  match q with
  | Ret _ => True
  | Acq _ k | Rel _ k => hi k
  | Act B f k => (forall t, state_of (f t) = t) /\ (forall t t', sameP t t' -> val (f t) = val (f t')) /\ forall b, hi (k b)
  end.

(* the height is looked at by at most one action *)
Fixpoint hs (q : prog out) : Prop :=
  match q with
  | Ret _ => True
  | Acq _ k | Rel _ k => hs k
  | Act B f k => (forall t, state_of (f t) = t) /\ (forall t t', same_view t t' -> val (f t) = val (f t')) /\
                 (((forall t t', sameP t t' -> val (f t) = val (f t')) /\ forall b, hs (k b)) \/ forall b, hi (k b))
  end.

Lemma hi_hs q : hi q -> hs q.
Proof.
  induction q as [o|l k IH|l k IH|B f k IH]; cbn [hi hs]; auto.
  intros [H1 [H2 H3]]. split; [exact H1|]. split; [intros t t' [Hp _]; apply H2; exact Hp|]. right. exact H3.
Qed.

Lemma hs_readonly q : hs q -> readonly q.
Proof.
  induction q as [o|l k IH|l k IH|B f k IH]; cbn [hs readonly]; auto.
  intros [H1 [_ [[_ H3]|H3]]]; (split; [exact H1|]); intros b; apply IH; [apply H3|apply hi_hs, H3].
Qed.

Lemma ro_act {B} (f : tower -> res B) t : state_of (f t) = t -> f t = match val (f t) with Some b => Ok b t | None => f t end.
Proof. destruct (f t) as [b t'|s t']; cbn; intros H; [subst; reflexivity|reflexivity]. Qed.

Lemma hi_exec q : hi q -> forall t t', sameP t t' -> val (exec q t) = val (exec q t').
Proof.
  induction q as [o|l k IH|l k IH|B f k IH]; cbn [hi exec]; intros Hq t t' Hp; auto.
  destruct Hq as [H1 [H2 H3]]. pose proof (H2 t t' Hp) as Hv. pose proof (H1 t) as Ht. pose proof (H1 t') as Ht'.
  destruct (f t) as [b t1|s t1], (f t') as [b' t1'|s' t1']; cbn in *; try discriminate; [|reflexivity].
  inversion Hv; subst. apply IH; [apply H3|exact Hp].
Qed.

Lemma hs_exec q : hs q -> forall t t', same_view t t' -> val (exec q t) = val (exec q t').
Proof.
  induction q as [o|l k IH|l k IH|B f k IH]; cbn [hs exec]; intros Hq t t' Hp; auto.
  destruct Hq as [H1 [H2 H3]]. pose proof (H2 t t' Hp) as Hv. pose proof (H1 t) as Ht. pose proof (H1 t') as Ht'.
  destruct (f t) as [b t1|s t1], (f t') as [b' t1'|s' t1']; cbn in *; try discriminate; [|reflexivity].
  inversion Hv; subst. destruct H3 as [[_ H3]|H3]; [apply IH; [apply H3|exact Hp]|apply hi_exec; [apply H3|exact (proj1 Hp)]].
Qed.

Lemma ro_exec (q : prog out) : readonly q -> forall t o, val (exec q t) = Some o -> exec q t = Ok o t.
Proof.
  induction q as [o'|l k IH|l k IH|B f k IH]; cbn [readonly exec]; intros Hq t o Hv; auto.
  - cbn in Hv. inversion Hv. reflexivity.
  - destruct Hq as [H1 H2]. pose proof (H1 t) as Ht. destruct (f t) as [b t1|s t1]; cbn in *; [subst; apply IH; [apply H2|exact Hv]|discriminate].
Qed.

Section Disc.
  Context (t0 : tower) (H1 : N) (PR PW : prog out).
  Let H0 : N := gk_height t0.
  Let g0 : option out := val (exec PR t0).
  Let g1 : option out := val (exec PR (set_gk_height t0 H1)).

  (* the other thread: leaves the reader's tables alone, stores the height only to H1 *)
  Definition RW (t t' : tower) : Prop := sameP t t' /\ (gk_height t' = gk_height t \/ gk_height t' = H1).

  Fixpoint wg (q : prog out) : Prop :=
    match q with
    | Ret _ => True
    | Acq _ k | Rel _ k => wg k
    | Act B f k => (forall t b t', f t = Ok b t' -> RW t t') /\ forall b, wg (k b)
    end.

  Definition Rinv (q : prog out) (t : tower) : Prop :=
    hs q /\ sameP t0 t /\
    ((gk_height t = H0 /\ val (exec q t) = g0 /\ (val (exec q (set_gk_height t H1)) = g0 \/ val (exec q (set_gk_height t H1)) = g1)) \/
     (gk_height t = H1 /\ (val (exec q t) = g0 \/ val (exec q t) = g1))).

  Definition J (c : conf) : Prop :=
    exists qr hr trr qw hw trw,
      cf_threads c = [mk_cthread (Running qr) hr trr; mk_cthread (Running qw) hw trw] /\
      Rinv qr (cf_tower c) /\ wg qw.

  Definition aborted (c : conf) : Prop :=
    exists i th r, nth_error (cf_threads c) i = Some th /\ ct_st th = Ended r /\ ended_by_abort r.

  Lemma aborted_step c i c' : aborted c -> step_thread c i = Some c' -> aborted c'.
  Proof.
    intros [j [th [r [Hn [He Hab]]]]] Hs.
    destruct (step_thread_cases c i c' Hs) as [thi [p [Hni [Hst Hc]]]].
    assert (Hij : i <> j) by (intros ->; rewrite Hn in Hni; inversion Hni; subst; congruence).
    exists j, th, r. split; [|split; [exact He|exact Hab]].
    destruct Hc as [[l [k [_ [_ [_ ->]]]]]|[[l [k [_ [_ [_ ->]]]]]|[[l [k [_ ->]]]|[[B [f [k [bb [t' [_ [_ ->]]]]]]]|[B [f [k [s [t' [_ [_ ->]]]]]]]]]]];
      cbn [die cf_threads]; rewrite nth_error_set_nth_neq by exact Hij; exact Hn.
  Qed.

  Lemma view_seth t : gk_height t = H1 -> same_view t (set_gk_height t H1).
  Proof. intros H. split; [repeat split|cbn; congruence]. Qed.

  (* the reader acts (reads): the residual keeps its promise *)
  Lemma Rinv_act B (f : tower -> res B) k t b t' : Rinv (Act B f k) t -> f t = Ok b t' -> t' = t /\ Rinv (k b) t.
  Proof.
    intros [Hs [Hp Hph]] E. cbn [hs] in Hs. destruct Hs as [Hro [Hv Hk]].
    assert (Et : t' = t) by (pose proof (Hro t) as X; rewrite E in X; exact X). subst t'. split; [reflexivity|].
    assert (Hsk : hs (k b)) by (destruct Hk as [[_ Hk]|Hk]; [apply Hk|apply hi_hs, Hk]).
    split; [exact Hsk|]. split; [exact Hp|].
    assert (Ecur : val (exec (k b) t) = val (exec (Act B f k) t)) by (cbn [exec]; rewrite E; reflexivity).
    assert (Eoth : val (exec (k b) (set_gk_height t H1)) = val (exec (Act B f k) (set_gk_height t H1)) \/
                   val (exec (k b) (set_gk_height t H1)) = val (exec (k b) t)).
    { destruct Hk as [[Hind _]|Hk].
      - left. cbn [exec]. assert (Hp1 : sameP t (set_gk_height t H1)) by (repeat split).
        pose proof (Hind t (set_gk_height t H1) Hp1) as Hvv. rewrite E in Hvv. cbn in Hvv.
        pose proof (Hro (set_gk_height t H1)) as Hst.
        destruct (f (set_gk_height t H1)) as [b' t1|s t1]; cbn in *; [|discriminate]. inversion Hvv; subst. reflexivity.
      - right. symmetry. apply hi_exec; [apply Hk|repeat split]. }
    destruct Hph as [[Hh [Hc Ho]]|[Hh Hc]].
    - left. split; [exact Hh|]. split; [rewrite Ecur; exact Hc|].
      destruct Eoth as [Eo|Eo]; rewrite Eo; [exact Ho|left; rewrite Ecur; exact Hc].
    - right. split; [exact Hh|]. rewrite Ecur. exact Hc.
  Qed.

  (* the other thread acts *)
  Lemma Rinv_env q t t' : Rinv q t -> RW t t' -> Rinv q t'.
  Proof.
    intros [Hs [Hp Hph]] [Hpp Hh]. split; [exact Hs|]. split; [eapply sameP_trans; eauto|].
    destruct Hh as [Hh|Hh].
    - assert (Hv : same_view t t') by (split; assumption).
      assert (Hv1 : same_view (set_gk_height t H1) (set_gk_height t' H1)) by (split; [exact Hpp|reflexivity]).
      rewrite <- (hs_exec q Hs _ _ Hv), <- (hs_exec q Hs _ _ Hv1), Hh. exact Hph.
    - right. split; [exact Hh|].
      assert (Hv : same_view (set_gk_height t H1) t') by (split; [exact Hpp|cbn; exact Hh]).
      rewrite <- (hs_exec q Hs _ _ Hv).
      destruct Hph as [[_ [_ Ho]]|[Hht Hc]]; [exact Ho|].
      rewrite <- (hs_exec q Hs _ _ (view_seth t Hht)). exact Hc.
  Qed.

  Lemma J_step c i c' : J c -> step_thread c i = Some c' -> J c' \/ aborted c'.
  Proof.
    intros [qr [hr [trr [qw [hw [trw [Hth [HR HW]]]]]]]] Hs.
    destruct (step_thread_cases c i c' Hs) as [th [p [Hn [Hst Hc]]]].
    rewrite Hth in Hn.
    destruct i as [|[|i]]; cbn [nth_error] in Hn; [| |destruct i; discriminate].
    - inversion Hn; subst th. cbn [ct_st ct_held ct_trace] in *. inversion Hst; subst p. clear Hst Hn.
      destruct Hc as [[l [k [-> [_ [_ ->]]]]]|[[l [k [-> [_ [_ ->]]]]]|[[l [k [-> ->]]]|[[B [f [k [bb [t' [-> [Hf ->]]]]]]]|[B [f [k [s [t' [-> [Hf ->]]]]]]]]]]].
      + left. exists k, (l :: hr), (l :: trr), qw, hw, trw. rewrite Hth. cbn [set_nth cf_threads cf_tower]. split; [reflexivity|]. split; [exact HR|exact HW].
      + right. exists 0%nat. eexists. eexists. unfold die. rewrite Hth. cbn [cf_threads set_nth nth_error]. split; [reflexivity|split; [reflexivity|exact I]].
      + left. exists k, (remove_lock l hr), trr, qw, hw, trw. rewrite Hth. cbn [set_nth cf_threads cf_tower]. split; [reflexivity|]. split; [exact HR|exact HW].
      + destruct (Rinv_act B f k (cf_tower c) bb t' HR Hf) as [-> HR'].
        left. exists (k bb), hr, trr, qw, hw, trw. rewrite Hth. cbn [set_nth cf_threads cf_tower]. split; [reflexivity|]. split; [exact HR'|exact HW].
      + right. exists 0%nat. eexists. eexists. unfold die. rewrite Hth. cbn [cf_threads set_nth nth_error]. split; [reflexivity|split; [reflexivity|exact I]].
    - inversion Hn; subst th. cbn [ct_st ct_held ct_trace] in *. inversion Hst; subst p. clear Hst Hn.
      destruct Hc as [[l [k [-> [_ [_ ->]]]]]|[[l [k [-> [_ [_ ->]]]]]|[[l [k [-> ->]]]|[[B [f [k [bb [t' [-> [Hf ->]]]]]]]|[B [f [k [s [t' [-> [Hf ->]]]]]]]]]]].
      + left. exists qr, hr, trr, k, (l :: hw), (l :: trw). rewrite Hth. cbn [set_nth cf_threads cf_tower]. split; [reflexivity|]. split; [exact HR|exact HW].
      + right. exists 1%nat. eexists. eexists. unfold die. rewrite Hth. cbn [cf_threads set_nth nth_error]. split; [reflexivity|split; [reflexivity|exact I]].
      + left. exists qr, hr, trr, k, (remove_lock l hw), trw. rewrite Hth. cbn [set_nth cf_threads cf_tower]. split; [reflexivity|]. split; [exact HR|exact HW].
      + cbn [wg] in HW. destruct HW as [HW1 HW2].
        left. exists qr, hr, trr, (k bb), hw, trw. rewrite Hth. cbn [set_nth cf_threads cf_tower]. split; [reflexivity|].
        split; [eapply Rinv_env; [exact HR|eapply HW1; exact Hf]|apply HW2].
      + right. exists 1%nat. eexists. eexists. unfold die. rewrite Hth. cbn [cf_threads set_nth nth_error]. split; [reflexivity|split; [reflexivity|exact I]].
  Qed.

  Lemma J_init : hs PR -> wg PW -> J (init_config t0 [PR; PW]).
  Proof.
    intros Hs Hw. exists PR, [], [], PW, [], []. split; [reflexivity|]. split; [|exact Hw].
    split; [exact Hs|]. split; [apply sameP_refl|]. left. split; [reflexivity|]. split; [reflexivity|right; reflexivity].
  Qed.

  (* THE theorem: reader || such a thread, every schedule in which both return: state and replies of a sequential
     order - the reader first (it is told what it is told in the initial state) or the reader last (what it is told
     in the final state) *)
  Theorem reader_and_height_writer_linearizable sched tf o ow :
    hs PR -> wg PW ->
    run_sched t0 [PR; PW] sched = (tf, [Some (TOut o); Some (TOut ow)]) ->
    (forall s, o <> OAbort s) -> (forall s, ow <> OAbort s) ->
    exec PW t0 = Ok ow tf /\ (exec PR t0 = Ok o t0 \/ exec PR tf = Ok o tf).
  Proof.
    intros Hs Hw Hrun Hna Hnw.
    assert (Hro : readonly PR) by (apply hs_readonly; exact Hs).
    split.
    - pose proof (writer_among_readers_runs_alone t0 [PR; PW] sched 1 PW ow eq_refl) as Hal.
      rewrite Hrun in Hal. cbn [fst snd nth_error] in Hal. apply Hal; [|reflexivity|exact Hnw].
      intros i q Hi Hq. destruct i as [|[|i]]; cbn [nth_error] in Hq; [inversion Hq; subst; exact Hro|congruence|destruct i; discriminate].
    - unfold run_sched in Hrun. inversion Hrun as [[Ht Hres]]. clear Hrun.
      assert (HJ : J (run_config (init_config t0 [PR; PW]) sched) \/ aborted (run_config (init_config t0 [PR; PW]) sched)).
      { apply (run_config_inv (fun c => J c \/ aborted c)); [|left; apply J_init; assumption].
        intros c1 i c2 [HJ|Ha] Hst; [eapply J_step; eauto|right; eapply aborted_step; eauto]. }
      destruct HJ as [[qr [hr [trr [qw [hw [trw [Hth [[_ [Hp Hph]] _]]]]]]]]|[i [th [x [Hn [He Hab]]]]]].
      + rewrite Hth in Hres. cbn [map thread_result ct_st] in Hres.
        assert (Er : qr = Ret o) by (destruct qr; inversion Hres; reflexivity). subst qr.
        cbn [exec val] in Hph. rewrite Ht in *.
        assert (E0 : g0 = Some o -> exec PR t0 = Ok o t0) by (intros E; apply ro_exec; [exact Hro|exact E]).
        assert (E1 : gk_height tf = H1 -> g1 = Some o -> exec PR tf = Ok o tf).
        { intros Hh E. apply ro_exec; [exact Hro|]. rewrite <- E. subst g1. symmetry. apply hs_exec; [exact Hs|].
          split; [exact Hp|cbn; exact Hh]. }
        destruct Hph as [[_ [Hc _]]|[Hh [Hc|Hc]]]; [left; apply E0; symmetry; exact Hc|left; apply E0; symmetry; exact Hc|right; apply E1; [exact Hh|symmetry; exact Hc]].
      + exfalso.
        assert (Hx : nth_error (map thread_result (cf_threads (run_config (init_config t0 [PR; PW]) sched))) i = Some (Some x)).
        { rewrite nth_error_map, Hn. cbn [option_map]. unfold thread_result. rewrite He. reflexivity. }
        rewrite Hres in Hx. destruct i as [|[|[|i]]]; cbn [nth_error] in Hx; inversion Hx; subst x; cbn in Hab;
          [destruct o; try exact Hab; eapply Hna; reflexivity|destruct ow; try exact Hab; eapply Hnw; reflexivity].
  Qed.
End Disc.

(* ---- the readers satisfy the outline ---- *)
Lemma get_hs signer loc : hs (get_p signer loc).
Proof.
  unfold get_p, get_appointment_p, authenticate_p, expired_p, reach_p. destruct signer as [u|]; cbn [pbind acq rel rd hs].
  2:{ exact I. }
  split; [reflexivity|]. split; [intros t t' [[Hu _] _]; cbn; unfold authenticate; rewrite Hu; reflexivity|].
  left. split; [intros t t' [Hu _]; cbn; unfold authenticate; rewrite Hu; reflexivity|].
  intros ou. destruct ou as [u'|]; cbn [pbind hs]; [|exact I].
  split; [reflexivity|]. split; [intros t t' [[Hu _] Hh]; cbn; unfold gk_get; rewrite Hu, Hh; reflexivity|].
  right. intros oe. destruct oe as [[ex e]|]; cbn [pbind hi fst snd]; [|exact I].
  destruct ex; cbn [pbind hi]; [exact I|].
  split; [reflexivity|]. split; [intros t t' [_ [Ha Ht]]; cbn; unfold load_for_get; rewrite Ha, Ht; reflexivity|].
  intros r. exact I.
Qed.

Lemma getsub_hs signer : hs (getsub_p signer).
Proof.
  unfold getsub_p, get_subscription_info_p, authenticate_p, expired_p, reach_p. destruct signer as [u|]; cbn [pbind acq rel rd hs].
  2:{ exact I. }
  split; [reflexivity|]. split; [intros t t' [[Hu _] _]; cbn; unfold authenticate; rewrite Hu; reflexivity|].
  left. split; [intros t t' [Hu _]; cbn; unfold authenticate; rewrite Hu; reflexivity|].
  intros ou. destruct ou as [u'|]; cbn [pbind hs]; [|exact I].
  split; [reflexivity|]. split; [intros t t' [[Hu _] Hh]; cbn; unfold gk_get; rewrite Hu, Hh; reflexivity|].
  right. intros oe. destruct oe as [[ex e]|]; cbn [pbind hi fst snd]; [|exact I].
  destruct ex; cbn [pbind hi]; [exact I|].
  split; [reflexivity|]. split; [intros t t' [Hu _]; cbn; unfold gk_get; rewrite Hu; reflexivity|].
  intros oi. destruct oi as [ui|]; cbn [pbind hi]; [|exact I].
  split; [reflexivity|]. split; [intros t t' [_ [Ha _]]; cbn; rewrite Ha; reflexivity|].
  intros r. exact I.
Qed.

(* ---- the disconnection satisfies its outline: of the reader's view it changes the height only, to h - 1 ---- *)
Lemma disconnect_wg hash h : wg (h - 1) (disconnect_p hash h ;;; Ret OBlockRes).
Proof.
  unfold disconnect_p. change Consts.LISTENER_ORDER with [0%Z; 1%Z; 2%Z].
  cbn [run_listeners_p listener_disconnected_p Z.eqb]. unfold gk_disconnect_p, w_disconnect_p, r_disconnect_p.
  cbn [pbind acq rel act wr wg].
  assert (Hsame : forall (g : tower -> tower), (forall t, sameP t (g t) /\ gk_height (g t) = gk_height t) ->
                  forall t (b : unit) t', Ok tt (g t) = Ok b t' -> RW (h - 1) t t').
  { intros g Hg t b t' E. injection E as _ Et. rewrite <- Et. destruct (Hg t) as [A B]. split; [exact A|left; exact B]. }
  split.
  { intros t bb t' E. unfold store_height, u32_sub in E. destruct (N.leb 1 h); [|discriminate E]. injection E as _ Et. rewrite <- Et.
    split; [repeat split|right; reflexivity]. }
  intros ?. split; [apply (Hsame (fun t => set_w_cache t (ti_disconnect (w_cache t) hash))); intros t; split; [repeat split|reflexivity]|].
  intros ?. split.
  { intros t bb t' E. unfold store_height, u32_sub in E. destruct (N.leb 1 h); [|discriminate E]. injection E as _ Et. rewrite <- Et.
    split; [repeat split|left; reflexivity]. }
  intros ?. split; [apply (Hsame (fun t => set_car_height t h)); intros t; split; [repeat split|reflexivity]|].
  intros ?. split; [apply (Hsame (fun t => set_r_index t (ti_disconnect (r_index t) hash))); intros t; split; [repeat split|reflexivity]|].
  intros ?. split; [apply (Hsame (mark_reorged h)); intros t; split; [repeat split|reflexivity]|].
  intros ?. exact I.
Qed.
