(* TowerRuns.v — the RUN-LEVEL statements of C01 / C02 / C08 / C09: what the per-step theorems of
   TowerBreach.v / TowerSubs.v / TowerReorg.v say "at every moment", "from then on", "until", "for all
   histories".  Every theorem here is universally quantified over histories and proved by induction over
   the run (through `run_app` / `env_app`, which cut a history at an arbitrary point and give the big
   invariant of TowerLive.v in the state reached there).

   How a moment of a run is named: the history is cut as  h = pre ++ (o, sc) :: post ; the state the
   step starts from is  fst (run le t0 pre) , the step is  step le (fst (run le t0 pre)) o sc , and the
   state after it is  fst (run le t0 (pre ++ [(o, sc)])) .  "For every prefix and every step in it" is
   "for every such cut".

   Hypotheses of every run-level theorem: a bootstrapped tower (the three hypotheses of
   TowerLive.big_init) and a history inside the envelope and the chain discipline of TowerLive.v (so that
   no step aborts: C11).  The `_from` variants start from any state satisfying BigInv instead.

   Contents
     0. cutting runs                         run_app, env_app, reach_cut
     1. C01   breach_answered_run            every OConnect step of a run answers every breached row
              late_breach_answered_run       every OAdd step whose locator is in the cache
              tracker_fate                   ONE STEP: a tracker survives with its dispute and penalty,
                                             unless the step is one of exactly five kinds (trk_deletion)
              responded_forever_run          until such a step: present, and reported to its owner
     (C08, C09, C02: TowerRuns2.v)
   Nothing is left as a hypothesis. *)
From TeosModel Require Import Base ListAux TxIndex TxIndexProofs Tower TowerStable TowerInv TowerProofs TowerSubs TowerReorg.
From TeosModel Require Import TowerLive.
From TeosModel Require TowerBreach TowerLedger.
From TeosModel.Gen Require Consts.
From Coq Require Import Lia.
Local Open Scope N_scope.

(* ------------------------------------------------------------------------------------------ *)
(* 0. cutting runs *)

Lemma run_cons_ok le t o sc r :
  not_abort (snd (step le t o sc)) ->
  run le t ((o, sc) :: r) =
    (fst (run le (fst (step le t o sc)) r), snd (step le t o sc) :: snd (run le (fst (step le t o sc)) r)).
Proof.
  intros Hn. cbn [run]. destruct (step le t o sc) as [t1 x]. cbn [fst snd] in *.
  destruct (run le t1 r) as [t2 xs]. destruct x; try reflexivity. contradiction.
Qed.

Lemma run_app le : forall h1 h2 t,
  Forall not_abort (snd (run le t h1)) ->
  run le t (h1 ++ h2) =
    (fst (run le (fst (run le t h1)) h2), snd (run le t h1) ++ snd (run le (fst (run le t h1)) h2)).
Proof.
  induction h1 as [|[o sc] h1 IH]; intros h2 t Hall.
  - cbn [List.app run fst snd]. destruct (run le t h2); reflexivity.
  - assert (Hn : not_abort (snd (step le t o sc))).
    { revert Hall. cbn [run]. destruct (step le t o sc) as [t1 x]. destruct (run le t1 h1) as [t2 xs].
      destruct x; cbn [snd]; intros Hall; inversion Hall; assumption. }
    rewrite (run_cons_ok le t o sc h1 Hn) in *. cbn [fst snd] in *.
    change (((o, sc) :: h1) ++ h2) with ((o, sc) :: (h1 ++ h2)). rewrite (run_cons_ok le t o sc (h1 ++ h2) Hn).
    inversion Hall as [|x0 l0 Hx Hrest]; subst. rewrite (IH h2 _ Hrest). reflexivity.
Qed.

Lemma run_single le t o sc : fst (run le t [(o, sc)]) = fst (step le t o sc).
Proof. cbn [run]. destruct (step le t o sc) as [t1 x]. destruct x; reflexivity. Qed.

(* the state reached after  pre ++ [step]  is the state the step leaves *)
Lemma run_snoc_state le t pre o sc :
  Forall not_abort (snd (run le t pre)) ->
  fst (run le t (pre ++ [(o, sc)])) = fst (step le (fst (run le t pre)) o sc).
Proof. intros Hall. rewrite (run_app le pre [(o, sc)] t Hall). cbn [fst]. apply run_single. Qed.

(* a history inside the envelope and the chain discipline can be cut anywhere: both halves are inside,
   the second one from the state the first one reaches *)
Lemma env_app le : forall h1 h2 t,
  BigInv t -> in_envelope le t (h1 ++ h2) = true -> chain_disciplined le t (h1 ++ h2) = true ->
  in_envelope le t h1 = true /\ chain_disciplined le t h1 = true /\
  in_envelope le (fst (run le t h1)) h2 = true /\ chain_disciplined le (fst (run le t h1)) h2 = true.
Proof.
  induction h1 as [|[o sc] h1 IH]; intros h2 t HB He Hc.
  - cbn [List.app run fst in_envelope chain_disciplined] in *. auto.
  - change (((o, sc) :: h1) ++ h2) with ((o, sc) :: (h1 ++ h2)) in He, Hc.
    cbn [in_envelope chain_disciplined] in *. apply andb_true_iff in He, Hc.
    destruct He as [He1 He2]. destruct Hc as [Hc1 Hc2].
    pose proof (step_never_aborts le t o sc HB He1) as Hna. pose proof (step_big le t o sc HB He1 Hc1) as HB1.
    rewrite (run_cons_ok le t o sc h1 Hna). cbn [fst].
    destruct (IH h2 _ HB1 He2 Hc2) as [A [B [C D]]]. rewrite He1, Hc1, A, B. auto.
Qed.

(* THE CUT.  From a state satisfying the big invariant, for a history inside the envelope and the chain
   discipline, at every cut  h = pre ++ (o, sc) :: post : the prefix did not abort, the state it reaches
   satisfies the big invariant, the operation is inside the envelope there, the step does not abort, and
   the rest of the history is inside the envelope from the state the step leaves. *)
Record cut_facts (le : bool) (t0 : tower) (pre : list (op * script)) (o : op) (sc : script)
       (post : list (op * script)) : Prop := {
  cf_pre_ok : Forall not_abort (snd (run le t0 pre));
  cf_big : BigInv (fst (run le t0 pre));
  cf_env : envb (fst (run le t0 pre)) o = true;
  cf_chain : chainb (fst (run le t0 pre)) o = true;
  cf_ok : not_abort (snd (step le (fst (run le t0 pre)) o sc));
  cf_next : fst (run le t0 (pre ++ [(o, sc)])) = fst (step le (fst (run le t0 pre)) o sc);
  cf_big_next : BigInv (fst (step le (fst (run le t0 pre)) o sc));
  cf_env_post : in_envelope le (fst (step le (fst (run le t0 pre)) o sc)) post = true;
  cf_chain_post : chain_disciplined le (fst (step le (fst (run le t0 pre)) o sc)) post = true
}.

Theorem reach_cut_from le t0 pre o sc post :
  BigInv t0 -> in_envelope le t0 (pre ++ (o, sc) :: post) = true ->
  chain_disciplined le t0 (pre ++ (o, sc) :: post) = true ->
  cut_facts le t0 pre o sc post.
Proof.
  intros HB He Hc. destruct (env_app le pre ((o, sc) :: post) t0 HB He Hc) as [A [B [C D]]].
  destruct (no_abort_from le pre t0 HB A B) as [Hall [HB1 _]].
  cbn [in_envelope chain_disciplined] in C, D. apply andb_true_iff in C, D.
  destruct C as [C1 C2]. destruct D as [D1 D2].
  constructor; try assumption.
  - exact (step_never_aborts le _ o sc HB1 C1).
  - exact (run_snoc_state le t0 pre o sc Hall).
  - exact (step_big le _ o sc HB1 C1 D1).
Qed.

Theorem reach_cut le c h0 blocks t0 h pre o sc post :
  init c h0 blocks = Some t0 -> NoDup (map fst blocks) -> N.of_nat (length blocks) <= h0 ->
  in_envelope le t0 h = true -> chain_disciplined le t0 h = true ->
  h = pre ++ (o, sc) :: post ->
  cut_facts le t0 pre o sc post.
Proof.
  intros Hi Hnd Hlen He Hc ->. exact (reach_cut_from le t0 pre o sc post (big_init c h0 blocks t0 Hi Hnd Hlen) He Hc).
Qed.

(* the state at every cut (no operation singled out) *)
Theorem reach_prefix_from le t0 pre post :
  BigInv t0 -> in_envelope le t0 (pre ++ post) = true -> chain_disciplined le t0 (pre ++ post) = true ->
  Forall not_abort (snd (run le t0 pre)) /\ BigInv (fst (run le t0 pre)) /\
  in_envelope le (fst (run le t0 pre)) post = true /\ chain_disciplined le (fst (run le t0 pre)) post = true.
Proof.
  intros HB He Hc. destruct (env_app le pre post t0 HB He Hc) as [A [B [C D]]].
  destruct (no_abort_from le pre t0 HB A B) as [Hall [HB1 _]]. auto.
Qed.

Lemma step_eq le t o sc : step le t o sc = (fst (step le t o sc), snd (step le t o sc)).
Proof. destruct (step le t o sc); reflexivity. Qed.

(* ------------------------------------------------------------------------------------------ *)
(* 1. C01 at run level *)

(* 1.1 what ONE OConnect step does to every breached row, with the three listeners made explicit *)
Definition breach_outcome_w (sc : script) (tg tw : tower) (a : app) : Prop :=
  match decrypt (a_blob a) (a_loc a) with
  | None => TowerBreach.dropped tw (app_uuid a)
  | Some p =>
      let s := TowerBreach.breach_status sc tg p in
      TowerBreach.penalty_handled sc tg tw p /\
      (status_accepted s = true -> In a (db_apps tw) /\ TowerBreach.responded tw (app_uuid a) (a_loc a) p s) /\
      (status_rejected s = true -> TowerBreach.dropped tw (app_uuid a)) /\
      (status_accepted s = false -> status_rejected s = false ->
       In a (db_apps tw) /\ find_trk (db_trks tw) (app_uuid a) = None)
  end.

Definition breach_outcome_step (sc : script) (txs : list N) (t t' : tower) (a : app) : Prop :=
  match decrypt (a_blob a) (a_loc a) with
  | None => TowerBreach.dropped t' (app_uuid a)
  | Some p =>
      let s := TowerBreach.breach_status sc t p in
      TowerBreach.penalty_handled sc t t' p /\
      (status_accepted s = true ->
       TowerBreach.touchable txs (gk_height t + 1) (reorged t) (TowerBreach.new_trk (app_uuid a) (a_loc a) p s) = false ->
       In a (db_apps t') /\ In (TowerBreach.new_trk (app_uuid a) (a_loc a) p s) (db_trks t')) /\
      (status_rejected s = true -> TowerBreach.dropped t' (app_uuid a)) /\
      (status_accepted s = false -> status_rejected s = false ->
       In a (db_apps t') /\ find_trk (db_trks t') (app_uuid a) = None)
  end.

Lemma find_trk_sub l l' u : (forall k, In k l' -> In k l) -> find_trk l u = None -> find_trk l' u = None.
Proof.
  intros Hsub Hn. apply TowerBreach.find_trk_None_iff. intros Hi. apply (find_trk_None _ _ Hn).
  apply in_map_iff in Hi. destruct Hi as [k [Hu Hk]]. apply in_map_iff. exists k. split; [exact Hu|apply Hsub; exact Hk].
Qed.

Theorem connect_answers_breaches le t hash txs sc :
  BigInv t -> envb t (OConnect hash txs) = true ->
  exists tg tw t',
    gk_block_connected (fresh t) (gk_height t + 1) = Ok tt tg /\
    w_block_connected sc tg (cache_block hash txs) (gk_height t + 1) = Ok tt tw /\
    r_block_connected le sc tw (index_block hash txs) (gk_height t + 1) = Ok tt t' /\
    step le t (OConnect hash txs) sc = (t', OBlockRes) /\
    forall a ui,
      In a (db_apps t) -> memN (a_loc a) txs = true -> find_trk (db_trks t) (app_uuid a) = None ->
      aget (db_users t) (a_user a) = Some ui -> gk_height t + 1 < u_expiry ui + c_delta (cfg t) ->
      In a (db_apps tg) /\ breach_outcome_w sc tg tw a /\ breach_outcome_step sc txs t t' a.
Proof.
  intros HB Henv. cbn [envb] in Henv. apply N.leb_le in Henv.
  destruct (connect_phases_ok le t hash txs sc HB Henv) as [tg [tw [t' [Eg [Ew [Er [Es [HIg [HIw _]]]]]]]]].
  exists tg, tw, t'. split; [exact Eg|]. split; [exact Ew|]. split; [exact Er|]. split; [exact Es|].
  intros a ui Ha Hl Hnt Hu Hlive. pose proof (bi_inv t HB) as HI.
  assert (HIf : Inv (fresh t)) by (eapply inv_frame; [|exact HI]; repeat split).
  destruct (purge_exact (fresh t) (gk_height t + 1) tg HIf Eg) as [Pu [Pa [Pk _]]].
  assert (Hag : In a (db_apps tg)).
  { apply Pa. split; [exact Ha|]. rewrite Pu. change (db_users (fresh t)) with (db_users t). rewrite Hu.
    change (cfg (fresh t)) with (cfg t).
    destruct (N.leb_spec (u_expiry ui + c_delta (cfg t)) (gk_height t + 1)) as [Hle|Hgt]; [lia|discriminate]. }
  split; [exact Hag|]. split.
  - assert (Hntg : find_trk (db_trks tg) (app_uuid a) = None).
    { apply (find_trk_sub (db_trks t)); [|exact Hnt]. intros k Hk. apply Pk in Hk. exact (proj1 Hk). }
    exact (TowerBreach.w_block_connected_breaches sc tg hash txs (gk_height t + 1) tw HIg Ew a Hag Hl Hntg).
  - assert (Hna : not_abort OBlockRes) by exact I.
    exact (TowerBreach.connect_step_breaches le t hash txs sc t' OBlockRes tg HI Es Hna Eg a Hag Hl Hnt).
Qed.

(* C01, run level: along EVERY history, EVERY block connection answers EVERY breached row it finds *)
Theorem breach_answered_run_from le t0 h pre hash txs sc post :
  BigInv t0 -> in_envelope le t0 h = true -> chain_disciplined le t0 h = true ->
  h = pre ++ (OConnect hash txs, sc) :: post ->
  let t := fst (run le t0 pre) in
  exists tg tw t',
    gk_block_connected (fresh t) (gk_height t + 1) = Ok tt tg /\
    w_block_connected sc tg (cache_block hash txs) (gk_height t + 1) = Ok tt tw /\
    r_block_connected le sc tw (index_block hash txs) (gk_height t + 1) = Ok tt t' /\
    step le t (OConnect hash txs) sc = (t', OBlockRes) /\
    fst (run le t0 (pre ++ [(OConnect hash txs, sc)])) = t' /\
    forall a ui,
      In a (db_apps t) -> memN (a_loc a) txs = true -> find_trk (db_trks t) (app_uuid a) = None ->
      aget (db_users t) (a_user a) = Some ui -> gk_height t + 1 < u_expiry ui + c_delta (cfg t) ->
      In a (db_apps tg) /\ breach_outcome_w sc tg tw a /\ breach_outcome_step sc txs t t' a.
Proof.
  intros HB He Hc -> t. destruct (reach_cut_from le t0 pre _ sc post HB He Hc) as [F1 F2 F3 F4 F5 F6 F7 F8 F9].
  fold t in F2, F3, F6.
  destruct (connect_answers_breaches le t hash txs sc F2 F3) as [tg [tw [t' [Eg [Ew [Er [Es Hall]]]]]]].
  exists tg, tw, t'. repeat (split; [assumption|]). split; [|exact Hall]. rewrite F6, Es. reflexivity.
Qed.

Theorem breach_answered_run le c h0 blocks t0 h pre hash txs sc post :
  init c h0 blocks = Some t0 -> NoDup (map fst blocks) -> N.of_nat (length blocks) <= h0 ->
  in_envelope le t0 h = true -> chain_disciplined le t0 h = true ->
  h = pre ++ (OConnect hash txs, sc) :: post ->
  let t := fst (run le t0 pre) in
  exists tg tw t',
    gk_block_connected (fresh t) (gk_height t + 1) = Ok tt tg /\
    w_block_connected sc tg (cache_block hash txs) (gk_height t + 1) = Ok tt tw /\
    r_block_connected le sc tw (index_block hash txs) (gk_height t + 1) = Ok tt t' /\
    step le t (OConnect hash txs) sc = (t', OBlockRes) /\
    fst (run le t0 (pre ++ [(OConnect hash txs, sc)])) = t' /\
    forall a ui,
      In a (db_apps t) -> memN (a_loc a) txs = true -> find_trk (db_trks t) (app_uuid a) = None ->
      aget (db_users t) (a_user a) = Some ui -> gk_height t + 1 < u_expiry ui + c_delta (cfg t) ->
      In a (db_apps tg) /\ breach_outcome_w sc tg tw a /\ breach_outcome_step sc txs t t' a.
Proof.
  intros Hi Hnd Hlen. exact (breach_answered_run_from le t0 h pre hash txs sc post (big_init c h0 blocks t0 Hi Hnd Hlen)).
Qed.

(* 1.2 the late path: an appointment whose locator is in the watcher's cache when it arrives *)
Definition late_outcome (sc : script) (t t' : tower) (signer : option N) (loc : N) (b : blob) (delay sig d : N)
           (r : add_result) : Prop :=
  match r with
  | AddOk st sg sl e =>
      exists u, signer = Some u /\ st = w_height t /\ sg = sig /\
        let a := mk_app loc u b delay sig (w_height t) in
        find_trk (db_trks t) (loc, u) = None /\
        TowerBreach.others_kept t t' (loc, u) /\
        match decrypt b d with
        | None => TowerBreach.dropped t' (loc, u) /\ rpc_log t' = []
        | Some p =>
            let s := TowerBreach.breach_status sc t p in
            rpc_log t' = TowerBreach.breach_events sc t p /\
            TowerBreach.penalty_handled sc t t' p /\
            (status_accepted s = true -> find_app (db_apps t') (loc, u) = Some a /\ TowerBreach.responded t' (loc, u) d p s) /\
            (status_rejected s = true -> TowerBreach.dropped t' (loc, u)) /\
            (status_accepted s = false -> status_rejected s = false ->
             find_app (db_apps t') (loc, u) = Some a /\ find_trk (db_trks t') (loc, u) = None)
        end
  | _ => t' = fresh t
  end.

Theorem add_answers_late_breach le t signer loc b delay sig sc d :
  BigInv t -> ti_get (w_cache t) loc = Some d ->
  exists r t', step le t (OAdd signer loc b delay sig) sc = (t', OAddRes r) /\
               late_outcome sc t t' signer loc b delay sig d r.
Proof.
  intros HB Hd.
  pose proof (step_never_aborts le t (OAdd signer loc b delay sig) sc HB eq_refl) as Hna.
  revert Hna. cbn [step]. change (set_rpc_log t []) with (fresh t).
  destruct (w_add_appointment sc (fresh t) signer loc b delay sig) as [r t'|s t'] eqn:Ea; cbn [wrap snd]; [|intros []].
  intros _. exists r, t'. split; [reflexivity|].
  pose proof (TowerBreach.add_appointment_triggered sc (fresh t) signer loc b delay sig d r t' Hd Ea) as H.
  unfold late_outcome. destruct r as [st sg sl e| | |]; try exact H.
  destruct H as [u [H1 [H2 [H3 [H4 [H5 H6]]]]]]. exists u. repeat (split; [assumption|]).
  destruct (decrypt b d) as [p|].
  - destruct H6 as [H6 H7]. split; [|exact H7]. rewrite H6. cbn [rpc_log fresh set_rpc_log]. apply app_nil_r.
  - exact H6.
Qed.

Theorem late_breach_answered_run_from le t0 h pre signer loc b delay sig sc post d :
  BigInv t0 -> in_envelope le t0 h = true -> chain_disciplined le t0 h = true ->
  h = pre ++ (OAdd signer loc b delay sig, sc) :: post ->
  let t := fst (run le t0 pre) in
  ti_get (w_cache t) loc = Some d ->
  exists r t', step le t (OAdd signer loc b delay sig) sc = (t', OAddRes r) /\
               fst (run le t0 (pre ++ [(OAdd signer loc b delay sig, sc)])) = t' /\
               late_outcome sc t t' signer loc b delay sig d r.
Proof.
  intros HB He Hc -> t Hd. destruct (reach_cut_from le t0 pre _ sc post HB He Hc) as [F1 F2 F3 F4 F5 F6 F7 F8 F9].
  fold t in F2, F6.
  destruct (add_answers_late_breach le t signer loc b delay sig sc d F2 Hd) as [r [t' [Es Ho]]].
  exists r, t'. split; [exact Es|]. split; [rewrite F6, Es; reflexivity|exact Ho].
Qed.

Theorem late_breach_answered_run le c h0 blocks t0 h pre signer loc b delay sig sc post d :
  init c h0 blocks = Some t0 -> NoDup (map fst blocks) -> N.of_nat (length blocks) <= h0 ->
  in_envelope le t0 h = true -> chain_disciplined le t0 h = true ->
  h = pre ++ (OAdd signer loc b delay sig, sc) :: post ->
  let t := fst (run le t0 pre) in
  ti_get (w_cache t) loc = Some d ->
  exists r t', step le t (OAdd signer loc b delay sig) sc = (t', OAddRes r) /\
               fst (run le t0 (pre ++ [(OAdd signer loc b delay sig, sc)])) = t' /\
               late_outcome sc t t' signer loc b delay sig d r.
Proof.
  intros Hi Hnd Hlen.
  exact (late_breach_answered_run_from le t0 h pre signer loc b delay sig sc post d (big_init c h0 blocks t0 Hi Hnd Hlen)).
Qed.
