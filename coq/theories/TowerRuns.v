(* TowerRuns.v — the RUN-LEVEL statements of C01 / C02 / C08 / C09: what the per-step theorems of
   TowerBreach.v / TowerSubs.v / TowerReorg.v say "at every moment", "from then on", "until", "for all
   histories".  Every theorem here is universally quantified over histories and proved by induction over
   the run (through `run_app` / `env_app`, which cut a history at an arbitrary point and give the big
   invariant of TowerLive.v in the state reached there).

   How a moment of a run is named: the history is cut as  h = pre ++ (o, sc) :: post ; the state the
   step starts from is  fst (run le t0 pre) , the step is  step le (fst (run le t0 pre)) o sc , and the
   state after it is  fst (run le t0 (pre ++ [(o, sc)])) .  "For every prefix and every step in it" is
   "for every such cut".

   Hypotheses of every run-level theorem: a bootstrapped tower (the three hypotheses of
   TowerLive.big_init) and a history inside the envelope and the chain discipline of TowerLive.v (so that
   no step aborts: C11).  The `_from` variants start from any state satisfying BigInv instead.

   Contents
     0. cutting runs                         run_app, env_app, reach_cut
     1. C01   breach_answered_run            every OConnect step of a run answers every breached row
              late_breach_answered_run       every OAdd step whose locator is in the cache
              tracker_fate                   ONE STEP: a tracker survives with its dispute and penalty,
                                             unless the step is one of exactly five kinds (trk_deletion)
              responded_forever_run          until such a step: present, and reported to its owner
     (C08, C09, C02: TowerRuns2.v)
   Nothing is left as a hypothesis. *)
From TeosModel Require Import Base ListAux TxIndex TxIndexProofs Tower TowerStable TowerInv TowerProofs TowerSubs TowerReorg.
From TeosModel Require Import TowerLive.
From TeosModel Require TowerBreach TowerLedger.
From TeosModel.Gen Require Consts.
From Coq Require Import Lia.
Local Open Scope N_scope.

(* ------------------------------------------------------------------------------------------ *)
(* 0. cutting runs *)

Lemma run_cons_ok le t o sc r :
  not_abort (snd (step le t o sc)) ->
  run le t ((o, sc) :: r) =
    (fst (run le (fst (step le t o sc)) r), snd (step le t o sc) :: snd (run le (fst (step le t o sc)) r)).
Proof.
  intros Hn. cbn [run]. destruct (step le t o sc) as [t1 x]. cbn [fst snd] in *.
  destruct (run le t1 r) as [t2 xs]. destruct x; try reflexivity. contradiction.
Qed.

Lemma run_app le : forall h1 h2 t,
  Forall not_abort (snd (run le t h1)) ->
  run le t (h1 ++ h2) =
    (fst (run le (fst (run le t h1)) h2), snd (run le t h1) ++ snd (run le (fst (run le t h1)) h2)).
Proof.
  induction h1 as [|[o sc] h1 IH]; intros h2 t Hall.
  - cbn [List.app run fst snd]. destruct (run le t h2); reflexivity.
  - assert (Hn : not_abort (snd (step le t o sc))).
    { revert Hall. cbn [run]. destruct (step le t o sc) as [t1 x]. destruct (run le t1 h1) as [t2 xs].
      destruct x; cbn [snd]; intros Hall; inversion Hall; assumption. }
    rewrite (run_cons_ok le t o sc h1 Hn) in *. cbn [fst snd] in *.
    change (((o, sc) :: h1) ++ h2) with ((o, sc) :: (h1 ++ h2)). rewrite (run_cons_ok le t o sc (h1 ++ h2) Hn).
    inversion Hall as [|x0 l0 Hx Hrest]; subst. rewrite (IH h2 _ Hrest). reflexivity.
Qed.

Lemma run_single le t o sc : fst (run le t [(o, sc)]) = fst (step le t o sc).
Proof. cbn [run]. destruct (step le t o sc) as [t1 x]. destruct x; reflexivity. Qed.

(* the state reached after  pre ++ [step]  is the state the step leaves *)
Lemma run_snoc_state le t pre o sc :
  Forall not_abort (snd (run le t pre)) ->
  fst (run le t (pre ++ [(o, sc)])) = fst (step le (fst (run le t pre)) o sc).
Proof. intros Hall. rewrite (run_app le pre [(o, sc)] t Hall). cbn [fst]. apply run_single. Qed.

(* a history inside the envelope and the chain discipline can be cut anywhere: both halves are inside,
   the second one from the state the first one reaches *)
Lemma env_app le : forall h1 h2 t,
  BigInv t -> in_envelope le t (h1 ++ h2) = true -> chain_disciplined le t (h1 ++ h2) = true ->
  in_envelope le t h1 = true /\ chain_disciplined le t h1 = true /\
  in_envelope le (fst (run le t h1)) h2 = true /\ chain_disciplined le (fst (run le t h1)) h2 = true.
Proof.
  induction h1 as [|[o sc] h1 IH]; intros h2 t HB He Hc.
  - cbn [List.app run fst in_envelope chain_disciplined] in *. auto.
  - change (((o, sc) :: h1) ++ h2) with ((o, sc) :: (h1 ++ h2)) in He, Hc.
    cbn [in_envelope chain_disciplined] in *. apply andb_true_iff in He, Hc.
    destruct He as [He1 He2]. destruct Hc as [Hc1 Hc2].
    pose proof (step_never_aborts le t o sc HB He1) as Hna. pose proof (step_big le t o sc HB He1 Hc1) as HB1.
    rewrite (run_cons_ok le t o sc h1 Hna). cbn [fst].
    destruct (IH h2 _ HB1 He2 Hc2) as [A [B [C D]]]. rewrite He1, Hc1, A, B. auto.
Qed.

(* THE CUT.  From a state satisfying the big invariant, for a history inside the envelope and the chain
   discipline, at every cut  h = pre ++ (o, sc) :: post : the prefix did not abort, the state it reaches
   satisfies the big invariant, the operation is inside the envelope there, the step does not abort, and
   the rest of the history is inside the envelope from the state the step leaves. *)
Record cut_facts (le : bool) (t0 : tower) (pre : list (op * script)) (o : op) (sc : script)
       (post : list (op * script)) : Prop := {
  cf_pre_ok : Forall not_abort (snd (run le t0 pre));
  cf_big : BigInv (fst (run le t0 pre));
  cf_env : envb (fst (run le t0 pre)) o = true;
  cf_chain : chainb (fst (run le t0 pre)) o = true;
  cf_ok : not_abort (snd (step le (fst (run le t0 pre)) o sc));
  cf_next : fst (run le t0 (pre ++ [(o, sc)])) = fst (step le (fst (run le t0 pre)) o sc);
  cf_big_next : BigInv (fst (step le (fst (run le t0 pre)) o sc));
  cf_env_post : in_envelope le (fst (step le (fst (run le t0 pre)) o sc)) post = true;
  cf_chain_post : chain_disciplined le (fst (step le (fst (run le t0 pre)) o sc)) post = true
}.

Theorem reach_cut_from le t0 pre o sc post :
  BigInv t0 -> in_envelope le t0 (pre ++ (o, sc) :: post) = true ->
  chain_disciplined le t0 (pre ++ (o, sc) :: post) = true ->
  cut_facts le t0 pre o sc post.
Proof.
  intros HB He Hc. destruct (env_app le pre ((o, sc) :: post) t0 HB He Hc) as [A [B [C D]]].
  destruct (no_abort_from le pre t0 HB A B) as [Hall [HB1 _]].
  cbn [in_envelope chain_disciplined] in C, D. apply andb_true_iff in C, D.
  destruct C as [C1 C2]. destruct D as [D1 D2].
  constructor; try assumption.
  - exact (step_never_aborts le _ o sc HB1 C1).
  - exact (run_snoc_state le t0 pre o sc Hall).
  - exact (step_big le _ o sc HB1 C1 D1).
Qed.

Theorem reach_cut le c h0 blocks t0 h pre o sc post :
  init c h0 blocks = Some t0 -> NoDup (map fst blocks) -> N.of_nat (length blocks) <= h0 ->
  in_envelope le t0 h = true -> chain_disciplined le t0 h = true ->
  h = pre ++ (o, sc) :: post ->
  cut_facts le t0 pre o sc post.
Proof.
  intros Hi Hnd Hlen He Hc ->. exact (reach_cut_from le t0 pre o sc post (big_init c h0 blocks t0 Hi Hnd Hlen) He Hc).
Qed.

(* the state at every cut (no operation singled out) *)
Theorem reach_prefix_from le t0 pre post :
  BigInv t0 -> in_envelope le t0 (pre ++ post) = true -> chain_disciplined le t0 (pre ++ post) = true ->
  Forall not_abort (snd (run le t0 pre)) /\ BigInv (fst (run le t0 pre)) /\
  in_envelope le (fst (run le t0 pre)) post = true /\ chain_disciplined le (fst (run le t0 pre)) post = true.
Proof.
  intros HB He Hc. destruct (env_app le pre post t0 HB He Hc) as [A [B [C D]]].
  destruct (no_abort_from le pre t0 HB A B) as [Hall [HB1 _]]. auto.
Qed.

Lemma step_eq le t o sc : step le t o sc = (fst (step le t o sc), snd (step le t o sc)).
Proof. destruct (step le t o sc); reflexivity. Qed.

(* ------------------------------------------------------------------------------------------ *)
(* 1. C01 at run level *)

(* 1.1 what ONE OConnect step does to every breached row, with the three listeners made explicit *)
Definition breach_outcome_w (sc : script) (tg tw : tower) (a : app) : Prop :=
  match decrypt (a_blob a) (a_loc a) with
  | None => TowerBreach.dropped tw (app_uuid a)
  | Some p =>
      let s := TowerBreach.breach_status sc tg p in
      TowerBreach.penalty_handled sc tg tw p /\
      (status_accepted s = true -> In a (db_apps tw) /\ TowerBreach.responded tw (app_uuid a) (a_loc a) p s) /\
      (status_rejected s = true -> TowerBreach.dropped tw (app_uuid a)) /\
      (status_accepted s = false -> status_rejected s = false ->
       In a (db_apps tw) /\ find_trk (db_trks tw) (app_uuid a) = None)
  end.

Definition breach_outcome_step (sc : script) (txs : list N) (t t' : tower) (a : app) : Prop :=
  match decrypt (a_blob a) (a_loc a) with
  | None => TowerBreach.dropped t' (app_uuid a)
  | Some p =>
      let s := TowerBreach.breach_status sc t p in
      TowerBreach.penalty_handled sc t t' p /\
      (status_accepted s = true ->
       TowerBreach.touchable txs (gk_height t + 1) (reorged t) (TowerBreach.new_trk (app_uuid a) (a_loc a) p s) = false ->
       In a (db_apps t') /\ In (TowerBreach.new_trk (app_uuid a) (a_loc a) p s) (db_trks t')) /\
      (status_rejected s = true -> TowerBreach.dropped t' (app_uuid a)) /\
      (status_accepted s = false -> status_rejected s = false ->
       In a (db_apps t') /\ find_trk (db_trks t') (app_uuid a) = None)
  end.

Lemma find_trk_sub l l' u : (forall k, In k l' -> In k l) -> find_trk l u = None -> find_trk l' u = None.
Proof.
  intros Hsub Hn. apply TowerBreach.find_trk_None_iff. intros Hi. apply (find_trk_None _ _ Hn).
  apply in_map_iff in Hi. destruct Hi as [k [Hu Hk]]. apply in_map_iff. exists k. split; [exact Hu|apply Hsub; exact Hk].
Qed.

Theorem connect_answers_breaches le t hash txs sc :
  BigInv t -> envb t (OConnect hash txs) = true ->
  exists tg tw t',
    gk_block_connected (fresh t) (gk_height t + 1) = Ok tt tg /\
    w_block_connected sc tg (cache_block hash txs) (gk_height t + 1) = Ok tt tw /\
    r_block_connected le sc tw (index_block hash txs) (gk_height t + 1) = Ok tt t' /\
    step le t (OConnect hash txs) sc = (t', OBlockRes) /\
    forall a ui,
      In a (db_apps t) -> memN (a_loc a) txs = true -> find_trk (db_trks t) (app_uuid a) = None ->
      aget (db_users t) (a_user a) = Some ui -> gk_height t + 1 < u_expiry ui + c_delta (cfg t) ->
      In a (db_apps tg) /\ breach_outcome_w sc tg tw a /\ breach_outcome_step sc txs t t' a.
Proof.
  intros HB Henv. cbn [envb] in Henv. apply N.leb_le in Henv.
  destruct (connect_phases_ok le t hash txs sc HB Henv) as [tg [tw [t' [Eg [Ew [Er [Es [HIg [HIw _]]]]]]]]].
  exists tg, tw, t'. split; [exact Eg|]. split; [exact Ew|]. split; [exact Er|]. split; [exact Es|].
  intros a ui Ha Hl Hnt Hu Hlive. pose proof (bi_inv t HB) as HI.
  assert (HIf : Inv (fresh t)) by (eapply inv_frame; [|exact HI]; repeat split).
  destruct (purge_exact (fresh t) (gk_height t + 1) tg HIf Eg) as [Pu [Pa [Pk _]]].
  assert (Hag : In a (db_apps tg)).
  { apply Pa. split; [exact Ha|]. rewrite Pu. change (db_users (fresh t)) with (db_users t). rewrite Hu.
    change (cfg (fresh t)) with (cfg t).
    destruct (N.leb_spec (u_expiry ui + c_delta (cfg t)) (gk_height t + 1)) as [Hle|Hgt]; [lia|discriminate]. }
  split; [exact Hag|]. split.
  - assert (Hntg : find_trk (db_trks tg) (app_uuid a) = None).
    { apply (find_trk_sub (db_trks t)); [|exact Hnt]. intros k Hk. apply Pk in Hk. exact (proj1 Hk). }
    exact (TowerBreach.w_block_connected_breaches sc tg hash txs (gk_height t + 1) tw HIg Ew a Hag Hl Hntg).
  - assert (Hna : not_abort OBlockRes) by exact I.
    exact (TowerBreach.connect_step_breaches le t hash txs sc t' OBlockRes tg HI Es Hna Eg a Hag Hl Hnt).
Qed.

(* C01, run level: along EVERY history, EVERY block connection answers EVERY breached row it finds *)
Theorem breach_answered_run_from le t0 h pre hash txs sc post :
  BigInv t0 -> in_envelope le t0 h = true -> chain_disciplined le t0 h = true ->
  h = pre ++ (OConnect hash txs, sc) :: post ->
  let t := fst (run le t0 pre) in
  exists tg tw t',
    gk_block_connected (fresh t) (gk_height t + 1) = Ok tt tg /\
    w_block_connected sc tg (cache_block hash txs) (gk_height t + 1) = Ok tt tw /\
    r_block_connected le sc tw (index_block hash txs) (gk_height t + 1) = Ok tt t' /\
    step le t (OConnect hash txs) sc = (t', OBlockRes) /\
    fst (run le t0 (pre ++ [(OConnect hash txs, sc)])) = t' /\
    forall a ui,
      In a (db_apps t) -> memN (a_loc a) txs = true -> find_trk (db_trks t) (app_uuid a) = None ->
      aget (db_users t) (a_user a) = Some ui -> gk_height t + 1 < u_expiry ui + c_delta (cfg t) ->
      In a (db_apps tg) /\ breach_outcome_w sc tg tw a /\ breach_outcome_step sc txs t t' a.
Proof.
  intros HB He Hc -> t. destruct (reach_cut_from le t0 pre _ sc post HB He Hc) as [F1 F2 F3 F4 F5 F6 F7 F8 F9].
  fold t in F2, F3, F6.
  destruct (connect_answers_breaches le t hash txs sc F2 F3) as [tg [tw [t' [Eg [Ew [Er [Es Hall]]]]]]].
  exists tg, tw, t'. repeat (split; [assumption|]). split; [|exact Hall]. rewrite F6, Es. reflexivity.
Qed.

Theorem breach_answered_run le c h0 blocks t0 h pre hash txs sc post :
  init c h0 blocks = Some t0 -> NoDup (map fst blocks) -> N.of_nat (length blocks) <= h0 ->
  in_envelope le t0 h = true -> chain_disciplined le t0 h = true ->
  h = pre ++ (OConnect hash txs, sc) :: post ->
  let t := fst (run le t0 pre) in
  exists tg tw t',
    gk_block_connected (fresh t) (gk_height t + 1) = Ok tt tg /\
    w_block_connected sc tg (cache_block hash txs) (gk_height t + 1) = Ok tt tw /\
    r_block_connected le sc tw (index_block hash txs) (gk_height t + 1) = Ok tt t' /\
    step le t (OConnect hash txs) sc = (t', OBlockRes) /\
    fst (run le t0 (pre ++ [(OConnect hash txs, sc)])) = t' /\
    forall a ui,
      In a (db_apps t) -> memN (a_loc a) txs = true -> find_trk (db_trks t) (app_uuid a) = None ->
      aget (db_users t) (a_user a) = Some ui -> gk_height t + 1 < u_expiry ui + c_delta (cfg t) ->
      In a (db_apps tg) /\ breach_outcome_w sc tg tw a /\ breach_outcome_step sc txs t t' a.
Proof.
  intros Hi Hnd Hlen. exact (breach_answered_run_from le t0 h pre hash txs sc post (big_init c h0 blocks t0 Hi Hnd Hlen)).
Qed.

(* 1.2 the late path: an appointment whose locator is in the watcher's cache when it arrives *)
Definition late_outcome (sc : script) (t t' : tower) (signer : option N) (loc : N) (b : blob) (delay sig d : N)
           (r : add_result) : Prop :=
  match r with
  | AddOk st sg sl e =>
      exists u, signer = Some u /\ st = w_height t /\ sg = sig /\
        let a := mk_app loc u b delay sig (w_height t) in
        find_trk (db_trks t) (loc, u) = None /\
        TowerBreach.others_kept t t' (loc, u) /\
        match decrypt b d with
        | None => TowerBreach.dropped t' (loc, u) /\ rpc_log t' = []
        | Some p =>
            let s := TowerBreach.breach_status sc t p in
            rpc_log t' = TowerBreach.breach_events sc t p /\
            TowerBreach.penalty_handled sc t t' p /\
            (status_accepted s = true -> find_app (db_apps t') (loc, u) = Some a /\ TowerBreach.responded t' (loc, u) d p s) /\
            (status_rejected s = true -> TowerBreach.dropped t' (loc, u)) /\
            (status_accepted s = false -> status_rejected s = false ->
             find_app (db_apps t') (loc, u) = Some a /\ find_trk (db_trks t') (loc, u) = None)
        end
  | _ => t' = fresh t
  end.

Theorem add_answers_late_breach le t signer loc b delay sig sc d :
  BigInv t -> ti_get (w_cache t) loc = Some d ->
  exists r t', step le t (OAdd signer loc b delay sig) sc = (t', OAddRes r) /\
               late_outcome sc t t' signer loc b delay sig d r.
Proof.
  intros HB Hd.
  pose proof (step_never_aborts le t (OAdd signer loc b delay sig) sc HB eq_refl) as Hna.
  revert Hna. cbn [step]. change (set_rpc_log t []) with (fresh t).
  destruct (w_add_appointment sc (fresh t) signer loc b delay sig) as [r t'|s t'] eqn:Ea; cbn [wrap snd]; [|intros []].
  intros _. exists r, t'. split; [reflexivity|].
  pose proof (TowerBreach.add_appointment_triggered sc (fresh t) signer loc b delay sig d r t' (inv_user_rows (fresh t) (TowerBreach.inv_fresh t (bi_inv t HB))) Hd Ea) as H.
  unfold late_outcome. destruct r as [st sg sl e| | |]; try exact H.
  destruct H as [u [H1 [H2 [H3 [H4 [H5 H6]]]]]]. exists u. repeat (split; [assumption|]).
  destruct (decrypt b d) as [p|].
  - destruct H6 as [H6 H7]. split; [|exact H7]. rewrite H6. cbn [rpc_log fresh set_rpc_log]. apply app_nil_r.
  - exact H6.
Qed.

Theorem late_breach_answered_run_from le t0 h pre signer loc b delay sig sc post d :
  BigInv t0 -> in_envelope le t0 h = true -> chain_disciplined le t0 h = true ->
  h = pre ++ (OAdd signer loc b delay sig, sc) :: post ->
  let t := fst (run le t0 pre) in
  ti_get (w_cache t) loc = Some d ->
  exists r t', step le t (OAdd signer loc b delay sig) sc = (t', OAddRes r) /\
               fst (run le t0 (pre ++ [(OAdd signer loc b delay sig, sc)])) = t' /\
               late_outcome sc t t' signer loc b delay sig d r.
Proof.
  intros HB He Hc -> t Hd. destruct (reach_cut_from le t0 pre _ sc post HB He Hc) as [F1 F2 F3 F4 F5 F6 F7 F8 F9].
  fold t in F2, F6.
  destruct (add_answers_late_breach le t signer loc b delay sig sc d F2 Hd) as [r [t' [Es Ho]]].
  exists r, t'. split; [exact Es|]. split; [rewrite F6, Es; reflexivity|exact Ho].
Qed.

Theorem late_breach_answered_run le c h0 blocks t0 h pre signer loc b delay sig sc post d :
  init c h0 blocks = Some t0 -> NoDup (map fst blocks) -> N.of_nat (length blocks) <= h0 ->
  in_envelope le t0 h = true -> chain_disciplined le t0 h = true ->
  h = pre ++ (OAdd signer loc b delay sig, sc) :: post ->
  let t := fst (run le t0 pre) in
  ti_get (w_cache t) loc = Some d ->
  exists r t', step le t (OAdd signer loc b delay sig) sc = (t', OAddRes r) /\
               fst (run le t0 (pre ++ [(OAdd signer loc b delay sig, sc)])) = t' /\
               late_outcome sc t t' signer loc b delay sig d r.
Proof.
  intros Hi Hnd Hlen.
  exact (late_breach_answered_run_from le t0 h pre signer loc b delay sig sc post d (big_init c h0 blocks t0 Hi Hnd Hlen)).
Qed.

(* ------------------------------------------------------------------------------------------ *)
(* 1.3 the life of a tracker: the ONLY ways a step ends it.

   A step ends the tracker of `uuid` only if it is a block connection, and then for exactly one of five
   reasons, computed by `trk_end_of` from the state before the step, the block and the node's answers:
     E_purged              the owner's subscription reaches expiry + grace at this height: the gatekeeper
                           deletes the user, and by the cascade the appointment and the tracker (C09);
     E_dropped_by_watcher  the dispute is mined AGAIN (its locator is in this block: possible only after a
                           reorg) and the watcher, handling the breach again, drops the appointment: the
                           stored blob does not decrypt or the penalty is now rejected (survives_block = false);
     E_reorg_rejected      the block that confirmed the penalty was disconnected, and on re-submission the
                           node rejects the dispute or the penalty (C04_reorg_reannounce);
     E_completed           the penalty has IRREVOCABLY_RESOLVED (100) confirmations: deleted WITH refund
                           (C04_completes_iff_100);
     E_stale_rejected      unconfirmed for CONFIRMATIONS_BEFORE_RETRY blocks, re-broadcast, rejected
                           (C04_rebroadcast_cadence).
   In every other step, and in a block connection where none applies, the tracker stays with the same
   dispute and penalty (tracker_fate: both directions). *)

Inductive trk_end := E_purged | E_dropped_by_watcher | E_reorg_rejected | E_completed | E_stale_rejected.

(* the responder's part: fate = None, with the reason *)
Definition responder_end (txs : list N) (h : N) (rg : list (N * N)) (e : N -> cstatus) (k : trk) : option trk_end :=
  if memN (t_penalty k) txs then None
  else if mem_uuid (trk_uuid k) rg then (if trk_rejected e k then Some E_reorg_rejected else None)
  else if t_conf k then (if N.eqb (h - t_height k) IRR then Some E_completed else None)
  else if N.leb (t_height k) (h - RETRY) then (if status_rejected (e (t_penalty k)) then Some E_stale_rejected else None)
  else None.

Definition trk_end_of (t : tower) (o : op) (sc : script) (uuid : N * N) : option trk_end :=
  match o, find_trk (db_trks t) uuid with
  | OConnect hash txs, Some k =>
      let h := gk_height t + 1 in
      match aget (db_users t) (snd uuid) with
      | None => None
      | Some ui =>
          if N.leb (u_expiry ui + c_delta (cfg t)) h then Some E_purged
          else match gk_block_connected (fresh t) h with
               | Abort _ _ => None
               | Ok _ tg =>
                   match find_app (db_apps tg) uuid with
                   | None => None
                   | Some a =>
                       if TowerBreach.survives_block sc tg txs a then
                         match w_block_connected sc tg (cache_block hash txs) h with
                         | Abort _ _ => None
                         | Ok _ tw => responder_end txs h (reorged t) (blk_eff sc tw h) k
                         end
                       else Some E_dropped_by_watcher
                   end
               end
      end
  | _, _ => None
  end.

Lemma fate_responder_end txs h rg e k :
  match responder_end txs h rg e k with
  | Some _ => fate txs h (h - RETRY) rg e k = None
  | None => exists k', fate txs h (h - RETRY) rg e k = Some k' /\
                       t_dispute k' = t_dispute k /\ t_penalty k' = t_penalty k
  end.
Proof.
  unfold responder_end, fate.
  destruct (memN (t_penalty k) txs); [eexists; split; [reflexivity|split; reflexivity]|].
  destruct (mem_uuid (trk_uuid k) rg).
  { destruct (trk_rejected e k); [reflexivity|eexists; split; [reflexivity|split; reflexivity]]. }
  destruct (t_conf k).
  { destruct (N.eqb (h - t_height k) IRR); [reflexivity|eexists; split; [reflexivity|split; reflexivity]]. }
  destruct (N.leb (t_height k) (h - RETRY)); [|eexists; split; [reflexivity|split; reflexivity]].
  destruct (status_rejected (e (t_penalty k))) eqn:Er; [reflexivity|].
  eexists. split; [reflexivity|]. unfold stale_upd. destruct (e (t_penalty k)); split; reflexivity.
Qed.

Lemma keep_trk t' uuid k :
  Inv t' -> In k (db_trks t') -> trk_uuid k = uuid ->
  exists k', find_trk (db_trks t') uuid = Some k' /\ t_dispute k' = t_dispute k /\ t_penalty k' = t_penalty k.
Proof.
  intros HI Hk Hu. exists k. split; [|split; reflexivity].
  rewrite <- Hu. exact (TowerBreach.find_trk_NoDup _ k (inv_trks_nodup t' HI) Hk).
Qed.

Lemma no_app_no_trk t u : Inv t -> find_app (db_apps t) u = None -> find_trk (db_trks t) u = None.
Proof.
  intros HI Hn. apply TowerBreach.find_trk_None_iff. intros Hi. apply in_map_iff in Hi. destruct Hi as [k [Hu Hk]].
  destruct (inv_fk_trk t HI k Hk) as [a [Ha Hau]]. apply (find_app_None _ _ Hn). rewrite <- Hu, <- Hau. apply in_map. exact Ha.
Qed.

Lemma find_app_filter_out (f : app -> bool) l u a :
  NoDup (map app_uuid l) -> find_app l u = Some a -> f a = false -> find_app (filter f l) u = None.
Proof.
  intros Hnd Hf Hfa. apply TowerBreach.find_app_None_iff. intros Hi. apply in_map_iff in Hi. destruct Hi as [a' [Hu Ha']].
  apply filter_In in Ha'. destruct Ha' as [Ha' Hfa']. destruct (find_app_Some _ _ _ Hf) as [Ha Hua].
  assert (a' = a) by (apply (TowerBreach.app_uuid_inj l a' a Hnd Ha' Ha); congruence). subst a'. congruence.
Qed.

Lemma find_app_filter_none (f : app -> bool) l u : find_app l u = None -> find_app (filter f l) u = None.
Proof.
  intros Hn. apply TowerBreach.find_app_None_iff. intros Hi. apply (find_app_None _ _ Hn).
  apply in_map_iff in Hi. destruct Hi as [a [Hu Ha]]. apply filter_In in Ha. apply in_map_iff. exists a. tauto.
Qed.

(* ONE STEP, both directions: the tracker is gone afterwards iff trk_end_of names a reason; otherwise it is
   there with the same dispute and penalty *)
Theorem tracker_fate le t o sc t' x uuid k :
  Inv t -> step le t o sc = (t', x) -> not_abort x -> find_trk (db_trks t) uuid = Some k ->
  match trk_end_of t o sc uuid with
  | Some _ => find_trk (db_trks t') uuid = None
  | None => exists k', find_trk (db_trks t') uuid = Some k' /\ t_dispute k' = t_dispute k /\ t_penalty k' = t_penalty k
  end.
Proof.
  intros HI Hstep Hna Hf. destruct (find_trk_Some _ _ _ Hf) as [Hk Hu].
  assert (HI' : Inv t').
  { pose proof (step_pres Inv inv_stable le t o sc HI) as Hp. rewrite Hstep in Hp. cbn [fst snd] in Hp. exact (Hp Hna). }
  destruct o as [u|signer loc b delay sig|signer loc|signer|hash txs|]; cbn [trk_end_of].
  - apply (keep_trk t' uuid k HI'); [|exact Hu]. cbn [step] in Hstep.
    pose proof (TowerBreach.add_update_user_trks (set_rpc_log t []) u) as Hl.
    destruct (gk_add_update_user (set_rpc_log t []) u); cbn [wrap] in Hstep; injection Hstep as <- <-;
      destruct Hl as [Hl _]; rewrite Hl; exact Hk.
  - apply (keep_trk t' uuid k HI'); [|exact Hu]. cbn [step] in Hstep. change (set_rpc_log t []) with (fresh t) in Hstep.
    destruct (w_add_appointment sc (fresh t) signer loc b delay sig) as [r t1|] eqn:Ew; cbn [wrap] in Hstep;
      injection Hstep as <- <-; [|destruct Hna].
    destruct (TowerBreach.add_appointment_keeps_trks sc (fresh t) signer loc b delay sig r t1 Ew) as [_ Hkeep].
    apply Hkeep. exact Hk.
  - apply (keep_trk t' uuid k HI'); [|exact Hu].
    destruct (get_unchanged le t sc signer loc) as [r Hr]. rewrite Hr in Hstep. injection Hstep as <- <-. exact Hk.
  - apply (keep_trk t' uuid k HI'); [|exact Hu].
    destruct (getsub_unchanged le t sc signer) as [r Hr]. rewrite Hr in Hstep. injection Hstep as <- <-. exact Hk.
  - rewrite Hf.
    destruct (TowerBreach.connect_ok le t hash txs sc t' x Hstep Hna) as [tg [tw [Eg [Ew Er]]]].
    set (h := gk_height t + 1) in *.
    assert (HIf : Inv (fresh t)) by (apply TowerBreach.inv_fresh; exact HI).
    assert (HIg : Inv tg).
    { pose proof (gk_block_connected_pres Inv (sa_block Inv inv_stable) (fresh t) h HIf) as Hp. rewrite Eg in Hp. exact Hp. }
    assert (HIw : Inv tw).
    { pose proof (w_block_connected_pres Inv (sb_wr _ (sa_block Inv inv_stable)) sc tg (cache_block hash txs) h HIg) as Hp.
      rewrite Ew in Hp. exact Hp. }
    (* the owner's row *)
    destruct (inv_fk_trk t HI k Hk) as [a0 [Ha0 Hau]]. pose proof (inv_fk_app t HI a0 Ha0) as Hfk.
    assert (Huser : a_user a0 = snd uuid) by (rewrite <- Hu; unfold app_uuid, trk_uuid in Hau; injection Hau as _ ->; reflexivity).
    unfold amem in Hfk. destruct (aget (db_users t) (a_user a0)) as [ui|] eqn:Eui; [|discriminate]. rewrite Huser in Eui.
    rewrite Eui.
    destruct (purge_exact (fresh t) h tg HIf Eg) as [Pu [Pa [Pk _]]].
    change (db_users (fresh t)) with (db_users t) in Pu. change (cfg (fresh t)) with (cfg t) in Pu.
    change (db_apps (fresh t)) with (db_apps t) in Pa. change (db_trks (fresh t)) with (db_trks t) in Pk.
    destruct (TowerBreach.w_block_connected_frame sc tg hash txs h tw HIg Ew) as [Haw [_ [_ [_ [_ [_ [_ [Hrgw _]]]]]]]].
    destruct (N.leb (u_expiry ui + c_delta (cfg t)) h) eqn:Epurge.
    + (* purged *)
      assert (Hug : aget (db_users tg) (snd uuid) = None) by (rewrite Pu, Eui, Epurge; reflexivity).
      assert (Hnag : find_app (db_apps tg) uuid = None).
      { apply TowerBreach.find_app_None_iff. intros Hi. apply in_map_iff in Hi. destruct Hi as [a2 [Hu2 Ha2]].
        apply Pa in Ha2. destruct Ha2 as [_ Hne]. apply Hne. replace (a_user a2) with (snd uuid); [exact Hug|rewrite <- Hu2; reflexivity]. }
      assert (Hnaw : find_app (db_apps tw) uuid = None) by (rewrite Haw; apply find_app_filter_none; exact Hnag).
      exact (proj1 (TowerBreach.responder_keeps_untracked le sc tw hash txs h t' uuid Er (no_app_no_trk tw uuid HIw Hnaw))).
    + rewrite Eg.
      assert (Hkg : In k (db_trks tg)).
      { apply Pk. split; [exact Hk|]. replace (t_user k) with (snd uuid) by (rewrite <- Hu; reflexivity).
        rewrite Pu, Eui, Epurge. discriminate. }
      destruct (inv_fk_trk tg HIg k Hkg) as [a [Ha Hau']].
      assert (Efa : find_app (db_apps tg) uuid = Some a).
      { rewrite <- Hu, <- Hau'. exact (TowerBreach.find_app_NoDup _ a (inv_apps_nodup tg HIg) Ha). }
      rewrite Efa.
      destruct (TowerBreach.survives_block sc tg txs a) eqn:Esurv.
      * rewrite Ew.
        assert (Hkw : In k (db_trks tw)).
        { destruct (TowerBreach.w_block_connected_inner sc tg hash txs h tw (inv_apps_nodup tg HIg) Ew)
            as [c [inv [t2 [_ [E2 [_ [_ [Happs [Htrks _]]]]]]]]].
          assert (Hatw : In a (db_apps tw)) by (rewrite Haw; apply filter_In; split; [exact Ha|exact Esurv]).
          rewrite Happs in Hatw. apply filter_In in Hatw. destruct Hatw as [_ Hninv].
          rewrite Htrks. apply filter_In. split; [|rewrite <- Hau'; exact Hninv].
          destruct (TowerBreach.ext_trks _ _ _ _ E2) as [new [Hnew _]]. rewrite Hnew. apply in_or_app. left. exact Hkg. }
        assert (Hfw : find_trk (db_trks tw) uuid = Some k).
        { rewrite <- Hu. exact (TowerBreach.find_trk_NoDup _ k (inv_trks_nodup tw HIw) Hkw). }
        destruct (r_block_connected_rows le sc tw (index_block hash txs) h t' HIw Er) as [lim [Hlim Hrows]].
        rewrite TowerBreach.keys_of_index_block in Hrows. specialize (Hrows uuid). rewrite Hfw in Hrows.
        destruct (retry_lim h lim Hlim) as [_ [-> _]].
        assert (Hrg : reorged tw = reorged t).
        { rewrite Hrgw. destruct (TowerBreach.gk_block_connected_spec _ _ _ Eg) as [out [_ [_ [_ [_ [Hse _]]]]]].
          unfold TowerBreach.same_engine in Hse. symmetry. apply Hse. }
        rewrite Hrg in Hrows. pose proof (fate_responder_end txs h (reorged t) (blk_eff sc tw h) k) as Hfe.
        destruct (responder_end txs h (reorged t) (blk_eff sc tw h) k).
        -- rewrite Hrows. exact Hfe.
        -- destruct Hfe as [k' [Hfk' Hdp]]. exists k'. split; [rewrite Hrows; exact Hfk'|exact Hdp].
      * assert (Hnaw : find_app (db_apps tw) uuid = None).
        { rewrite Haw. exact (find_app_filter_out _ _ uuid a (inv_apps_nodup tg HIg) Efa Esurv). }
        exact (proj1 (TowerBreach.responder_keeps_untracked le sc tw hash txs h t' uuid Er (no_app_no_trk tw uuid HIw Hnaw))).
  - apply (keep_trk t' uuid k HI'); [|exact Hu]. cbn [step] in Hstep. destruct (last_hash (set_rpc_log t [])) as [hash|].
    + pose proof (TowerBreach.disconnect_reorged hash (gk_height (set_rpc_log t [])) (set_rpc_log t [])) as Hl.
      destruct (run_listeners _ _ _); cbn [wrap] in Hstep; injection Hstep as <- <-; [|destruct Hna].
      destruct Hl as [Hl _]. rewrite Hl. exact Hk.
    + injection Hstep as <- <-. exact Hk.
Qed.

(* what each reason means (the definition of trk_end_of read backwards) *)
Theorem trk_end_of_meaning t o sc uuid why :
  trk_end_of t o sc uuid = Some why ->
  exists hash txs k ui,
    o = OConnect hash txs /\ find_trk (db_trks t) uuid = Some k /\ aget (db_users t) (snd uuid) = Some ui /\
    match why with
    | E_purged => u_expiry ui + c_delta (cfg t) <= gk_height t + 1
    | _ =>
        gk_height t + 1 < u_expiry ui + c_delta (cfg t) /\
        exists tg a, gk_block_connected (fresh t) (gk_height t + 1) = Ok tt tg /\ find_app (db_apps tg) uuid = Some a /\
        match why with
        | E_dropped_by_watcher => TowerBreach.survives_block sc tg txs a = false
        | _ =>
            TowerBreach.survives_block sc tg txs a = true /\
            exists tw, w_block_connected sc tg (cache_block hash txs) (gk_height t + 1) = Ok tt tw /\
            memN (t_penalty k) txs = false /\
            match why with
            | E_reorg_rejected =>
                mem_uuid (trk_uuid k) (reorged t) = true /\
                (status_rejected (blk_eff sc tw (gk_height t + 1) (t_dispute k)) = true \/
                 status_rejected (blk_eff sc tw (gk_height t + 1) (t_penalty k)) = true)
            | E_completed =>
                mem_uuid (trk_uuid k) (reorged t) = false /\ t_conf k = true /\ gk_height t + 1 - t_height k = IRR
            | E_stale_rejected =>
                mem_uuid (trk_uuid k) (reorged t) = false /\ t_conf k = false /\
                t_height k <= gk_height t + 1 - RETRY /\
                status_rejected (blk_eff sc tw (gk_height t + 1) (t_penalty k)) = true
            | _ => False
            end
        end
    end.
Proof.
  unfold trk_end_of. destruct o as [u|signer loc b delay sig|signer loc|signer|hash txs|]; try discriminate.
  destruct (find_trk (db_trks t) uuid) as [k|] eqn:Ef; [|discriminate].
  destruct (aget (db_users t) (snd uuid)) as [ui|] eqn:Eu; [|discriminate].
  cbv zeta. destruct (N.leb_spec (u_expiry ui + c_delta (cfg t)) (gk_height t + 1)) as [Hp|Hp].
  { intros H. injection H as <-. exists hash, txs, k, ui. repeat split; assumption. }
  destruct (gk_block_connected (fresh t) (gk_height t + 1)) as [[] tg|] eqn:Eg; [|discriminate].
  destruct (find_app (db_apps tg) uuid) as [a|] eqn:Ea; [|discriminate].
  destruct (TowerBreach.survives_block sc tg txs a) eqn:Es.
  2:{ intros H. injection H as <-. exists hash, txs, k, ui. repeat (split; [assumption||reflexivity|]).
      exists tg, a. auto. }
  destruct (w_block_connected sc tg (cache_block hash txs) (gk_height t + 1)) as [[] tw|] eqn:Ew; [|discriminate].
  unfold responder_end.
  destruct (memN (t_penalty k) txs) eqn:Em; [discriminate|].
  destruct (mem_uuid (trk_uuid k) (reorged t)) eqn:Er.
  { destruct (trk_rejected _ k) eqn:Et; [|discriminate]. intros H. injection H as <-.
    exists hash, txs, k, ui. repeat (split; [assumption||reflexivity|]). exists tg, a.
    repeat (split; [assumption||reflexivity|]). exists tw. repeat (split; [assumption||reflexivity|]).
    unfold trk_rejected in Et. apply orb_true_iff in Et. exact Et. }
  destruct (t_conf k) eqn:Ec.
  { destruct (N.eqb_spec (gk_height t + 1 - t_height k) IRR) as [Hi|Hi]; [|discriminate]. intros H. injection H as <-.
    exists hash, txs, k, ui. repeat (split; [assumption||reflexivity|]). exists tg, a.
    repeat (split; [assumption||reflexivity|]). exists tw. repeat (split; [assumption||reflexivity|]). exact Hi. }
  destruct (N.leb_spec (t_height k) (gk_height t + 1 - RETRY)) as [Hl|Hl]; [|discriminate].
  destruct (status_rejected _) eqn:Esr; [|discriminate]. intros H. injection H as <-.
  exists hash, txs, k, ui. repeat (split; [assumption||reflexivity|]). exists tg, a.
  repeat (split; [assumption||reflexivity|]). exists tw. repeat (split; [assumption||reflexivity|]). exact Esr.
Qed.

(* 1.4 reported to its owner while it is there: DisputeResponded with exactly that dispute and penalty — or,
   once the owner's subscription has expired (and until the purge at expiry + grace), the
   subscription-expired error of C09 *)
Lemma get_reports_tracker le t sc uuid k :
  Inv t -> find_trk (db_trks t) uuid = Some k ->
  exists ui, gk_get t (snd uuid) = Some ui /\
    step le t (OGet (Some (snd uuid)) (fst uuid)) sc =
      (fresh t, OGetRes (if N.leb (u_expiry ui) (gk_height t) then GetExpired (u_expiry ui)
                         else GetTrk (t_dispute k) (t_penalty k))).
Proof.
  intros HI Hf. destruct (find_trk_Some _ _ _ Hf) as [Hk Hu].
  destruct (inv_fk_trk t HI k Hk) as [a [Ha Hau]]. pose proof (inv_fk_app t HI a Ha) as Hfk.
  assert (Huser : a_user a = snd uuid) by (rewrite <- Hu; unfold app_uuid, trk_uuid in Hau; injection Hau as _ ->; reflexivity).
  rewrite Huser in Hfk. unfold amem in Hfk. rewrite <- (inv_sync t HI) in Hfk.
  destruct (aget (gk_users t) (snd uuid)) as [ui|] eqn:Eg; [|discriminate].
  exists ui. split; [exact Eg|]. cbn [step wrap]. unfold w_get_appointment, authenticate, amem.
  change (set_rpc_log t []) with (fresh t). change (gk_users (fresh t)) with (gk_users t). rewrite Eg.
  unfold gk_get. change (gk_users (fresh t)) with (gk_users t). rewrite Eg.
  change (gk_height (fresh t)) with (gk_height t).
  destruct (N.leb (u_expiry ui) (gk_height t)); [reflexivity|].
  change (db_trks (fresh t)) with (db_trks t). change (db_apps (fresh t)) with (db_apps t).
  replace (fst uuid, snd uuid) with uuid by (destruct uuid; reflexivity). rewrite Hf.
  destruct (find_app_In _ _ Ha) as [a' Hfa]. rewrite Hau, Hu in Hfa. rewrite Hfa. reflexivity.
Qed.

(* C01, "from then on ... until": from any state of a run in which the tracker exists, along any continuation
   in which no step is an ending step for it (trk_end_of = None at every cut), the tracker is still there at
   the end with the same dispute and penalty, and EVERY get_appointment of its owner for that locator on the
   way is answered with them (or with the subscription-expired error once the owner has expired). *)
Theorem responded_until_from le : forall mid t uuid k,
  BigInv t -> in_envelope le t mid = true -> chain_disciplined le t mid = true ->
  find_trk (db_trks t) uuid = Some k ->
  (forall m1 o sc m2, mid = m1 ++ (o, sc) :: m2 -> trk_end_of (fst (run le t m1)) o sc uuid = None) ->
  (exists k', find_trk (db_trks (fst (run le t mid))) uuid = Some k' /\
              t_dispute k' = t_dispute k /\ t_penalty k' = t_penalty k) /\
  (forall m1 sc m2, mid = m1 ++ (OGet (Some (snd uuid)) (fst uuid), sc) :: m2 ->
     exists ui, gk_get (fst (run le t m1)) (snd uuid) = Some ui /\
       snd (step le (fst (run le t m1)) (OGet (Some (snd uuid)) (fst uuid)) sc) =
       OGetRes (if N.leb (u_expiry ui) (gk_height (fst (run le t m1))) then GetExpired (u_expiry ui)
                else GetTrk (t_dispute k) (t_penalty k))).
Proof.
  induction mid as [|[o sc] mid IH]; intros t uuid k HB He Hc Hf Hno.
  - split; [exists k; cbn [run fst]; auto|]. intros m1 sc m2 E. destruct m1; discriminate.
  - cbn [in_envelope chain_disciplined] in He, Hc. apply andb_true_iff in He, Hc.
    destruct He as [He1 He2]. destruct Hc as [Hc1 Hc2].
    pose proof (step_never_aborts le t o sc HB He1) as Hna. pose proof (step_big le t o sc HB He1 Hc1) as HB1.
    pose proof (tracker_fate le t o sc _ _ uuid k (bi_inv t HB) (step_eq le t o sc) Hna Hf) as Hfate.
    pose proof (Hno [] o sc mid eq_refl) as Hn0. cbn [run fst] in Hn0. rewrite Hn0 in Hfate. destruct Hfate as [k1 [Hf1 [Hd1 Hp1]]].
    assert (Hno1 : forall m1 o' sc' m2, mid = m1 ++ (o', sc') :: m2 ->
                     trk_end_of (fst (run le (fst (step le t o sc)) m1)) o' sc' uuid = None).
    { intros m1 o' sc' m2 E. specialize (Hno ((o, sc) :: m1) o' sc' m2). rewrite (run_cons_ok le t o sc m1 Hna) in Hno.
      apply Hno. rewrite E. reflexivity. }
    destruct (IH _ uuid k1 HB1 He2 Hc2 Hf1 Hno1) as [Hend Hgets].
    rewrite (run_cons_ok le t o sc mid Hna). cbn [fst]. split.
    + destruct Hend as [k' [A [B C]]]. exists k'. split; [exact A|]. split; congruence.
    + intros m1 sc' m2 E. destruct m1 as [|[o1 sc1] m1].
      * cbn [List.app] in E. injection E as -> -> ->. cbn [run fst].
        destruct (get_reports_tracker le t sc' uuid k (bi_inv t HB) Hf) as [ui [Hg Hs]].
        exists ui. split; [exact Hg|]. rewrite Hs. reflexivity.
      * cbn [List.app] in E. injection E as E1 E2 E3. subst o1 sc1 mid. rewrite (run_cons_ok le t o sc m1 Hna). cbn [fst].
        destruct (Hgets m1 sc' m2 eq_refl) as [ui [Hg Hs]]. exists ui. split; [exact Hg|]. rewrite Hs, Hd1, Hp1. reflexivity.
Qed.

(* ... stated along a run from the bootstrap: the tracker exists after `pre`; `mid` is any continuation *)
Theorem responded_forever_run le c h0 blocks t0 h pre mid post uuid k :
  init c h0 blocks = Some t0 -> NoDup (map fst blocks) -> N.of_nat (length blocks) <= h0 ->
  in_envelope le t0 h = true -> chain_disciplined le t0 h = true ->
  h = pre ++ mid ++ post ->
  find_trk (db_trks (fst (run le t0 pre))) uuid = Some k ->
  (* until: no step of `mid` ends the tracker *)
  (forall m1 o sc m2, mid = m1 ++ (o, sc) :: m2 -> trk_end_of (fst (run le t0 (pre ++ m1))) o sc uuid = None) ->
  (exists k', find_trk (db_trks (fst (run le t0 (pre ++ mid)))) uuid = Some k' /\
              t_dispute k' = t_dispute k /\ t_penalty k' = t_penalty k) /\
  (forall m1 sc m2, mid = m1 ++ (OGet (Some (snd uuid)) (fst uuid), sc) :: m2 ->
     let t := fst (run le t0 (pre ++ m1)) in
     exists ui, gk_get t (snd uuid) = Some ui /\
       snd (step le t (OGet (Some (snd uuid)) (fst uuid)) sc) =
       OGetRes (if N.leb (u_expiry ui) (gk_height t) then GetExpired (u_expiry ui)
                else GetTrk (t_dispute k) (t_penalty k))).
Proof.
  intros Hi Hnd Hlen He Hc -> Hf Hno. pose proof (big_init c h0 blocks t0 Hi Hnd Hlen) as HB.
  destruct (reach_prefix_from le t0 pre (mid ++ post) HB He Hc) as [Hall [HB1 [He1 Hc1]]].
  destruct (env_app le mid post _ HB1 He1 Hc1) as [He2 [Hc2 _]].
  assert (Hrun : forall m, fst (run le t0 (pre ++ m)) = fst (run le (fst (run le t0 pre)) m)).
  { intros m. rewrite (run_app le pre m t0 Hall). reflexivity. }
  assert (Hno' : forall m1 o sc m2, mid = m1 ++ (o, sc) :: m2 ->
                   trk_end_of (fst (run le (fst (run le t0 pre)) m1)) o sc uuid = None).
  { intros m1 o sc m2 E. rewrite <- Hrun. exact (Hno m1 o sc m2 E). }
  destruct (responded_until_from le mid _ uuid k HB1 He2 Hc2 Hf Hno') as [A B]. split.
  - rewrite Hrun. exact A.
  - intros m1 sc m2 E. cbv zeta. rewrite Hrun. exact (B m1 sc m2 E).
Qed.

(* ... and the step that ends it, when there is one, is a block connection of one of the five kinds, and the
   tracker is gone right after it: at every cut of a run *)
Theorem tracker_end_exact_run le c h0 blocks t0 h pre o sc post uuid k :
  init c h0 blocks = Some t0 -> NoDup (map fst blocks) -> N.of_nat (length blocks) <= h0 ->
  in_envelope le t0 h = true -> chain_disciplined le t0 h = true ->
  h = pre ++ (o, sc) :: post ->
  find_trk (db_trks (fst (run le t0 pre))) uuid = Some k ->
  match trk_end_of (fst (run le t0 pre)) o sc uuid with
  | Some _ => find_trk (db_trks (fst (run le t0 (pre ++ [(o, sc)])))) uuid = None
  | None => exists k', find_trk (db_trks (fst (run le t0 (pre ++ [(o, sc)])))) uuid = Some k' /\
                       t_dispute k' = t_dispute k /\ t_penalty k' = t_penalty k
  end.
Proof.
  intros Hi Hnd Hlen He Hc E Hf. destruct (reach_cut le c h0 blocks t0 h pre o sc post Hi Hnd Hlen He Hc E) as [F1 F2 F3 F4 F5 F6 F7 F8 F9].
  rewrite F6. exact (tracker_fate le _ o sc _ _ uuid k (bi_inv _ F2) (step_eq le _ o sc) F5 Hf).
Qed.

(* the "until" hypothesis as a computation (for concrete histories) *)
Fixpoint never_ends (le : bool) (t : tower) (mid : list (op * script)) (uuid : N * N) : bool :=
  match mid with
  | [] => true
  | (o, sc) :: r =>
      match trk_end_of t o sc uuid with
      | None => never_ends le (fst (step le t o sc)) r uuid
      | Some _ => false
      end
  end.

Lemma run_cons_not_abort le t o sc r :
  Forall not_abort (snd (run le t ((o, sc) :: r))) ->
  not_abort (snd (step le t o sc)) /\ Forall not_abort (snd (run le (fst (step le t o sc)) r)).
Proof.
  cbn [run]. destruct (step le t o sc) as [t1 x]. cbn [fst snd]. destruct (run le t1 r) as [t2 xs]. cbn [snd].
  destruct x; intros Hall; inversion Hall; subst; try contradiction; split; assumption.
Qed.

Lemma never_ends_cuts le : forall mid t uuid,
  Forall not_abort (snd (run le t mid)) -> never_ends le t mid uuid = true ->
  forall m1 o sc m2, mid = m1 ++ (o, sc) :: m2 -> trk_end_of (fst (run le t m1)) o sc uuid = None.
Proof.
  induction mid as [|[o0 sc0] mid IH]; intros t uuid Hall Hne m1 o sc m2 E; [destruct m1; discriminate|].
  destruct (run_cons_not_abort le t o0 sc0 mid Hall) as [Hna Hrest]. cbn [never_ends] in Hne.
  destruct (trk_end_of t o0 sc0 uuid) eqn:Et; [discriminate|].
  destruct m1 as [|[o1 sc1] m1]; cbn [List.app] in E.
  - injection E as E1 E2 E3. subst o0 sc0 mid. cbn [run fst]. exact Et.
  - injection E as E1 E2 E3. subst o1 sc1 mid. rewrite (run_cons_ok le t o0 sc0 m1 Hna). cbn [fst].
    exact (IH _ uuid Hrest Hne m1 o sc m2 eq_refl).
Qed.
