(* Histories WITH restarts: the states a tower reaches from its bootstrap through requests, blocks and node answers
   (Tower.step), kills at any micro step of any operation (CrashOps.crash_at) and restarts (CrashOps.restart), in any
   number and order.  Proofs only; the statements used by the checks are in Properties/C07_restart.v. *)
From TeosModel Require Import Base TxIndex Tower TowerStable TowerInv Crash CrashOps CrashOpsProofs.
Local Open Scope N_scope.

Inductive rreach (le : bool) : tower -> Prop :=
| RR_init c h0 blocks t : init c h0 blocks = Some t -> rreach le t
| RR_step t o sc : rreach le t -> not_abort (snd (step le t o sc)) -> rreach le (fst (step le t o sc))
| RR_kill t o sc k : rreach le t -> rreach le (restart t (crash_at le k t o sc))
| RR_restart t : rreach le t -> rreach le (restart t (db_of t)).

(* what Gatekeeper::new holds after a restart is the users table, record by record, and the restart writes nothing *)
Lemma restart_loads_users t d : gk_users (restart t d) = d_users d /\ db_of (restart t d) = d.
Proof. split; [reflexivity|apply db_of_restart]. Qed.

Lemma dbinv_of_reach_restart t : Inv t -> Inv (restart t (db_of t)).
Proof. intros HI. unfold restart. apply recover_inv. apply dbinv_of_inv. exact HI. Qed.

Theorem rreach_inv le t : rreach le t -> Inv t.
Proof.
  induction 1 as [c h0 blocks t Hi|t o sc _ IH Hn|t o sc k _ IH|t _ IH].
  - eapply inv_init; exact Hi.
  - exact (step_pres Inv inv_stable le t o sc IH Hn).
  - exact (proj2 (crash_integrity le k t o sc IH)).
  - exact (dbinv_of_reach_restart t IH).
Qed.

Theorem rreach_memory_eq_disk le t : rreach le t -> forall u, aget (gk_users t) u = aget (db_users t) u.
Proof. intros H. exact (inv_sync t (rreach_inv le t H)). Qed.

(* a restart with no kill in between changes no balance and no subscription, in memory or on disk *)
Theorem clean_restart_keeps_users t : Inv t ->
  forall u, aget (gk_users (restart t (db_of t))) u = aget (gk_users t) u /\
            aget (db_users (restart t (db_of t))) u = aget (db_users t) u.
Proof.
  intros HI u. pose proof (inv_sync t HI u) as Hs.
  assert (Hg : gk_users (restart t (db_of t)) = db_users t) by reflexivity.
  assert (Hd : db_users (restart t (db_of t)) = db_users t) by reflexivity.
  rewrite Hg, Hd. split; [symmetry; exact Hs|reflexivity].
Qed.

(* non-vacuity: a state reached through a registration, a kill inside a second registration and a restart *)
Example rreach_somewhere :
  exists t, rreach true t /\ exists u, aget (gk_users t) u <> None.
Proof.
  destruct (init (mk_config 10 100 6) 100 []) as [t0|] eqn:E; [|vm_compute in E; discriminate].
  set (t1 := fst (step true t0 (ORegister 7) [])).
  assert (H1 : rreach true t1).
  { apply RR_step; [eapply RR_init; exact E|]. vm_compute in E. inversion E; subst t0. vm_compute. exact I. }
  exists (restart t1 (crash_at true 1 t1 (ORegister 7) [])). split; [apply RR_kill; exact H1|].
  exists 7. vm_compute in E. inversion E; subst t0. vm_compute. discriminate.
Qed.

(* ---------------------------------------------------------------------------------------------------------- *)
(* C09 across a restart: the purge a restarted tower performs at the next block is the purge the uninterrupted tower
   performs - same users kept with the same windows, same appointments and trackers kept, same height *)
From TeosModel Require Import TowerProofs TowerSubs.

Theorem purge_after_clean_restart t h t' t'' :
  Inv t -> gk_block_connected t h = Ok tt t' -> gk_block_connected (restart t (db_of t)) h = Ok tt t'' ->
  (forall u, aget (db_users t'') u = aget (db_users t') u) /\
  (forall a, In a (db_apps t'') <-> In a (db_apps t')) /\
  (forall k, In k (db_trks t'') <-> In k (db_trks t')) /\
  gk_height t'' = gk_height t'.
Proof.
  intros HI E1 E2.
  destruct (purge_exact t h t' HI E1) as [U1 [A1 [K1 H1]]].
  destruct (purge_exact _ h t'' (dbinv_of_reach_restart t HI) E2) as [U2 [A2 [K2 H2]]].
  change (db_users (restart t (db_of t))) with (db_users t) in U2.
  change (cfg (restart t (db_of t))) with (cfg t) in U2.
  change (db_apps (restart t (db_of t))) with (db_apps t) in A2.
  change (db_trks (restart t (db_of t))) with (db_trks t) in K2.
  assert (HU : forall u, aget (db_users t'') u = aget (db_users t') u) by (intros u; rewrite U1, U2; reflexivity).
  repeat split.
  - exact HU.
  - intros Ha. apply A1. apply A2 in Ha. destruct Ha as [Hi Hn]. split; [exact Hi|rewrite <- HU; exact Hn].
  - intros Ha. apply A2. apply A1 in Ha. destruct Ha as [Hi Hn]. split; [exact Hi|rewrite HU; exact Hn].
  - intros Hk. apply K1. apply K2 in Hk. destruct Hk as [Hi Hn]. split; [exact Hi|rewrite <- HU; exact Hn].
  - intros Hk. apply K2. apply K1 in Hk. destruct Hk as [Hi Hn]. split; [exact Hi|rewrite HU; exact Hn].
  - rewrite H1, H2. reflexivity.
Qed.

(* the restarted tower reaches the purge whenever the uninterrupted one does (no new abort) when memory and disk hold
   the same list, which is what a restart establishes *)
Lemma restart_purge_defined t h :
  outdated_users (c_delta (cfg t)) h (db_users t) <> None ->
  exists t'', gk_block_connected (restart t (db_of t)) h = Ok tt t''.
Proof.
  intros Hn. unfold gk_block_connected.
  change (gk_users (restart t (db_of t))) with (db_users t).
  change (cfg (restart t (db_of t))) with (cfg t).
  destruct (outdated_users (c_delta (cfg t)) h (db_users t)) as [o|]; [|contradiction].
  eexists. reflexivity.
Qed.

(* C03 over whole histories: no dangling record in any state reached through operations, kills and restarts *)
Theorem rreach_dbinv le t : rreach le t -> DbInv (db_of t).
Proof. intros H. apply dbinv_of_inv. exact (rreach_inv le t H). Qed.

(* a kill never leaves the set of such states: the tables found at ANY micro step of ANY operation started in one of
   them are consistent, and so is every statement-prefix applied later to them *)
Theorem rreach_kill_tables le t o sc k l n : rreach le t -> DbInv (execs (crash_at le k t o sc) (firstn n l)).
Proof. intros H. apply crash_prefix_inv. exact (proj1 (crash_integrity le k t o sc (rreach_inv le t H))). Qed.

(* ---------------------------------------------------------------------------------------------------------- *)
(* the C07 ledger across a clean restart: available, held and hence granted = available + held + forfeited *)
From TeosModel Require Import TowerLedger.

Lemma restart_bal t v :
  avail (restart t (db_of t)) v = avail t v /\ held_t (restart t (db_of t)) v = held_t t v /\
  bal (restart t (db_of t)) v = bal t v /\ has_row (restart t (db_of t)) v = has_row t v.
Proof. repeat split. Qed.

Theorem ledger_across_clean_restart t l : Led t l -> Led (restart t (db_of t)) l.
Proof.
  intros HL v Hr. destruct (restart_bal t v) as [_ [_ [Hb Hh]]]. rewrite Hb. apply HL. rewrite <- Hh. exact Hr.
Qed.

(* ... and across a kill inside any operation the persisted balance of every user is at most what the operation
   grants above the balance before it (CrashOpsProofs), so over a whole history a kill + restart never adds slots
   beyond the interrupted request's grant *)

(* every statement proved under the tower invariant holds in every state of a history with kills and restarts *)
Theorem rreach_lifts (P : tower -> Prop) : (forall t, Inv t -> P t) -> forall le t, rreach le t -> P t.
Proof. intros HP le t H. apply HP. exact (rreach_inv le t H). Qed.

(* e.g. the purge is exact in all of them (TowerSubs.purge_exact) *)
Corollary rreach_purge_exact le t h t' :
  rreach le t -> gk_block_connected t h = Ok tt t' ->
  (forall u, aget (db_users t') u =
             match aget (db_users t) u with
             | Some ui => if N.leb (u_expiry ui + c_delta (cfg t)) h then None else Some ui
             | None => None
             end) /\ gk_height t' = h.
Proof.
  intros H E. destruct (purge_exact t h t' (rreach_inv le t H) E) as [U [_ [_ Hh]]]. split; [exact U|exact Hh].
Qed.
