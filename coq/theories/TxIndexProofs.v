(* TxIndexProofs.v — refinement of the TxIndex model to the list-of-blocks window (C19). *)
From TeosModel Require Import Base TxIndex.
From TeosModel Require Import ListAux.
From Coq Require Import Lia.
Local Open Scope nat_scope.

(* ---------- association-list laws ---------- *)
Section AssocLaws.
  Context {V : Type}.
  Implicit Types (m : amap V) (k : N).

  Lemma aget_app m1 m2 k :
    aget (m1 ++ m2) k = match aget m1 k with Some v => Some v | None => aget m2 k end.
  Proof.
    induction m1 as [|[k' v] m1 IH]; cbn [app aget]; [reflexivity|].
    destruct (N.eqb k k'); [reflexivity|apply IH].
  Qed.

  Lemma aget_retain p m k :
    aget (aretain p m) k = if p k then aget m k else None.
  Proof.
    unfold aretain. induction m as [|[k' v] m IH]; cbn [filter aget fst].
    - destruct (p k); reflexivity.
    - destruct (p k') eqn:Hp; cbn [aget]; destruct (N.eqb k k') eqn:E.
      + apply N.eqb_eq in E; subst. rewrite Hp. reflexivity.
      + exact IH.
      + apply N.eqb_eq in E; subst. rewrite Hp in IH |- *. exact IH.
      + exact IH.
  Qed.

  Lemma aget_remove m k k' :
    aget (aremove m k') k = if N.eqb k k' then None else aget m k.
  Proof. unfold aremove. rewrite aget_retain. destruct (N.eqb k k'); reflexivity. Qed.

  Lemma aget_insert m k k' v :
    aget (ainsert m k' v) k = if N.eqb k k' then Some v else aget m k.
  Proof. reflexivity. Qed.

  Lemma aget_None_notin m k : aget m k = None <-> ~ In k (map fst m).
  Proof.
    induction m as [|[k' v] m IH]; cbn [aget map fst In]; [tauto|].
    destruct (N.eqb k k') eqn:E.
    - apply N.eqb_eq in E. subst. split; [discriminate|intros H; exfalso; apply H; left; reflexivity].
    - apply N.eqb_neq in E. rewrite IH. split; [intros H [H1|H1]; [congruence|tauto]|tauto].
  Qed.

  Lemma aget_Some_in m k v : aget m k = Some v -> In k (map fst m).
  Proof.
    intros H. destruct (in_dec N.eq_dec k (map fst m)) as [Hi|Hn]; [exact Hi|].
    apply aget_None_notin in Hn. congruence.
  Qed.
End AssocLaws.

Lemma memN_In k l : memN k l = true <-> In k l.
Proof.
  unfold memN. rewrite existsb_exists. split.
  - intros [x [Hx He]]. apply N.eqb_eq in He. subst. exact Hx.
  - intros H. exists k. split; [exact H|apply N.eqb_refl].
Qed.

Lemma memN_false k l : memN k l = false <-> ~ In k l.
Proof. rewrite <- memN_In. destruct (memN k l); split; congruence. Qed.

Section Refinement.
  Context {V : Type}.
  Notation txindex := (txindex V).
  Notation iblock := (iblock V).
  Notation window := (window V).
  Notation tiop := (tiop V).

  (* keys of the block with hash h in a block list *)
  Fixpoint keys_at (bs : list iblock) (h : N) : option (list N) :=
    match bs with
    | [] => None
    | b :: r => if N.eqb h (ib_hash b) then Some (keys_of (ib_data b)) else keys_at r h
    end.

  (* the representation invariant (Appendix B of DESIGN.md, after the F1 repair) *)
  Record Rep (t : txindex) (bs : list iblock) (tip : Z) : Prop := {
    rep_blocks : ti_blocks t = map ib_hash bs;
    rep_nodup_h : NoDup (map ib_hash bs);
    rep_nodup_k : NoDup (all_keys bs);
    rep_txs : forall h, aget (ti_txs t) h = keys_at bs h;
    rep_index : forall k, aget (ti_index t) k = w_find (rev bs) k;
    rep_tip : ti_tip t = tip
  }.

  Lemma all_keys_app (a b : list iblock) : all_keys (a ++ b) = all_keys a ++ all_keys b.
  Proof. unfold all_keys. apply flat_map_app. Qed.

  Lemma w_find_app (a b : list iblock) k :
    w_find (a ++ b) k = match w_find a k with Some v => Some v | None => w_find b k end.
  Proof.
    induction a as [|x a IH]; cbn [app w_find]; [reflexivity|].
    destruct (aget (ib_data x) k); [reflexivity|apply IH].
  Qed.

  Lemma w_find_None (bs : list iblock) k : ~ In k (all_keys bs) -> w_find bs k = None.
  Proof.
    induction bs as [|b bs IH]; cbn [w_find all_keys flat_map]; [reflexivity|].
    intros H. rewrite in_app_iff in H.
    assert (Hb : aget (ib_data b) k = None) by (apply aget_None_notin; unfold keys_of in H; tauto).
    rewrite Hb. apply IH. unfold all_keys. tauto.
  Qed.

  Lemma w_find_Some_in (bs : list iblock) k v : w_find bs k = Some v -> In k (all_keys bs).
  Proof.
    intros H. destruct (in_dec N.eq_dec k (all_keys bs)) as [Hi|Hn]; [exact Hi|].
    rewrite (w_find_None _ _ Hn) in H. discriminate.
  Qed.

  Lemma all_keys_rev_in (bs : list iblock) k : In k (all_keys (rev bs)) <-> In k (all_keys bs).
  Proof.
    unfold all_keys. rewrite !in_flat_map. split; intros [b [Hb Hk]]; exists b; split; auto.
    - apply in_rev. exact Hb.
    - apply -> in_rev. exact Hb.
  Qed.

  Lemma keys_at_app (a b : list iblock) h :
    keys_at (a ++ b) h = match keys_at a h with Some ks => Some ks | None => keys_at b h end.
  Proof.
    induction a as [|x a IH]; cbn [app keys_at]; [reflexivity|].
    destruct (N.eqb h (ib_hash x)); [reflexivity|apply IH].
  Qed.

  Lemma keys_at_None (bs : list iblock) h : ~ In h (map ib_hash bs) -> keys_at bs h = None.
  Proof.
    induction bs as [|b bs IH]; cbn [keys_at map In]; [reflexivity|].
    intros H. destruct (N.eqb h (ib_hash b)) eqn:E.
    - apply N.eqb_eq in E. exfalso. apply H. left. congruence.
    - apply IH. tauto.
  Qed.

  (* ---- push a block at the back ---- *)
  Lemma rep_push t bs tip b :
    Rep t bs tip ->
    ~ In (ib_hash b) (map ib_hash bs) ->
    NoDup (keys_of (ib_data b)) ->
    (forall k, In k (keys_of (ib_data b)) -> ~ In k (all_keys bs)) ->
    Rep {| ti_index := ib_data b ++ ti_index t;
           ti_blocks := ti_blocks t ++ [ib_hash b];
           ti_txs := ainsert (ti_txs t) (ib_hash b) (keys_of (ib_data b));
           ti_tip := (ti_tip t + 1)%Z;
           ti_size := ti_size t |} (bs ++ [b]) (tip + 1)%Z.
  Proof.
    intros [Hb Hnh Hnk Htx Hidx Htip] Hfresh Hnd Hdisj.
    constructor; cbn [ti_index ti_blocks ti_txs ti_tip].
    - rewrite Hb, map_app. reflexivity.
    - rewrite map_app. cbn [map]. apply NoDup_app_iff. repeat split; [exact Hnh|repeat constructor; intros []|].
      intros x Hx [Hx'|[]]. subst x. exact (Hfresh Hx).
    - rewrite all_keys_app. cbn [all_keys flat_map]. rewrite app_nil_r.
      apply NoDup_app_iff. repeat split; [exact Hnk|exact Hnd|].
      intros x Hx Hx'. exact (Hdisj x Hx' Hx).
    - intros h. rewrite aget_insert, keys_at_app. cbn [keys_at].
      rewrite Htx. destruct (N.eqb h (ib_hash b)) eqn:E.
      + apply N.eqb_eq in E. subst h. rewrite (keys_at_None _ _ Hfresh). reflexivity.
      + destruct (keys_at bs h); reflexivity.
    - intros k. rewrite aget_app, rev_app_distr. cbn [rev app w_find].
      rewrite Hidx. reflexivity.
    - rewrite Htip. reflexivity.
  Qed.

  Lemma keys_at_head_None (b0 : iblock) bs :
    NoDup (map ib_hash (b0 :: bs)) -> keys_at bs (ib_hash b0) = None.
  Proof.
    cbn [map]. intros H. apply NoDup_cons_iff in H. apply keys_at_None. tauto.
  Qed.

  (* ---- evict the oldest block ---- *)
  Lemma rep_pop_front t b0 bs tip :
    Rep t (b0 :: bs) tip ->
    exists t', ti_remove_oldest t = Some t' /\ Rep t' bs tip /\ ti_size t' = ti_size t.
  Proof.
    intros [Hb Hnh Hnk Htx Hidx Htip].
    unfold ti_remove_oldest. rewrite Hb. cbn [map].
    rewrite Htx. cbn [keys_at]. rewrite N.eqb_refl.
    eexists. split; [reflexivity|]. split; [|reflexivity].
    pose proof Hnk as Hnk0. cbn [all_keys flat_map] in Hnk0. apply NoDup_app_iff in Hnk0.
    destruct Hnk0 as [Hk0 [Hkr Hdisj]].
    constructor; cbn [ti_index ti_blocks ti_txs ti_tip].
    - reflexivity.
    - cbn [map] in Hnh. apply NoDup_cons_iff in Hnh. tauto.
    - exact Hkr.
    - intros h. rewrite aget_remove, Htx. cbn [keys_at].
      destruct (N.eqb h (ib_hash b0)) eqn:E; [|reflexivity].
      apply N.eqb_eq in E. subst h. symmetry. apply keys_at_head_None. exact Hnh.
    - intros k. rewrite aget_retain, Hidx. cbn [rev]. rewrite w_find_app. cbn [w_find].
      destruct (memN k (keys_of (ib_data b0))) eqn:Em; cbn [negb].
      + apply memN_In in Em. symmetry. apply w_find_None.
        rewrite all_keys_rev_in. apply Hdisj. exact Em.
      + apply memN_false in Em.
        assert (Hn : aget (ib_data b0) k = None) by (apply aget_None_notin; exact Em).
        rewrite Hn. destruct (w_find (rev bs) k); reflexivity.
    - exact Htip.
  Qed.

  (* ---- drop the newest block (disconnection) ---- *)
  Lemma rep_pop_back t bs b tip :
    Rep t (bs ++ [b]) tip ->
    Rep (ti_disconnect t (ib_hash b)) bs (tip - 1)%Z /\
    ti_size (ti_disconnect t (ib_hash b)) = ti_size t.
  Proof.
    intros [Hb Hnh Hnk Htx Hidx Htip].
    rewrite map_app in Hnh. cbn [map] in Hnh. apply NoDup_app_iff in Hnh.
    destruct Hnh as [Hnh [_ Hfresh]].
    assert (Hkb : keys_at bs (ib_hash b) = None).
    { apply keys_at_None. intros Hin. apply (Hfresh _ Hin). left. reflexivity. }
    rewrite all_keys_app in Hnk. cbn [all_keys flat_map] in Hnk. rewrite app_nil_r in Hnk.
    apply NoDup_app_iff in Hnk. destruct Hnk as [Hkr [Hkb' Hdisj]].
    unfold ti_disconnect. rewrite Htx, keys_at_app, Hkb. cbn [keys_at]. rewrite N.eqb_refl.
    rewrite Hb, map_app. cbn [map].
    destruct (map ib_hash bs ++ [ib_hash b]) eqn:El.
    { exfalso. destruct (map ib_hash bs); discriminate. }
    rewrite <- El. rewrite removelast_last. split; [|reflexivity].
    constructor; cbn [ti_index ti_blocks ti_txs ti_tip].
    - reflexivity.
    - exact Hnh.
    - exact Hkr.
    - intros h. rewrite aget_remove, Htx, keys_at_app. cbn [keys_at].
      destruct (N.eqb h (ib_hash b)) eqn:E.
      + apply N.eqb_eq in E. subst h. rewrite Hkb. reflexivity.
      + destruct (keys_at bs h); reflexivity.
    - intros k. rewrite aget_retain, Hidx, rev_app_distr. cbn [rev app w_find].
      destruct (memN k (keys_of (ib_data b))) eqn:Em; cbn [negb].
      + apply memN_In in Em. symmetry. apply w_find_None. rewrite all_keys_rev_in.
        intros Hin. exact (Hdisj _ Hin Em).
      + apply memN_false in Em.
        assert (Hn : aget (ib_data b) k = None) by (apply aget_None_notin; exact Em).
        rewrite Hn. reflexivity.
    - rewrite Htip. reflexivity.
  Qed.

  (* ---- the refinement relation between an index and a window of capacity n ---- *)
  Definition RepW (n : nat) (t : txindex) (w : window) : Prop :=
    Rep t (w_blocks w) (w_tip w) /\ ti_size t = n /\ length (w_blocks w) <= n.

  Lemma lastn_all {A} n (l : list A) : length l <= n -> lastn n l = l.
  Proof. intros H. unfold lastn. replace (length l - n) with 0 by lia. reflexivity. Qed.

  Lemma lastn_drop1 {A} n (x : A) (l : list A) : length l = n -> lastn n (x :: l) = l.
  Proof. intros H. unfold lastn. cbn [length]. replace (S (length l) - n) with 1 by lia. reflexivity. Qed.

  Theorem step_refines n t w o :
    RepW n t w -> valid_op w o ->
    exists t', ti_step t o = Some t' /\ RepW n t' (w_step n w o).
  Proof.
    intros [HR [Hsz Hlen]] Hv. destruct o as [b|h]; cbn [ti_step w_step].
    - destruct Hv as [Hfresh [Hnd Hdisj]].
      pose proof (rep_push _ _ _ b HR Hfresh Hnd Hdisj) as HR1.
      unfold ti_update.
      set (t1 := {| ti_index := ib_data b ++ ti_index t;
                    ti_blocks := ti_blocks t ++ [ib_hash b];
                    ti_txs := ainsert (ti_txs t) (ib_hash b) (keys_of (ib_data b));
                    ti_tip := (ti_tip t + 1)%Z; ti_size := ti_size t |}) in *.
      assert (Hl1 : length (ti_blocks t1) = S (length (w_blocks w))).
      { subst t1. cbn [ti_blocks]. rewrite (rep_blocks _ _ _ HR), app_length, map_length.
        cbn [length]. lia. }
      unfold ti_is_full. rewrite Hl1. change (ti_size t1) with (ti_size t). rewrite Hsz.
      destruct (Nat.ltb n (S (length (w_blocks w)))) eqn:Efull.
      + apply Nat.ltb_lt in Efull. assert (Hn : length (w_blocks w) = n) by lia.
        destruct (w_blocks w ++ [b]) as [|b0 rest] eqn:Eapp.
        { destruct (w_blocks w); discriminate. }
        destruct (rep_pop_front _ _ _ _ HR1) as [t' [Hrm [HR' Hsz']]].
        exists t'. split; [exact Hrm|].
        assert (Hlr : length rest = n).
        { apply (f_equal (@length _)) in Eapp. rewrite app_length in Eapp.
          cbn [length] in Eapp. lia. }
        unfold RepW. cbn [w_blocks w_tip]. rewrite (lastn_drop1 n b0 rest Hlr).
        split; [exact HR'|]. split; [rewrite Hsz'; exact Hsz|lia].
      + apply Nat.ltb_ge in Efull. eexists. split; [reflexivity|].
        unfold RepW. cbn [w_blocks w_tip]. rewrite lastn_all.
        * split; [exact HR1|]. split; [exact Hsz|]. rewrite app_length. cbn [length]. lia.
        * rewrite app_length. cbn [length]. lia.
    - destruct Hv as [bs [b [Hw Hh]]]. subst h. eexists. split; [reflexivity|].
      rewrite Hw in HR. destruct (rep_pop_back _ _ _ _ HR) as [HR' Hsz'].
      unfold RepW. cbn [w_blocks w_tip]. rewrite Hw, removelast_last.
      split; [exact HR'|]. split; [rewrite Hsz'; exact Hsz|].
      rewrite Hw, app_length in Hlen. cbn [length] in Hlen. lia.
  Qed.

  Theorem run_refines n ops : forall t w,
    RepW n t w -> valid_ops n w ops ->
    exists t', ti_run t ops = Some t' /\ RepW n t' (w_run n w ops).
  Proof.
    induction ops as [|o ops IH]; intros t w HR Hv; cbn [ti_run w_run fold_left].
    - exists t. split; [reflexivity|exact HR].
    - destruct Hv as [Hv Hvs].
      destruct (step_refines _ _ _ _ HR Hv) as [t1 [Hs HR1]]. rewrite Hs.
      apply IH; assumption.
  Qed.

  (* ---- observables ---- *)
  Lemma positionN_lt h l p : positionN h l = Some p -> p < length l.
  Proof.
    revert p. induction l as [|x l IH]; cbn [positionN length]; intros p H; [discriminate|].
    destruct (N.eqb x h); [inversion H; lia|].
    destruct (positionN h l) as [q|]; [|discriminate]. inversion H. specialize (IH q eq_refl). lia.
  Qed.

  Lemma get_refines n t w k : RepW n t w -> ti_get t k = w_get w k.
  Proof. intros [HR _]. unfold ti_get, w_get. apply (rep_index _ _ _ HR). Qed.

  Lemma get_height_refines n t w h : RepW n t w -> ti_get_height t h = w_get_height w h.
  Proof.
    intros [HR _]. unfold ti_get_height, w_get_height.
    rewrite (rep_blocks _ _ _ HR), (rep_tip _ _ _ HR), map_length.
    destruct (positionN h (map ib_hash (w_blocks w))) as [p|] eqn:E; [|reflexivity].
    apply positionN_lt in E. rewrite map_length in E. f_equal. lia.
  Qed.

  (* ---- bootstrap ---- *)
  Lemma updates_is_run bs : forall t, ti_updates t bs = ti_run t (map (@TConnect V) bs).
  Proof.
    induction bs as [|b bs IH]; intros t; cbn [ti_updates ti_run map ti_step]; [reflexivity|].
    destruct (ti_update t b); [apply IH|reflexivity].
  Qed.

  Lemma rep_empty height n :
    RepW n {| ti_index := []; ti_blocks := []; ti_txs := []; ti_tip := height; ti_size := n |}
         {| w_blocks := []; w_tip := height |}.
  Proof.
    split; [|split; [reflexivity|cbn; lia]].
    constructor; cbn; try reflexivity; try constructor.
  Qed.

  (* connecting blocks that fit: the window is just extended *)
  Lemma w_run_connects_fit n bs : forall w,
    length (w_blocks w) + length bs <= n ->
    w_run n w (map (@TConnect V) bs) =
      {| w_blocks := w_blocks w ++ bs; w_tip := (w_tip w + Z.of_nat (length bs))%Z |}.
  Proof.
    induction bs as [|b bs IH]; intros w H; cbn [map w_run fold_left length].
    - rewrite app_nil_r, Z.add_0_r. destruct w; reflexivity.
    - cbn [length] in H. unfold w_run in IH. rewrite IH.
      + cbn [w_step w_blocks w_tip]. rewrite lastn_all by (rewrite app_length; cbn [length]; lia).
        rewrite <- app_assoc. cbn [app]. f_equal. lia.
      + cbn [w_step w_blocks]. rewrite lastn_all by (rewrite app_length; cbn [length]; lia).
        rewrite app_length. cbn [length]. lia.
  Qed.

  Lemma valid_connects_fit n bs : forall w,
    NoDup (map ib_hash (w_blocks w ++ bs)) ->
    NoDup (all_keys (w_blocks w ++ bs)) ->
    length (w_blocks w) + length bs <= n ->
    valid_ops n w (map (@TConnect V) bs).
  Proof.
    induction bs as [|b bs IH]; intros w Hh Hk Hl; cbn [map valid_ops]; [exact I|].
    cbn [length] in Hl. split.
    - cbn [valid_op]. rewrite map_app in Hh. apply NoDup_app_iff in Hh.
      destruct Hh as [_ [_ Hd]]. rewrite all_keys_app in Hk. apply NoDup_app_iff in Hk.
      destruct Hk as [_ [Hkb Hkd]]. cbn [all_keys flat_map] in Hkb. apply NoDup_app_iff in Hkb.
      repeat split.
      + intros Hin. apply (Hd _ Hin). left. reflexivity.
      + tauto.
      + intros k Hk Hin. apply (Hkd _ Hin). cbn [all_keys flat_map]. apply in_or_app. left. exact Hk.
    - apply IH; cbn [w_step w_blocks].
      + rewrite lastn_all by (rewrite app_length; cbn [length]; lia).
        rewrite <- app_assoc. exact Hh.
      + rewrite lastn_all by (rewrite app_length; cbn [length]; lia).
        rewrite <- app_assoc. exact Hk.
      + rewrite lastn_all by (rewrite app_length; cbn [length]; lia).
        rewrite app_length. cbn [length]. lia.
  Qed.

  Theorem new_refines (newest_first : list iblock) height :
    NoDup (map ib_hash newest_first) -> NoDup (all_keys (rev newest_first)) ->
    exists t, ti_new newest_first height = Some t /\
              RepW (length newest_first) t {| w_blocks := rev newest_first; w_tip := height |}.
  Proof.
    intros Hh Hk. unfold ti_new. rewrite updates_is_run.
    set (n := length newest_first).
    pose proof (rep_empty height n) as H0.
    assert (Hl : length (w_blocks {| w_blocks := @nil iblock; w_tip := height |}) +
                 length (rev newest_first) <= n) by (cbn; rewrite rev_length; subst n; lia).
    assert (Hv : valid_ops n {| w_blocks := @nil iblock; w_tip := height |}
                   (map (@TConnect V) (rev newest_first))).
    { apply valid_connects_fit; cbn [w_blocks app].
      - rewrite map_rev. apply NoDup_rev. exact Hh.
      - exact Hk.
      - exact Hl. }
    destruct (run_refines n _ _ _ H0 Hv)
      as [t [Hrun [HR [Hsz Hlen]]]].
    rewrite Hrun. eexists. split; [reflexivity|].
    rewrite (w_run_connects_fit n _ _ Hl) in HR, Hlen. cbn [w_blocks w_tip app] in HR, Hlen.
    split; [|split; [exact Hsz|exact Hlen]].
    cbn [w_blocks w_tip]. destruct HR as [A B C D E F].
    constructor; cbn [ti_index ti_blocks ti_txs ti_tip]; auto.
  Qed.

  (* ---- what the window look-up means: exactly the entries of the live blocks ---- *)
  Lemma w_find_iff (bs : list iblock) k v :
    NoDup (all_keys bs) ->
    (w_find bs k = Some v <-> exists b, In b bs /\ aget (ib_data b) k = Some v).
  Proof.
    induction bs as [|b bs IH]; intros Hnd; cbn [w_find].
    - split; [discriminate|intros [b [[] _]]].
    - cbn [all_keys flat_map] in Hnd. apply NoDup_app_iff in Hnd. destruct Hnd as [_ [Hr Hd]].
      destruct (aget (ib_data b) k) as [v'|] eqn:E.
      + split.
        * intros H. exists b. split; [left; reflexivity|congruence].
        * intros [b' [[Hb|Hb] Hg]]; [subst; congruence|].
          exfalso. apply (Hd k); [eapply aget_Some_in; exact E|].
          unfold all_keys. apply in_flat_map. exists b'. split; [exact Hb|].
          eapply aget_Some_in; exact Hg.
      + rewrite (IH Hr). split.
        * intros [b' [Hb Hg]]. exists b'. split; [right; exact Hb|exact Hg].
        * intros [b' [[Hb|Hb] Hg]]; [subst; congruence|]. exists b'. tauto.
  Qed.

  Lemma w_get_iff (w : window) k v :
    NoDup (all_keys (w_blocks w)) ->
    (w_get w k = Some v <-> exists b, In b (w_blocks w) /\ aget (ib_data b) k = Some v).
  Proof.
    intros Hnd. unfold w_get. rewrite w_find_iff.
    - split; intros [b [Hb Hg]]; exists b; split; auto; [apply in_rev; exact Hb|apply -> in_rev; exact Hb].
    - clear -Hnd. revert Hnd. generalize (w_blocks w). intros bs.
      induction bs as [|b bs IH]; intros Hnd; cbn [rev]; [constructor|].
      cbn [all_keys flat_map] in Hnd. apply NoDup_app_iff in Hnd. destruct Hnd as [Hb [Hr Hd]].
      rewrite all_keys_app. cbn [all_keys flat_map]. rewrite app_nil_r.
      apply NoDup_app_iff. repeat split; [apply IH; exact Hr|exact Hb|].
      intros x Hx Hx'. apply (proj1 (all_keys_rev_in bs x)) in Hx. exact (Hd _ Hx' Hx).
  Qed.

  (* ---- the window against the active chain ---- *)
  Definition c_step (c : list iblock) (o : tiop) : list iblock :=
    match o with TConnect b => c ++ [b] | TDisconnect _ => removelast c end.
  Definition c_run (c : list iblock) (ops : list tiop) : list iblock := fold_left c_step ops c.

  (* OnChain h0 c w: the window is a suffix of the active chain c (whose first block has
     height h0) and its tip is the true height of the chain's last block *)
  Definition OnChain (h0 : Z) (c : list iblock) (w : window) : Prop :=
    (exists pre, c = pre ++ w_blocks w) /\ w_tip w = (h0 + Z.of_nat (length c) - 1)%Z.

  Lemma onchain_step n h0 c w o :
    OnChain h0 c w -> valid_op w o -> OnChain h0 (c_step c o) (w_step n w o).
  Proof.
    intros [[pre Hc] Ht] Hv. destruct o as [b|h]; cbn [c_step w_step]; split; cbn [w_blocks w_tip].
    - unfold lastn. set (k := length (w_blocks w ++ [b]) - n).
      exists (pre ++ firstn k (w_blocks w ++ [b])).
      rewrite Hc, <- !app_assoc. f_equal. rewrite firstn_skipn. reflexivity.
    - rewrite Ht, app_length. cbn [length]. lia.
    - destruct Hv as [bs [b [Hw _]]]. exists pre. rewrite Hc, Hw, removelast_last.
      rewrite app_assoc, removelast_last. reflexivity.
    - destruct Hv as [bs [b [Hw _]]]. rewrite Ht, removelast_length.
      rewrite Hc, Hw, !app_length. cbn [length]. lia.
  Qed.

  Lemma onchain_run n h0 ops : forall c w,
    OnChain h0 c w -> valid_ops n w ops -> OnChain h0 (c_run c ops) (w_run n w ops).
  Proof.
    induction ops as [|o ops IH]; intros c w H Hv; cbn [c_run w_run fold_left]; [exact H|].
    destruct Hv as [Hv Hvs]. apply IH; [apply onchain_step; assumption|exact Hvs].
  Qed.

  (* a full window on the chain is exactly the last n blocks of the chain *)
  Lemma onchain_full_lastn n h0 c w :
    OnChain h0 c w -> length (w_blocks w) = n -> w_blocks w = lastn n c.
  Proof.
    intros [[pre Hc] _] Hl. unfold lastn. rewrite Hc, app_length, Hl.
    replace (length pre + n - n) with (length pre) by lia.
    rewrite skipn_app, skipn_all, Nat.sub_diag. reflexivity.
  Qed.

  (* the height the window reports for its block at position p is that block's index in the
     chain, offset by the height of the chain's first block *)
  Lemma onchain_height h0 c w pre h p :
    OnChain h0 c w -> c = pre ++ w_blocks w ->
    positionN h (map ib_hash (w_blocks w)) = Some p ->
    w_get_height w h = Some (h0 + Z.of_nat (length pre + p))%Z.
  Proof.
    intros [_ Ht] Hc Hp. unfold w_get_height. rewrite Hp. apply positionN_lt in Hp.
    rewrite map_length in Hp. rewrite Ht, Hc, app_length. f_equal. lia.
  Qed.

  Lemma w_len_step n (w : window) o :
    length (w_blocks (w_step n w o)) =
      match o with
      | TConnect _ => Nat.min n (S (length (w_blocks w)))
      | TDisconnect _ => length (w_blocks w) - 1
      end.
  Proof.
    destruct o; cbn [w_step w_blocks].
    - unfold lastn. rewrite skipn_length, app_length. cbn [length]. lia.
    - apply removelast_length.
  Qed.

  Lemma w_len_disconnects n hs : forall (w : window),
    length (w_blocks (w_run n w (map (@TDisconnect V) hs))) = length (w_blocks w) - length hs.
  Proof.
    induction hs as [|h hs IH]; intros w; cbn [map w_run fold_left length]; [lia|].
    unfold w_run in IH. rewrite IH, w_len_step. lia.
  Qed.

  Lemma w_len_connects n bs : forall (w : window),
    length (w_blocks w) <= n ->
    length (w_blocks (w_run n w (map (@TConnect V) bs))) = Nat.min n (length (w_blocks w) + length bs).
  Proof.
    induction bs as [|b bs IH]; intros w H; cbn [map w_run fold_left length]; [lia|].
    unfold w_run in IH. rewrite IH; rewrite w_len_step; lia.
  Qed.

  (* a poll = k disconnections followed by at least k connections: a full window is full again *)
  Theorem poll_refills n (w : window) hs bs :
    length (w_blocks w) = n -> length hs <= length bs ->
    length (w_blocks (w_run n w (map (@TDisconnect V) hs ++ map (@TConnect V) bs))) = n.
  Proof.
    intros Hl Hk. unfold w_run. rewrite fold_left_app.
    pose proof (w_len_disconnects n hs w) as Hd. unfold w_run in Hd.
    pose proof (w_len_connects n bs (fold_left (w_step n) (map (@TDisconnect V) hs) w)) as Hc.
    unfold w_run in Hc. rewrite Hc; lia.
  Qed.

  (* ---- the boolean validity check used by generators and monitors is sound ---- *)
  Lemma nodupN_notin x l : ~ In x l -> filter (fun y => negb (N.eqb y x)) l = l.
  Proof.
    induction l as [|y l IH]; cbn [filter In]; intros H; [reflexivity|].
    destruct (N.eqb y x) eqn:E; cbn [negb].
    - apply N.eqb_eq in E. exfalso. apply H. left. exact E.
    - f_equal. apply IH. tauto.
  Qed.

  Lemma filter_length_le {A} (p : A -> bool) l : length (filter p l) <= length l.
  Proof. induction l as [|x l IH]; cbn [filter length]; [lia|]. destruct (p x); cbn [length]; lia. Qed.

  Lemma nodupN_length_le l : length (nodupN l) <= length l.
  Proof.
    induction l as [|x l IH]; cbn [nodupN length]; [lia|].
    pose proof (filter_length_le (fun y => negb (N.eqb y x)) (nodupN l)). lia.
  Qed.

  Lemma nodupN_In x l : In x (nodupN l) <-> In x l.
  Proof.
    induction l as [|y l IH]; cbn [nodupN In]; [tauto|].
    rewrite filter_In, IH. split.
    - intros [H|[H _]]; tauto.
    - intros [H|H]; [tauto|]. destruct (N.eqb x y) eqn:E.
      + apply N.eqb_eq in E. left. congruence.
      + right. split; [exact H|]. reflexivity.
  Qed.

  Lemma nodupN_full_NoDup l : length (nodupN l) = length l -> NoDup l.
  Proof.
    induction l as [|x l IH]; cbn [nodupN length]; intros H; [constructor|].
    pose proof (filter_length_le (fun y => negb (N.eqb y x)) (nodupN l)) as H1.
    pose proof (nodupN_length_le l) as H2.
    assert (Hf : length (filter (fun y => negb (N.eqb y x)) (nodupN l)) = length (nodupN l)) by lia.
    constructor; [|apply IH; lia].
    intros Hin. apply nodupN_In in Hin.
    (* x is in nodupN l, so the filter strictly shrinks it *)
    clear -Hf Hin. induction (nodupN l) as [|y r IHr]; [destruct Hin|].
    cbn [filter length] in Hf. destruct (N.eqb y x) eqn:E; cbn [negb length] in Hf.
    + pose proof (filter_length_le (fun y => negb (N.eqb y x)) r). lia.
    + destruct Hin as [Hy|Hy]; [subst; rewrite N.eqb_refl in E; discriminate|].
      apply IHr; [lia|exact Hy].
  Qed.

  Lemma valid_opb_sound (w : window) o : valid_opb w o = true -> valid_op w o.
  Proof.
    destruct o as [b|h]; cbn [valid_opb valid_op].
    - rewrite !andb_true_iff, negb_true_iff, forallb_forall, Nat.eqb_eq.
      intros [[Hh Hn] Hk]. repeat split.
      + apply memN_false. exact Hh.
      + apply nodupN_full_NoDup. unfold keys_of. rewrite map_length. exact Hn.
      + intros k Hin. specialize (Hk k Hin). apply negb_true_iff in Hk. apply memN_false. exact Hk.
    - destruct (rev (w_blocks w)) as [|b r] eqn:E; [discriminate|].
      intros H. apply N.eqb_eq in H. exists (rev r), b. split; [|exact H].
      rewrite <- (rev_involutive (w_blocks w)), E. reflexivity.
  Qed.

  Lemma valid_opsb_sound n ops : forall (w : window), valid_opsb_all n w ops = true -> valid_ops n w ops.
  Proof.
    induction ops as [|o ops IH]; intros w; cbn [valid_opsb_all valid_ops]; [tauto|].
    rewrite andb_true_iff. intros [H1 H2]. split; [apply valid_opb_sound; exact H1|apply IH; exact H2].
  Qed.
End Refinement.
