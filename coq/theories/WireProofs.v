(* WireProofs.v — proofs about the wire model (Wire.v).  Everything is for all inputs; facts about a
   single byte / hex digit are proved by sweeping the 256 (16) values in the kernel. *)
From TeosModel Require Import Base Wire.
From Coq Require Import Lia.

Local Open Scope N_scope.

(* ------------------------------------------------------------------------------------------ *)
(* finite sweeps                                                                              *)
(* ------------------------------------------------------------------------------------------ *)
Lemma N_lt_in_range (k : nat) (n : N) : n < N.of_nat k -> In n (map N.of_nat (seq 0 k)).
Proof.
  intros H. apply in_map_iff. exists (N.to_nat n). split.
  - apply N2Nat.id.
  - apply in_seq. lia.
Qed.

Lemma forall_lt_by_sweep (k : nat) (p : N -> bool) :
  forallb p (map N.of_nat (seq 0 k)) = true -> forall n, n < N.of_nat k -> p n = true.
Proof.
  intros H n Hn. rewrite forallb_forall in H. apply H. apply N_lt_in_range. exact Hn.
Qed.

Lemma list_ind2 {A} (P : list A -> Prop) :
  P [] -> (forall x, P [x]) -> (forall x y r, P r -> P (x :: y :: r)) -> forall l, P l.
Proof.
  intros H0 H1 H2.
  assert (forall l, P l /\ forall x, P (x :: l)) as H.
  { induction l as [|a l [IH1 IH2]]; split; auto. }
  intros l. apply H.
Qed.

Lemma str_eqb_eq a b : w_str_eqb a b = true <-> a = b.
Proof.
  revert b. induction a as [|x a IH]; intros [|y b]; simpl; split; intros H; try congruence; auto.
  - apply andb_true_iff in H. destruct H as [H1 H2]. apply N.eqb_eq in H1. apply IH in H2. congruence.
  - inversion H; subst. apply andb_true_iff. split; [apply N.eqb_refl | apply IH; reflexivity].
Qed.

Lemma str_eqb_refl a : w_str_eqb a a = true.
Proof. apply str_eqb_eq. reflexivity. Qed.

Lemma str_eqb_neq a b : w_str_eqb a b = false <-> a <> b.
Proof.
  split; intros H.
  - intros E. apply str_eqb_eq in E. congruence.
  - destruct (w_str_eqb a b) eqn:E; auto. apply str_eqb_eq in E. contradiction.
Qed.

Lemma str_eqb_sym a b : w_str_eqb a b = w_str_eqb b a.
Proof.
  destruct (w_str_eqb a b) eqn:E.
  - apply str_eqb_eq in E. subst. symmetry. apply str_eqb_refl.
  - symmetry. apply str_eqb_neq. apply str_eqb_neq in E. congruence.
Qed.

Lemma mem_str_In s l : w_mem_str s l = true <-> In s l.
Proof.
  unfold w_mem_str. rewrite existsb_exists. split.
  - intros [x [Hx E]]. apply str_eqb_eq in E. subst. exact Hx.
  - intros H. exists s. split; [exact H | apply str_eqb_refl].
Qed.

Lemma nodup_strb_NoDup l : w_nodup_strb l = true -> NoDup l.
Proof.
  induction l as [|x l IH]; simpl; intros H; constructor.
  - apply andb_true_iff in H. destruct H as [H _]. intros Hin. apply mem_str_In in Hin. rewrite Hin in H. discriminate.
  - apply IH. apply andb_true_iff in H. apply H.
Qed.

(* ------------------------------------------------------------------------------------------ *)
(* hex                                                                                        *)
(* ------------------------------------------------------------------------------------------ *)
Definition byte_rt_check (x : N) : bool :=
  match w_hex_val (w_hex_digit (x / 16)), w_hex_val (w_hex_digit (x mod 16)) with
  | Some a, Some b => (16 * a + b =? x) && w_is_lower_hexb [w_hex_digit (x / 16); w_hex_digit (x mod 16)]
  | _, _ => false
  end.

Lemma byte_rt_sweep : forallb byte_rt_check (map N.of_nat (seq 0 256)) = true.
Proof. vm_compute. reflexivity. Qed.

Lemma byte_rt x : x < 256 ->
  exists a b, w_hex_val (w_hex_digit (x / 16)) = Some a /\ w_hex_val (w_hex_digit (x mod 16)) = Some b /\ 16 * a + b = x.
Proof.
  intros H. pose proof (forall_lt_by_sweep 256 byte_rt_check byte_rt_sweep x H) as C.
  unfold byte_rt_check in C.
  destruct (w_hex_val (w_hex_digit (x / 16))) as [a|]; [|discriminate].
  destruct (w_hex_val (w_hex_digit (x mod 16))) as [b|]; [|discriminate].
  apply andb_true_iff in C. destruct C as [C _]. apply N.eqb_eq in C. eauto.
Qed.

Lemma wf_bytesb_cons x b : w_wf_bytesb (x :: b) = true <-> x < 256 /\ w_wf_bytesb b = true.
Proof.
  unfold w_wf_bytesb. simpl. rewrite andb_true_iff. unfold w_byteb. rewrite N.ltb_lt. tauto.
Qed.

Lemma wf_bytesb_app a b : w_wf_bytesb (a ++ b) = w_wf_bytesb a && w_wf_bytesb b.
Proof. apply forallb_app. Qed.

Lemma wf_bytesb_rev b : w_wf_bytesb (rev b) = w_wf_bytesb b.
Proof.
  induction b as [|x b IH]; simpl; auto.
  rewrite wf_bytesb_app, IH. unfold w_wf_bytesb at 2 3. simpl. rewrite andb_true_r. apply andb_comm.
Qed.

Theorem hex_roundtrip b : w_wf_bytesb b = true -> w_hex_decode (w_hex_encode b) = Some b.
Proof.
  induction b as [|x b IH]; intros H; [reflexivity|].
  apply wf_bytesb_cons in H. destruct H as [Hx Hb].
  destruct (byte_rt x Hx) as [a [c [Ha [Hc E]]]].
  cbn [w_hex_encode w_hex_decode]. rewrite Ha, Hc, (IH Hb), E. reflexivity.
Qed.

Theorem behex_roundtrip b : w_wf_bytesb b = true -> w_behex_decode (w_behex_encode b) = Some b.
Proof.
  intros H. unfold w_behex_decode, w_behex_encode. rewrite hex_roundtrip.
  - simpl. rewrite rev_involutive. reflexivity.
  - rewrite wf_bytesb_rev. exact H.
Qed.

Lemma hex_encode_length b : length (w_hex_encode b) = (2 * length b)%nat.
Proof. induction b as [|x b IH]; simpl; [reflexivity | rewrite IH; lia]. Qed.

Lemma hex_encode_app a b : w_hex_encode (a ++ b) = w_hex_encode a ++ w_hex_encode b.
Proof. induction a as [|x a IH]; simpl; [reflexivity | rewrite IH; reflexivity]. Qed.

Lemma hex_encode_inj a b : w_wf_bytesb a = true -> w_wf_bytesb b = true -> w_hex_encode a = w_hex_encode b -> a = b.
Proof.
  intros Ha Hb E. apply hex_roundtrip in Ha. apply hex_roundtrip in Hb. rewrite E in Ha. congruence.
Qed.

Lemma behex_encode_inj a b : w_wf_bytesb a = true -> w_wf_bytesb b = true -> w_behex_encode a = w_behex_encode b -> a = b.
Proof.
  intros Ha Hb E. apply behex_roundtrip in Ha. apply behex_roundtrip in Hb. rewrite E in Ha. congruence.
Qed.

(* the emitted text is lower case *)
Lemma hex_encode_lower b : w_wf_bytesb b = true -> w_is_lower_hexb (w_hex_encode b) = true.
Proof.
  induction b as [|x b IH]; intros H; [reflexivity|].
  apply wf_bytesb_cons in H. destruct H as [Hx Hb].
  pose proof (forall_lt_by_sweep 256 byte_rt_check byte_rt_sweep x Hx) as C. unfold byte_rt_check in C.
  destruct (w_hex_val (w_hex_digit (x / 16))); [|discriminate]. destruct (w_hex_val (w_hex_digit (x mod 16))); [|discriminate].
  apply andb_true_iff in C. destruct C as [_ C].
  unfold w_is_lower_hexb in *. cbn [w_hex_encode forallb] in *. rewrite (IH Hb).
  repeat rewrite andb_true_r in C. apply andb_true_iff in C. destruct C as [C1 C2]. rewrite C1, C2. reflexivity.
Qed.

(* a hex digit value is below 16, whatever the character *)
Lemma hex_val_lt c v : w_hex_val c = Some v -> v < 16.
Proof.
  unfold w_hex_val.
  destruct ((48 <=? c) && (c <=? 57)) eqn:E1.
  { apply andb_true_iff in E1. destruct E1 as [A B]. apply N.leb_le in A, B. intros H. inversion H. lia. }
  destruct ((97 <=? c) && (c <=? 102)) eqn:E2.
  { apply andb_true_iff in E2. destruct E2 as [A B]. apply N.leb_le in A, B. intros H. inversion H. lia. }
  destruct ((65 <=? c) && (c <=? 70)) eqn:E3.
  { apply andb_true_iff in E3. destruct E3 as [A B]. apply N.leb_le in A, B. intros H. inversion H. lia. }
  discriminate.
Qed.

(* either case is accepted and means the same *)
Definition upper_check (c : N) : bool :=
  match w_hex_val (w_to_upper c), w_hex_val c with
  | Some a, Some b => a =? b
  | None, None => true
  | _, _ => false
  end.
Lemma upper_sweep : forallb upper_check (map N.of_nat (seq 0 256)) = true.
Proof. vm_compute. reflexivity. Qed.

Lemma hex_val_upper c : w_hex_val (w_to_upper c) = w_hex_val c.
Proof.
  destruct (N.ltb_spec c 256) as [H|H].
  - pose proof (forall_lt_by_sweep 256 upper_check upper_sweep c H) as C. unfold upper_check in C.
    destruct (w_hex_val (w_to_upper c)), (w_hex_val c); try discriminate; auto.
    apply N.eqb_eq in C. congruence.
  - unfold w_to_upper. replace (c <=? 122) with false; [rewrite andb_false_r; reflexivity|].
    symmetry. apply N.leb_gt. lia.
Qed.

Theorem hex_decode_upper s : w_hex_decode (map w_to_upper s) = w_hex_decode s.
Proof.
  induction s as [| x | x y r IH] using list_ind2; try reflexivity.
  cbn [map w_hex_decode]. rewrite !hex_val_upper, IH. reflexivity.
Qed.

(* whatever is accepted is a byte string, of half the length *)
Lemma hex_decode_wf s b : w_hex_decode s = Some b -> w_wf_bytesb b = true /\ length s = (2 * length b)%nat.
Proof.
  revert b. induction s as [| x | x y r IH] using list_ind2; intros b H.
  - inversion H. split; reflexivity.
  - discriminate.
  - cbn [w_hex_decode] in H.
    destruct (w_hex_val x) as [a|] eqn:Ea; [|discriminate].
    destruct (w_hex_val y) as [c|] eqn:Ec; [|discriminate].
    destruct (w_hex_decode r) as [t|] eqn:Er; [|discriminate].
    inversion H; subst. destruct (IH t eq_refl) as [W L].
    apply hex_val_lt in Ea, Ec. split.
    + apply wf_bytesb_cons. split; [lia | exact W].
    + simpl. rewrite L. lia.
Qed.

(* on lower-case text decoding is the inverse of encoding in the other direction too: a byte
   string has exactly one lower-case spelling *)
Definition lower_digit_check (c : N) : bool :=
  match w_hex_val c with
  | Some v => if w_is_lower_hexb [c] then w_hex_digit v =? c else true
  | None => true
  end.
Lemma lower_digit_sweep : forallb lower_digit_check (map N.of_nat (seq 0 256)) = true.
Proof. vm_compute. reflexivity. Qed.

Lemma hex_digit_val c v : w_hex_val c = Some v -> w_is_lower_hexb [c] = true -> w_hex_digit v = c.
Proof.
  intros Hv Hl.
  assert (c < 256) as Hc.
  { unfold w_is_lower_hexb in Hl. simpl in Hl. rewrite andb_true_r in Hl. apply orb_true_iff in Hl.
    destruct Hl as [Hl|Hl]; apply andb_true_iff in Hl; destruct Hl as [_ B]; apply N.leb_le in B; lia. }
  pose proof (forall_lt_by_sweep 256 lower_digit_check lower_digit_sweep c Hc) as C.
  unfold lower_digit_check in C. rewrite Hv, Hl in C. apply N.eqb_eq in C. exact C.
Qed.

Lemma nibbles a c : a < 16 -> c < 16 -> (16 * a + c) / 16 = a /\ (16 * a + c) mod 16 = c.
Proof.
  intros Ha Hc. split.
  - rewrite N.mul_comm, N.div_add_l by lia. rewrite N.div_small by lia. lia.
  - rewrite N.add_comm, N.mul_comm, N.mod_add by lia. apply N.mod_small. lia.
Qed.

Theorem hex_decode_lower_canonical s b :
  w_hex_decode s = Some b -> w_is_lower_hexb s = true -> w_hex_encode b = s.
Proof.
  revert b. induction s as [| x | x y r IH] using list_ind2; intros b H L.
  - inversion H. reflexivity.
  - discriminate.
  - cbn [w_hex_decode] in H.
    destruct (w_hex_val x) as [a|] eqn:Ea; [|discriminate].
    destruct (w_hex_val y) as [c|] eqn:Ec; [|discriminate].
    destruct (w_hex_decode r) as [t|] eqn:Er; [|discriminate].
    inversion H; subst.
    unfold w_is_lower_hexb in L. cbn [forallb] in L.
    apply andb_true_iff in L. destruct L as [Lx L]. apply andb_true_iff in L. destruct L as [Ly Lr].
    pose proof (hex_val_lt _ _ Ea) as A16. pose proof (hex_val_lt _ _ Ec) as C16.
    destruct (nibbles a c A16 C16) as [D M].
    cbn [w_hex_encode]. rewrite D, M, (IH t eq_refl Lr).
    rewrite (hex_digit_val x a Ea), (hex_digit_val y c Ec); auto.
    + unfold w_is_lower_hexb. simpl. rewrite Ly. reflexivity.
    + unfold w_is_lower_hexb. simpl. rewrite Lx. reflexivity.
Qed.

(* ------------------------------------------------------------------------------------------ *)
(* big-endian u32                                                                             *)
(* ------------------------------------------------------------------------------------------ *)
Ltac Zify.zify_post_hook ::= Z.to_euclidean_division_equations.

Lemma be32_roundtrip n : n < 4294967296 -> w_be32_decode (w_be32 n) = Some n.
Proof.
  intros H. unfold w_be32, w_be32_decode. f_equal. lia.
Qed.

Lemma be32_length n : length (w_be32 n) = 4%nat.
Proof. reflexivity. Qed.

Lemma le32_length n : length (w_le32 n) = 4%nat.
Proof. reflexivity. Qed.

Lemma be32_wf n : w_wf_bytesb (w_be32 n) = true.
Proof.
  unfold w_be32, w_wf_bytesb, w_byteb. cbn [forallb].
  repeat (apply andb_true_iff; split); try reflexivity; apply N.ltb_lt; apply N.mod_lt; lia.
Qed.

Lemma be32_inj n m : n < 4294967296 -> m < 4294967296 -> w_be32 n = w_be32 m -> n = m.
Proof.
  intros Hn Hm E. apply be32_roundtrip in Hn. apply be32_roundtrip in Hm. rewrite E in Hn. congruence.
Qed.

Lemma le32_inj n m : n < 4294967296 -> m < 4294967296 -> w_le32 n = w_le32 m -> n = m.
Proof.
  intros Hn Hm E. unfold w_le32 in E. apply (f_equal (@rev N)) in E. rewrite !rev_involutive in E.
  apply be32_inj; assumption.
Qed.

(* ------------------------------------------------------------------------------------------ *)
(* the signed layouts determine their fields                                                  *)
(* ------------------------------------------------------------------------------------------ *)
Lemma app_inv_len_head {A} (a b x y : list A) : length a = length b -> a ++ x = b ++ y -> a = b /\ x = y.
Proof.
  revert b. induction a as [|h a IH]; intros [|k b] L E; simpl in *; try discriminate; auto.
  inversion E; subst. destruct (IH b) as [E1 E2]; auto. subst. auto.
Qed.

Lemma app_inv_len_tail {A} (a b x y : list A) : length x = length y -> a ++ x = b ++ y -> a = b /\ x = y.
Proof.
  intros L E.
  assert (length a = length b) as La.
  { apply (f_equal (@length A)) in E. rewrite !app_length in E. lia. }
  apply app_inv_len_head; assumption.
Qed.

Definition litem_width (it : w_litem) : nat :=
  match it with WLFixed w => w | WLVar => 0 | WLBE32 => 4 | WLLE32 => 4 end.

Lemma litem_fixed_length it v : w_is_var it = false -> w_lval_okb it v = true -> length (w_litem_encode it v) = litem_width it.
Proof.
  destruct it, v; simpl; intros V H; try discriminate; try reflexivity.
  apply Nat.eqb_eq in H. exact H.
Qed.

Lemma litem_inj it v w : w_lval_okb it v = true -> w_lval_okb it w = true -> w_litem_encode it v = w_litem_encode it w -> v = w.
Proof.
  destruct it, v, w; simpl; intros Hv Hw E; try discriminate; try congruence.
  - apply N.ltb_lt in Hv, Hw. f_equal. apply be32_inj; assumption.
  - apply N.ltb_lt in Hv, Hw. f_equal. apply le32_inj; assumption.
Qed.

Fixpoint fixed_len (l : w_layout) : nat :=
  match l with [] => 0 | (_, it) :: r => litem_width it + fixed_len r end.

Lemma count_var_cons n it l : w_count_var ((n, it) :: l) = ((if w_is_var it then 1 else 0) + w_count_var l)%nat.
Proof. unfold w_count_var. simpl. destruct (w_is_var it); reflexivity. Qed.

Lemma layout_fixed_length l vs : w_count_var l = 0%nat -> w_layout_okb l vs = true -> length (w_layout_encode l vs) = fixed_len l.
Proof.
  revert vs. induction l as [|[n it] l IH]; intros [|v vs] C H; simpl in *; try discriminate; auto.
  rewrite count_var_cons in C. destruct (w_is_var it) eqn:V; [discriminate|].
  apply andb_true_iff in H. destruct H as [H1 H2].
  rewrite app_length, (litem_fixed_length it v V H1), (IH vs); auto.
Qed.

Lemma layout_inj_fixed l vs ws :
  w_count_var l = 0%nat -> w_layout_okb l vs = true -> w_layout_okb l ws = true ->
  w_layout_encode l vs = w_layout_encode l ws -> vs = ws.
Proof.
  revert vs ws. induction l as [|[n it] l IH]; intros [|v vs] [|w ws] C Hv Hw E; simpl in *; try discriminate; auto.
  rewrite count_var_cons in C. destruct (w_is_var it) eqn:V; [discriminate|].
  apply andb_true_iff in Hv, Hw. destruct Hv as [Hv1 Hv2], Hw as [Hw1 Hw2].
  apply app_inv_len_head in E.
  - destruct E as [E1 E2]. f_equal; [eapply litem_inj; eauto | apply IH; auto].
  - rewrite !litem_fixed_length; auto.
Qed.

Theorem layout_injective l vs ws :
  w_layout_unambiguousb l = true -> w_layout_okb l vs = true -> w_layout_okb l ws = true ->
  w_layout_encode l vs = w_layout_encode l ws -> vs = ws.
Proof.
  unfold w_layout_unambiguousb. intros U. apply Nat.leb_le in U.
  revert vs ws U. induction l as [|[n it] l IH]; intros [|v vs] [|w ws] U Hv Hw E; simpl in *; try discriminate; auto.
  rewrite count_var_cons in U.
  apply andb_true_iff in Hv, Hw. destruct Hv as [Hv1 Hv2], Hw as [Hw1 Hw2].
  destruct (w_is_var it) eqn:V.
  - (* the one variable-width field: everything after it has a known total width *)
    assert (w_count_var l = 0%nat) as C by lia.
    apply app_inv_len_tail in E.
    + destruct E as [E1 E2]. f_equal; [eapply litem_inj; eauto | eapply layout_inj_fixed; eauto].
    + rewrite !layout_fixed_length; auto.
  - apply app_inv_len_head in E.
    + destruct E as [E1 E2]. f_equal; [eapply litem_inj; eauto | apply IH; auto; lia].
    + rewrite !litem_fixed_length; auto.
Qed.

(* "get appointment <hex locator>" determines the locator *)
Lemma sign_msg_get_appointment_inj p a b :
  w_wf_bytesb a = true -> w_wf_bytesb b = true ->
  w_sign_msg_get_appointment p a = w_sign_msg_get_appointment p b -> a = b.
Proof.
  unfold w_sign_msg_get_appointment. intros Ha Hb E. apply app_inv_head in E. apply hex_encode_inj; assumption.
Qed.

(* ------------------------------------------------------------------------------------------ *)
(* JSON values: serialising then parsing is the identity                                      *)
(* ------------------------------------------------------------------------------------------ *)
Scheme kind_mind := Induction for w_kind Sort Prop
  with msg_mind := Induction for w_msg Sort Prop
  with fields_mind := Induction for w_fields Sort Prop
  with msgs_mind := Induction for w_msgs Sort Prop.
Combined Scheme spec_mutind from kind_mind, msg_mind, fields_mind, msgs_mind.

Lemma find_all_notin name o : ~ In name (map fst o) -> w_find_all name o = [].
Proof.
  induction o as [|[k v] o IH]; simpl; intros H; [reflexivity|].
  destruct (w_str_eqb name k) eqn:E.
  - apply str_eqb_eq in E. subst. exfalso. apply H. left. reflexivity.
  - apply IH. intros Hin. apply H. right. exact Hin.
Qed.

Section Roundtrip.
  Context (T : w_status_table).

  Lemma dec_hex_list_enc l : forallb w_wf_bytesb l = true ->
    w_dec_hex_list (map (fun b => JStr (w_hex_encode b)) l) = Some l.
  Proof.
    induction l as [|b l IH]; simpl; intros H; [reflexivity|].
    apply andb_true_iff in H. destruct H as [H1 H2]. rewrite (hex_roundtrip b H1), (IH H2). reflexivity.
  Qed.

  Lemma dec_u8_list_enc b : w_wf_bytesb b = true ->
    w_dec_u8_list (map (fun x => JNum (Z.of_N x)) b) = Some b.
  Proof.
    induction b as [|x b IH]; intros H; [reflexivity|].
    apply wf_bytesb_cons in H. destruct H as [Hx Hb]. cbn [map w_dec_u8_list]. rewrite (IH Hb).
    replace (WU8b (Z.of_N x)) with true.
    - rewrite N2Z.id. reflexivity.
    - symmetry. unfold WU8b. apply andb_true_iff. split; [apply Z.leb_le | apply Z.ltb_lt]; lia.
  Qed.

  Lemma keys_enc_fields fs vs : incl (map fst (w_enc_fields T fs vs)) (w_field_names fs).
  Proof.
    revert vs. induction fs as [|name k r IH]; intros vs; simpl; [intros x []|].
    destruct vs as [|v vr]; simpl; [intros x []|].
    intros x [E|Hin]; [left; exact E | right; apply (IH vr); exact Hin].
  Qed.

  (* every field of the spec is bound exactly once in o, to the emission of its value *)
  Fixpoint lookup_ok (fs : w_fields) (vs : w_vals) (o : list (w_str * w_json)) : Prop :=
    match fs, vs with
    | WFNil, WVNil => True
    | WFCons name k r, WVCons v vr => w_find_all name o = [w_enc_kind T k v] /\ lookup_ok r vr o
    | _, _ => False
    end.

  Lemma lookup_ok_weaken fs vs o name e :
    ~ In name (w_field_names fs) -> lookup_ok fs vs o -> lookup_ok fs vs ((name, e) :: o).
  Proof.
    revert vs. induction fs as [|n k r IH]; intros [|v vr] Hn H; simpl in *; auto.
    destruct H as [H1 H2]. split.
    - replace (w_str_eqb n name) with false; [exact H1|].
      symmetry. apply str_eqb_neq. intros E. apply Hn. left. congruence.
    - apply IH; auto.
  Qed.

  Lemma lookup_ok_self fs vs :
    NoDup (w_field_names fs) -> w_typed_fieldsb T fs vs = true -> lookup_ok fs vs (w_enc_fields T fs vs).
  Proof.
    revert vs. induction fs as [|n k r IH]; intros [|v vr] ND Ty; simpl in *; try discriminate; auto.
    inversion ND as [|? ? Hn ND']; subst.
    apply andb_true_iff in Ty. destruct Ty as [_ Ty]. split.
    - rewrite str_eqb_refl. f_equal. apply find_all_notin. intros Hin. apply Hn.
      apply (keys_enc_fields r vr). exact Hin.
    - apply lookup_ok_weaken; auto.
  Qed.

  Lemma dec_fields_missing_required fs o n :
    In n (w_required_names fs) -> w_find_all n o = [] -> w_dec_fields T fs o = None.
  Proof.
    induction fs as [|name k r IH]; simpl; intros Hin Hf; [contradiction|].
    destruct (w_is_optional k) eqn:Eo.
    - rewrite (IH Hin Hf).
      destruct (match w_find_all name o with [] => Some WVNone | [j] => w_dec_kind T k j | _ :: _ :: _ => None end); reflexivity.
    - destruct Hin as [E|Hin].
      + subst. rewrite Hf. reflexivity.
      + rewrite (IH Hin Hf).
        destruct (match w_find_all name o with [] => None | [j] => w_dec_kind T k j | _ :: _ :: _ => None end); reflexivity.
  Qed.

  (* a variant tried earlier rejects the emission of a later one *)
  Lemma distinguishable_rejects a b mv :
    w_distinguishableb a b = true -> w_typed_msgb T b mv = true -> w_dec_msg T a (w_enc_msg T b mv) = None.
  Proof.
    destruct a as [fa|], b as [fb|]; simpl; try discriminate.
    intros D Ty. destruct mv as [vs| |]; try discriminate.
    apply existsb_exists in D. destruct D as [n [Hreq Hn]].
    rewrite (dec_fields_missing_required fa _ n Hreq); [reflexivity|].
    apply find_all_notin. intros Hin. apply (keys_enc_fields fb vs) in Hin.
    apply mem_str_In in Hin. rewrite Hin in Hn. discriminate.
  Qed.

  Lemma distinguishable_rejects_variant a ms n mv :
    w_forall_msgs (w_distinguishableb a) ms = true -> w_typed_variantb T ms n mv = true ->
    w_dec_msg T a (w_enc_variant T ms n mv) = None.
  Proof.
    revert n. induction ms as [|m r IH]; intros n D Ty; simpl in *; [discriminate|].
    apply andb_true_iff in D. destruct D as [D1 D2].
    destruct n as [|n']; [apply distinguishable_rejects; assumption | apply IH; assumption].
  Qed.

  Lemma has_required_rejects_empty m : w_has_requiredb m = true -> w_dec_msg T m (JObj []) = None.
  Proof.
    destruct m as [fs|]; simpl; [|discriminate].
    destruct (w_required_names fs) as [|n rest] eqn:E; [discriminate|]. intros _.
    rewrite (dec_fields_missing_required fs [] n); [reflexivity | rewrite E; left; reflexivity | reflexivity].
  Qed.

  Lemma enc_variant_obj ms n mv :
    w_forall_msgs w_has_requiredb ms = true -> w_typed_variantb T ms n mv = true ->
    exists o, w_enc_variant T ms n mv = JObj o.
  Proof.
    revert n. induction ms as [|m r IH]; intros n H Ty; simpl in *; [discriminate|].
    apply andb_true_iff in H. destruct H as [H1 H2].
    destruct n as [|n']; [|apply IH; assumption].
    destruct m as [fs|]; [|discriminate]. simpl in Ty. destruct mv as [vs| |]; try discriminate.
    simpl. eauto.
  Qed.

  Lemma wf_variants_required ms : w_wf_variantsb ms = true -> w_forall_msgs w_has_requiredb ms = true.
  Proof.
    induction ms as [|m r IH]; simpl; intros H; [reflexivity|].
    repeat (apply andb_true_iff in H; destruct H as [H ?]).
    apply andb_true_iff. split; auto.
  Qed.

  Lemma enc_msg_obj m mv : w_wf_msgb m = true -> w_typed_msgb T m mv = true -> exists o, w_enc_msg T m mv = JObj o.
  Proof.
    destruct m as [fs|ms]; simpl; intros W Ty.
    - destruct mv as [vs| |]; try discriminate. simpl. eauto.
    - destruct mv as [| |n mv']; try discriminate; simpl; [eauto|].
      apply enc_variant_obj; auto. apply wf_variants_required. exact W.
  Qed.

  Definition PK (k : w_kind) : Prop :=
    w_wf_kindb k = true -> forall v, w_typed_kindb T k v = true -> w_dec_kind T k (w_enc_kind T k v) = Some v.
  Definition PM (m : w_msg) : Prop :=
    w_wf_msgb m = true -> forall mv, w_typed_msgb T m mv = true -> w_dec_msg T m (w_enc_msg T m mv) = Some mv.
  Definition PF (fs : w_fields) : Prop :=
    w_wf_fieldsb fs = true -> forall vs o, w_typed_fieldsb T fs vs = true -> lookup_ok fs vs o ->
    w_dec_fields T fs o = Some vs.
  Definition PMs (ms : w_msgs) : Prop :=
    w_wf_variantsb ms = true ->
    (forall n mv i, w_typed_variantb T ms n mv = true ->
                    w_dec_first T ms (w_enc_variant T ms n mv) i = WMVOneof (i + n) mv) /\
    (forall i, w_dec_first T ms (JObj []) i = WMVOneofNone).

  Lemma roundtrip_all : (forall k, PK k) /\ (forall m, PM m) /\ (forall fs, PF fs) /\ (forall ms, PMs ms).
  Proof.
    apply spec_mutind; unfold PK, PM, PF, PMs.
    - (* KHex *) intros _ v Ty. destruct v; try discriminate. simpl in *. rewrite hex_roundtrip; auto.
    - (* KHexBE *) intros _ v Ty. destruct v; try discriminate. simpl in *. rewrite behex_roundtrip; auto.
    - (* KVecHex *) intros _ v Ty. destruct v; try discriminate. simpl in *. rewrite dec_hex_list_enc; auto.
    - (* KStatus *) intros _ v Ty. destruct v; try discriminate. simpl in *.
      destruct (w_status_parse T (w_status_emit T n)) as [n'|]; [|discriminate].
      apply Z.eqb_eq in Ty. subst. reflexivity.
    - (* KU32 *) intros _ v Ty. destruct v; try discriminate. simpl in *. rewrite Ty. reflexivity.
    - (* KU8 *) intros _ v Ty. destruct v; try discriminate. simpl in *. rewrite Ty. reflexivity.
    - (* KStr *) intros _ v Ty. destruct v; try discriminate. reflexivity.
    - (* KBytesArr *) intros _ v Ty. destruct v; try discriminate. simpl in *. rewrite dec_u8_list_enc; auto.
    - (* KOptMsg *) intros m IH W v Ty. destruct v; try discriminate; [reflexivity|].
      simpl in W, Ty. destruct (enc_msg_obj m m0 W Ty) as [o Eo].
      simpl. rewrite Eo. rewrite <- Eo. rewrite (IH W m0 Ty). reflexivity.
    - (* MStruct *) intros fs IH W mv Ty. simpl in W. apply andb_true_iff in W. destruct W as [ND W].
      destruct mv as [vs| |]; try discriminate. simpl in Ty.
      simpl. rewrite (IH W vs _ Ty); [reflexivity|].
      apply lookup_ok_self; auto. apply nodup_strb_NoDup. exact ND.
    - (* MFlatOneof *) intros ms IH W mv Ty. simpl in W. destruct (IH W) as [IH1 IH2].
      destruct mv as [| |n mv']; try discriminate.
      + simpl. rewrite IH2. reflexivity.
      + simpl in Ty. destruct (enc_variant_obj ms n mv' (wf_variants_required ms W) Ty) as [o Eo].
        simpl. rewrite Eo. rewrite <- Eo. rewrite (IH1 n mv' 0%nat Ty). reflexivity.
    - (* FNil *) intros _ vs o Ty _. destruct vs; try discriminate. reflexivity.
    - (* FCons *) intros name k IHk r IHr W vs o Ty L. simpl in W. apply andb_true_iff in W. destruct W as [Wk Wr].
      destruct vs as [|v vr]; try discriminate. simpl in Ty. apply andb_true_iff in Ty. destruct Ty as [Tk Tr].
      simpl in L. destruct L as [L1 L2].
      simpl. rewrite L1. rewrite (IHk Wk v Tk). rewrite (IHr Wr vr o Tr L2). reflexivity.
    - (* MNil *) intros _. split; [intros n mv i Ty; discriminate | reflexivity].
    - (* MCons *) intros m IHm r IHr W. simpl in W.
      apply andb_true_iff in W. destruct W as [W Wr].
      apply andb_true_iff in W. destruct W as [W D].
      apply andb_true_iff in W. destruct W as [Wm R].
      destruct (IHr Wr) as [IH1 IH2]. split.
      + intros n mv i Ty. destruct n as [|n'].
        * simpl in Ty. simpl. rewrite (IHm Wm mv Ty). f_equal. lia.
        * simpl in Ty. simpl.
          rewrite (distinguishable_rejects_variant m r n' mv D Ty). rewrite (IH1 n' mv (S i) Ty). f_equal. lia.
      + intros i. simpl. rewrite (has_required_rejects_empty m R). apply IH2.
  Qed.

  Theorem msg_roundtrip m mv :
    w_wf_msgb m = true -> w_typed_msgb T m mv = true -> w_dec_msg T m (w_enc_msg T m mv) = Some mv.
  Proof. intros W Ty. destruct roundtrip_all as [_ [H _]]. apply H; assumption. Qed.

  (* ---------------- the client's untagged ApiResponse<T> | ApiError ---------------- *)
  Theorem client_decodes_response wrapped order resp err r :
    w_wf_msgb resp = true -> w_typed_msgb T resp r = true ->
    (wrapped = true -> order = [WAVResponse; WAVError]) ->
    w_client_decode T wrapped order resp err (w_enc_msg T resp r) = WCResponse r.
  Proof.
    intros W Ty Ho. unfold w_client_decode. destruct wrapped.
    - rewrite (Ho eq_refl). simpl. rewrite msg_roundtrip; auto.
    - rewrite msg_roundtrip; auto.
  Qed.

  Theorem client_decodes_error order resp err e :
    w_wf_msgb err = true -> w_typed_msgb T err e = true -> w_distinguishableb resp err = true ->
    order = [WAVResponse; WAVError] ->
    w_client_decode T true order resp err (w_enc_msg T err e) = WCError e.
  Proof.
    intros W Ty D Ho. unfold w_client_decode. rewrite Ho. simpl.
    rewrite (distinguishable_rejects resp err e D Ty). rewrite msg_roundtrip; auto.
  Qed.

  (* decoding straight into the success type: the error object is not recognised *)
  Theorem client_unwrapped_loses_error order resp err e :
    w_typed_msgb T err e = true -> w_distinguishableb resp err = true ->
    w_client_decode T false order resp err (w_enc_msg T err e) = WCDeserializeError.
  Proof.
    intros Ty D. unfold w_client_decode. rewrite (distinguishable_rejects resp err e D Ty). reflexivity.
  Qed.
End Roundtrip.

(* ------------------------------------------------------------------------------------------ *)
(* whatever parses is a well-typed message (so parse ; serialise ; parse is stable)           *)
(* ------------------------------------------------------------------------------------------ *)
Lemma assoc_str_In {A} k (l : list (w_str * A)) v : w_assoc_str k l = Some v -> In (k, v) l.
Proof.
  induction l as [|[k' v'] l IH]; simpl; [discriminate|].
  destruct (w_str_eqb k k') eqn:E.
  - intros H. inversion H; subst. apply str_eqb_eq in E. subst. left. reflexivity.
  - intros H. right. apply IH. exact H.
Qed.

(* every name FromStr accepts is the Display of the variant it yields *)
Definition status_table_okb (T : w_status_table) : bool :=
  forallb (fun sv => match w_assoc_str (snd sv) (w_st_variants T) with
                     | Some d => match w_status_parse T (w_status_emit T d) with Some d' => Z.eqb d d' | None => false end
                     | None => true
                     end) (w_st_from_str T).

Section Typed.
  Context (T : w_status_table).
  Context (HT : status_table_okb T = true).

  Lemma dec_hex_list_wf l bs : w_dec_hex_list l = Some bs -> forallb w_wf_bytesb bs = true.
  Proof.
    revert bs. induction l as [|j l IH]; simpl; intros bs H.
    - inversion H. reflexivity.
    - destruct j; try discriminate.
      destruct (w_hex_decode s) as [b|] eqn:Eb; [|discriminate].
      destruct (w_dec_hex_list l) as [t|]; [|discriminate].
      inversion H; subst. simpl. rewrite (proj1 (hex_decode_wf s b Eb)), (IH t eq_refl). reflexivity.
  Qed.

  Lemma dec_u8_list_wf l b : w_dec_u8_list l = Some b -> w_wf_bytesb b = true.
  Proof.
    revert b. induction l as [|j l IH]; simpl; intros b H.
    - inversion H. reflexivity.
    - destruct j; try discriminate.
      destruct (w_dec_u8_list l) as [t|]; [|discriminate].
      destruct (WU8b z) eqn:U; [|discriminate]. inversion H; subst.
      apply wf_bytesb_cons. split; [|apply IH; reflexivity].
      unfold WU8b in U. apply andb_true_iff in U. destruct U as [U1 U2]. apply Z.leb_le in U1. apply Z.ltb_lt in U2. lia.
  Qed.

  Lemma status_parse_typed s n : w_status_parse T s = Some n ->
    match w_status_parse T (w_status_emit T n) with Some n' => Z.eqb n n' | None => false end = true.
  Proof.
    unfold w_status_parse at 1. destruct (w_assoc_str s (w_st_from_str T)) as [v|] eqn:E; [|discriminate].
    intros Hv. apply assoc_str_In in E. unfold status_table_okb in HT. rewrite forallb_forall in HT.
    specialize (HT (s, v) E). simpl in HT. rewrite Hv in HT. exact HT.
  Qed.

  Definition QK (k : w_kind) : Prop := forall j v, w_dec_kind T k j = Some v -> w_typed_kindb T k v = true.
  Definition QM (m : w_msg) : Prop := forall j mv, w_dec_msg T m j = Some mv -> w_typed_msgb T m mv = true.
  Definition QF (fs : w_fields) : Prop :=
    (forall o vs, w_dec_fields T fs o = Some vs -> w_typed_fieldsb T fs vs = true) /\
    (forall l vs, w_dec_fields_seq T fs l = Some vs -> w_typed_fieldsb T fs vs = true).
  Definition QMs (ms : w_msgs) : Prop :=
    forall j i0, match w_dec_first T ms j i0 with
                 | WMVOneofNone => True
                 | WMVOneof i mv => exists n, i = (i0 + n)%nat /\ w_typed_variantb T ms n mv = true
                 | WMVStruct _ => False
                 end.

  Lemma dec_typed_all : (forall k, QK k) /\ (forall m, QM m) /\ (forall fs, QF fs) /\ (forall ms, QMs ms).
  Proof.
    apply spec_mutind; unfold QK, QM, QF, QMs.
    - intros j v H. simpl in H. destruct j; try discriminate. destruct (w_hex_decode s) as [b|] eqn:E; [|discriminate].
      inversion H; subst. simpl. apply (hex_decode_wf s b E).
    - intros j v H. simpl in H. destruct j; try discriminate. unfold w_behex_decode in H.
      destruct (w_hex_decode s) as [b|] eqn:E; [|discriminate]. inversion H; subst. simpl.
      rewrite wf_bytesb_rev. apply (hex_decode_wf s b E).
    - intros j v H. simpl in H. destruct j; try discriminate. destruct (w_dec_hex_list l) as [bs|] eqn:E; [|discriminate].
      inversion H; subst. simpl. apply (dec_hex_list_wf l bs E).
    - intros j v H. simpl in H. destruct j; try discriminate. destruct (w_status_parse T s) as [n|] eqn:E; [|discriminate].
      inversion H; subst. simpl. apply (status_parse_typed s n E).
    - intros j v H. simpl in H. destruct j; try discriminate. destruct (WU32b z) eqn:E; [|discriminate].
      inversion H; subst. exact E.
    - intros j v H. simpl in H. destruct j; try discriminate. destruct (WU8b z) eqn:E; [|discriminate].
      inversion H; subst. exact E.
    - intros j v H. simpl in H. destruct j; try discriminate. inversion H; subst. reflexivity.
    - intros j v H. simpl in H. destruct j; try discriminate. destruct (w_dec_u8_list l) as [b|] eqn:E; [|discriminate].
      inversion H; subst. simpl. apply (dec_u8_list_wf l b E).
    - intros m IH j v H. simpl in H.
      destruct j; try (inversion H; subst; reflexivity);
        match type of H with context [w_dec_msg T m ?J] => destruct (w_dec_msg T m J) as [mv|] eqn:E; [|discriminate] end;
        inversion H; subst; simpl; apply (IH _ _ E).
    - intros fs [IH1 IH2] j mv H. simpl in H. destruct j; try discriminate.
      + destruct (w_dec_fields_seq T fs l) as [vs|] eqn:E; [|discriminate]. inversion H; subst. simpl. apply (IH2 _ _ E).
      + destruct (w_dec_fields T fs l) as [vs|] eqn:E; [|discriminate]. inversion H; subst. simpl. apply (IH1 _ _ E).
    - intros ms IH j mv H. simpl in H. destruct j; try discriminate. inversion H; subst.
      specialize (IH (JObj l) 0%nat). destruct (w_dec_first T ms (JObj l) 0); simpl; [contradiction | reflexivity |].
      destruct IH as [n [E Ty]]. simpl in E. subst. exact Ty.
    - split; [intros o vs H | intros l vs H]; simpl in H.
      + inversion H. reflexivity.
      + destruct l; [inversion H; reflexivity | discriminate].
    - intros name k IHk r [IHr1 IHr2]. split.
      + intros o vs H. simpl in H.
        match type of H with match ?X with _ => _ end = _ => destruct X as [v|] eqn:Ev; [|discriminate] end.
        destruct (w_dec_fields T r o) as [vr|] eqn:Er; [|discriminate]. inversion H; subst. simpl.
        rewrite (IHr1 _ _ Er), andb_true_r.
        destruct (w_find_all name o) as [|j [|j2 rest]]; try discriminate.
        * destruct (w_is_optional k) eqn:Eo; [|discriminate]. inversion Ev; subst.
          destruct k; try discriminate. reflexivity.
        * apply (IHk _ _ Ev).
      + intros l vs H. simpl in H. destruct l as [|j l']; [discriminate|].
        destruct (w_dec_kind T k j) as [v|] eqn:Ev; [|discriminate].
        destruct (w_dec_fields_seq T r l') as [vr|] eqn:Er; [|discriminate]. inversion H; subst. simpl.
        rewrite (IHk _ _ Ev), (IHr2 _ _ Er). reflexivity.
    - intros j i0. simpl. exact I.
    - intros m IHm r IHr j i0. simpl. destruct (w_dec_msg T m j) as [mv|] eqn:E.
      + exists 0%nat. split; [lia | simpl; apply (IHm _ _ E)].
      + specialize (IHr j (S i0)). destruct (w_dec_first T r j (S i0)); auto.
        destruct IHr as [n [E1 Ty]]. exists (S n). split; [lia | exact Ty].
  Qed.

  Theorem dec_msg_typed m j mv : w_dec_msg T m j = Some mv -> w_typed_msgb T m mv = true.
  Proof. destruct dec_typed_all as [_ [H _]]. apply H. Qed.

  (* parse ; serialise ; parse = parse *)
  Theorem reser_stable m j mv :
    w_wf_msgb m = true -> w_dec_msg T m j = Some mv -> w_dec_msg T m (w_enc_msg T m mv) = Some mv.
  Proof. intros W H. apply msg_roundtrip; [exact W | apply (dec_msg_typed m j mv H)]. Qed.
End Typed.

(* ------------------------------------------------------------------------------------------ *)
(* sizes of printed JSON                                                                      *)
(* ------------------------------------------------------------------------------------------ *)
Lemma dec_aux_length_ge fuel n acc : (length acc <= length (w_dec_aux fuel n acc))%nat.
Proof.
  revert n acc. induction fuel as [|f IH]; intros n acc; simpl; [lia|].
  destruct (n / 10 =? 0); simpl; [lia|]. specialize (IH (n / 10) ((48 + n mod 10) :: acc)). simpl in IH. lia.
Qed.

Lemma dec_aux_length_le fuel : forall k n acc, (1 <= k)%nat -> n < 10 ^ N.of_nat k ->
  (length (w_dec_aux fuel n acc) <= length acc + k)%nat.
Proof.
  induction fuel as [|f IH]; intros k n acc Hk Hn; simpl; [lia|].
  destruct (n / 10 =? 0) eqn:E; simpl; [lia|].
  apply N.eqb_neq in E.
  assert (10 <= n) as Hn10. { destruct (N.le_gt_cases 10 n); auto. exfalso. apply E. apply N.div_small. assumption. }
  destruct k as [|[|k']]; [lia | simpl in Hn; lia |].
  specialize (IH (S k') (n / 10) ((48 + n mod 10) :: acc)). simpl length in IH.
  assert (n / 10 < 10 ^ N.of_nat (S k')) as Hd.
  { apply N.div_lt_upper_bound; [lia|].
    replace (N.of_nat (S (S k'))) with (N.succ (N.of_nat (S k'))) in Hn by lia.
    rewrite N.pow_succ_r' in Hn. exact Hn. }
  specialize (IH ltac:(lia) Hd). lia.
Qed.

Lemma dec_of_Z_length_u32 z : WU32b z = true -> (1 <= length (w_dec_of_Z z) <= 10)%nat.
Proof.
  intros U. unfold WU32b in U. apply andb_true_iff in U. destruct U as [U1 U2].
  apply Z.leb_le in U1. apply Z.ltb_lt in U2.
  assert (w_dec_of_Z z = w_dec_of_N (Z.to_N z)) as E by (destruct z; try reflexivity; lia).
  rewrite E. unfold w_dec_of_N. split.
  - simpl. destruct (Z.to_N z / 10 =? 0); simpl; [lia|].
    pose proof (dec_aux_length_ge (N.size_nat (Z.to_N z)) (Z.to_N z / 10) [48 + Z.to_N z mod 10]). simpl in H. lia.
  - pose proof (dec_aux_length_le (S (N.size_nat (Z.to_N z))) 10 (Z.to_N z) [] ltac:(lia)) as H. simpl length in H.
    apply H. change (10 ^ N.of_nat 10) with 10000000000. lia.
Qed.

Definition plain_charb (c : N) : bool := (32 <=? c) && negb (c =? 34) && negb (c =? 92).

Lemma esc_plain s : forallb plain_charb s = true -> flat_map w_esc_byte s = s.
Proof.
  induction s as [|c s IH]; simpl; intros H; [reflexivity|].
  apply andb_true_iff in H. destruct H as [Hc Hs]. rewrite (IH Hs).
  unfold plain_charb in Hc. apply andb_true_iff in Hc. destruct Hc as [Hc H92].
  apply andb_true_iff in Hc. destruct Hc as [H32 H34].
  apply N.leb_le in H32. apply negb_true_iff in H34, H92. apply N.eqb_neq in H34, H92.
  unfold w_esc_byte.
  repeat match goal with |- context [?a =? ?b] => let E := fresh in destruct (N.eqb_spec a b) as [E|E]; [exfalso; lia|] end.
  destruct (N.ltb_spec c 32); [lia|]. reflexivity.
Qed.

Lemma json_str_length s : length (w_json_str s) = (2 + length (flat_map w_esc_byte s))%nat.
Proof. unfold w_json_str. simpl. rewrite app_length. simpl. lia. Qed.

(* escaping never shortens a string *)
Lemma esc_length_ge s : (length s <= length (flat_map w_esc_byte s))%nat.
Proof.
  induction s as [|c s IH]; simpl; [lia|]. rewrite app_length.
  assert (1 <= length (w_esc_byte c))%nat.
  { unfold w_esc_byte. repeat match goal with |- context [if ?b then _ else _] => destruct b end; simpl; lia. }
  lia.
Qed.
