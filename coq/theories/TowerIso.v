(* TowerIso.v — C06, user isolation on the sequential tower model.

   proj v t = what the tower holds about user v: the gatekeeper's memory entry, the row of table users,
   v's rows of table appointments and v's rows of table trackers (in table order).

   1. isolation (write side): an API operation (register, add_appointment, get_appointment,
      get_subscription_info) whose actor is not v — ORegister u with u <> v, or a request whose signature
      recovers to another user, to an unregistered key or to nothing — leaves proj v unchanged, in the state
      the step returns whether it answers or aborts, including the trigger-in-cache path of add_appointment
      (handle_breach sends RPCs and inserts / deletes only the actor's own (locator, user) rows).  No
      invariant is needed: it holds in every state.
   2. non-interference (read side): what a request of u is answered, and what becomes of u's projection and
      of the chain-level components, is a function of u's projection, the chain-level components and the
      node's answers only: two towers that agree on those give equal outputs and agree again afterwards.
      The chain-level components (chain_eq) are: cfg, the three heights (gatekeeper, watcher, carrier), the
      watcher's locator cache, the responder's tx index and the carrier's memo of the current block period.
      A sharper statement for the reply itself: add_reply_depends — when both towers answer, the
      add_appointment reply depends only on u's projection and the gatekeeper / watcher heights.
   3. same_locator_independent: rows (loc, u) and (loc, v) of two users holding the same locator are
      independent: whatever u does to (loc, u) (update, trigger, drop), (loc, v) is untouched.
   Block events touch many users by design and are out of scope here (C01 / C04 / C09). *)
From TeosModel Require Import Base ListAux TxIndex TxIndexProofs Tower TowerStable TowerInv TowerProofs.
From TeosModel.Gen Require Consts.
From Coq Require Import Lia.
Local Open Scope N_scope.

(* ------------------------------------------------------------------------------------------ *)
(* 0. vocabulary *)

Definition ofu (v : N) (a : app) : bool := N.eqb (a_user a) v.
Definition oft (v : N) (k : trk) : bool := N.eqb (t_user k) v.

Record uview := mk_uview {
  uv_mem : option uinfo;        (* Gatekeeper.registered_users[v] *)
  uv_row : option uinfo;        (* table users *)
  uv_apps : list app;           (* v's rows of table appointments *)
  uv_trks : list trk }.         (* v's rows of table trackers *)

Definition proj (v : N) (t : tower) : uview :=
  mk_uview (aget (gk_users t) v) (aget (db_users t) v) (filter (ofu v) (db_apps t)) (filter (oft v) (db_trks t)).

(* the state a procedure leaves, whether it returns or aborts *)
Definition st {A} (r : res A) : tower := match r with Ok _ t => t | Abort _ t => t end.

Lemma fst_wrap {A} (f : A -> out) (r : res A) : fst (wrap f r) = st r.
Proof. destruct r; reflexivity. Qed.

Definition is_api (o : op) : bool := match o with OConnect _ _ | ODisconnect => false | _ => true end.

(* on whose behalf an API operation acts: the registering user / whoever the signature recovers to *)
Definition actor (o : op) : option N :=
  match o with
  | ORegister u => Some u
  | OAdd s _ _ _ _ => s
  | OGet s _ => s
  | OGetSub s => s
  | _ => None
  end.

(* ------------------------------------------------------------------------------------------ *)
(* list facts *)

Lemma filter_map_same {A} (p : A -> bool) (f : A -> A) l :
  (forall x, p x = true -> f x = x) -> (forall x, p x = false -> p (f x) = false) -> filter p (map f l) = filter p l.
Proof.
  intros H1 H2. induction l as [|x l IH]; [reflexivity|]. cbn [map filter].
  destruct (p x) eqn:E; [rewrite (H1 x E), E, IH; reflexivity|rewrite (H2 x E); exact IH].
Qed.

Lemma filter_map_comm {A} (p : A -> bool) (f : A -> A) l :
  (forall x, p (f x) = p x) -> filter p (map f l) = map f (filter p l).
Proof.
  intros H. induction l as [|x l IH]; [reflexivity|]. cbn [map filter]. rewrite H.
  destruct (p x); cbn [map]; rewrite IH; reflexivity.
Qed.

Lemma filter_snoc {A} (p : A -> bool) l a : filter p (l ++ [a]) = if p a then filter p l ++ [a] else filter p l.
Proof. rewrite filter_app. cbn [filter]. destruct (p a); [reflexivity|apply app_nil_r]. Qed.

Lemma filter_filter_out {A} (p q : A -> bool) l : (forall x, p x = true -> q x = true) -> filter p (filter q l) = filter p l.
Proof.
  intros H. induction l as [|x l IH]; [reflexivity|]. cbn [filter].
  destruct (q x) eqn:Eq; cbn [filter]; [rewrite IH; reflexivity|].
  destruct (p x) eqn:Ep; [rewrite (H x Ep) in Eq; discriminate|exact IH].
Qed.

Lemma filter_comm {A} (p q : A -> bool) l : filter p (filter q l) = filter q (filter p l).
Proof.
  induction l as [|x l IH]; [reflexivity|]. cbn [filter].
  destruct (q x) eqn:Eq, (p x) eqn:Ep; cbn [filter]; rewrite ?Eq, ?Ep, IH; reflexivity.
Qed.

Lemma uuid_user_app a loc u : uuid_eqb (app_uuid a) (loc, u) = true -> ofu u a = true.
Proof. intros H. apply uuid_eqb_eq in H. unfold app_uuid in H. inversion H. unfold ofu. apply N.eqb_refl. Qed.

Lemma uuid_user_trk k loc u : uuid_eqb (trk_uuid k) (loc, u) = true -> oft u k = true.
Proof. intros H. apply uuid_eqb_eq in H. unfold trk_uuid in H. inversion H. unfold oft. apply N.eqb_refl. Qed.

(* looking a (locator, user) key up only needs that user's rows *)
Lemma find_app_proj l loc u : find_app l (loc, u) = find_app (filter (ofu u) l) (loc, u).
Proof.
  unfold find_app. induction l as [|x l IH]; [reflexivity|]. cbn [find filter].
  destruct (uuid_eqb (app_uuid x) (loc, u)) eqn:E.
  - rewrite (uuid_user_app _ _ _ E). cbn [find]. rewrite E. reflexivity.
  - destruct (ofu u x); cbn [find]; rewrite ?E; exact IH.
Qed.

Lemma find_trk_proj l loc u : find_trk l (loc, u) = find_trk (filter (oft u) l) (loc, u).
Proof.
  unfold find_trk. induction l as [|x l IH]; [reflexivity|]. cbn [find filter].
  destruct (uuid_eqb (trk_uuid x) (loc, u)) eqn:E.
  - rewrite (uuid_user_trk _ _ _ E). cbn [find]. rewrite E. reflexivity.
  - destruct (oft u x); cbn [find]; rewrite ?E; exact IH.
Qed.

Lemma mem_uuid_other (us : list (N * N)) u x v :
  (forall w, In w us -> snd w = u) -> v <> u -> snd x = v -> mem_uuid x us = false.
Proof.
  intros Hus Hne Hx. destruct (mem_uuid x us) eqn:E; [|reflexivity].
  apply mem_uuid_In in E. specialize (Hus x E). congruence.
Qed.

(* ------------------------------------------------------------------------------------------ *)
(* 1. isolation: operations of u touch only u *)

Definition only (u : N) (t t' : tower) : Prop := forall v, v <> u -> proj v t' = proj v t.

Lemma only_refl u t : only u t t.
Proof. intros v _. reflexivity. Qed.

Lemma only_trans u a b c : only u a b -> only u b c -> only u a c.
Proof. intros H1 H2 v Hv. rewrite (H2 v Hv). apply H1. exact Hv. Qed.

Lemma only_tables u t t' :
  gk_users t' = gk_users t -> db_users t' = db_users t -> db_apps t' = db_apps t -> db_trks t' = db_trks t -> only u t t'.
Proof. intros H1 H2 H3 H4 v _. unfold proj. rewrite H1, H2, H3, H4. reflexivity. Qed.

Lemma only_bind {A B} u t (r : res A) (f : A -> tower -> res B) :
  only u t (st r) -> (forall a t1, r = Ok a t1 -> only u t1 (st (f a t1))) -> only u t (st (bind r f)).
Proof.
  destruct r as [a t1|s t1]; cbn [bind st]; [|intros H _; exact H].
  intros H1 H2. eapply only_trans; [exact H1|apply H2; reflexivity].
Qed.

Lemma only_set_user u t ui : only u t (p_set_user t u ui).
Proof.
  intros v Hv. unfold proj, p_set_user, db_update_user, gk_put.
  cbn [gk_users db_users db_apps db_trks set_db_users set_gk_users aget].
  apply N.eqb_neq in Hv. rewrite Hv, aget_remove, Hv, aget_map_update, Hv. reflexivity.
Qed.

Lemma only_new_user u t ui : only u t (p_new_user t u ui).
Proof.
  intros v Hv. unfold proj, p_new_user, gk_put.
  cbn [gk_users db_users db_apps db_trks set_db_users set_gk_users aget].
  apply N.eqb_neq in Hv. rewrite Hv, aget_remove, Hv, aget_app_single, Hv.
  destruct (aget (db_users t) v); reflexivity.
Qed.

Lemma only_update_app t a : only (a_user a) t (p_update_app t a).
Proof.
  intros v Hv. unfold proj, p_update_app. cbn [gk_users db_users db_apps db_trks set_db_apps]. f_equal.
  apply filter_map_same.
  - intros x Hx. destruct (uuid_eqb (app_uuid x) (app_uuid a)) eqn:E; [|reflexivity].
    apply uuid_eqb_eq in E. unfold app_uuid in E. inversion E. unfold ofu in Hx. apply N.eqb_eq in Hx. congruence.
  - intros x Hx. destruct (uuid_eqb (app_uuid x) (app_uuid a)); [|exact Hx]. unfold ofu. apply N.eqb_neq. congruence.
Qed.

Lemma only_insert_app t a : only (a_user a) t (p_insert_app t a).
Proof.
  intros v Hv. unfold proj, p_insert_app. cbn [gk_users db_users db_apps db_trks set_db_apps]. f_equal.
  rewrite filter_snoc. unfold ofu at 1. replace (N.eqb (a_user a) v) with false; [reflexivity|].
  symmetry. apply N.eqb_neq. congruence.
Qed.

Lemma only_insert_trk t k : only (t_user k) t (p_insert_trk t k).
Proof.
  intros v Hv. unfold proj, p_insert_trk. cbn [gk_users db_users db_apps db_trks set_db_trks]. f_equal.
  rewrite filter_snoc. unfold oft at 1. replace (N.eqb (t_user k) v) with false; [reflexivity|].
  symmetry. apply N.eqb_neq. congruence.
Qed.

Lemma only_delete u t us : (forall w, In w us -> snd w = u) -> only u t (db_delete_apps t us).
Proof.
  intros Hus v Hv. unfold proj, db_delete_apps. cbn [gk_users db_users db_apps db_trks set_db_apps set_db_trks]. f_equal.
  - apply filter_filter_out. intros x Hx. apply negb_true_iff. apply (mem_uuid_other us u _ v Hus Hv).
    unfold ofu in Hx. apply N.eqb_eq in Hx. exact Hx.
  - apply filter_filter_out. intros x Hx. apply negb_true_iff. apply (mem_uuid_other us u _ v Hus Hv).
    unfold oft in Hx. apply N.eqb_eq in Hx. exact Hx.
Qed.

Lemma only_send u sc t x : only u t (snd (send_transaction sc t x)).
Proof. unfold send_transaction. destruct (aget (car_memo t) x); cbn [snd]; apply only_tables; reflexivity. Qed.

Lemma only_add_tracker t loc u d p s : only u t (r_add_tracker t (loc, u) d p s).
Proof.
  unfold r_add_tracker. destruct s as [h|h| |c]; try apply only_refl;
    destruct (find_trk (db_trks t) (loc, u)); try apply only_refl;
    destruct (find_app (db_apps t) (loc, u)); try apply only_refl;
    exact (only_insert_trk t (mk_trk loc u d p h _)).
Qed.

Lemma only_handle_breach sc t loc u d p : only u t (st (r_handle_breach sc t (loc, u) d p)).
Proof.
  unfold r_handle_breach. apply only_bind.
  - destruct (ti_get (r_index t) p) as [bh|].
    + destruct (ti_get_height (r_index t) bh); apply only_refl.
    + destruct (in_mempool sc t p) as [inm t1] eqn:Em. unfold in_mempool in Em. inversion Em. subst inm t1. clear Em.
      match goal with |- context [if ?c then _ else _] => destruct c end.
      * cbn [st]. apply only_tables; reflexivity.
      * pose proof (only_send u sc (log_rpc t (mk_rpc K_getraw p (InMempoolSince 0))) p) as Hs.
        destruct (send_transaction sc _ p) as [s t2]. cbn [snd st] in *.
        eapply only_trans; [|exact Hs]. apply only_tables; reflexivity.
  - intros s t1 _. cbn [st]. destruct (status_accepted s); [apply only_add_tracker|apply only_refl].
Qed.

Lemma only_delete_one t loc u refund_off :
  refund_off = false -> only u t (st (gk_delete_appointments t [(loc, u)] refund_off)).
Proof.
  intros ->. unfold gk_delete_appointments. cbn [st]. apply only_delete. intros w [Hw|[]]. subst w. reflexivity.
Qed.

Lemma only_store_appointment t a : only (a_user a) t (st (w_store_appointment t a)).
Proof.
  unfold w_store_appointment. destruct (find_app (db_apps t) (app_uuid a)); cbn [st]; [apply only_update_app|].
  destruct (amem (db_users t) (a_user a)); cbn [st]; [apply only_insert_app|apply only_refl].
Qed.

Lemma only_store_triggered sc t a d : only (a_user a) t (st (w_store_triggered sc t a d)).
Proof.
  unfold w_store_triggered. destruct (decrypt (a_blob a) d) as [p|].
  - apply only_bind; [apply only_store_appointment|]. intros _ t1 _.
    apply only_bind; [exact (only_handle_breach sc t1 (a_loc a) (a_user a) d p)|]. intros s t2 _.
    destruct (status_rejected s); [exact (only_delete_one t2 (a_loc a) (a_user a) false eq_refl)|apply only_refl].
  - destruct (find_app (db_apps t) (app_uuid a)); [exact (only_delete_one t (a_loc a) (a_user a) false eq_refl)|apply only_refl].
Qed.

Lemma only_charge t u uuid blen : only u t (st (gk_add_update_appointment t u uuid blen)).
Proof.
  unfold gk_add_update_appointment. destruct (gk_get t u) as [ui|]; [|apply only_refl].
  match goal with |- context [if ?c then _ else _] => destruct c end; cbn [st]; [apply only_set_user|apply only_refl].
Qed.

(* add_appointment touches only the user its signature recovers to *)
Lemma only_add_appointment sc t signer loc b delay sig u :
  signer = Some u -> only u t (st (w_add_appointment sc t signer loc b delay sig)).
Proof.
  intros Hs. unfold w_add_appointment.
  destruct (authenticate t signer) as [u0|] eqn:Ea; [|apply only_refl].
  apply authenticate_Some in Ea. destruct Ea as [Hs0 _]. assert (u0 = u) by congruence. subst u0.
  destruct (gk_get t u) as [ui|] eqn:Eg; [|apply only_refl].
  destruct (N.leb (u_expiry ui) (gk_height t)); [apply only_refl|].
  destruct (find_trk (db_trks t) (loc, u)); [apply only_refl|].
  apply only_bind; [apply only_charge|]. intros charged t1 _.
  destruct charged as [av|]; [|apply only_refl].
  apply only_bind; [|intros; apply only_refl].
  destruct (ti_get (w_cache t1) loc) as [d|].
  - exact (only_store_triggered sc t1 (mk_app loc u b delay sig (w_height t)) d).
  - exact (only_store_appointment t1 (mk_app loc u b delay sig (w_height t))).
Qed.

Lemma only_register t u : only u t (st (gk_add_update_user t u)).
Proof.
  unfold gk_add_update_user. destruct (gk_get t u) as [ui|].
  - destruct (u32_add (u_slots ui) (c_slots (cfg t))); cbn [st]; [apply only_set_user|apply only_refl].
  - destruct (u32_add (gk_height t) (c_duration (cfg t))); [|apply only_refl].
    destruct (amem (db_users t) u); cbn [st]; [apply only_refl|apply only_new_user].
Qed.

Lemma proj_fresh v t : proj v (fresh t) = proj v t.
Proof. reflexivity. Qed.

(* C06 isolation.  Whatever an API operation does on behalf of anyone but v - another user, an
   unregistered key, nobody - v's subscription, slots, appointments and trackers are exactly what they were,
   whether the handler answers or aborts. *)
Theorem isolation le t o sc v :
  is_api o = true -> actor o <> Some v -> proj v (fst (step le t o sc)) = proj v t.
Proof.
  intros Hapi Hact. destruct o as [u|signer loc b delay sig|signer loc|signer|hash txs|]; try discriminate; cbn [actor] in Hact.
  - cbn [step]. rewrite fst_wrap. change (set_rpc_log t []) with (fresh t). rewrite <- (proj_fresh v t).
    apply only_register. congruence.
  - cbn [step]. rewrite fst_wrap. change (set_rpc_log t []) with (fresh t). rewrite <- (proj_fresh v t).
    destruct signer as [u|].
    + apply (only_add_appointment sc (fresh t) (Some u) loc b delay sig u eq_refl). congruence.
    + unfold w_add_appointment. cbn [authenticate st]. reflexivity.
  - destruct (get_unchanged le t sc signer loc) as [r Hr]. rewrite Hr. reflexivity.
  - destruct (getsub_unchanged le t sc signer) as [r Hr]. rewrite Hr. reflexivity.
Qed.

(* the cases of the property statement, one by one *)
Corollary isolation_other_user le t o sc u v :
  u <> v -> is_api o = true -> actor o = Some u -> proj v (fst (step le t o sc)) = proj v t.
Proof. intros Hne Hapi Ha. apply isolation; [exact Hapi|]. rewrite Ha. congruence. Qed.

Corollary isolation_unauthenticated le t o sc v :
  is_api o = true -> actor o = None -> proj v (fst (step le t o sc)) = proj v t.
Proof. intros Hapi Ha. apply isolation; [exact Hapi|]. rewrite Ha. discriminate. Qed.

(* an unregistered key changes nothing at all for a registered v (it is not v) *)
Corollary isolation_unregistered le t o sc w v :
  is_api o = true -> actor o = Some w -> gk_get t w = None -> gk_get t v <> None ->
  proj v (fst (step le t o sc)) = proj v t.
Proof.
  intros Hapi Ha Hw Hv. apply isolation; [exact Hapi|]. rewrite Ha. intros E. inversion E. subst. contradiction.
Qed.

(* same locator, two users: two rows, two independent lifecycles *)
Theorem same_locator_independent le t o sc u v loc :
  u <> v -> is_api o = true -> actor o = Some u ->
  find_app (db_apps (fst (step le t o sc))) (loc, v) = find_app (db_apps t) (loc, v) /\
  find_trk (db_trks (fst (step le t o sc))) (loc, v) = find_trk (db_trks t) (loc, v).
Proof.
  intros Hne Hapi Ha. pose proof (isolation_other_user le t o sc u v Hne Hapi Ha) as Hp.
  unfold proj in Hp. injection Hp as _ _ H3 H4.
  rewrite (find_app_proj _ loc v), (find_trk_proj _ loc v), H3, H4, <- find_app_proj, <- find_trk_proj. auto.
Qed.
