(* TowerIso.v — C06, user isolation on the sequential tower model.

   proj v t = what the tower holds about user v: the gatekeeper's memory entry, the row of table users,
   v's rows of table appointments and v's rows of table trackers (in table order).

   1. isolation (write side): an API operation (register, add_appointment, get_appointment,
      get_subscription_info) whose actor is not v — ORegister u with u <> v, or a request whose signature
      recovers to another user, to an unregistered key or to nothing — leaves proj v unchanged, in the state
      the step returns whether it answers or aborts, including the trigger-in-cache path of add_appointment
      (handle_breach sends RPCs and inserts / deletes only the actor's own (locator, user) rows).  No
      invariant is needed: it holds in every state.
   2. non-interference (read side): what a request of u is answered, and what becomes of u's projection and
      of the chain-level components, is a function of u's projection, the chain-level components and the
      node's answers only: two towers that agree on those give equal outputs and agree again afterwards.
      The chain-level components (chain_eq) are: cfg, the three heights (gatekeeper, watcher, carrier), the
      watcher's locator cache, the responder's tx index and the carrier's memo of the current block period.
      A sharper statement for the reply itself: add_reply_depends — when both towers answer, the
      add_appointment reply depends only on u's projection and the gatekeeper / watcher heights.
   3. same_locator_independent: rows (loc, u) and (loc, v) of two users holding the same locator are
      independent: whatever u does to (loc, u) (update, trigger, drop), (loc, v) is untouched.
   Block events touch many users by design and are out of scope here (C01 / C04 / C09). *)
From TeosModel Require Import Base ListAux TxIndex TxIndexProofs Tower TowerStable TowerInv TowerProofs.
From TeosModel.Gen Require Consts.
From Coq Require Import Lia.
Local Open Scope N_scope.

(* ------------------------------------------------------------------------------------------ *)
(* 0. vocabulary *)

Definition ofu (v : N) (a : app) : bool := N.eqb (a_user a) v.
Definition oft (v : N) (k : trk) : bool := N.eqb (t_user k) v.

Record uview := mk_uview {
  uv_mem : option uinfo;        (* Gatekeeper.registered_users[v] *)
  uv_row : option uinfo;        (* table users *)
  uv_apps : list app;           (* v's rows of table appointments *)
  uv_trks : list trk }.         (* v's rows of table trackers *)

Definition proj (v : N) (t : tower) : uview :=
  mk_uview (aget (gk_users t) v) (aget (db_users t) v) (filter (ofu v) (db_apps t)) (filter (oft v) (db_trks t)).

(* the state a procedure leaves, whether it returns or aborts *)
Definition st {A} (r : res A) : tower := match r with Ok _ t => t | Abort _ t => t end.

Lemma fst_wrap {A} (f : A -> out) (r : res A) : fst (wrap f r) = st r.
Proof. destruct r; reflexivity. Qed.

Definition is_api (o : op) : bool := match o with OConnect _ _ | ODisconnect => false | _ => true end.

(* on whose behalf an API operation acts: the registering user / whoever the signature recovers to *)
Definition actor (o : op) : option N :=
  match o with
  | ORegister u => Some u
  | OAdd s _ _ _ _ => s
  | OGet s _ => s
  | OGetSub s => s
  | _ => None
  end.

(* ------------------------------------------------------------------------------------------ *)
(* list facts *)

Lemma filter_map_same {A} (p : A -> bool) (f : A -> A) l :
  (forall x, p x = true -> f x = x) -> (forall x, p x = false -> p (f x) = false) -> filter p (map f l) = filter p l.
Proof.
  intros H1 H2. induction l as [|x l IH]; [reflexivity|]. cbn [map filter].
  destruct (p x) eqn:E; [rewrite (H1 x E), E, IH; reflexivity|rewrite (H2 x E); exact IH].
Qed.

Lemma filter_map_comm {A} (p : A -> bool) (f : A -> A) l :
  (forall x, p (f x) = p x) -> filter p (map f l) = map f (filter p l).
Proof.
  intros H. induction l as [|x l IH]; [reflexivity|]. cbn [map filter]. rewrite H.
  destruct (p x); cbn [map]; rewrite IH; reflexivity.
Qed.

Lemma filter_snoc {A} (p : A -> bool) l a : filter p (l ++ [a]) = if p a then filter p l ++ [a] else filter p l.
Proof. rewrite filter_app. cbn [filter]. destruct (p a); [reflexivity|apply app_nil_r]. Qed.

Lemma filter_filter_out {A} (p q : A -> bool) l : (forall x, p x = true -> q x = true) -> filter p (filter q l) = filter p l.
Proof.
  intros H. induction l as [|x l IH]; [reflexivity|]. cbn [filter].
  destruct (q x) eqn:Eq; cbn [filter]; [rewrite IH; reflexivity|].
  destruct (p x) eqn:Ep; [rewrite (H x Ep) in Eq; discriminate|exact IH].
Qed.

Lemma filter_comm {A} (p q : A -> bool) l : filter p (filter q l) = filter q (filter p l).
Proof.
  induction l as [|x l IH]; [reflexivity|]. cbn [filter].
  destruct (q x) eqn:Eq, (p x) eqn:Ep; cbn [filter]; rewrite ?Eq, ?Ep, IH; reflexivity.
Qed.

Lemma uuid_user_app a loc u : uuid_eqb (app_uuid a) (loc, u) = true -> ofu u a = true.
Proof. intros H. apply uuid_eqb_eq in H. unfold app_uuid in H. inversion H. unfold ofu. apply N.eqb_refl. Qed.

Lemma uuid_user_trk k loc u : uuid_eqb (trk_uuid k) (loc, u) = true -> oft u k = true.
Proof. intros H. apply uuid_eqb_eq in H. unfold trk_uuid in H. inversion H. unfold oft. apply N.eqb_refl. Qed.

(* looking a (locator, user) key up only needs that user's rows *)
Lemma find_app_proj l loc u : find_app l (loc, u) = find_app (filter (ofu u) l) (loc, u).
Proof.
  unfold find_app. induction l as [|x l IH]; [reflexivity|]. cbn [find filter].
  destruct (uuid_eqb (app_uuid x) (loc, u)) eqn:E.
  - rewrite (uuid_user_app _ _ _ E). cbn [find]. rewrite E. reflexivity.
  - destruct (ofu u x); cbn [find]; rewrite ?E; exact IH.
Qed.

Lemma find_trk_proj l loc u : find_trk l (loc, u) = find_trk (filter (oft u) l) (loc, u).
Proof.
  unfold find_trk. induction l as [|x l IH]; [reflexivity|]. cbn [find filter].
  destruct (uuid_eqb (trk_uuid x) (loc, u)) eqn:E.
  - rewrite (uuid_user_trk _ _ _ E). cbn [find]. rewrite E. reflexivity.
  - destruct (oft u x); cbn [find]; rewrite ?E; exact IH.
Qed.

Lemma mem_uuid_other (us : list (N * N)) u x v :
  (forall w, In w us -> snd w = u) -> v <> u -> snd x = v -> mem_uuid x us = false.
Proof.
  intros Hus Hne Hx. destruct (mem_uuid x us) eqn:E; [|reflexivity].
  apply mem_uuid_In in E. specialize (Hus x E). congruence.
Qed.

(* ------------------------------------------------------------------------------------------ *)
(* 1. isolation: operations of u touch only u *)

Definition only (u : N) (t t' : tower) : Prop := forall v, v <> u -> proj v t' = proj v t.

Lemma only_refl u t : only u t t.
Proof. intros v _. reflexivity. Qed.

Lemma only_trans u a b c : only u a b -> only u b c -> only u a c.
Proof. intros H1 H2 v Hv. rewrite (H2 v Hv). apply H1. exact Hv. Qed.

Lemma only_tables u t t' :
  gk_users t' = gk_users t -> db_users t' = db_users t -> db_apps t' = db_apps t -> db_trks t' = db_trks t -> only u t t'.
Proof. intros H1 H2 H3 H4 v _. unfold proj. rewrite H1, H2, H3, H4. reflexivity. Qed.

Lemma only_bind {A B} u t (r : res A) (f : A -> tower -> res B) :
  only u t (st r) -> (forall a t1, r = Ok a t1 -> only u t1 (st (f a t1))) -> only u t (st (bind r f)).
Proof.
  destruct r as [a t1|s t1]; cbn [bind st]; [|intros H _; exact H].
  intros H1 H2. eapply only_trans; [exact H1|apply H2; reflexivity].
Qed.

Lemma only_set_user u t ui : only u t (p_set_user t u ui).
Proof.
  intros v Hv. unfold proj, p_set_user, db_update_user, gk_put.
  cbn [gk_users db_users db_apps db_trks set_db_users set_gk_users aget].
  apply N.eqb_neq in Hv. rewrite Hv, aget_remove, Hv, aget_map_update, Hv. reflexivity.
Qed.

Lemma only_new_user u t ui : only u t (p_new_user t u ui).
Proof.
  intros v Hv. unfold proj, p_new_user, gk_put.
  cbn [gk_users db_users db_apps db_trks set_db_users set_gk_users aget].
  apply N.eqb_neq in Hv. rewrite Hv, aget_remove, Hv, aget_app_single, Hv.
  destruct (aget (db_users t) v); reflexivity.
Qed.

Lemma only_update_app t a : only (a_user a) t (p_update_app t a).
Proof.
  intros v Hv. unfold proj, p_update_app. cbn [gk_users db_users db_apps db_trks set_db_apps]. f_equal.
  apply filter_map_same.
  - intros x Hx. destruct (uuid_eqb (app_uuid x) (app_uuid a)) eqn:E; [|reflexivity].
    apply uuid_eqb_eq in E. unfold app_uuid in E. inversion E. unfold ofu in Hx. apply N.eqb_eq in Hx. congruence.
  - intros x Hx. destruct (uuid_eqb (app_uuid x) (app_uuid a)); [|exact Hx]. unfold ofu. apply N.eqb_neq. congruence.
Qed.

Lemma only_insert_app t a : only (a_user a) t (p_insert_app t a).
Proof.
  intros v Hv. unfold proj, p_insert_app. cbn [gk_users db_users db_apps db_trks set_db_apps]. f_equal.
  rewrite filter_snoc. unfold ofu at 1. replace (N.eqb (a_user a) v) with false; [reflexivity|].
  symmetry. apply N.eqb_neq. congruence.
Qed.

Lemma only_insert_trk t k : only (t_user k) t (p_insert_trk t k).
Proof.
  intros v Hv. unfold proj, p_insert_trk. cbn [gk_users db_users db_apps db_trks set_db_trks]. f_equal.
  rewrite filter_snoc. unfold oft at 1. replace (N.eqb (t_user k) v) with false; [reflexivity|].
  symmetry. apply N.eqb_neq. congruence.
Qed.

Lemma only_delete u t us : (forall w, In w us -> snd w = u) -> only u t (db_delete_apps t us).
Proof.
  intros Hus v Hv. unfold proj, db_delete_apps. cbn [gk_users db_users db_apps db_trks set_db_apps set_db_trks]. f_equal.
  - apply filter_filter_out. intros x Hx. apply negb_true_iff. apply (mem_uuid_other us u _ v Hus Hv).
    unfold ofu in Hx. apply N.eqb_eq in Hx. exact Hx.
  - apply filter_filter_out. intros x Hx. apply negb_true_iff. apply (mem_uuid_other us u _ v Hus Hv).
    unfold oft in Hx. apply N.eqb_eq in Hx. exact Hx.
Qed.

Lemma only_send u sc t x : only u t (snd (send_transaction sc t x)).
Proof. unfold send_transaction. destruct (aget (car_memo t) x); cbn [snd]; apply only_tables; reflexivity. Qed.

Lemma only_add_tracker t loc u d p s : only u t (r_add_tracker t (loc, u) d p s).
Proof.
  unfold r_add_tracker. destruct s as [h|h| |c]; try apply only_refl;
    destruct (find_trk (db_trks t) (loc, u)); try apply only_refl;
    destruct (find_app (db_apps t) (loc, u)); try apply only_refl;
    exact (only_insert_trk t (mk_trk loc u d p h _)).
Qed.

Lemma only_handle_breach sc t loc u d p : only u t (st (r_handle_breach sc t (loc, u) d p)).
Proof.
  unfold r_handle_breach. apply only_bind.
  - destruct (ti_get (r_index t) p) as [bh|].
    + destruct (ti_get_height (r_index t) bh); apply only_refl.
    + destruct (in_mempool sc t p) as [inm t1] eqn:Em. unfold in_mempool in Em. inversion Em. subst inm t1. clear Em.
      match goal with |- context [if ?c then _ else _] => destruct c end.
      * cbn [st]. apply only_tables; reflexivity.
      * pose proof (only_send u sc (log_rpc t (mk_rpc K_getraw p (InMempoolSince 0))) p) as Hs.
        destruct (send_transaction sc _ p) as [s t2]. cbn [snd st] in *.
        eapply only_trans; [|exact Hs]. apply only_tables; reflexivity.
  - intros s t1 _. cbn [st]. destruct (status_accepted s); [apply only_add_tracker|apply only_refl].
Qed.

Lemma only_delete_one t loc u refund_off :
  refund_off = false -> only u t (st (gk_delete_appointments t [(loc, u)] refund_off)).
Proof.
  intros ->. unfold gk_delete_appointments. cbn [st]. apply only_delete. intros w [Hw|[]]. subst w. reflexivity.
Qed.

Lemma only_store_appointment t a : only (a_user a) t (st (w_store_appointment t a)).
Proof.
  unfold w_store_appointment. destruct (find_app (db_apps t) (app_uuid a)); cbn [st]; [apply only_update_app|].
  destruct (amem (db_users t) (a_user a)); cbn [st]; [apply only_insert_app|apply only_refl].
Qed.

Lemma only_store_triggered sc t a d : only (a_user a) t (st (w_store_triggered sc t a d)).
Proof.
  unfold w_store_triggered. destruct (decrypt (a_blob a) d) as [p|].
  - destruct (w_store_ok t a); [|apply only_refl].
    apply only_bind; [apply only_store_appointment|]. intros _ t1 _.
    apply only_bind; [exact (only_handle_breach sc t1 (a_loc a) (a_user a) d p)|]. intros s t2 _.
    destruct (status_rejected s); [exact (only_delete_one t2 (a_loc a) (a_user a) false eq_refl)|apply only_refl].
  - destruct (find_app (db_apps t) (app_uuid a)); [exact (only_delete_one t (a_loc a) (a_user a) false eq_refl)|apply only_refl].
Qed.

Lemma only_charge t u uuid blen : only u t (st (gk_add_update_appointment t u uuid blen)).
Proof.
  unfold gk_add_update_appointment. destruct (gk_get t u) as [ui|]; [|apply only_refl].
  match goal with |- context [if ?c then _ else _] => destruct c end; cbn [st]; [apply only_set_user|apply only_refl].
Qed.

(* add_appointment touches only the user its signature recovers to *)
Lemma only_add_appointment sc t signer loc b delay sig u :
  signer = Some u -> only u t (st (w_add_appointment sc t signer loc b delay sig)).
Proof.
  intros Hs. unfold w_add_appointment.
  destruct (authenticate t signer) as [u0|] eqn:Ea; [|apply only_refl].
  apply authenticate_Some in Ea. destruct Ea as [Hs0 _]. assert (u0 = u) by congruence. subst u0.
  destruct (gk_get t u) as [ui|] eqn:Eg; [|apply only_refl].
  destruct (N.leb (u_expiry ui) (gk_height t)); [apply only_refl|].
  destruct (find_trk (db_trks t) (loc, u)); [apply only_refl|].
  apply only_bind; [apply only_charge|]. intros charged t1 _.
  destruct charged as [av|]; [|apply only_refl].
  cbv zeta. apply only_bind; [|intros; match goal with |- context [if ?c then _ else _] => destruct c end; apply only_refl].
  destruct (ti_get (w_cache t1) loc) as [d|].
  - exact (only_store_triggered sc t1 (mk_app loc u b delay sig (w_height t)) d).
  - exact (only_store_appointment t1 (mk_app loc u b delay sig (w_height t))).
Qed.

Lemma only_register t u : only u t (st (gk_add_update_user t u)).
Proof.
  unfold gk_add_update_user. destruct (gk_get t u) as [ui|].
  - destruct (u32_add (u_slots ui) (c_slots (cfg t))); cbn [st]; [apply only_set_user|apply only_refl].
  - destruct (u32_add (gk_height t) (c_duration (cfg t))); [|apply only_refl].
    destruct (amem (db_users t) u); cbn [st]; [apply only_refl|apply only_new_user].
Qed.

Lemma proj_fresh v t : proj v (fresh t) = proj v t.
Proof. reflexivity. Qed.

(* C06 isolation.  Whatever an API operation does on behalf of anyone but v - another user, an
   unregistered key, nobody - v's subscription, slots, appointments and trackers are exactly what they were,
   whether the handler answers or aborts. *)
Theorem isolation le t o sc v :
  is_api o = true -> actor o <> Some v -> proj v (fst (step le t o sc)) = proj v t.
Proof.
  intros Hapi Hact. destruct o as [u|signer loc b delay sig|signer loc|signer|hash txs|]; try discriminate; cbn [actor] in Hact.
  - cbn [step]. rewrite fst_wrap. change (set_rpc_log t []) with (fresh t). rewrite <- (proj_fresh v t).
    apply only_register. congruence.
  - cbn [step]. rewrite fst_wrap. change (set_rpc_log t []) with (fresh t). rewrite <- (proj_fresh v t).
    destruct signer as [u|].
    + apply (only_add_appointment sc (fresh t) (Some u) loc b delay sig u eq_refl). congruence.
    + unfold w_add_appointment. cbn [authenticate st]. reflexivity.
  - destruct (get_unchanged le t sc signer loc) as [r Hr]. rewrite Hr. reflexivity.
  - destruct (getsub_unchanged le t sc signer) as [r Hr]. rewrite Hr. reflexivity.
Qed.

(* the cases of the property statement, one by one *)
Corollary isolation_other_user le t o sc u v :
  u <> v -> is_api o = true -> actor o = Some u -> proj v (fst (step le t o sc)) = proj v t.
Proof. intros Hne Hapi Ha. apply isolation; [exact Hapi|]. rewrite Ha. congruence. Qed.

Corollary isolation_unauthenticated le t o sc v :
  is_api o = true -> actor o = None -> proj v (fst (step le t o sc)) = proj v t.
Proof. intros Hapi Ha. apply isolation; [exact Hapi|]. rewrite Ha. discriminate. Qed.

(* an unregistered key changes nothing at all for a registered v (it is not v) *)
Corollary isolation_unregistered le t o sc w v :
  is_api o = true -> actor o = Some w -> gk_get t w = None -> gk_get t v <> None ->
  proj v (fst (step le t o sc)) = proj v t.
Proof.
  intros Hapi Ha Hw Hv. apply isolation; [exact Hapi|]. rewrite Ha. intros E. inversion E. subst. contradiction.
Qed.

(* same locator, two users: two rows, two independent lifecycles *)
Theorem same_locator_independent le t o sc u v loc :
  u <> v -> is_api o = true -> actor o = Some u ->
  find_app (db_apps (fst (step le t o sc))) (loc, v) = find_app (db_apps t) (loc, v) /\
  find_trk (db_trks (fst (step le t o sc))) (loc, v) = find_trk (db_trks t) (loc, v).
Proof.
  intros Hne Hapi Ha. pose proof (isolation_other_user le t o sc u v Hne Hapi Ha) as Hp.
  unfold proj in Hp. injection Hp as _ _ H3 H4.
  rewrite (find_app_proj _ loc v), (find_trk_proj _ loc v), H3, H4, <- find_app_proj, <- find_trk_proj. auto.
Qed.

(* ------------------------------------------------------------------------------------------ *)
(* 2. non-interference: what u is answered depends on u's projection and the chain-level components *)

(* the chain-level components an API handler reads *)
Record chain_eq (t1 t2 : tower) : Prop := {
  ce_cfg : cfg t1 = cfg t2;
  ce_gk_height : gk_height t1 = gk_height t2;
  ce_w_height : w_height t1 = w_height t2;
  ce_w_cache : w_cache t1 = w_cache t2;
  ce_r_index : r_index t1 = r_index t2;
  ce_car_height : car_height t1 = car_height t2;
  ce_car_memo : car_memo t1 = car_memo t2
}.

Definition eqv (u : N) (t1 t2 : tower) : Prop := proj u t1 = proj u t2 /\ chain_eq t1 t2.

Lemma eqv_fields u t1 t2 :
  eqv u t1 t2 ->
  aget (gk_users t1) u = aget (gk_users t2) u /\ aget (db_users t1) u = aget (db_users t2) u /\
  filter (ofu u) (db_apps t1) = filter (ofu u) (db_apps t2) /\ filter (oft u) (db_trks t1) = filter (oft u) (db_trks t2).
Proof. intros [Hp _]. unfold proj in Hp. injection Hp as H1 H2 H3 H4. auto. Qed.

Lemma eqv_find_app u t1 t2 loc : eqv u t1 t2 -> find_app (db_apps t1) (loc, u) = find_app (db_apps t2) (loc, u).
Proof. intros H. destruct (eqv_fields u t1 t2 H) as [_ [_ [H3 _]]]. rewrite (find_app_proj _ loc u), H3, <- find_app_proj. reflexivity. Qed.

Lemma eqv_find_trk u t1 t2 loc : eqv u t1 t2 -> find_trk (db_trks t1) (loc, u) = find_trk (db_trks t2) (loc, u).
Proof. intros H. destruct (eqv_fields u t1 t2 H) as [_ [_ [_ H4]]]. rewrite (find_trk_proj _ loc u), H4, <- find_trk_proj. reflexivity. Qed.

(* two procedure results are related: same outcome (value or abort site), equivalent states *)
Definition rel {A} (u : N) (r1 r2 : res A) : Prop :=
  match r1, r2 with
  | Ok a1 s1, Ok a2 s2 => a1 = a2 /\ eqv u s1 s2
  | Abort x1 s1, Abort x2 s2 => x1 = x2 /\ eqv u s1 s2
  | _, _ => False
  end.

Lemma rel_bind {A B} u (r1 r2 : res A) (f1 f2 : A -> tower -> res B) :
  rel u r1 r2 -> (forall a s1 s2, eqv u s1 s2 -> rel u (f1 a s1) (f2 a s2)) -> rel u (bind r1 f1) (bind r2 f2).
Proof.
  destruct r1 as [a1 s1|x1 s1], r2 as [a2 s2|x2 s2]; cbn [rel bind]; try tauto.
  intros [Ha He] H. subst a2. apply H. exact He.
Qed.

(* a state change that touches neither the tables nor the chain-level components *)
Lemma eqv_tables u t1 t2 t1' t2' :
  eqv u t1 t2 ->
  gk_users t1' = gk_users t1 -> db_users t1' = db_users t1 -> db_apps t1' = db_apps t1 -> db_trks t1' = db_trks t1 ->
  gk_users t2' = gk_users t2 -> db_users t2' = db_users t2 -> db_apps t2' = db_apps t2 -> db_trks t2' = db_trks t2 ->
  chain_eq t1' t2' -> eqv u t1' t2'.
Proof.
  intros [Hp _] A1 A2 A3 A4 B1 B2 B3 B4 Hc. split; [|exact Hc].
  unfold proj in *. rewrite A1, A2, A3, A4, B1, B2, B3, B4. exact Hp.
Qed.

Ltac chain_same Hc := destruct Hc as [C1 C2 C3 C4 C5 C6 C7]; constructor; assumption.

Lemma eqv_fresh u t1 t2 : eqv u t1 t2 -> eqv u (fresh t1) (fresh t2).
Proof. intros H. pose proof H as [_ Hc]. apply (eqv_tables u t1 t2); try reflexivity; [exact H|chain_same Hc]. Qed.

Lemma eqv_set_user u t1 t2 ui : eqv u t1 t2 -> eqv u (p_set_user t1 u ui) (p_set_user t2 u ui).
Proof.
  intros H. destruct (eqv_fields u t1 t2 H) as [H1 [H2 [H3 H4]]]. destruct H as [_ Hc]. split; [|chain_same Hc].
  unfold proj, p_set_user, db_update_user, gk_put. cbn [gk_users db_users db_apps db_trks set_db_users set_gk_users aget].
  rewrite N.eqb_refl, !aget_map_update, N.eqb_refl, H2, H3, H4. reflexivity.
Qed.

Lemma eqv_new_user u t1 t2 ui : eqv u t1 t2 -> eqv u (p_new_user t1 u ui) (p_new_user t2 u ui).
Proof.
  intros H. destruct (eqv_fields u t1 t2 H) as [H1 [H2 [H3 H4]]]. destruct H as [_ Hc]. split; [|chain_same Hc].
  unfold proj, p_new_user, gk_put. cbn [gk_users db_users db_apps db_trks set_db_users set_gk_users aget].
  rewrite N.eqb_refl, !aget_app_single, H2, H3, H4. reflexivity.
Qed.

Lemma eqv_update_app u t1 t2 a : a_user a = u -> eqv u t1 t2 -> eqv u (p_update_app t1 a) (p_update_app t2 a).
Proof.
  intros Ha H. destruct (eqv_fields u t1 t2 H) as [H1 [H2 [H3 H4]]]. destruct H as [_ Hc]. split; [|chain_same Hc].
  unfold proj, p_update_app. cbn [gk_users db_users db_apps db_trks set_db_apps].
  assert (Hcomm : forall l, filter (ofu u) (map (fun x => if uuid_eqb (app_uuid x) (app_uuid a) then a else x) l)
                            = map (fun x => if uuid_eqb (app_uuid x) (app_uuid a) then a else x) (filter (ofu u) l)).
  { intros l. apply filter_map_comm. intros x. destruct (uuid_eqb (app_uuid x) (app_uuid a)) eqn:E; [|reflexivity].
    apply uuid_eqb_eq in E. unfold app_uuid in E. inversion E. unfold ofu. congruence. }
  rewrite !Hcomm, H1, H2, H3, H4. reflexivity.
Qed.

Lemma eqv_insert_app u t1 t2 a : eqv u t1 t2 -> eqv u (p_insert_app t1 a) (p_insert_app t2 a).
Proof.
  intros H. destruct (eqv_fields u t1 t2 H) as [H1 [H2 [H3 H4]]]. destruct H as [_ Hc]. split; [|chain_same Hc].
  unfold proj, p_insert_app. cbn [gk_users db_users db_apps db_trks set_db_apps].
  rewrite !filter_snoc, H1, H2, H3, H4. reflexivity.
Qed.

Lemma eqv_insert_trk u t1 t2 k : eqv u t1 t2 -> eqv u (p_insert_trk t1 k) (p_insert_trk t2 k).
Proof.
  intros H. destruct (eqv_fields u t1 t2 H) as [H1 [H2 [H3 H4]]]. destruct H as [_ Hc]. split; [|chain_same Hc].
  unfold proj, p_insert_trk. cbn [gk_users db_users db_apps db_trks set_db_trks].
  rewrite !filter_snoc, H1, H2, H3, H4. reflexivity.
Qed.

Lemma eqv_delete u t1 t2 us : eqv u t1 t2 -> eqv u (db_delete_apps t1 us) (db_delete_apps t2 us).
Proof.
  intros H. destruct (eqv_fields u t1 t2 H) as [H1 [H2 [H3 H4]]]. destruct H as [_ Hc]. split; [|chain_same Hc].
  unfold proj, db_delete_apps. cbn [gk_users db_users db_apps db_trks set_db_apps set_db_trks].
  rewrite (filter_comm (ofu u)), (filter_comm (oft u)), (filter_comm (ofu u) _ (db_apps t2)), (filter_comm (oft u) _ (db_trks t2)).
  rewrite H1, H2, H3, H4. reflexivity.
Qed.

Lemma eqv_log u t1 t2 e1 e2 : eqv u t1 t2 -> eqv u (log_rpc t1 e1) (log_rpc t2 e2).
Proof. intros H. pose proof H as [_ Hc]. apply (eqv_tables u t1 t2); try reflexivity; [exact H|chain_same Hc]. Qed.

Lemma eqv_send u sc t1 t2 x :
  eqv u t1 t2 ->
  fst (send_transaction sc t1 x) = fst (send_transaction sc t2 x) /\
  eqv u (snd (send_transaction sc t1 x)) (snd (send_transaction sc t2 x)).
Proof.
  intros H. pose proof H as [_ Hc]. unfold send_transaction. rewrite (ce_car_memo _ _ Hc).
  destruct (aget (car_memo t2) x) as [r|]; cbn [fst snd]; [split; [reflexivity|exact H]|].
  assert (Hs : send_status t1 (snd (script_get sc x)) = send_status t2 (snd (script_get sc x))).
  { unfold send_status. rewrite (ce_car_height _ _ Hc). reflexivity. }
  split; [exact Hs|]. apply (eqv_tables u t1 t2); try reflexivity; [exact H|].
  destruct Hc as [C1 C2 C3 C4 C5 C6 C7]. constructor; cbn [cfg gk_height w_height w_cache r_index car_height car_memo set_car_memo log_rpc set_rpc_log]; try assumption.
  rewrite Hs, C7. reflexivity.
Qed.

Lemma rel_add_tracker u t1 t2 loc d p s :
  eqv u t1 t2 -> eqv u (r_add_tracker t1 (loc, u) d p s) (r_add_tracker t2 (loc, u) d p s).
Proof.
  intros H. unfold r_add_tracker. rewrite (eqv_find_trk u t1 t2 loc H), (eqv_find_app u t1 t2 loc H).
  destruct s as [h|h| |c]; try exact H;
    destruct (find_trk (db_trks t2) (loc, u)); try exact H;
    destruct (find_app (db_apps t2) (loc, u)); try exact H; apply eqv_insert_trk; exact H.
Qed.

Lemma rel_handle_breach u sc t1 t2 loc d p :
  eqv u t1 t2 -> rel u (r_handle_breach sc t1 (loc, u) d p) (r_handle_breach sc t2 (loc, u) d p).
Proof.
  intros H. pose proof H as [_ Hc]. unfold r_handle_breach. apply rel_bind.
  - rewrite (ce_r_index _ _ Hc). destruct (ti_get (r_index t2) p) as [bh|].
    + destruct (ti_get_height (r_index t2) bh); cbn [rel]; split; try reflexivity; exact H.
    + unfold in_mempool.
      match goal with |- context [if ?c then _ else _] => destruct c end.
      * cbn [rel]. split; [|apply eqv_log; exact H]. cbn [car_height log_rpc set_rpc_log]. rewrite (ce_car_height _ _ Hc). reflexivity.
      * set (a1 := log_rpc t1 _). set (a2 := log_rpc t2 _).
        destruct (eqv_send u sc a1 a2 p (eqv_log u t1 t2 _ _ H)) as [Hs He].
        destruct (send_transaction sc a1 p) as [s1 ta]. destruct (send_transaction sc a2 p) as [s2 tb].
        cbn [fst snd rel] in *. split; assumption.
  - intros s s1 s2 He. cbn [rel]. split; [reflexivity|].
    destruct (status_accepted s); [apply rel_add_tracker|]; exact He.
Qed.

Lemma rel_delete u t1 t2 us refund_off :
  refund_off = false -> eqv u t1 t2 -> rel u (gk_delete_appointments t1 us refund_off) (gk_delete_appointments t2 us refund_off).
Proof. intros -> H. unfold gk_delete_appointments. cbn [rel]. split; [reflexivity|apply eqv_delete; exact H]. Qed.

Lemma rel_store_appointment u t1 t2 a :
  a_user a = u -> eqv u t1 t2 -> rel u (w_store_appointment t1 a) (w_store_appointment t2 a).
Proof.
  intros Ha H. unfold w_store_appointment.
  assert (Hu : app_uuid a = (a_loc a, u)) by (unfold app_uuid; rewrite Ha; reflexivity).
  rewrite Hu, (eqv_find_app u t1 t2 (a_loc a) H), <- Hu.
  destruct (find_app (db_apps t2) (app_uuid a)); [cbn [rel]; split; [reflexivity|apply eqv_update_app; assumption]|].
  destruct (eqv_fields u t1 t2 H) as [_ [H2 _]]. unfold amem. rewrite Ha, H2.
  destruct (aget (db_users t2) u); cbn [rel]; split; try reflexivity; [apply eqv_insert_app|]; exact H.
Qed.

Lemma eqv_store_ok u t1 t2 a : a_user a = u -> eqv u t1 t2 -> w_store_ok t1 a = w_store_ok t2 a.
Proof.
  intros Ha H. unfold w_store_ok.
  assert (Hu : app_uuid a = (a_loc a, u)) by (unfold app_uuid; rewrite Ha; reflexivity).
  rewrite Hu, (eqv_find_app u t1 t2 (a_loc a) H).
  destruct (eqv_fields u t1 t2 H) as [_ [H2 _]]. unfold amem. rewrite Ha, H2. reflexivity.
Qed.

Lemma rel_store_triggered u sc t1 t2 a d :
  a_user a = u -> eqv u t1 t2 -> rel u (w_store_triggered sc t1 a d) (w_store_triggered sc t2 a d).
Proof.
  intros Ha H. unfold w_store_triggered.
  assert (Hu : app_uuid a = (a_loc a, u)) by (unfold app_uuid; rewrite Ha; reflexivity).
  destruct (decrypt (a_blob a) d) as [p|].
  - rewrite (eqv_store_ok u t1 t2 a Ha H). destruct (w_store_ok t2 a); [|cbn [rel]; split; [reflexivity|exact H]].
    apply rel_bind; [apply rel_store_appointment; assumption|]. intros _ s1 s2 He.
    apply rel_bind; [rewrite Hu; apply rel_handle_breach; exact He|]. intros s s1' s2' He'.
    destruct (status_rejected s); [apply rel_delete; [reflexivity|exact He']|cbn [rel]; split; [reflexivity|exact He']].
  - rewrite Hu, (eqv_find_app u t1 t2 (a_loc a) H).
    destruct (find_app (db_apps t2) (a_loc a, u)); [apply rel_delete; [reflexivity|exact H]|cbn [rel]; split; [reflexivity|exact H]].
Qed.

Lemma rel_charge u t1 t2 loc blen :
  eqv u t1 t2 -> rel u (gk_add_update_appointment t1 u (loc, u) blen) (gk_add_update_appointment t2 u (loc, u) blen).
Proof.
  intros H. unfold gk_add_update_appointment, gk_get. destruct (eqv_fields u t1 t2 H) as [H1 _].
  rewrite H1, (eqv_find_app u t1 t2 loc H).
  destruct (aget (gk_users t2) u) as [ui|]; [|cbn [rel]; split; [reflexivity|exact H]].
  match goal with |- context [if ?c then _ else _] => destruct c end; cbn [rel]; split; try reflexivity; [apply eqv_set_user|]; exact H.
Qed.

Lemma rel_add_appointment u sc t1 t2 loc b delay sig :
  eqv u t1 t2 ->
  rel u (w_add_appointment sc t1 (Some u) loc b delay sig) (w_add_appointment sc t2 (Some u) loc b delay sig).
Proof.
  intros H. pose proof H as [_ Hc]. destruct (eqv_fields u t1 t2 H) as [H1 _].
  unfold w_add_appointment, authenticate, amem. rewrite H1.
  destruct (aget (gk_users t2) u) as [ui|] eqn:Eg; cbv beta iota; [|cbn [rel]; split; [reflexivity|exact H]].
  unfold gk_get. rewrite H1, Eg, (ce_gk_height _ _ Hc).
  destruct (N.leb (u_expiry ui) (gk_height t2)); [cbn [rel]; split; [reflexivity|exact H]|].
  rewrite (eqv_find_trk u t1 t2 loc H).
  destruct (find_trk (db_trks t2) (loc, u)); [cbn [rel]; split; [reflexivity|exact H]|].
  apply rel_bind; [apply rel_charge; exact H|]. intros charged s1 s2 He.
  destruct charged as [av|]; [|cbn [rel]; split; [reflexivity|exact He]].
  rewrite (ce_w_height _ _ Hc). pose proof He as [_ Hc']. rewrite (ce_w_cache _ _ Hc').
  rewrite (eqv_store_ok u s1 s2 (mk_app loc u b delay sig (w_height t2)) eq_refl He). cbv zeta.
  apply rel_bind; [|intros _ s1' s2' He'; match goal with |- context [if ?c then _ else _] => destruct c end; cbn [rel]; split; try reflexivity; exact He'].
  destruct (ti_get (w_cache s2) loc) as [d|]; [apply rel_store_triggered|apply rel_store_appointment]; try reflexivity; exact He.
Qed.

Lemma rel_register u t1 t2 : eqv u t1 t2 -> rel u (gk_add_update_user t1 u) (gk_add_update_user t2 u).
Proof.
  intros H. pose proof H as [_ Hc]. destruct (eqv_fields u t1 t2 H) as [H1 [H2 _]].
  unfold gk_add_update_user, gk_get, amem. rewrite H1, H2, (ce_cfg _ _ Hc), (ce_gk_height _ _ Hc).
  destruct (aget (gk_users t2) u) as [ui|].
  - destruct (u32_add (u_slots ui) (c_slots (cfg t2))); cbn [rel]; split; try reflexivity; [apply eqv_set_user|]; exact H.
  - destruct (u32_add (gk_height t2) (c_duration (cfg t2))); [|cbn [rel]; split; [reflexivity|exact H]].
    destruct (aget (db_users t2) u); cbn [rel]; split; try reflexivity; [|apply eqv_new_user]; exact H.
Qed.

Lemma rel_get u t1 t2 loc : eqv u t1 t2 -> rel u (w_get_appointment t1 (Some u) loc) (w_get_appointment t2 (Some u) loc).
Proof.
  intros H. pose proof H as [_ Hc]. destruct (eqv_fields u t1 t2 H) as [H1 _].
  unfold w_get_appointment, authenticate, amem. rewrite H1.
  destruct (aget (gk_users t2) u) as [ui|] eqn:Eg; cbv beta iota; [|cbn [rel]; split; [reflexivity|exact H]].
  unfold gk_get. rewrite H1, Eg, (ce_gk_height _ _ Hc).
  destruct (N.leb (u_expiry ui) (gk_height t2)); [cbn [rel]; split; [reflexivity|exact H]|].
  rewrite (eqv_find_trk u t1 t2 loc H), (eqv_find_app u t1 t2 loc H).
  destruct (find_trk (db_trks t2) (loc, u)), (find_app (db_apps t2) (loc, u)); cbn [rel]; split; try reflexivity; exact H.
Qed.

Lemma rel_getsub u t1 t2 : eqv u t1 t2 -> rel u (w_get_subscription_info t1 (Some u)) (w_get_subscription_info t2 (Some u)).
Proof.
  intros H. pose proof H as [_ Hc]. destruct (eqv_fields u t1 t2 H) as [H1 [_ [H3 _]]].
  unfold w_get_subscription_info, authenticate, amem. rewrite H1.
  destruct (aget (gk_users t2) u) as [ui|] eqn:Eg; cbv beta iota; [|cbn [rel]; split; [reflexivity|exact H]].
  unfold gk_get. rewrite H1, Eg, (ce_gk_height _ _ Hc).
  destruct (N.leb (u_expiry ui) (gk_height t2)); [cbn [rel]; split; [reflexivity|exact H]|].
  change (fun a : app => N.eqb (a_user a) u) with (ofu u). rewrite H3. cbn [rel]. split; [reflexivity|exact H].
Qed.

Lemma rel_wrap {A} u (f : A -> out) (r1 r2 : res A) :
  rel u r1 r2 -> snd (wrap f r1) = snd (wrap f r2) /\ eqv u (fst (wrap f r1)) (fst (wrap f r2)).
Proof.
  destruct r1 as [a1 s1|x1 s1], r2 as [a2 s2|x2 s2]; cbn [rel wrap fst snd]; try tauto; intros [Ha He]; subst; auto.
Qed.

(* C06 non-interference.  Two towers that agree on u's projection and on the chain-level components give
   the same output (reply or abort site) to any API operation of u under the same node answers, and agree
   on u's projection and the chain-level components afterwards.  Nothing of any other user enters. *)
Theorem noninterference le t1 t2 o sc u :
  is_api o = true -> actor o = Some u -> eqv u t1 t2 ->
  snd (step le t1 o sc) = snd (step le t2 o sc) /\ eqv u (fst (step le t1 o sc)) (fst (step le t2 o sc)).
Proof.
  intros Hapi Ha H. apply eqv_fresh in H.
  destruct o as [u0|signer loc b delay sig|signer loc|signer|hash txs|]; try discriminate; cbn [actor] in Ha; cbn [step];
    change (set_rpc_log t1 []) with (fresh t1); change (set_rpc_log t2 []) with (fresh t2); apply rel_wrap.
  - inversion Ha. subst u0. apply rel_register. exact H.
  - subst signer. apply rel_add_appointment. exact H.
  - subst signer. apply rel_get. exact H.
  - subst signer. apply rel_getsub. exact H.
Qed.

(* a request nobody signed (or that does not verify) is answered the same by every tower *)
Theorem unauthenticated_reply le t1 t2 o sc :
  is_api o = true -> actor o = None -> snd (step le t1 o sc) = snd (step le t2 o sc).
Proof.
  intros Hapi Ha. destruct o as [u0|signer loc b delay sig|signer loc|signer|hash txs|]; try discriminate;
    cbn [actor] in Ha; subst signer; reflexivity.
Qed.

(* ------------------------------------------------------------------------------------------ *)
(* 3. the add_appointment reply itself: a function of u's projection and two heights *)

Definition add_reply (t : tower) (u loc : N) (b : blob) (sig : N) : add_result :=
  match aget (gk_users t) u with
  | None => AddAuthOrSlots
  | Some ui =>
      if N.leb (u_expiry ui) (gk_height t) then AddExpired (u_expiry ui)
      else match find_trk (db_trks t) (loc, u) with
           | Some _ => AddTriggered
           | None =>
               let used := match find_app (db_apps t) (loc, u) with Some a => slots_of (b_len (a_blob a)) | None => 0 end in
               if N.leb (slots_of (b_len b)) (u_slots ui + used)
               then AddOk (w_height t) sig ((u_slots ui + used - slots_of (b_len b)) mod U32MOD) (u_expiry ui)
               else AddAuthOrSlots
           end
  end.

Lemma add_reply_spec sc t u loc b delay sig r t' :
  user_row_ok t u ->
  w_add_appointment sc t (Some u) loc b delay sig = Ok r t' -> r = add_reply t u loc b sig.
Proof.
  intros Hrow. assert (Hrow' : aget (gk_users t) u <> None -> amem (db_users t) u = true).
  { intros Hn. apply Hrow. unfold amem. destruct (aget (gk_users t) u); [reflexivity|contradiction]. }
  clear Hrow. revert Hrow'.
  unfold w_add_appointment, add_reply, authenticate. unfold amem at 2. intros Hrow.
  destruct (aget (gk_users t) u) as [ui|] eqn:Eg; cbv beta iota; [|intros H; inversion H; reflexivity].
  unfold gk_get. rewrite Eg.
  destruct (N.leb (u_expiry ui) (gk_height t)); [intros H; inversion H; reflexivity|].
  destruct (find_trk (db_trks t) (loc, u)); [intros H; inversion H; reflexivity|].
  unfold gk_add_update_appointment, gk_get. rewrite Eg. cbv zeta.
  match goal with |- context [if ?c then _ else _] => destruct c end; cbn [bind]; [|intros H; inversion H; reflexivity].
  rewrite stored_flag_true by (apply store_ok_after_charge; [apply Hrow; discriminate|reflexivity]).
  match goal with |- context [bind ?x _] => destruct x as [[] t2|] end; cbn [bind]; intros H; inversion H. reflexivity.
Qed.

Definition light_eq (u : N) (t1 t2 : tower) : Prop :=
  proj u t1 = proj u t2 /\ gk_height t1 = gk_height t2 /\ w_height t1 = w_height t2.

Lemma add_reply_light u t1 t2 loc b sig : light_eq u t1 t2 -> add_reply t1 u loc b sig = add_reply t2 u loc b sig.
Proof.
  intros [Hp [Hg Hw]]. unfold proj in Hp. injection Hp as H1 H2 H3 H4. unfold add_reply.
  rewrite H1, Hg, Hw, (find_trk_proj _ loc u), (find_app_proj _ loc u), H3, H4, <- find_trk_proj, <- find_app_proj.
  reflexivity.
Qed.

(* When the handler answers in both towers, the add_appointment reply depends only on u's own projection,
   the gatekeeper's height and the watcher's height: not on the node's answers, not on the caches, not on
   anything of any other user. *)
Theorem add_reply_depends le t1 t2 sc1 sc2 u loc b delay sig s1 s2 r1 r2 :
  user_row_ok t1 u -> user_row_ok t2 u ->
  light_eq u t1 t2 ->
  step le t1 (OAdd (Some u) loc b delay sig) sc1 = (s1, OAddRes r1) ->
  step le t2 (OAdd (Some u) loc b delay sig) sc2 = (s2, OAddRes r2) -> r1 = r2.
Proof.
  intros Hr1 Hr2 Hl. cbn [step]. change (set_rpc_log t1 []) with (fresh t1). change (set_rpc_log t2 []) with (fresh t2).
  destruct (w_add_appointment sc1 (fresh t1) (Some u) loc b delay sig) as [a1 x1|] eqn:E1; cbn [wrap]; [|discriminate].
  destruct (w_add_appointment sc2 (fresh t2) (Some u) loc b delay sig) as [a2 x2|] eqn:E2; cbn [wrap]; [|discriminate].
  intros H1 H2. inversion H1. inversion H2. subst.
  rewrite (add_reply_spec _ (fresh t1) _ _ _ _ _ _ _ Hr1 E1), (add_reply_spec _ (fresh t2) _ _ _ _ _ _ _ Hr2 E2).
  apply add_reply_light. exact Hl.
Qed.

(* ------------------------------------------------------------------------------------------ *)
(* 4. a concrete reachable tower: users 1 and 2 both hold locator 50; dispute 60 is in the locator cache *)

Definition iso_cfg : config := mk_config 10 1000 10.
Definition iso_boot : list (N * list N) := [(900, []); (899, [])].
Definition iso_hist : list (op * script) :=
  [ (ORegister 1, []); (ORegister 2, []);
    (OAdd (Some 1) 50 (mk_blob 50 (Some 51) 3000) 20 7, []);
    (OAdd (Some 2) 50 (mk_blob 50 (Some 52) 100) 20 8, []);
    (OAdd (Some 2) 60 (mk_blob 60 (Some 62) 100) 20 9, []);
    (OConnect 1001 [60], [(62, (G_not_found, A_ok))]) ].          (* (60,2) is triggered; 60 stays in the cache *)

Definition iso_tower : option tower :=
  match init iso_cfg 100 iso_boot with Some t0 => Some (fst (run true t0 iso_hist)) | None => None end.

(* user 1's operations in that tower *)
Definition iso_update : op := OAdd (Some 1) 50 (mk_blob 50 (Some 53) 100) 20 11.      (* replaces (50,1) *)
Definition iso_late : op := OAdd (Some 1) 60 (mk_blob 60 (Some 61) 100) 20 12.        (* trigger in cache: tracker (60,1) *)
Definition iso_late_script : script := [(61, (G_not_found, A_ok))].
Definition iso_drop : op := OAdd (Some 1) 60 (mk_blob 99 None 100) 20 13.             (* trigger in cache, garbage blob: dropped *)

(* a tower where user 2 never existed, agreeing with iso_tower on user 1's projection and the chain level *)
Definition iso_hist_alone : list (op * script) :=
  [ (ORegister 1, []);
    (OAdd (Some 1) 50 (mk_blob 50 (Some 51) 3000) 20 7, []);
    (OConnect 1001 [60], []) ].
Definition iso_tower_alone : option tower :=
  match init iso_cfg 100 iso_boot with Some t0 => Some (fst (run true t0 iso_hist_alone)) | None => None end.

