(* ConcReachAbs.v — the abstract protocol machine of Reach.v as an ABSTRACTION of thread-level configurations
   (ConcReach.v), for a tower whose thread 0 is the chain monitor and thread 1 an API worker.
   `abs2 c` reads the abstract state off a configuration; the three abstract theorems of Reach.v then hold of
   `abs2` of EVERY thread-level continuation (their thread-level counterparts in ConcReachProofs.v are what
   proves it).  This is a state abstraction with the abstract theorems transported along thread-level runs; it is
   NOT a step-by-step simulation (an abstract E_poll / E_api_rpc is one atomic event, a thread-level poll is
   many steps of which other threads see the middle). *)
From TeosModel Require Import Base TxIndex Tower ConcTower ConcTowerProofs ConcReach ConcReachProofs.
From TeosModel Require Reach.

Definition abs_mon (c : rconf) : Reach.mon_status :=
  match nth_error (rc_threads c) 0, nth_error (rc_threads c) 1 with
  | Some tm, ota =>
      if waiting_unnotified tm then Reach.M_wait_reach
      else match wants tm, ota with
           | Some l, Some ta => if waiting_unnotified ta && rholds ta l then Reach.M_wait_cache else Reach.M_idle
           | _, _ => Reach.M_idle
           end
  | None, _ => Reach.M_idle
  end.

Definition abs_api (c : rconf) : Reach.api_status :=
  match nth_error (rc_threads c) 1 with
  | Some ta =>
      if waiting_unnotified ta then Reach.A_wait_reach
      else match rresult ta with
           | Some (RDone RUnavailable) | None => Reach.A_none       (* refused, or still on its way *)
           | Some _ => Reach.A_done
           end
  | None => Reach.A_none
  end.

Definition abs_node_up (c : rconf) : bool :=
  negb (hd false (rc_rpc_or c)) && match hd F_ok (rc_fetch_or c) with F_ok | F_stall => true | _ => false end.

Definition abs2 (c : rconf) : Reach.rstate :=
  Reach.mk_rstate (rc_flag c) (abs_node_up c) (abs_mon c) (abs_api c) (match rc_pending c with [] => false | _ => true end).

(* F5a: a configuration in which the monitor waits un-notified with the flag false is abstracted to the
   hypothesis of Reach.monitor_wait_is_forever, and the abstract conclusion holds of every thread-level
   continuation *)
Theorem abs_block_path le sc fuel pfuel t flag polls ops pending h ro fo w :
  let c0 := rinit t flag (map (thread_p le sc fuel pfuel) (TMonitor polls :: map TApi ops)) pending h ro fo in
  stuck_waiting (rrun_config c0 w) 0 = true ->
  (Reach.mon (abs2 (rrun_config c0 w)) = Reach.M_wait_reach /\ Reach.flag (abs2 (rrun_config c0 w)) = false) /\
  forall sched, Reach.mon (abs2 (rrun_config c0 (w ++ sched))) = Reach.M_wait_reach /\
                Reach.flag (abs2 (rrun_config c0 (w ++ sched))) = false.
Proof.
  intros c0 Hs.
  assert (G : forall c, stuck_waiting c 0 = true -> Reach.mon (abs2 c) = Reach.M_wait_reach /\ Reach.flag (abs2 c) = false).
  { intros c H. unfold stuck_waiting in H. apply andb_true_iff in H. destruct H as [Hf Hm]. apply negb_true_iff in Hf.
    cbn. unfold abs_mon. destruct (nth_error (rc_threads c) 0) as [tm|]; [|discriminate]. rewrite Hm. auto. }
  split; [apply G; exact Hs|]. intros sched. apply G. apply block_path_stuck. exact Hs.
Qed.

(* F5b *)
Theorem abs_request_path_block le sc fuel pfuel t flag polls ops pending h ro fo w l :
  let c0 := rinit t flag (map (thread_p le sc fuel pfuel) (TMonitor polls :: map TApi ops)) pending h ro fo in
  stuck_on_lock (rrun_config c0 w) 0 1 l = true ->
  forall sched, let s := abs2 (rrun_config c0 (w ++ sched)) in
    Reach.mon s = Reach.M_wait_cache /\ Reach.api s = Reach.A_wait_reach /\ Reach.flag s = false.
Proof.
  intros c0 Hs sched.
  assert (G : forall c, stuck_on_lock c 0 1 l = true ->
              Reach.mon (abs2 c) = Reach.M_wait_cache /\ Reach.api (abs2 c) = Reach.A_wait_reach /\ Reach.flag (abs2 c) = false).
  { intros c H. unfold stuck_on_lock in H. apply andb_true_iff in H. destruct H as [Hf H]. apply negb_true_iff in Hf.
    cbn. unfold abs_mon, abs_api.
    destruct (nth_error (rc_threads c) 0) as [tm|]; [|discriminate]. destruct (nth_error (rc_threads c) 1) as [ta|]; [|discriminate].
    apply andb_true_iff in H. destruct H as [H Hh]. apply andb_true_iff in H. destruct H as [Hw Hu].
    destruct (wants tm) as [l'|] eqn:Ew; [|discriminate]. apply N.eqb_eq in Hw. subst l'.
    assert (waiting_unnotified tm = false) as ->.
    { unfold wants in Ew. unfold waiting_unnotified. destruct (rt_st tm) as [p|n p|r]; try discriminate. reflexivity. }
    rewrite Hu, Hh. auto. }
  apply G. apply request_path_stuck; [discriminate|exact Hs].
Qed.

(* recovery: from a configuration abstracted to (api waits, monitor idle, no block, node up), every thread-level
   run that ends (both threads returned) is abstracted to what Reach's single event `E_poll false` gives *)
Theorem abs_request_path_recovers le sc fuel pf r0 pa0 held_a t0 c sched :
  calm pa0 -> snd (rsolo pa0 t0) <> RDone RUnavailable ->
  rc_rpc_or c = [] -> rc_tower c = t0 -> rc_pending c = [] -> hd F_ok (rc_fetch_or c) = F_ok ->
  rc_threads c = [mk_rthread (RRun (poll_p le sc fuel (S pf) (RRet r0))) []; mk_rthread (RParked false pa0) held_a] ->
  (Reach.mon (abs2 c) = Reach.M_idle /\ Reach.api (abs2 c) = Reach.A_wait_reach /\
   Reach.block_pending (abs2 c) = false /\ Reach.node_up (abs2 c) = true) /\
  let c' := rrun_config c sched in
  forallb rfinished (rc_threads c') = true ->
  let s' := Reach.rstep (abs2 c) (Reach.E_poll false) in
  Reach.flag (abs2 c') = Reach.flag s' /\ Reach.api (abs2 c') = Reach.api s' /\ Reach.mon (abs2 c') = Reach.mon s'.
Proof.
  intros Hc HR Ho Ht Hp Hf Eth. split.
  - cbn. unfold abs_mon, abs_api, abs_node_up. rewrite Eth, Ho, Hp. cbn.
    destruct (rc_fetch_or c) as [|a rest]; cbn in Hf |- *; [auto|]. subst a. auto.
  - intros c' Hfin.
    assert (Ha : Reach.rstep (abs2 c) (Reach.E_poll false) =
                 Reach.mk_rstate true true Reach.M_idle Reach.A_done false).
    { cbn. unfold abs_mon, abs_api, abs_node_up. rewrite Eth, Ho, Hp. cbn.
      destruct (rc_fetch_or c) as [|a rest]; cbn in Hf |- *; [reflexivity|]. subst a. reflexivity. }
    cbv zeta. rewrite Ha. cbn [Reach.flag Reach.api Reach.mon].
    destruct (request_path_recovers le sc fuel pf r0 pa0 held_a t0 Hc c sched) as [tm [ta [Eth' [H1 H2]]]].
    { apply RI0; assumption. }
    fold c' in Eth', H1, H2. rewrite Eth' in Hfin. cbn in Hfin.
    apply andb_true_iff in Hfin. destruct Hfin as [Hfm Hfa]. rewrite andb_true_r in Hfa.
    destruct (H1 Hfm) as [Hflag Hnw].
    unfold rfinished in Hfm, Hfa. destruct (rresult ta) as [r|] eqn:Er; [|discriminate].
    destruct (H2 r eq_refl) as [_ ER]. subst r.
    cbn. unfold abs_mon, abs_api. rewrite Eth'. cbn. rewrite Hnw, Er.
    split; [exact Hflag|]. split.
    + destruct (snd (rsolo pa0 t0)) as [[o|]|s|]; try reflexivity. contradiction HR; reflexivity.
    + assert (waiting_unnotified tm = false) as ->.
      { unfold rresult in Hfm. unfold waiting_unnotified. destruct (rt_st tm) as [p|n p|r]; try reflexivity. discriminate. }
      assert (wants tm = None) as ->; [|reflexivity].
      unfold rresult in Hfm. unfold wants. destruct (rt_st tm) as [p|n p|r]; try reflexivity. destruct p; try reflexivity; discriminate.
Qed.
