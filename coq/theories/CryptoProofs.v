(* CryptoProofs.v — proofs about the AEAD construction of Crypto.v, for ANY keystream, tag and
   key-hash functions: round trip, and the exact events a successful opening of a tampered blob
   or of a blob under another id exhibits.  Also: the concrete Poly1305 always yields 16 bytes,
   locator and signature-container layout. *)
From TeosModel Require Import Base ListAux BtcCodec BtcCodecProofs BtcCodecSound Crypto ZBase32Proofs.
From TeosModel.Gen Require Consts CryptoParams.
Local Open Scope N_scope.

(* ---------- byte-string helpers ---------- *)
Lemma xor_with_length m ks : length (xor_with m ks) = length m.
Proof.
  revert ks. induction m as [|x m IH]; intros [|k ks]; cbn [xor_with length]; try reflexivity.
  rewrite IH. reflexivity.
Qed.

Lemma xor_with_involutive m ks : xor_with (xor_with m ks) ks = m.
Proof.
  revert ks. induction m as [|x m IH]; intros [|k ks]; cbn [xor_with]; try reflexivity.
  rewrite IH, N.lxor_assoc, N.lxor_nilpotent, N.lxor_0_r. reflexivity.
Qed.

Lemma fit_length n l : length (tag_fit n l) = n.
Proof.
  unfold tag_fit. rewrite firstn_length, app_length, repeat_length. lia.
Qed.

Lemma fit_id n l : length l = n -> tag_fit n l = l.
Proof.
  intros <-. unfold tag_fit. rewrite firstn_app, Nat.sub_diag, firstn_all. cbn. apply app_nil_r.
Qed.

Lemma bytes_eqb_eq a b : cr_bytes_eqb a b = true <-> a = b.
Proof.
  revert b. induction a as [|x a IH]; intros [|y b]; cbn [cr_bytes_eqb]; split; intros Hx;
    try reflexivity; try discriminate.
  - apply andb_true_iff in Hx as [H1 H2]. apply N.eqb_eq in H1. apply IH in H2. congruence.
  - inversion Hx; subst. rewrite N.eqb_refl. cbn. apply IH. reflexivity.
Qed.

Lemma bytes_eqb_refl a : cr_bytes_eqb a a = true.
Proof. apply bytes_eqb_eq. reflexivity. Qed.

Lemma app_eq_length_tail {A} (a b c d : list A) :
  a ++ b = c ++ d -> length b = length d -> a = c /\ b = d.
Proof.
  intros He Hl.
  assert (Hla : length a = length c).
  { apply (f_equal (@length A)) in He. rewrite !app_length in He. lia. }
  revert c He Hla. induction a as [|x a IH]; intros [|y c] He Hla; cbn in *; try discriminate.
  - split; [reflexivity|exact He].
  - inversion He; subst. destruct (IH c) as [-> ->]; [assumption|lia|]. split; reflexivity.
Qed.

Lemma lxor_byte a b : a < 256 -> b < 256 -> N.lxor a b < 256.
Proof.
  intros Ha Hb. apply N.ltb_lt. revert a b Ha Hb. apply sweep2. vm_compute. reflexivity.
Qed.

Lemma xor_with_bytesb m ks : bytes_wf m = true -> bytes_wf ks = true -> bytes_wf (xor_with m ks) = true.
Proof.
  revert ks. induction m as [|x m IH]; intros [|k ks] Hm Hk; cbn [xor_with]; try assumption; try reflexivity.
  apply bytesb_cons_iff in Hm as [Hx Hm]. apply bytesb_cons_iff in Hk as [Hk0 Hk].
  apply bytesb_cons_iff. split; [apply lxor_byte; assumption|apply IH; assumption].
Qed.

Lemma split_at {A} (l a b : list A) :
  l = a ++ b -> a = firstn (length a) l /\ b = skipn (length a) l.
Proof.
  intros ->. rewrite firstn_app, Nat.sub_diag, firstn_all, skipn_app, Nat.sub_diag, skipn_all.
  cbn [firstn skipn app]. rewrite app_nil_r. split; reflexivity.
Qed.

Section AEADProofs.
  Context (stream : bytes -> nat -> bytes) (tag : bytes -> bytes -> bytes) (H : bytes -> bytes).

  Notation tagN := (tagN tag).
  Notation ae_seal := (ae_seal stream tag).
  Notation ae_open := (ae_open stream tag).
  Notation ae_encrypt := (ae_encrypt stream tag H).
  Notation ae_decrypt := (ae_decrypt stream tag H).
  Notation ae_decrypt_r := (ae_decrypt_r stream tag H).

  (* the ciphertext body of a sealed message *)
  Definition body (key m : bytes) : bytes := xor_with m (stream key (length m)).

  Lemma tagN_length key ct : length (tagN key ct) = TAG_LEN.
  Proof. apply fit_length. Qed.

  Lemma seal_eq key m : ae_seal key m = body key m ++ tagN key (body key m).
  Proof. reflexivity. Qed.

  Lemma body_length key m : length (body key m) = length m.
  Proof. apply xor_with_length. Qed.

  Lemma seal_length key m : length (ae_seal key m) = (length m + TAG_LEN)%nat.
  Proof. rewrite seal_eq, app_length, body_length, tagN_length. reflexivity. Qed.

  (* what a successful opening is: the input splits into a body and a 16-byte tag which is the
     tag of that body under the key, and the result is the body with the keystream applied *)
  Lemma open_some_inv key c p :
    ae_open key c = Some p ->
    exists ct tg, c = ct ++ tg /\ length tg = TAG_LEN /\ tagN key ct = tg /\
                  p = xor_with ct (stream key (length ct)).
  Proof.
    unfold Crypto.ae_open. destruct (Nat.ltb (length c) TAG_LEN) eqn:Hl; [discriminate|].
    apply Nat.ltb_ge in Hl.
    destruct (cr_bytes_eqb _ _) eqn:He; [|discriminate]. intros Hp. inversion Hp; subst p; clear Hp.
    apply bytes_eqb_eq in He.
    exists (firstn (length c - TAG_LEN) c), (skipn (length c - TAG_LEN) c).
    repeat split.
    - symmetry. apply firstn_skipn.
    - rewrite skipn_length. lia.
    - exact He.
  Qed.

  Lemma open_app key ct tg :
    length tg = TAG_LEN ->
    ae_open key (ct ++ tg) = if cr_bytes_eqb (tagN key ct) tg then Some (xor_with ct (stream key (length ct))) else None.
  Proof.
    intros Hl. unfold Crypto.ae_open. rewrite app_length, Hl.
    replace (Nat.ltb (length ct + TAG_LEN) TAG_LEN) with false by (symmetry; apply Nat.ltb_ge; lia).
    replace (length ct + TAG_LEN - TAG_LEN)%nat with (length ct) by lia.
    rewrite firstn_app, Nat.sub_diag, firstn_all. cbn [firstn]. rewrite app_nil_r.
    rewrite skipn_app, Nat.sub_diag, skipn_all. cbn [skipn app]. reflexivity.
  Qed.

  (* ---- C17_aead_roundtrip ---- *)
  Theorem aead_roundtrip key m : ae_open key (ae_seal key m) = Some m.
  Proof.
    rewrite seal_eq, open_app by apply tagN_length.
    rewrite bytes_eqb_refl. unfold body. rewrite xor_with_length, xor_with_involutive. reflexivity.
  Qed.

  (* anything shorter than a tag is refused *)
  Theorem open_too_short key c : (length c < TAG_LEN)%nat -> ae_open key c = None.
  Proof.
    intros Hl. unfold Crypto.ae_open. apply Nat.ltb_lt in Hl. rewrite Hl. reflexivity.
  Qed.

  (* a blob whose body is the sealed one opens only with the sealed tag: modifying the tag alone
     always fails, without any assumption *)
  Theorem tamper_tag_only_fails key m tg' :
    length tg' = TAG_LEN -> tg' <> tagN key (body key m) -> ae_open key (body key m ++ tg') = None.
  Proof.
    intros Hl Hne. rewrite open_app by exact Hl.
    destruct (cr_bytes_eqb _ _) eqn:He; [|reflexivity]. apply bytes_eqb_eq in He. congruence.
  Qed.

  (* ---- C17_tamper_needs_collision ---- *)
  (* (1) the untouched blob under another AEAD key *)
  Theorem open_other_key_collision K K' m p :
    K' <> K -> ae_open K' (ae_seal K m) = Some p ->
    tag_collision tag K (body K m) K' (body K m).
  Proof.
    intros Hk Ho. apply open_some_inv in Ho as (ct & tg & Hc & Hl & Ht & _).
    rewrite seal_eq in Hc. apply app_eq_length_tail in Hc as [Hb Htg]; [|rewrite tagN_length, Hl; reflexivity].
    split.
    - intros He. inversion He. congruence.
    - rewrite Htg, <- Ht, <- Hb. reflexivity.
  Qed.

  (* (2) a different blob under the same key *)
  Theorem open_modified_forgery K m c' p :
    c' <> ae_seal K m -> ae_open K c' = Some p ->
    exists ct' tg', c' = ct' ++ tg' /\ length tg' = TAG_LEN /\
      tag_forgery tag K (body K m) ct' tg' /\
      (tg' = tagN K (body K m) -> tag_collision tag K (body K m) K ct').
  Proof.
    intros Hne Ho. apply open_some_inv in Ho as (ct & tg & Hc & Hl & Ht & _).
    exists ct, tg. split; [exact Hc|]. split; [exact Hl|].
    assert (Hct : ct <> body K m).
    { intros ->. apply Hne. rewrite Hc, seal_eq, Ht. reflexivity. }
    split; [split; assumption|].
    intros Htg. split.
    - intros He. inversion He. congruence.
    - rewrite <- Htg, Ht. reflexivity.
  Qed.

  Theorem tamper_needs_collision k m k' c' p :
    ae_open (H k') c' = Some p ->
    (k' <> k /\ c' = ae_seal (H k) m) \/ (k' = k /\ c' <> ae_seal (H k) m) ->
    (* another id, the blob untouched: the two ids hash to the same key, or the tag of the sealed
       body is the same under two different keys *)
    (k' <> k /\ c' = ae_seal (H k) m /\
       (key_hash_collision H k k' \/ tag_collision tag (H k) (body (H k) m) (H k') (body (H k) m)))
    \/
    (* the same id, a modified (bit-flipped, truncated, extended) blob: it splits into a body that
       was never sealed and a valid 16-byte tag for it; when the tag bytes are the original ones
       this is a collision with the tag of the sealed body *)
    (k' = k /\ exists ct' tg', c' = ct' ++ tg' /\ length tg' = TAG_LEN /\
       tag_forgery tag (H k) (body (H k) m) ct' tg' /\
       (tg' = tagN (H k) (body (H k) m) -> tag_collision tag (H k) (body (H k) m) (H k) ct')).
  Proof.
    intros Ho [[Hk Hc]|[Hk Hc]].
    - left. split; [exact Hk|]. split; [exact Hc|]. subst c'.
      destruct (list_eq_dec N.eq_dec (H k') (H k)) as [He|He].
      + left. split; [congruence|symmetry; exact He].
      + right. exact (open_other_key_collision _ _ _ _ He Ho).
    - right. split; [exact Hk|]. subst k'. exact (open_modified_forgery _ _ _ _ Hc Ho).
  Qed.

  (* single-bit flips: same length.  The flipped bit is either in the body (tag bytes intact: a
     collision on the tag function under one key) or in the tag (impossible) *)
  Theorem tamper_same_length K m c' p :
    length c' = length (ae_seal K m) -> c' <> ae_seal K m -> ae_open K c' = Some p ->
    exists ct', length ct' = length m /\ ct' <> body K m /\
      firstn (length m) c' = ct' /\
      (skipn (length m) c' = tagN K (body K m) -> tag_collision tag K (body K m) K ct').
  Proof.
    intros Hlen Hne Ho.
    destruct (open_modified_forgery _ _ _ _ Hne Ho) as (ct' & tg' & Hc & Hl & [Hct Ht] & Hcol).
    assert (Hlct : length ct' = length m).
    { rewrite Hc, seal_length, app_length, Hl in Hlen. lia. }
    exists ct'. split; [exact Hlct|]. split; [exact Hct|].
    rewrite Hc, <- Hlct. rewrite firstn_app, Nat.sub_diag, firstn_all. cbn [firstn]. rewrite app_nil_r.
    split; [reflexivity|]. rewrite skipn_app, Nat.sub_diag, skipn_all. cbn [skipn app]. exact Hcol.
  Qed.

  (* truncations: fewer than 16 bytes left always fails; otherwise the tag of a proper prefix of
     the sealed body would have to equal the 16 bytes that follow that prefix in the blob *)
  Theorem tamper_truncation K m n p :
    (n < length (ae_seal K m))%nat -> ae_open K (firstn n (ae_seal K m)) = Some p ->
    (TAG_LEN <= n)%nat /\
    tag_forgery tag K (body K m) (firstn (n - TAG_LEN) (body K m))
                (firstn TAG_LEN (skipn (n - TAG_LEN) (ae_seal K m))).
  Proof.
    intros Hn Ho.
    assert (Hlen : length (firstn n (ae_seal K m)) = n) by (rewrite firstn_length; lia).
    assert (Hge : (TAG_LEN <= n)%nat).
    { destruct (Nat.lt_ge_cases n TAG_LEN) as [Hlt|Hge]; [|exact Hge].
      rewrite open_too_short in Ho by lia. discriminate. }
    split; [exact Hge|].
    apply open_some_inv in Ho as (ct & tg & Hc & Hl & Ht & _).
    assert (Hlct : length ct = (n - TAG_LEN)%nat).
    { apply (f_equal (@length N)) in Hc. rewrite Hlen, app_length, Hl in Hc. lia. }
    rewrite seal_length in Hn.
    destruct (split_at _ _ _ Hc) as [Hct Htg]. rewrite Hlct in Hct, Htg.
    rewrite firstn_firstn in Hct. replace (Nat.min (n - TAG_LEN) n) with (n - TAG_LEN)%nat in Hct by lia.
    rewrite seal_eq, firstn_app in Hct.
    replace (n - TAG_LEN - length (body K m))%nat with 0%nat in Hct by (rewrite body_length; lia).
    cbn [firstn] in Hct. rewrite app_nil_r in Hct.
    rewrite skipn_firstn_comm in Htg. replace (n - (n - TAG_LEN))%nat with TAG_LEN in Htg by lia.
    split.
    - intros He. apply (f_equal (@length N)) in He. rewrite firstn_length, body_length in He. lia.
    - rewrite <- Hct, <- Htg. exact Ht.
  Qed.

  (* ---- encrypt / decrypt ---- *)
  Theorem decrypt_encrypt t k : tx_wf t = true -> ae_decrypt (ae_encrypt t k) k = Some t.
  Proof.
    intros Hwf. unfold Crypto.ae_decrypt, Crypto.ae_decrypt_r, Crypto.ae_encrypt.
    rewrite aead_roundtrip. rewrite (tx_deserialize_encode t Hwf). reflexivity.
  Qed.

  Lemma decrypt_some_open c k t :
    ae_decrypt c k = Some t -> exists p, ae_open (H k) c = Some p /\ tx_decode p = Some t.
  Proof.
    unfold Crypto.ae_decrypt, Crypto.ae_decrypt_r, tx_decode. destruct (ae_open (H k) c) as [p|]; [|discriminate].
    destruct (tx_deserialize p) as [t'|e] eqn:Hd; [|discriminate]. intros Ht. inversion Ht; subst.
    exists p. split; [reflexivity|]. rewrite Hd. reflexivity.
  Qed.

  (* ---- the only blobs that decrypt under an id are the exact encryptions under that id ---- *)
  Theorem decrypt_only_encryptions c k t :
    (forall key n, bytes_wf (stream key n) = true) ->
    bytes_wf c = true -> ae_decrypt c k = Some t -> c = ae_encrypt t k /\ tx_wf t = true.
  Proof.
    intros Hs Hb Hd. apply decrypt_some_open in Hd as (p & Ho & Hp).
    apply open_some_inv in Ho as (ct & tg & -> & Hl & Ht & ->).
    apply bytesb_app in Hb as [Hct _].
    destruct (tx_decode_canonical _ _ Hp (xor_with_bytesb _ _ Hct (Hs _ _))) as [He Hwf].
    split; [|exact Hwf]. unfold Crypto.ae_encrypt. rewrite seal_eq. unfold body. rewrite <- He.
    rewrite xor_with_length, xor_with_involutive, Ht. reflexivity.
  Qed.
End AEADProofs.

(* ---------- the concrete instance ---------- *)
(* Poly1305 always yields TAG_LEN bytes, so `fit` is the identity on the concrete tags: the
   concrete seal is exactly ciphertext ++ Poly1305 tag *)
Lemma poly1305_length key msg : length (poly1305 key msg) = TAG_LEN.
Proof. apply le_bytes_length. Qed.

Lemma cc_tagN_is_tag nonce aad key ct : tagN (cc_tag nonce aad) key ct = cc_tag nonce aad key ct.
Proof. apply fit_id. apply poly1305_length. Qed.

Theorem concrete_seal_layout key nonce aad pt :
  aead_seal key nonce aad pt =
  xor_with pt (chacha_stream key nonce 1 (length pt)) ++
  poly1305 (firstn 32 (chacha_block key 0 nonce))
           (aead_mac_data aad (xor_with pt (chacha_stream key nonce 1 (length pt)))).
Proof.
  unfold aead_seal, ae_seal. rewrite cc_tagN_is_tag. reflexivity.
Qed.

(* encrypt and decrypt use the same, all-zero, 12-byte nonce (generated from the source) *)
Lemma params_nonce : CryptoParams.DEC_NONCE = CryptoParams.ENC_NONCE /\ CryptoParams.ENC_NONCE = repeat 0 12.
Proof. split; reflexivity. Qed.

Theorem concrete_decrypt_encrypt t k : tx_wf t = true -> c_decrypt (c_encrypt t k) k = Some t.
Proof.
  intros Hwf. unfold c_decrypt, c_encrypt. rewrite (proj1 params_nonce).
  apply decrypt_encrypt. exact Hwf.
Qed.

Lemma le_bytes_bytesb n v : bytes_wf (le_bytes n v) = true.
Proof.
  revert v. induction n as [|n IH]; intros v; [reflexivity|]. cbn [le_bytes]. apply bytesb_cons_iff.
  split; [apply N.mod_lt; lia|apply IH].
Qed.

Lemma flat_map_bytesb {A} (f : A -> bytes) l : (forall x, bytes_wf (f x) = true) -> bytes_wf (flat_map f l) = true.
Proof.
  intros Hf. induction l as [|x l IH]; [reflexivity|]. cbn [flat_map]. apply bytesb_app. split; [apply Hf|exact IH].
Qed.

Lemma firstn_bytesb n l : bytes_wf l = true -> bytes_wf (firstn n l) = true.
Proof.
  revert l. induction n as [|n IH]; intros [|x l] Hb; cbn [firstn]; try reflexivity.
  apply bytesb_cons_iff in Hb as [Hx Hl]. apply bytesb_cons_iff. split; [exact Hx|apply IH; exact Hl].
Qed.

Lemma chacha_stream_bytesb key nonce ctr n : bytes_wf (chacha_stream key nonce ctr n) = true.
Proof.
  unfold chacha_stream. apply firstn_bytesb. generalize ((n + 63) / 64)%nat as nb. intros nb. revert ctr.
  induction nb as [|nb IH]; intros ctr; [reflexivity|]. cbn [chacha_blocks]. apply bytesb_app. split; [|apply IH].
  unfold chacha_block. apply flat_map_bytesb. intros x. apply le_bytes_bytesb.
Qed.

(* decrypt c k = Some t  ==>  c is exactly encrypt t k *)
Theorem concrete_decrypt_only_encryptions c k t :
  bytes_wf c = true -> c_decrypt c k = Some t -> c = c_encrypt t k /\ tx_wf t = true.
Proof.
  intros Hb Hd. unfold c_decrypt in Hd. unfold c_encrypt. rewrite <- (proj1 params_nonce).
  apply decrypt_only_encryptions; [|exact Hb|exact Hd].
  intros key n. apply chacha_stream_bytesb.
Qed.

(* ---------- locator ---------- *)
Theorem locator_prefix k :
  cr_locator k = firstn (Z.to_nat Consts.LOCATOR_LEN) k /\ Consts.LOCATOR_LEN = 16%Z.
Proof. split; reflexivity. Qed.

Lemma locator_length k : (16 <= length k)%nat -> length (cr_locator k) = 16%nat.
Proof.
  intros Hl. rewrite (proj1 (locator_prefix k)). rewrite firstn_length.
  change (Z.to_nat Consts.LOCATOR_LEN) with 16%nat. lia.
Qed.
