(* BtcCodec.v — Bitcoin consensus (de)serialisation of a transaction as rust-bitcoin 0.32.5 does it
   (bitcoin/src/consensus/encode.rs, blockdata/transaction.rs, blockdata/witness.rs), byte level.
   Bytes are N (< 256), byte strings are lists.  A decoder is a function from the remaining input
   to either a value and the rest of the input, or the class of `encode::Error` the library
   returns.  `deserialize` = `deserialize_partial` + "the whole input was consumed".
   No proofs in this file. *)
From TeosModel Require Import Base.

Definition bytes := list N.

Definition btc_is_nil {A} (l : list A) : bool := match l with [] => true | _ => false end.

(* ---------- fixed-width little-endian integers (emit_u16/u32/u64, read_u16/u32/u64) ---------- *)
Fixpoint le_bytes (n : nat) (v : N) : bytes :=
  match n with
  | O => []
  | S n' => (v mod 256) :: le_bytes n' (v / 256)
  end.

Fixpoint le_val (bs : bytes) : N :=
  match bs with
  | [] => 0
  | b :: r => b + 256 * le_val r
  end.

(* i32 <-> its two's-complement u32 image (Version(i32) is emitted with emit_i32) *)
Definition u32_of_i32 (v : Z) : N := Z.to_N (v mod 4294967296)%Z.
Definition i32_of_u32 (u : N) : Z :=
  if u <? 2147483648 then Z.of_N u else (Z.of_N u - 4294967296)%Z.

(* ---------- decoder results ---------- *)
Inductive btc_derr :=
| EIo                                (* Error::Io (UnexpectedEof: the Cursor ran out of bytes) *)
| ENonMinimalVarInt                  (* Error::NonMinimalVarInt *)
| EUnsupportedSegwitFlag (x : N)     (* Error::UnsupportedSegwitFlag(x) *)
| ENoWitnesses                       (* ParseFailed("witness flag set but no witnesses present") *)
| ETrailing                          (* ParseFailed("data not consumed entirely when explicitly deserializing") *)
| EOversized.                        (* Error::OversizedVectorAllocation (Witness decoding only) *)

Inductive dres (A : Type) :=
| ROk (a : A) (rest : bytes)
| RErr (e : btc_derr).
Arguments ROk {A} a rest.
Arguments RErr {A} e.

Definition btc_rbind {A B} (r : dres A) (f : A -> bytes -> dres B) : dres B :=
  match r with
  | ROk a rest => f a rest
  | RErr e => RErr e
  end.

(* read_exact of n bytes.  n may be any u64 taken from the input: it is compared with the number
   of remaining bytes before being turned into a nat. *)
Definition btc_take (n : N) (inp : bytes) : dres bytes :=
  if n <=? N.of_nat (length inp)
  then ROk (firstn (N.to_nat n) inp) (skipn (N.to_nat n) inp)
  else RErr EIo.

Definition btc_read_le (n : nat) (inp : bytes) : dres N :=
  btc_rbind (btc_take (N.of_nat n) inp) (fun bs rest => ROk (le_val bs) rest).

(* ---------- VarInt (compact size) ---------- *)
Definition csize_enc (n : N) : bytes :=
  if n <=? 252 then [n]
  else if n <=? 65535 then 253 :: le_bytes 2 n
  else if n <=? 4294967295 then 254 :: le_bytes 4 n
  else 255 :: le_bytes 8 n.

(* VarInt::size *)
Definition csize_len (n : N) : N :=
  if n <=? 252 then 1 else if n <=? 65535 then 3 else if n <=? 4294967295 then 5 else 9.

Definition csize_dec (inp : bytes) : dres N :=
  match inp with
  | [] => RErr EIo
  | b :: rest =>
    if b =? 255 then
      btc_rbind (btc_read_le 8 rest) (fun x r => if x <? 4294967296 then RErr ENonMinimalVarInt else ROk x r)
    else if b =? 254 then
      btc_rbind (btc_read_le 4 rest) (fun x r => if x <? 65536 then RErr ENonMinimalVarInt else ROk x r)
    else if b =? 253 then
      btc_rbind (btc_read_le 2 rest) (fun x r => if x <? 253 then RErr ENonMinimalVarInt else ROk x r)
    else ROk b rest
  end.

(* ---------- the transaction ---------- *)
Record txin := mk_txin {
  txi_txid : bytes;          (* previous_output.txid: 32 bytes, in the order they are serialised *)
  txi_vout : N;              (* previous_output.vout: u32 *)
  txi_script : bytes;        (* script_sig *)
  txi_seq : N;               (* sequence: u32 *)
  txi_witness : list bytes   (* witness stack *)
}.

Record txout := mk_txout {
  txo_value : N;             (* Amount: u64 satoshi (no MAX_MONEY check in the codec) *)
  txo_script : bytes         (* script_pubkey *)
}.

Record btx := mk_btx {
  btx_version : Z;           (* Version(i32) *)
  btx_in : list txin;
  btx_out : list txout;
  btx_lock : N               (* LockTime: from_consensus / to_consensus_u32 are inverse on every u32 *)
}.

(* ---------- encoding ---------- *)
Definition btc_enc_bytes (b : bytes) : bytes := csize_enc (N.of_nat (length b)) ++ b.

Definition btc_enc_vec {A} (f : A -> bytes) (l : list A) : bytes :=
  csize_enc (N.of_nat (length l)) ++ flat_map f l.

Definition enc_txin (i : txin) : bytes :=
  txi_txid i ++ le_bytes 4 (txi_vout i) ++ btc_enc_bytes (txi_script i) ++ le_bytes 4 (txi_seq i).

Definition enc_txout (o : txout) : bytes :=
  le_bytes 8 (txo_value o) ++ btc_enc_bytes (txo_script o).

Definition enc_witness (w : list bytes) : bytes := btc_enc_vec btc_enc_bytes w.

(* Transaction::uses_segwit_serialization: any non-empty witness, or no inputs at all *)
Definition uses_segwit (t : btx) : bool :=
  existsb (fun i => negb (btc_is_nil (txi_witness i))) (btx_in t) || btc_is_nil (btx_in t).

Definition SEGWIT_MARKER : N := 0.
Definition SEGWIT_FLAG : N := 1.

Definition tx_encode (t : btx) : bytes :=
  le_bytes 4 (u32_of_i32 (btx_version t)) ++
  (if uses_segwit t
   then [SEGWIT_MARKER; SEGWIT_FLAG] ++ btc_enc_vec enc_txin (btx_in t) ++ btc_enc_vec enc_txout (btx_out t) ++
        flat_map (fun i => enc_witness (txi_witness i)) (btx_in t)
   else btc_enc_vec enc_txin (btx_in t) ++ btc_enc_vec enc_txout (btx_out t)) ++
  le_bytes 4 (btx_lock t).

(* ---------- decoding ---------- *)
(* Vec<u8> / ScriptBuf: VarInt length then read_exact (in 128 KiB chunks; a length larger than the
   remaining input ends in Io(UnexpectedEof) whatever its size) *)
Definition btc_dec_bytes (inp : bytes) : dres bytes :=
  btc_rbind (csize_dec inp) (fun n r => btc_take n r).

Definition BTC_TXID_LEN : N := 32.

Definition dec_txin (inp : bytes) : dres txin :=
  btc_rbind (btc_take BTC_TXID_LEN inp) (fun txid r =>
  btc_rbind (btc_read_le 4 r) (fun vout r =>
  btc_rbind (btc_dec_bytes r) (fun script r =>
  btc_rbind (btc_read_le 4 r) (fun seq r =>
  ROk {| txi_txid := txid; txi_vout := vout; txi_script := script; txi_seq := seq; txi_witness := [] |} r)))).

Definition dec_txout (inp : bytes) : dres txout :=
  btc_rbind (btc_read_le 8 inp) (fun v r =>
  btc_rbind (btc_dec_bytes r) (fun script r =>
  ROk {| txo_value := v; txo_script := script |} r)).

(* `for _ in 0..len { ret.push(decode(r)?) }` with len any u64.  The recursion is on fuel; callers
   pass the number of remaining input bytes, which bounds the number of items that can be decoded
   (every item consumes at least one byte).  At fuel 0 the next item is attempted once more so that
   the error is the one the library reports (Io on an exhausted input). *)
Fixpoint btc_dec_items {A} (item : bytes -> dres A) (fuel : nat) (n : N) (inp : bytes) : dres (list A) :=
  if n =? 0 then ROk [] inp
  else match fuel with
       | O => match item inp with RErr e => RErr e | ROk _ _ => RErr EIo end
       | S f => btc_rbind (item inp) (fun a r =>
                btc_rbind (btc_dec_items item f (n - 1) r) (fun l r' => ROk (a :: l) r'))
       end.

Definition btc_dec_vec {A} (item : bytes -> dres A) (inp : bytes) : dres (list A) :=
  btc_rbind (csize_dec inp) (fun n r => btc_dec_items item (length r) n r).

(* Witness::consensus_decode: element count above MAX_VEC_SIZE is refused; so is a stack whose
   elements with their length prefixes occupy more than MAX_VEC_SIZE bytes
   (required_len > MAX_VEC_SIZE + witness_index_space, incl. the checked_add overflows) *)
Definition MAX_VEC_SIZE : N := 4000000.

Definition wit_step (rec : N -> bytes -> dres (list bytes)) (acc : N) (inp : bytes) : dres (list bytes) :=
  btc_rbind (csize_dec inp) (fun sz r =>
    let acc' := acc + sz + csize_len sz in
    if MAX_VEC_SIZE <? acc' then RErr EOversized
    else btc_rbind (btc_take sz r) (fun e r' =>
         btc_rbind (rec acc' r') (fun l r'' => ROk (e :: l) r''))).

Fixpoint dec_wit_items (fuel : nat) (n : N) (acc : N) (inp : bytes) : dres (list bytes) :=
  if n =? 0 then ROk [] inp
  else match fuel with
       | O => wit_step (fun _ _ => RErr EIo) acc inp
       | S f => wit_step (dec_wit_items f (n - 1)) acc inp
       end.

Definition dec_witness (inp : bytes) : dres (list bytes) :=
  btc_rbind (csize_dec inp) (fun n r =>
    if MAX_VEC_SIZE <? n then RErr EOversized
    else dec_wit_items (length r) n 0 r).

(* `for txin in input.iter_mut() { txin.witness = decode(r)? }` *)
Fixpoint dec_witnesses (ins : list txin) (inp : bytes) : dres (list txin) :=
  match ins with
  | [] => ROk [] inp
  | i :: rest =>
    btc_rbind (dec_witness inp) (fun w r =>
    btc_rbind (dec_witnesses rest r) (fun l r' =>
    ROk ({| txi_txid := txi_txid i; txi_vout := txi_vout i; txi_script := txi_script i;
            txi_seq := txi_seq i; txi_witness := w |} :: l) r'))
  end.

(* Transaction::consensus_decode_from_finite_reader *)
Definition parse_tx (inp : bytes) : dres btx :=
  btc_rbind (btc_read_le 4 inp) (fun v r =>
  btc_rbind (btc_dec_vec dec_txin r) (fun ins r =>
  match ins with
  | [] =>
    btc_rbind (btc_read_le 1 r) (fun flag r =>
    if flag =? 1 then
      btc_rbind (btc_dec_vec dec_txin r) (fun ins r =>
      btc_rbind (btc_dec_vec dec_txout r) (fun outs r =>
      btc_rbind (dec_witnesses ins r) (fun ins' r =>
      if negb (btc_is_nil ins') && forallb (fun i => btc_is_nil (txi_witness i)) ins'
      then RErr ENoWitnesses
      else btc_rbind (btc_read_le 4 r) (fun lock r =>
           ROk {| btx_version := i32_of_u32 v; btx_in := ins'; btx_out := outs; btx_lock := lock |} r))))
    else RErr (EUnsupportedSegwitFlag flag))
  | _ :: _ =>
    btc_rbind (btc_dec_vec dec_txout r) (fun outs r =>
    btc_rbind (btc_read_le 4 r) (fun lock r =>
    ROk {| btx_version := i32_of_u32 v; btx_in := ins; btx_out := outs; btx_lock := lock |} r))
  end)).

(* consensus::deserialize: deserialize_partial, then consumed == data.len() *)
Definition tx_deserialize (inp : bytes) : btx + btc_derr :=
  match parse_tx inp with
  | ROk t [] => inl t
  | ROk _ (_ :: _) => inr ETrailing
  | RErr e => inr e
  end.

Definition tx_decode (inp : bytes) : option btx :=
  match tx_deserialize inp with inl t => Some t | inr _ => None end.

(* ---------- well-formed transactions: the values the Rust types can hold ---------- *)
Definition byte_wf (b : N) : bool := b <? 256.
Definition bytes_wf (l : bytes) : bool := forallb byte_wf l.
Definition BTC_U64LIM : N := 18446744073709551616.
Definition BTC_U32LIM : N := 4294967296.
Definition len_wf (n : nat) : bool := N.of_nat n <? BTC_U64LIM.

(* serialised size of a witness stack without its element count *)
Definition wit_size (w : list bytes) : N :=
  fold_right (fun e s => N.of_nat (length e) + csize_len (N.of_nat (length e)) + s) 0 w.

Definition witness_wf (w : list bytes) : bool :=
  forallb bytes_wf w && (N.of_nat (length w) <=? MAX_VEC_SIZE) && (wit_size w <=? MAX_VEC_SIZE).

Definition txin_wf (i : txin) : bool :=
  (N.of_nat (length (txi_txid i)) =? BTC_TXID_LEN) && bytes_wf (txi_txid i) &&
  (txi_vout i <? BTC_U32LIM) && bytes_wf (txi_script i) && len_wf (length (txi_script i)) &&
  (txi_seq i <? BTC_U32LIM) && witness_wf (txi_witness i).

Definition txout_wf (o : txout) : bool :=
  (txo_value o <? BTC_U64LIM) && bytes_wf (txo_script o) && len_wf (length (txo_script o)).

Definition tx_wf (t : btx) : bool :=
  (-2147483648 <=? btx_version t)%Z && (btx_version t <? 2147483648)%Z &&
  forallb txin_wf (btx_in t) && len_wf (length (btx_in t)) &&
  forallb txout_wf (btx_out t) && len_wf (length (btx_out t)) &&
  (btx_lock t <? BTC_U32LIM).
