(* Db.v — a small generic relational model of the SQLite usage of rust-teos (DESIGN.md 3.3).

   It is schema-generic: the schema is a VALUE (generated from the `TABLES` SQL of a dbm.rs by
   tools/translate_schema.py, e.g. Gen/SchemaClient.v) and every function below takes it as an
   argument.  Used by Client.v (plugin database); meant to be reusable for the tower database.

   Conventions
   * every column value is an `N` (byte strings, texts and blobs are abstracted to ids by the
     harnesses); a row is the list of its column values in declaration order;
   * a table is the list of its rows in insertion order; a database is the list of its tables in
     the declaration order of the schema (table id = position, `T_<name>` in the Gen file);
   * a key is the tuple (`list N`) of the values of some columns: `proj r cols`;
   * foreign keys reference the primary key of a table declared EARLIER in the schema
     (`schema_wfb`, checked by the translator and by `vm_compute` where a schema is used), which
     is what lets a cascade be computed by structural recursion on the table index;
   * NULLs, UNIQUE constraints other than the primary key, triggers and deferred constraints are
     not modelled (the code base does not use them).

   Statements (`exec`):
     SInsert t r            INSERT INTO t VALUES r        -> AlreadyExists on a primary-key conflict,
                                                            MissingForeignKey when a parent row is absent
     SDelete t cols vals b  DELETE FROM t WHERE cols=vals -> cascades along every ON DELETE CASCADE
                                                            edge; ForeignKeyViolation when a NO ACTION
                                                            child would be orphaned; with b = true
                                                            NotFound when no row of t matches
                                                            (teos_common::dbm::remove_data)
     SUpdate t k sets b     UPDATE t SET .. WHERE pk = k  -> only non-key, non-foreign-key columns;
                                                            with b = true NotFound when no row matches
                                                            (update_data)
   `transaction` applies a list of statements atomically: the caller gets the new database or the
   first error (and then keeps the database it had).
   No proofs in this file (DbProofs.v). *)
From TeosModel Require Import Base.

Definition row := list N.
Definition key := list N.
Definition table := list row.
Definition db := list table.

Record fkey := mk_fkey {
  fk_cols : list nat;      (* columns of the child table, ...                                  *)
  fk_parent : nat;         (* ... referencing table fk_parent ...                              *)
  fk_pcols : list nat;     (* ... on these columns (its primary key, same order as ts_pk)      *)
  fk_cascade : bool        (* ON DELETE CASCADE (true) / NO ACTION, RESTRICT (false)           *)
}.

Record tschema := mk_tschema {
  ts_arity : nat;
  ts_pk : list nat;
  ts_fks : list fkey
}.

Definition schema := list tschema.

Definition empty_tschema : tschema := mk_tschema 0 [] [].
Definition tsch (s : schema) (t : nat) : tschema := nth t s empty_tschema.
Definition tbl (d : db) (t : nat) : table := nth t d [].

Definition proj (r : row) (cols : list nat) : key := map (fun i => nth i r 0) cols.

Fixpoint key_eqb (a b : key) : bool :=
  match a, b with
  | [], [] => true
  | x :: a', y :: b' => N.eqb x y && key_eqb a' b'
  | _, _ => false
  end.

Fixpoint natlist_eqb (a b : list nat) : bool :=
  match a, b with
  | [], [] => true
  | x :: a', y :: b' => Nat.eqb x y && natlist_eqb a' b'
  | _, _ => false
  end.

Definition mem_nat (i : nat) (l : list nat) : bool := existsb (Nat.eqb i) l.

Fixpoint set_tbl (d : db) (t : nat) (rows : table) : db :=
  match d, t with
  | [], _ => []
  | _ :: d', O => rows :: d'
  | x :: d', S t' => x :: set_tbl d' t' rows
  end.

Fixpoint map_idx_from {A B} (i : nat) (f : nat -> A -> B) (l : list A) : list B :=
  match l with
  | [] => []
  | x :: r => f i x :: map_idx_from (S i) f r
  end.
Definition map_idx {A B} (f : nat -> A -> B) (l : list A) : list B := map_idx_from 0 f l.

Definition db_empty (s : schema) : db := map (fun _ => []) s.

(* every foreign key points to an earlier table and to that table's primary key *)
Definition schema_wfb (s : schema) : bool :=
  forallb (fun x => x)
    (map_idx (fun c ts =>
       forallb (fun fk => Nat.ltb (fk_parent fk) c &&
                          natlist_eqb (fk_pcols fk) (ts_pk (tsch s (fk_parent fk))) &&
                          Nat.eqb (length (fk_cols fk)) (length (fk_pcols fk)))
               (ts_fks ts)) s).

Inductive db_error := AlreadyExists | MissingForeignKey | NotFound | ForeignKeyViolation | BadStatement.

Inductive dbres (A : Type) := DbOk (a : A) | DbErr (e : db_error).
Arguments DbOk {A} a.
Arguments DbErr {A} e.

(* ---------- look-ups ---------- *)
Definition select_where (d : db) (t : nat) (cols : list nat) (vals : key) : list row :=
  filter (fun r => key_eqb (proj r cols) vals) (tbl d t).

Definition count_where (d : db) (t : nat) (cols : list nat) (vals : key) : nat :=
  length (select_where d t cols vals).

Definition find_pk (s : schema) (d : db) (t : nat) (k : key) : option row :=
  find (fun r => key_eqb (proj r (ts_pk (tsch s t))) k) (tbl d t).

Definition has_pk (s : schema) (d : db) (t : nat) (k : key) : bool :=
  existsb (fun r => key_eqb (proj r (ts_pk (tsch s t))) k) (tbl d t).

(* ---------- INSERT ---------- *)
Definition parent_present (d : db) (r : row) (fk : fkey) : bool :=
  existsb (fun r' => key_eqb (proj r' (fk_pcols fk)) (proj r (fk_cols fk))) (tbl d (fk_parent fk)).

Definition db_insert (s : schema) (d : db) (t : nat) (r : row) : dbres db :=
  let ts := tsch s t in
  if negb (Nat.ltb t (length d)) || negb (Nat.eqb (length r) (ts_arity ts)) then DbErr BadStatement
  else if has_pk s d t (proj r (ts_pk ts)) then DbErr AlreadyExists
  else if negb (forallb (parent_present d r) (ts_fks ts)) then DbErr MissingForeignKey
  else DbOk (set_tbl d t (tbl d t ++ [r])).

(* ---------- DELETE with cascade ----------
   `root c r` selects the rows the statement names.  A row is doomed when it is selected or when
   it references a doomed row through an ON DELETE CASCADE edge.  Parents live in earlier tables
   (schema_wfb), so fuel = table index + 1 is enough; `S (length s)` is used. *)
Fixpoint doomedb (s : schema) (d : db) (root : nat -> row -> bool) (fuel : nat) (c : nat) (r : row) : bool :=
  match fuel with
  | O => false
  | S f =>
    root c r ||
    existsb (fun fk =>
               fk_cascade fk &&
               existsb (fun r' => doomedb s d root f (fk_parent fk) r' &&
                                  key_eqb (proj r' (fk_pcols fk)) (proj r (fk_cols fk)))
                       (tbl d (fk_parent fk)))
            (ts_fks (tsch s c))
  end.

Definition doomed (s : schema) (d : db) (root : nat -> row -> bool) : nat -> row -> bool :=
  doomedb s d root (S (length s)).

(* a surviving row that references a doomed row through a NO ACTION / RESTRICT edge *)
Definition orphanedb (s : schema) (d : db) (root : nat -> row -> bool) (c : nat) (r : row) : bool :=
  negb (doomed s d root c r) &&
  existsb (fun fk =>
             negb (fk_cascade fk) &&
             existsb (fun r' => doomed s d root (fk_parent fk) r' &&
                                key_eqb (proj r' (fk_pcols fk)) (proj r (fk_cols fk)))
                     (tbl d (fk_parent fk)))
          (ts_fks (tsch s c)).

Definition db_delete_root (s : schema) (d : db) (root : nat -> row -> bool) : dbres db :=
  if existsb (fun x => x) (map_idx (fun c rows => existsb (orphanedb s d root c) rows) d)
  then DbErr ForeignKeyViolation
  else DbOk (map_idx (fun c rows => filter (fun r => negb (doomed s d root c r)) rows) d).

Definition where_root (t : nat) (cols : list nat) (vals : key) : nat -> row -> bool :=
  fun c r => Nat.eqb c t && key_eqb (proj r cols) vals.

Definition db_delete (s : schema) (d : db) (t : nat) (cols : list nat) (vals : key) (strict : bool) : dbres db :=
  if strict && Nat.eqb (count_where d t cols vals) 0 then DbErr NotFound
  else db_delete_root s d (where_root t cols vals).

(* ---------- UPDATE (non-key columns) ---------- *)
Fixpoint set_col (r : row) (i : nat) (v : N) : row :=
  match r, i with
  | [], _ => []
  | _ :: r', O => v :: r'
  | x :: r', S i' => x :: set_col r' i' v
  end.

Fixpoint apply_sets (r : row) (sets : list (nat * N)) : row :=
  match sets with
  | [] => r
  | (i, v) :: rest => apply_sets (set_col r i v) rest
  end.

Definition protected_cols (ts : tschema) : list nat := ts_pk ts ++ flat_map fk_cols (ts_fks ts).

Definition db_update (s : schema) (d : db) (t : nat) (k : key) (sets : list (nat * N)) (strict : bool) : dbres db :=
  let ts := tsch s t in
  if existsb (fun iv => mem_nat (fst iv) (protected_cols ts)) sets then DbErr BadStatement
  else if strict && negb (has_pk s d t k) then DbErr NotFound
  else DbOk (set_tbl d t (map (fun r => if key_eqb (proj r (ts_pk ts)) k then apply_sets r sets else r) (tbl d t))).

(* ---------- statements, sequences, transactions ---------- *)
Inductive stmt :=
| SInsert (t : nat) (r : row)
| SDelete (t : nat) (cols : list nat) (vals : key) (strict : bool)
| SUpdate (t : nat) (k : key) (sets : list (nat * N)) (strict : bool).

Definition exec (s : schema) (d : db) (st : stmt) : dbres db :=
  match st with
  | SInsert t r => db_insert s d t r
  | SDelete t cols vals strict => db_delete s d t cols vals strict
  | SUpdate t k sets strict => db_update s d t k sets strict
  end.

Fixpoint exec_all (s : schema) (d : db) (sts : list stmt) : dbres db :=
  match sts with
  | [] => DbOk d
  | st :: rest => match exec s d st with
                  | DbOk d' => exec_all s d' rest
                  | DbErr e => DbErr e
                  end
  end.

(* BEGIN; sts; COMMIT — all or nothing *)
Definition transaction (s : schema) (d : db) (sts : list stmt) : dbres db := exec_all s d sts.

(* a statement whose failure the caller ignores inside a transaction (`.ok()`): SQLite's default
   ABORT resolution undoes that statement only *)
Definition exec_ignore (s : schema) (d : db) (st : stmt) : db :=
  match exec s d st with DbOk d' => d' | DbErr _ => d end.

(* run a history of autocommit statements, skipping the failing ones (what a client that
   handles the errors observes) *)
Fixpoint run_stmts (s : schema) (d : db) (sts : list stmt) : db :=
  match sts with
  | [] => d
  | st :: rest => run_stmts s (exec_ignore s d st) rest
  end.

(* ---------- the integrity predicates, in boolean form (monitors) ---------- *)
Definition fk_okb (s : schema) (d : db) : bool :=
  forallb (fun x => x)
    (map_idx (fun c rows => forallb (fun r => forallb (parent_present d r) (ts_fks (tsch s c))) rows) d).

Fixpoint keys_nodupb (l : list key) : bool :=
  match l with
  | [] => true
  | k :: r => negb (existsb (key_eqb k) r) && keys_nodupb r
  end.

Definition pk_okb (s : schema) (d : db) : bool :=
  forallb (fun x => x)
    (map_idx (fun c rows => keys_nodupb (map (fun r => proj r (ts_pk (tsch s c))) rows)) d).
