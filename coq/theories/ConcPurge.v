(* ConcPurge.v — C10, register || the gatekeeper's purge: an acknowledged registration is never lost.

   Gatekeeper::filtered_block_connected (repaired code) decides who is outdated AND removes them from memory
   and from the database in ONE critical section of `users`.  For ALL schedules (event granularity) of
       register(u)  ||  the gatekeeper's listener for the block at height h
   in which both return: if the request was answered RegOk(slots, start, expiry) then in the final state
   user u is in the gatekeeper's memory and in table users with exactly these values - or the acknowledged
   subscription itself is outdated at h (expiry + expiry_delta <= h: the purge removed it legitimately, as
   it does in the sequential order register ; block).  Never "acknowledged and deleted".

   With the purge split in two critical sections (decide / remove: the code before the repair) `cinit PC`
   below is not provable: the decision is taken on a state in which the renewal is not yet visible, and the
   removal is applied after it has been acknowledged (the witness schedule the C10 check used to replay).

   Proof: an invariant over the two residual programs (Owicki-Gries style, as in ConcBreach.v).
     request:  apre  (has not taken `users`; reads only)
               asec  (holds `users`; what it reads of the user tables is frozen: the only thing the purge does
                      outside its critical section is storing the height)
               committed: its one write done, nothing left but releases and the reply RegOk s st e
     purge:    cinit (has not taken `users`), sect (inside its section, state known), cfree (after it: stores
               the height, touches no user data)
   Once the request has committed only the purge acts, so the rest of its run is a sequential run (`csolo`)
   and the sequential argument applies: a user that is in the map with expiry e is selected only if
   e + delta <= h. *)
From TeosModel Require Import Base ListAux TxIndex TxIndexProofs Tower TowerStable TowerInv TowerProofs TowerSubs
                              ConcTower ConcTowerProofs ConcReg.
From Coq Require Import Lia.
Local Open Scope N_scope.

Section Purge.
  Context (u h : N).

  (* what the request's critical section reads and writes *)
  Definition aview (t : tower) : list (N * uinfo) * list (N * uinfo) * config := (gk_users t, db_users t, cfg t).

  Definition good (t : tower) : Prop := user_row_ok t u /\ NoDup (map fst (gk_users t)).

  Definition present (s st e : N) (t : tower) : Prop :=
    gk_get t u = Some (mk_uinfo s st e) /\ aget (db_users t) u = Some (mk_uinfo s st e).

  (* registered with the acknowledged values, or that very subscription is outdated at h *)
  Definition PL (s st e : N) (t : tower) : Prop := present s st e t \/ e + c_delta (cfg t) <= h.

  Lemma good_view t t' : aview t' = aview t -> good t -> good t'.
  Proof. unfold aview, good, user_row_ok. intros H. inversion H as [[H1 H2 H3]]. rewrite H1, H2. tauto. Qed.
  Lemma PL_view s st e t t' : aview t' = aview t -> PL s st e t -> PL s st e t'.
  Proof. unfold aview, PL, present, gk_get. intros H. inversion H as [[H1 H2 H3]]. rewrite H1, H2, H3. tauto. Qed.

  Definition csolo (s st e : N) (q : prog out) (t : tower) : Prop :=
    match exec q t with Ok _ tf => PL s st e tf | Abort _ _ => True end.

  Lemma csolo_act s st e B (f : tower -> res B) k t b t' : csolo s st e (Act B f k) t -> f t = Ok b t' -> csolo s st e (k b) t'.
  Proof. unfold csolo. cbn [exec]. intros H E. rewrite E in H. exact H. Qed.

  Definition holdsu (hh : list lock) : bool := memN L_users hh.
  Definition notok (o : out) : Prop := forall s st e, o <> ORegisterRes (RegOk s st e).

  (* ---- outlines ---- *)
  Fixpoint cfree (q : prog out) : Prop :=
    match q with
    | Ret _ => True
    | Acq l k => N.eqb l L_users = false /\ cfree k
    | Rel _ k => cfree k
    | Act B f k => (forall t b t', f t = Ok b t' -> aview t' = aview t) /\ forall b, cfree (k b)
    end.

  Fixpoint sect (q : prog out) (t : tower) : Prop :=
    match q with
    | Ret _ => False
    | Acq _ k => sect k t
    | Rel l k => if N.eqb l L_users then good t /\ cfree k else sect k t
    | Act B f k => match f t with Ok b t' => sect (k b) t' | Abort _ _ => True end
    end.

  Fixpoint cinit (q : prog out) : Prop :=
    match q with
    | Acq l k => if N.eqb l L_users
                 then (forall t, good t -> sect k t) /\ (forall s st e t, good t -> PL s st e t -> csolo s st e k t)
                 else cinit k
    | Rel _ k => cinit k
    | _ => False
    end.

  Fixpoint asec (v : list (N * uinfo) * list (N * uinfo) * config) (q : prog out) : Prop :=
    match q with
    | Ret _ => False
    | Acq _ k => asec v k
    | Rel l k => if N.eqb l L_users then exists o, ret_of k = Some o /\ notok o else asec v k
    | Act B f k => forall t, aview t = v -> good t ->
                     match f t with
                     | Abort _ _ => True
                     | Ok b t' => (t' = t /\ asec v (k b)) \/
                                  (good t' /\ exists s st e, ret_of (k b) = Some (ORegisterRes (RegOk s st e)) /\ present s st e t')
                     end
    end.

  Fixpoint apre (q : prog out) : Prop :=
    match q with
    | Ret _ => False
    | Acq l k => if N.eqb l L_users then forall t, good t -> asec (aview t) k else apre k
    | Rel _ k => apre k
    | Act B f k => forall t b t', f t = Ok b t' -> t' = t /\ apre (k b)
    end.

  Lemma cfree_solo s st e q : cfree q -> forall t, PL s st e t -> csolo s st e q t.
  Proof.
    unfold csolo. induction q as [o|l k IH|l k IH|B f k IH]; cbn [cfree exec]; intros Hc t Hp.
    - exact Hp.
    - apply IH; [apply Hc|exact Hp].
    - apply IH; assumption.
    - destruct Hc as [H1 H2]. destruct (f t) as [b t'|] eqn:E; [|exact I].
      apply IH; [apply H2|]. eapply PL_view; [eapply H1; eauto|exact Hp].
  Qed.

  Lemma cinit_solo s st e q : cinit q -> forall t, good t -> PL s st e t -> csolo s st e q t.
  Proof.
    induction q as [o|l k IH|l k IH|B f k IH]; cbn [cinit]; intros Hc t Hg Hp; try contradiction.
    - destruct (N.eqb l L_users); [destruct Hc as [_ Hc]; exact (Hc s st e t Hg Hp)|exact (IH Hc t Hg Hp)].
    - exact (IH Hc t Hg Hp).
  Qed.

  (* ---- the joint invariant ---- *)
  Definition Ph (qa : prog out) (ha : list lock) (qc : prog out) (hc : list lock) (t : tower) : Prop :=
     (((apre qa /\ holdsu ha = false) \/ (asec (aview t) qa /\ holdsu ha = true)) /\
      ((cinit qc /\ holdsu hc = false /\ good t) \/ (sect qc t /\ holdsu hc = true) \/ (cfree qc /\ holdsu hc = false /\ good t)))
  \/ (exists s st e, ret_of qa = Some (ORegisterRes (RegOk s st e)) /\ csolo s st e qc t)
  \/ (exists o, ret_of qa = Some o /\ notok o).

  Definition J (c : conf) : Prop :=
    exists qa ha tra qc hc trc,
      cf_threads c = [mk_cthread (Running qa) ha tra; mk_cthread (Running qc) hc trc] /\
      excl c /\ Ph qa ha qc hc (cf_tower c).

  Definition is_abort (r : tout) : Prop :=
    match r with TPoisoned _ => True | TOut (OAbort _) => True | TOut _ => False end.
  Definition aborted (c : conf) : Prop :=
    exists i th r, nth_error (cf_threads c) i = Some th /\ ct_st th = Ended r /\ is_abort r.

  Lemma aborted_step c i c' : aborted c -> step_thread c i = Some c' -> aborted c'.
  Proof.
    intros [j [th [r [Hn [He Hab]]]]] Hs.
    destruct (step_thread_cases c i c' Hs) as [thi [p [Hni [Hst Hc]]]].
    assert (Hij : i <> j) by (intros ->; rewrite Hn in Hni; inversion Hni; subst; congruence).
    exists j, th, r. split; [|split; [exact He|exact Hab]].
    destruct Hc as [[l [k [_ [_ [_ ->]]]]]|[[l [k [_ [_ [_ ->]]]]]|[[l [k [_ ->]]]|[[B [f [k [bb [t' [_ [_ ->]]]]]]]|[B [f [k [s [t' [_ [_ ->]]]]]]]]]]];
      cbn [die cf_threads]; rewrite nth_error_set_nth_neq by exact Hij; exact Hn.
  Qed.

  Lemma holdsu_cons l hh : holdsu (l :: hh) = (N.eqb L_users l || holdsu hh)%bool.
  Proof. reflexivity. Qed.
  Lemma holdsu_remove_false l hh : holdsu hh = false -> holdsu (remove_lock l hh) = false.
  Proof.
    unfold holdsu. intros H. destruct (memN L_users (remove_lock l hh)) eqn:E; [|reflexivity].
    apply holds_remove in E. congruence.
  Qed.

  (* ---- the request moves ---- *)
  Lemma A_acq l k ha qc hc t :
    Ph (Acq l k) ha qc hc t -> (l = L_users -> holdsu hc = false) -> Ph k (l :: ha) qc hc t.
  Proof.
    intros [[Ha Hc]|[H|H]] Hfree; [|right; left; exact H|right; right; exact H].
    left. split; [|exact Hc]. rewrite holdsu_cons. destruct Ha as [[Hp Hh]|[Hs Hh]].
    - cbn [apre] in Hp. destruct (N.eqb l L_users) eqn:El.
      + apply N.eqb_eq in El. subst l. right. split; [|reflexivity]. apply Hp.
        destruct Hc as [[_ [_ Hg]]|[[_ Hx]|[_ [_ Hg]]]]; [exact Hg| |exact Hg]. rewrite (Hfree eq_refl) in Hx. discriminate.
      + left. split; [exact Hp|]. rewrite N.eqb_sym, El. exact Hh.
    - right. split; [exact Hs|]. rewrite Hh. apply orb_true_r.
  Qed.

  Lemma A_rel l k ha qc hc t : Ph (Rel l k) ha qc hc t -> Ph k (remove_lock l ha) qc hc t.
  Proof.
    intros [[Ha Hc]|[H|H]]; [|right; left; exact H|right; right; exact H].
    destruct Ha as [[Hp Hh]|[Hs Hh]].
    - left. split; [|exact Hc]. left. split; [exact Hp|apply holdsu_remove_false; exact Hh].
    - cbn [asec] in Hs. destruct (N.eqb l L_users) eqn:El.
      + right. right. exact Hs.
      + left. split; [|exact Hc]. right. split; [exact Hs|]. unfold holdsu. rewrite holds_remove_other; [exact Hh|exact El].
  Qed.

  Lemma A_act B (f : tower -> res B) k' ha qc hc t b t' :
    Ph (Act B f k') ha qc hc t -> (holdsu ha = true -> holdsu hc = false) -> f t = Ok b t' -> Ph (k' b) ha qc hc t'.
  Proof.
    intros [[Ha Hc]|[[s [st [e [H _]]]]|[o [H _]]]] Hex E; [|discriminate|discriminate].
    destruct Ha as [[Hp Hh]|[Hs Hh]].
    - destruct (Hp t b t' E) as [-> Hk]. left. split; [left; split; [exact Hk|exact Hh]|exact Hc].
    - assert (Hg : good t /\ ((cinit qc /\ holdsu hc = false) \/ (cfree qc /\ holdsu hc = false))).
      { specialize (Hex Hh). destruct Hc as [[H1 [H2 H3]]|[[_ Hx]|[H1 [H2 H3]]]]; [tauto|congruence|tauto]. }
      destruct Hg as [Hg Hcc]. cbn [asec] in Hs. specialize (Hs t eq_refl Hg). rewrite E in Hs.
      destruct Hs as [[-> Hk]|[Hg' [s [st [e [Hr Hpr]]]]]].
      + left. split; [right; split; [exact Hk|exact Hh]|exact Hc].
      + (* the commit: from now on only the purge acts *)
        right. left. exists s, st, e. split; [exact Hr|].
        destruct Hcc as [[Hi _]|[Hf _]]; [apply cinit_solo; [exact Hi|exact Hg'|left; exact Hpr]|apply cfree_solo; [exact Hf|left; exact Hpr]].
  Qed.
  (* ---- the purge moves ---- *)
  Lemma C_acq qa ha l k hc t :
    Ph qa ha (Acq l k) hc t -> Ph qa ha k (l :: hc) t.
  Proof.
    intros [[Ha Hc]|[[s [st [e [Hr Hs]]]]|H]]; [|right; left; exists s, st, e; split; [exact Hr|exact Hs]|right; right; exact H].
    left. split; [exact Ha|]. rewrite holdsu_cons. destruct Hc as [[Hi [Hh Hg]]|[[Hs Hh]|[Hf [Hh Hg]]]].
    - cbn [cinit] in Hi. destruct (N.eqb l L_users) eqn:El.
      + apply N.eqb_eq in El. subst l. right. left. split; [apply (proj1 Hi); exact Hg|reflexivity].
      + left. split; [exact Hi|]. split; [rewrite N.eqb_sym, El; exact Hh|exact Hg].
    - right. left. split; [exact Hs|]. rewrite Hh. apply orb_true_r.
    - destruct Hf as [El Hf]. right. right. split; [exact Hf|]. split; [rewrite N.eqb_sym, El; exact Hh|exact Hg].
  Qed.

  Lemma C_rel qa ha l k hc t : Ph qa ha (Rel l k) hc t -> Ph qa ha k (remove_lock l hc) t.
  Proof.
    intros [[Ha Hc]|[[s [st [e [Hr Hs]]]]|H]]; [|right; left; exists s, st, e; split; [exact Hr|exact Hs]|right; right; exact H].
    left. split; [exact Ha|]. destruct Hc as [[Hi [Hh Hg]]|[[Hs Hh]|[Hf [Hh Hg]]]].
    - left. split; [exact Hi|]. split; [apply holdsu_remove_false; exact Hh|exact Hg].
    - cbn [sect] in Hs. destruct (N.eqb l L_users) eqn:El.
      + apply N.eqb_eq in El. subst l. destruct Hs as [Hg Hf]. right. right. split; [exact Hf|]. split; [apply holds_remove_same|exact Hg].
      + right. left. split; [exact Hs|]. unfold holdsu. rewrite holds_remove_other; [exact Hh|exact El].
    - right. right. split; [exact Hf|]. split; [apply holdsu_remove_false; exact Hh|exact Hg].
  Qed.

  Lemma C_act qa ha B (f : tower -> res B) k' hc t b t' :
    Ph qa ha (Act B f k') hc t -> (holdsu hc = true -> holdsu ha = false) -> f t = Ok b t' -> Ph qa ha (k' b) hc t'.
  Proof.
    intros [[Ha Hc]|[[s [st [e [Hr Hs]]]]|H]] Hex E;
      [|right; left; exists s, st, e; split; [exact Hr|eapply csolo_act; eauto]|right; right; exact H].
    left. destruct Hc as [[[] _]|[[Hs Hh]|[[Hv Hf] [Hh Hg]]]].
    - (* inside its section: the request is outside its own *)
      specialize (Hex Hh). split.
      + destruct Ha as [Ha|[_ Hx]]; [left; exact Ha|congruence].
      + right. left. split; [|exact Hh]. cbn [sect] in Hs. rewrite E in Hs. exact Hs.
    - pose proof (Hv t b t' E) as Hview. split.
      + destruct Ha as [Ha|[Ha Hha]]; [left; exact Ha|right; split; [rewrite Hview; exact Ha|exact Hha]].
      + right. right. split; [apply Hf|]. split; [exact Hh|eapply good_view; eauto].
  Qed.

  (* ---- every step of either thread keeps the invariant (or somebody has panicked) ---- *)
  Lemma J_step c i c' : J c -> step_thread c i = Some c' -> J c' \/ aborted c'.
  Proof.
    intros [qa [ha [tra [qc [hc [trc [Hth [Hex Hph]]]]]]]] Hs.
    pose proof (excl_step c i c' Hex Hs) as Hex'.
    destruct (step_thread_cases c i c' Hs) as [th [p [Hn [Hst Hc]]]].
    rewrite Hth in Hn.
    assert (Hheld : is_held c L_users = false -> holdsu ha = false /\ holdsu hc = false).
    { intros Hf. unfold is_held in Hf. rewrite Hth in Hf. cbn [existsb holds ct_held] in Hf.
      apply orb_false_iff in Hf. destruct Hf as [H1 H2]. apply orb_false_iff in H2. destruct H2 as [H2 _]. split; assumption. }
    assert (Hxa : holdsu ha = true -> holdsu hc = false).
    { intros Hh. apply (Hex 0%nat 1%nat (mk_cthread (Running qa) ha tra) (mk_cthread (Running qc) hc trc) L_users);
        [rewrite Hth; reflexivity|rewrite Hth; reflexivity|discriminate|exact Hh]. }
    assert (Hxc : holdsu hc = true -> holdsu ha = false).
    { intros Hh. apply (Hex 1%nat 0%nat (mk_cthread (Running qc) hc trc) (mk_cthread (Running qa) ha tra) L_users);
        [rewrite Hth; reflexivity|rewrite Hth; reflexivity|discriminate|exact Hh]. }
    destruct i as [|[|i]]; cbn [nth_error] in Hn; [| |destruct i; discriminate].
    - inversion Hn; subst th. cbn [ct_st ct_held ct_trace] in *. inversion Hst; subst p. clear Hst Hn.
      destruct Hc as [[l [k [-> [Hfree [_ ->]]]]]|[[l [k [-> [_ [_ ->]]]]]|[[l [k [-> ->]]]|[[B [f [k [bb [t' [-> [Hf ->]]]]]]]|[B [f [k [s [t' [-> [Hf ->]]]]]]]]]]].
      all: try (unfold die in Hex'; rewrite Hth in Hex'; cbn [set_nth] in Hex').
      + left. exists k, (l :: ha), (l :: tra), qc, hc, trc. rewrite Hth. cbn [set_nth cf_threads cf_tower].
        split; [reflexivity|]. split; [exact Hex'|]. apply A_acq; [exact Hph|]. intros ->. apply (Hheld Hfree).
      + right. exists 0%nat. eexists. eexists. unfold die. rewrite Hth. cbn [cf_threads set_nth nth_error]. split; [reflexivity|split; [reflexivity|exact I]].
      + left. exists k, (remove_lock l ha), tra, qc, hc, trc. rewrite Hth. cbn [set_nth cf_threads cf_tower].
        split; [reflexivity|]. split; [exact Hex'|]. apply A_rel. exact Hph.
      + left. exists (k bb), ha, tra, qc, hc, trc. rewrite Hth. cbn [set_nth cf_threads cf_tower].
        split; [reflexivity|]. split; [exact Hex'|]. eapply A_act; eauto.
      + right. exists 0%nat. eexists. eexists. unfold die. rewrite Hth. cbn [cf_threads set_nth nth_error]. split; [reflexivity|split; [reflexivity|exact I]].
    - inversion Hn; subst th. cbn [ct_st ct_held ct_trace] in *. inversion Hst; subst p. clear Hst Hn.
      destruct Hc as [[l [k [-> [Hfree [_ ->]]]]]|[[l [k [-> [_ [_ ->]]]]]|[[l [k [-> ->]]]|[[B [f [k [bb [t' [-> [Hf ->]]]]]]]|[B [f [k [s [t' [-> [Hf ->]]]]]]]]]]].
      all: try (unfold die in Hex'; rewrite Hth in Hex'; cbn [set_nth] in Hex').
      + left. exists qa, ha, tra, k, (l :: hc), (l :: trc). rewrite Hth. cbn [set_nth cf_threads cf_tower].
        split; [reflexivity|]. split; [exact Hex'|]. apply C_acq. exact Hph.
      + right. exists 1%nat. eexists. eexists. unfold die. rewrite Hth. cbn [cf_threads set_nth nth_error]. split; [reflexivity|split; [reflexivity|exact I]].
      + left. exists qa, ha, tra, k, (remove_lock l hc), trc. rewrite Hth. cbn [set_nth cf_threads cf_tower].
        split; [reflexivity|]. split; [exact Hex'|]. apply C_rel. exact Hph.
      + left. exists qa, ha, tra, (k bb), hc, trc. rewrite Hth. cbn [set_nth cf_threads cf_tower].
        split; [reflexivity|]. split; [exact Hex'|]. eapply C_act; eauto.
      + right. exists 1%nat. eexists. eexists. unfold die. rewrite Hth. cbn [cf_threads set_nth nth_error]. split; [reflexivity|split; [reflexivity|exact I]].
  Qed.

  Lemma J_run c sched : J c \/ aborted c -> J (run_config c sched) \/ aborted (run_config c sched).
  Proof.
    intros H. apply (run_config_inv (fun c => J c \/ aborted c)); [|exact H].
    intros c1 i c2 [HJ|Ha] Hs; [eapply J_step; eauto|right; eapply aborted_step; eauto].
  Qed.

  Lemma J_final c s st e o2 :
    J c -> map thread_result (cf_threads c) = [Some (TOut (ORegisterRes (RegOk s st e))); Some (TOut o2)] ->
    PL s st e (cf_tower c).
  Proof.
    intros [qa [ha [tra [qc [hc [trc [Hth [_ Hph]]]]]]]] Hres. rewrite Hth in Hres.
    cbn [map thread_result ct_st] in Hres.
    assert (Ea : qa = Ret (ORegisterRes (RegOk s st e))).
    { destruct qa; inversion Hres; reflexivity. }
    assert (Ec : qc = Ret o2).
    { destruct qc; inversion Hres; try reflexivity; destruct qa; discriminate. }
    subst qa qc.
    destruct Hph as [[[[[] _]|[[] _]] _]|[[s' [st' [e' [Hr Hs]]]]|[o [Hr Hn]]]].
    - cbn [ret_of] in Hr. inversion Hr; subst. exact Hs.
    - cbn [ret_of] in Hr. inversion Hr; subst. exfalso. eapply Hn. reflexivity.
  Qed.

  (* ---------------------------------------------------------------------------------------- *)
  (* the two thread programs satisfy their outlines *)
  Definition PA : prog out := register_p u.
  (* the gatekeeper's listener for the block at height h (the first of the three listeners of connect_p) *)
  Definition PC : prog out := gk_connect_p h ;;; Ret OBlockRes.

  Lemma present_set_user t ui' :
    amem (gk_users t) u = true -> user_row_ok t u ->
    present (u_slots ui') (u_start ui') (u_expiry ui') (p_set_user t u ui').
  Proof.
    intros Hm Hrow. unfold present, p_set_user, db_update_user, gk_put, gk_get.
    cbn [gk_users db_users set_gk_users set_db_users aget]. rewrite N.eqb_refl. split; [destruct ui'; reflexivity|].
    rewrite aget_map_update, N.eqb_refl. specialize (Hrow Hm). unfold amem in Hrow.
    destruct (aget (db_users t) u); [destruct ui'; reflexivity|discriminate].
  Qed.

  Lemma present_new_user t ui :
    amem (db_users t) u = false -> present (u_slots ui) (u_start ui) (u_expiry ui) (p_new_user t u ui).
  Proof.
    intros Hm. unfold present, p_new_user, gk_put, gk_get.
    cbn [gk_users db_users set_gk_users set_db_users aget]. rewrite N.eqb_refl. split; [destruct ui; reflexivity|].
    rewrite aget_app_single, N.eqb_refl. unfold amem in Hm. destruct (aget (db_users t) u); [discriminate|destruct ui; reflexivity].
  Qed.

  Lemma nodup_put (m : list (N * uinfo)) ui : NoDup (map fst m) -> NoDup (map fst ((u, ui) :: aremove m u)).
  Proof.
    intros Hn. cbn [map fst]. constructor.
    - intros Hin. apply in_map_iff in Hin. destruct Hin as [[k v] [Hk Hi]]. cbn in Hk. subst k.
      unfold aremove, aretain in Hi. apply filter_In in Hi. cbn in Hi. rewrite N.eqb_refl in Hi. destruct Hi; discriminate.
    - unfold aremove, aretain. apply NoDup_map_filter. exact Hn.
  Qed.

  Lemma good_set_user t ui' : good t -> amem (gk_users t) u = true -> good (p_set_user t u ui').
  Proof.
    intros [Hrow Hn] Hm. unfold good, user_row_ok, p_set_user, db_update_user, gk_put.
    cbn [gk_users db_users set_gk_users set_db_users]. split; [|apply nodup_put; exact Hn].
    intros _. unfold amem. rewrite aget_map_update, N.eqb_refl. specialize (Hrow Hm). unfold amem in Hrow.
    destruct (aget (db_users t) u); [reflexivity|discriminate].
  Qed.

  Lemma good_new_user t ui : good t -> good (p_new_user t u ui).
  Proof.
    intros [_ Hn]. unfold good, user_row_ok, p_new_user, gk_put.
    cbn [gk_users db_users set_gk_users set_db_users]. split; [|apply nodup_put; exact Hn].
    intros _. unfold amem. rewrite aget_app_single, N.eqb_refl. destruct (aget (db_users t) u); reflexivity.
  Qed.

  Lemma good_purge t outd : good t -> good (db_delete_users (forget_users outd t) outd).
  Proof.
    intros [Hrow Hn]. unfold good, user_row_ok, db_delete_users, forget_users.
    cbn [gk_users db_users set_gk_users set_db_users set_db_apps set_db_trks]. split.
    - unfold amem. rewrite aget_retain, (aget_filter_key (fun x => negb (memN x outd))). destruct (negb (memN u outd)); [exact Hrow|discriminate].
    - unfold aretain. apply NoDup_map_filter. exact Hn.
  Qed.

  (* the sequential core: a user that is in the map with expiry e is selected only if e + delta <= h *)
  Lemma PL_purge s st e t outd :
    NoDup (map fst (gk_users t)) -> outdated_users (c_delta (cfg t)) h (gk_users t) = Some outd ->
    PL s st e t -> PL s st e (db_delete_users (forget_users outd t) outd).
  Proof.
    intros Hn Ho [[Hg Hr]|Hl]; [|right; exact Hl].
    destruct (memN u outd) eqn:Em.
    - right. apply memN_In in Em. apply (outdated_users_spec _ _ _ _ Ho) in Em. destruct Em as [ui [Hin Hle]].
      apply (aget_In_nodup _ _ _ Hn) in Hin. unfold gk_get in Hg. rewrite Hg in Hin. inversion Hin; subst ui.
      exact Hle.
    - left. unfold present, gk_get, db_delete_users, forget_users.
      cbn [gk_users db_users set_gk_users set_db_users set_db_apps set_db_trks].
      rewrite aget_retain, (aget_filter_key (fun x => negb (memN x outd))), Em. split; [exact Hg|exact Hr].
  Qed.

  Ltac eqb_norm :=
    repeat match goal with
           | |- context [N.eqb ?a ?b] => let v := eval vm_compute in (N.eqb a b) in change (N.eqb a b) with v
           end.

  Lemma purge_outline : cinit PC.
  Proof.
    unfold PC, gk_connect_p. cbn [pbind acq rel act rd wr cinit]. eqb_norm. cbv iota. split.
    - intros t Hg. cbn [sect]. unfold find_outdated.
      destruct (outdated_users (c_delta (cfg t)) h (gk_users t)) as [outd|]; [|exact I].
      destruct outd as [|o outd]; cbn [pbind sect acq rel wr]; eqb_norm; cbv iota.
      + split; [exact Hg|]. cbn [cfree wr pbind]. split; [intros t1 b t2 E; injection E as _ E2; subst t2; reflexivity|intros _; exact I].
      + split; [apply good_purge; exact Hg|]. cbn [cfree wr pbind]. split; [intros t1 b t2 E; injection E as _ E2; subst t2; reflexivity|intros _; exact I].
    - intros s st e t [_ Hn] Hp. unfold csolo. cbn [exec]. unfold find_outdated.
      destruct (outdated_users (c_delta (cfg t)) h (gk_users t)) as [outd|] eqn:Eo; [|exact I].
      destruct outd as [|o outd]; cbn [pbind exec].
      + eapply PL_view; [|exact Hp]. reflexivity.
      + eapply PL_view; [|apply (PL_purge s st e t (o :: outd) Hn Eo Hp)]. reflexivity.
  Qed.

  Lemma register_outline : apre PA.
  Proof.
    unfold PA, register_p, add_update_user_p, reach_p. cbn [pbind acq rel act rd wr apre]. eqb_norm. cbv iota.
    cbn [apre]. intros t0 bc t0' E0. inversion E0; subst. clear E0. split; [reflexivity|].
    cbn [apre]. eqb_norm. cbv iota. intros t Hg. cbn [asec].
    intros t1 Hv1 Hg1. unfold reg_decide. destruct (gk_get t1 u) as [ui|] eqn:Eg.
    - destruct (u32_add (u_slots ui) (c_slots (cfg t1))) as [s|].
      + left. split; [reflexivity|]. cbn [pbind asec]. intros t2 Hv2 Hg2. right.
        assert (Hm : amem (gk_users t2) u = true).
        { assert (Eu : gk_users t2 = gk_users t1) by (unfold aview in *; congruence).
          rewrite Eu. unfold amem. unfold gk_get in Eg. rewrite Eg. reflexivity. }
        split; [apply good_set_user; assumption|]. eexists. eexists. eexists. split; [cbn; reflexivity|].
        apply (present_set_user t2 (mk_uinfo s (u_start ui) _) Hm (proj1 Hg2)).
      + left. split; [reflexivity|]. cbn [pbind asec]. eqb_norm. cbv iota. eexists. split; [reflexivity|].
        intros s st e H. discriminate.
    - match goal with |- context [u32_add ?x (c_duration ?c)] => destruct (u32_add x (c_duration c)) as [e|] end; [|exact I].
      left. split; [reflexivity|]. cbn [pbind asec]. intros t2 Hv2 Hg2. unfold store_new_user.
      destruct (amem (db_users t2) u) eqn:Em; [exact I|]. right.
      split; [apply good_new_user; exact Hg2|]. eexists. eexists. eexists. split; [cbn; reflexivity|].
      exact (present_new_user t2 (mk_uinfo _ _ _) Em).
  Qed.

  Lemma J_init t0 : good t0 -> J (init_config t0 [PA; PC]).
  Proof.
    intros Hg. exists PA, [], [], PC, [], []. split; [reflexivity|]. split; [apply excl_init|].
    left. split; [left; split; [apply register_outline|reflexivity]|left; split; [apply purge_outline|split; [reflexivity|exact Hg]]].
  Qed.

  (* THE theorem: for every schedule of  register(u) || the gatekeeper's purge at height h  in which both return *)
  Theorem acknowledged_registration_survives_purge t0 sched tf s st e :
    user_row_ok t0 u -> NoDup (map fst (gk_users t0)) ->
    run_sched t0 [PA; PC] sched = (tf, [Some (TOut (ORegisterRes (RegOk s st e))); Some (TOut OBlockRes)]) ->
    (gk_get tf u = Some (mk_uinfo s st e) /\ aget (db_users tf) u = Some (mk_uinfo s st e)) \/
    e + c_delta (cfg tf) <= h.
  Proof.
    intros Hrow Hnd. unfold run_sched. intros H. inversion H as [[Ht Hres]]. clear H.
    destruct (J_run (init_config t0 [PA; PC]) sched (or_introl (J_init t0 (conj Hrow Hnd)))) as [HJ|[i [th [x [Hn [He Hab]]]]]].
    - exact (J_final _ s st e OBlockRes HJ Hres).
    - exfalso.
      assert (Hx : nth_error (map thread_result (cf_threads (run_config (init_config t0 [PA; PC]) sched))) i = Some (Some x)).
      { rewrite nth_error_map, Hn. cbn [option_map]. unfold thread_result. rewrite He. reflexivity. }
      rewrite Hres in Hx. destruct i as [|[|[|i]]]; cbn [nth_error] in Hx; inversion Hx; subst x; exact Hab.
  Qed.
End Purge.
