(* Config.v — executable model of how teosd / teos-cli compute their effective configuration
   (teos/src/config.rs, cli_config.rs, main.rs):

       conf = from_file(teos.toml)          -- load        (serde + toml, #[serde(default)])
       conf.patch_with_options(opt)         -- patch       (the generated statements, in order)
       conf.verify()                        -- verify      (the generated statements, in order)

   Nothing here mentions a concrete option: the three functions are interpreters of the descriptors
   that tools/translate_config.py regenerates from the source on every run (Gen/Config.v).
   The second half is the specification side: what the property C20 says the outcome must be
   (`spec_value`, `mon_fails`), written without looking at the patch / verify statements.
   Definitions only; proofs are in ConfigProofs.v. *)
Require Import TeosModel.Base.
Require Export TeosModel.ConfigSyntax.
Local Open Scope N_scope.

(* ---------- small decidable equalities ---------- *)
Fixpoint text_eqb (a b : text) : bool :=
  match a, b with
  | [], [] => true
  | x :: a', y :: b' => Ascii.eqb x y && text_eqb a' b'
  | _, _ => false
  end.

Definition cty_eqb (a b : cty) : bool :=
  match a, b with
  | TStr, TStr | TU8, TU8 | TU16, TU16 | TU32, TU32 | TU64, TU64 | TBool, TBool => true
  | _, _ => false
  end.

Definition cval_eqb (a b : cval) : bool :=
  match a, b with
  | VStr x, VStr y => text_eqb x y
  | VNum x, VNum y => N.eqb x y
  | VBool x, VBool y => Bool.eqb x y
  | _, _ => false
  end.

Definition auth_eqb (a b : auth) : bool :=
  match a, b with
  | UserPass, UserPass | CookieFile, CookieFile | Multiple, Multiple | Invalid, Invalid => true
  | _, _ => false
  end.

Definition mem_str (k : text) (l : list text) : bool := existsb (text_eqb k) l.

Fixpoint nodup_str (l : list text) : bool :=
  match l with
  | [] => true
  | x :: r => negb (mem_str x r) && nodup_str r
  end.

(* ---------- layers: partial assignments name -> value (first binding wins) ---------- *)
Definition layer := list (text * cval).

Fixpoint lget (l : layer) (k : text) : option cval :=
  match l with
  | [] => None
  | (k', v) :: r => if text_eqb k k' then Some v else lget r k
  end.

(* the command line after structopt parsed it: the `Option<T>` options that were given, with their
   values, and the flags that were given *)
Record cli := mk_cli { cl_vals : layer; cl_flags : list text }.
Definition cli_val (cl : cli) (o : text) : option cval := lget (cl_vals cl) o.
Definition cli_flag (cl : cli) (o : text) : bool := mem_str o (cl_flags cl).

(* a Config value: a total assignment, represented as a layer that binds every field; an assignment
   `self.f = v` conses a new binding *)
Definition config := layer.
Definition cget (c : config) (k : text) : cval :=
  match lget c k with Some v => v | None => VBool false end.
Definition cset (c : config) (k : text) (v : cval) : config := (k, v) :: c.

Definition as_bool (v : cval) : bool := match v with VBool b => b | _ => false end.
Definition str_of (v : cval) : text := match v with VStr s => s | _ => [] end.
Definition num_of (v : cval) : N := match v with VNum n => n | _ => 0 end.

Fixpoint find_field (fs : list fieldd) (k : text) : option fieldd :=
  match fs with
  | [] => None
  | f :: r => if text_eqb k (f_name f) then Some f else find_field r k
  end.

Fixpoint find_opt (os : list optd) (k : text) : option okind :=
  match os with
  | [] => None
  | o :: r => if text_eqb k (o_name o) then Some (o_kind o) else find_opt r k
  end.

(* ---------- load: from_file::<Config>(path) ----------
   `file` is None when teos.toml cannot be read, Some l when it is a TOML document with the top-level
   `key = value` pairs l.  toml/serde reject the document when a key of a (non-skipped) field has a
   value of another type or out of the range of its integer type, when a key occurs twice, or — without
   #[serde(default)] — when a field is missing; unknown keys are ignored.  A rejected document is
   reported on stderr and replaced by T::default(): exactly as if there were no file. *)
Definition int_bound (t : cty) : N :=
  match t with
  | TU8 => 256 | TU16 => 65536 | TU32 => 4294967296 | TU64 => 18446744073709551616
  | _ => 0
  end.

Definition ty_ok (t : cty) (v : cval) : bool :=
  match t, v with
  | TStr, VStr _ => true
  | TBool, VBool _ => true
  | TStr, _ | TBool, _ => false
  | _, VNum n => N.ltb n (int_bound t)
  | _, _ => false
  end.

Definition entry_ok (fs : list fieldd) (kv : text * cval) : bool :=
  match find_field fs (fst kv) with
  | Some f => f_skip f || ty_ok (f_ty f) (snd kv)
  | None => true
  end.

Definition parses (D : descr) (l : layer) : bool :=
  forallb (entry_ok (d_fields D)) l && nodup_str (map fst l) &&
  (d_serde_default D || forallb (fun f => f_skip f || mem_str (f_name f) (map fst l)) (d_fields D)).

(* what the daemon takes from the file *)
Definition file_seen (D : descr) (file : option layer) : layer :=
  match file with
  | Some l => if parses D l then l else []
  | None => []
  end.

Definition load_from (seen : layer) (fs : list fieldd) : config :=
  map (fun f => (f_name f,
                 if f_skip f then f_default f
                 else match lget seen (f_name f) with
                      | Some v => v
                      | None => f_default f
                      end)) fs.

Definition load (D : descr) (file : option layer) : config := load_from (file_seen D file) (d_fields D).

(* ---------- patch: patch_with_options ---------- *)
Definition exec_p (cl : cli) (c : config) (s : pstmt) : config :=
  match s with
  | PIfSome f o => match cli_val cl o with Some v => cset c f v | None => c end
  | POrAssign f o => cset c f (VBool (as_bool (cget c f) || cli_flag cl o))
  | PAssign f o => cset c f (VBool (cli_flag cl o))
  end.

Definition patch (D : descr) (cl : cli) (c : config) : config := fold_left (exec_p cl) (d_patch D) c.

(* ---------- get_auth_method ---------- *)
Definition is_empty_val (v : cval) : bool :=
  match v with VStr [] => true | _ => false end.

Fixpoint row_matches (pat : list (option bool)) (bs : list bool) : bool :=
  match pat, bs with
  | [], [] => true
  | p :: pr, b :: br => match p with None => true | Some x => Bool.eqb x b end && row_matches pr br
  | _, _ => false
  end.

(* first matching arm; rustc rejects a non-exhaustive match, so the fall-through is unreachable *)
Fixpoint auth_lookup (rows : list (list (option bool) * auth)) (bs : list bool) : auth :=
  match rows with
  | [] => Invalid
  | (pat, a) :: r => if row_matches pat bs then a else auth_lookup r bs
  end.

Definition auth_of (V : vdescr) (c : config) : auth :=
  auth_lookup (v_auth_rows V) (map (fun f => is_empty_val (cget c f)) (v_scrutinee V)).

(* ---------- str::trim_end_matches(pattern) for a non-empty string pattern ---------- *)
Fixpoint strip_prefix (p s : text) : option text :=
  match p with
  | [] => Some s
  | a :: p' => match s with
               | b :: s' => if Ascii.eqb a b then strip_prefix p' s' else None
               | [] => None
               end
  end.

Fixpoint trim_start_fuel (fuel : nat) (p s : text) : text :=
  match fuel with
  | O => s
  | S k => match strip_prefix p s with
           | Some s' => trim_start_fuel k p s'
           | None => s
           end
  end.

Definition trim_end_matches (s suffix : text) : text :=
  match suffix with
  | [] => s
  | _ => rev (trim_start_fuel (length s) (rev suffix) (rev s))
  end.

(* ---------- verify ---------- *)
Inductive vresult := VOk | VErr (msg : text).

Fixpoint slookup (rows : list (text * N)) (k : text) : option N :=
  match rows with
  | [] => None
  | (k', p) :: r => if text_eqb k k' then Some p else slookup r k
  end.

(* dp is the local `default_rpc_port` *)
Fixpoint run_verify (V : vdescr) (stmts : list vstmt) (c : config) (dp : N) : config * vresult :=
  match stmts with
  | [] => (c, VOk)
  | VRejectAuth a msg :: r =>
      if auth_eqb (auth_of V c) a then (c, VErr msg) else run_verify V r c dp
  | VNormalize fld names suffix :: r =>
      let net := str_of (cget c fld) in
      run_verify V r (if mem_str net names then cset c fld (VStr (trim_end_matches net suffix)) else c) dp
  | VPortMatch fld rows msg :: r =>
      match slookup rows (str_of (cget c fld)) with
      | Some p => run_verify V r c p
      | None => (c, VErr msg)
      end
  | VPortIfUnset fld unset :: r =>
      run_verify V r (if N.eqb (num_of (cget c fld)) unset then cset c fld (VNum dp) else c) dp
  end.

Definition verify (V : vdescr) (c : config) : config * vresult := run_verify V (v_stmts V) c 0.

(* ---------- the whole start-up sequence of main.rs ---------- *)
Record outcome := mk_outcome { oc_patched : config; oc_result : vresult; oc_final : config }.

Definition run_daemon (D : descr) (V : vdescr) (file : option layer) (cl : cli) : outcome :=
  let p := patch D cl (load D file) in
  mk_outcome p (snd (verify V p)) (fst (verify V p)).

(* teos-cli: no verify *)
Definition run_cli (D : descr) (file : option layer) (cl : cli) : config := patch D cl (load D file).

(* =====================================================================================
   Specification side (property C20).  Nothing below looks at d_patch or v_stmts.
   ===================================================================================== *)

(* the two destructive one-shot switches *)
Definition one_shot_names : list text := Eval vm_compute in [T "overwrite_key"; T "force_update"].

(* "given on the command line": an Option<T> option given with a value; a flag that is set *)
Definition cli_given (D : descr) (cl : cli) (name : text) : option cval :=
  match find_opt (d_opts D) name with
  | Some (OValue _) => cli_val cl name
  | Some OFlag => if cli_flag cl name then Some (VBool true) else None
  | _ => None
  end.

(* precedence with respect to a table of defaults; `seen` is what the daemon takes from the file *)
Definition spec_value_with (dflt : fieldd -> cval) (D : descr) (os : list text)
           (seen : layer) (cl : cli) (f : fieldd) : cval :=
  if mem_str (f_name f) os then VBool (cli_flag cl (f_name f))
  else match cli_given D cl (f_name f) with
       | Some v => v
       | None => match lget seen (f_name f) with
                 | Some v => v
                 | None => dflt f
                 end
       end.

Definition spec_value (D : descr) (os : list text) (file : option layer) (cl : cli) (f : fieldd) : cval :=
  spec_value_with f_default D os (file_seen D file) cl f.

(* the command line a parsed `Opt` can describe: values only for Option<T> options, flags only for
   bool options (structopt guarantees it) *)
Definition cli_ok (D : descr) (cl : cli) : bool :=
  forallb (fun kv => match find_opt (d_opts D) (fst kv) with Some (OValue t) => ty_ok t (snd kv) | _ => false end)
          (cl_vals cl) &&
  forallb (fun n => match find_opt (d_opts D) n with Some OFlag => true | _ => false end) (cl_flags cl).

(* ----- the statements of patch_with_options that write a given field, as value transformers ----- *)
Inductive wr := WIfSome (o : text) | WOr (o : text) | WAssign (o : text).

Definition target (s : pstmt) : text :=
  match s with PIfSome c _ | POrAssign c _ | PAssign c _ => c end.
Definition wr_of (s : pstmt) : wr :=
  match s with PIfSome _ o => WIfSome o | POrAssign _ o => WOr o | PAssign _ o => WAssign o end.
Definition writes (n : text) (stmts : list pstmt) : list wr :=
  map wr_of (filter (fun s => text_eqb (target s) n) stmts).
Definition apply_w (cl : cli) (v : cval) (w : wr) : cval :=
  match w with
  | WIfSome o => match cli_val cl o with Some x => x | None => v end
  | WOr o => VBool (as_bool v || cli_flag cl o)
  | WAssign o => VBool (cli_flag cl o)
  end.

Definition wr_eqb (a b : wr) : bool :=
  match a, b with
  | WIfSome x, WIfSome y | WOr x, WOr y | WAssign x, WAssign y => text_eqb x y
  | _, _ => false
  end.
Fixpoint wrs_eqb (a b : list wr) : bool :=
  match a, b with
  | [], [] => true
  | x :: a', y :: b' => wr_eqb x y && wrs_eqb a' b'
  | _, _ => false
  end.

(* `conforms D os`: a decidable sufficient condition, evaluated on the generated descriptors, under
   which the interpreter provably computes `spec_value` (ConfigProofs.precedence_sound):
   every field that has an `Option<T>` option of its own name is written exactly once, by
   `if options.n.is_some() { self.n = .. }`; every flag field exactly once by `self.n |= options.n`;
   every field without option is never written; none of them is #[serde(skip)]; the one-shot switches
   are bool flags written exactly once by the plain assignment `self.n = options.n` (or are never read
   from the file, default false, and or-ed). *)
Definition field_conforms (D : descr) (os : list text) (f : fieldd) : bool :=
  let n := f_name f in
  let ws := writes n (d_patch D) in
  ty_ok (f_ty f) (f_default f) &&
  (if mem_str n os then
     cty_eqb (f_ty f) TBool &&
     match find_opt (d_opts D) n with Some OFlag => true | _ => false end &&
     (wrs_eqb ws [WAssign n] ||
      (f_skip f && cval_eqb (f_default f) (VBool false) && wrs_eqb ws [WOr n]))
   else
     negb (f_skip f) &&
     match find_opt (d_opts D) n with
     | Some (OValue _) => wrs_eqb ws [WIfSome n]
     | Some OFlag => cty_eqb (f_ty f) TBool && wrs_eqb ws [WOr n]
     | Some OOther => false
     | None => wrs_eqb ws []
     end).

Definition conforms (D : descr) (os : list text) : bool :=
  nodup_str (map f_name (d_fields D)) &&
  forallb (field_conforms D os) (d_fields D) &&
  forallb (fun n => mem_str n (map f_name (d_fields D))) os.

(* ----- verify: the shape the generated statement list has, and what it means ----- *)
Record vshape := mk_vshape {
  vs_rej : list (auth * text);      (* rejected auth methods with their messages *)
  vs_netf : text;                   (* the network field *)
  vs_names : list text;             (* names that are normalised ... *)
  vs_suffix : text;                 (* ... by trimming this suffix *)
  vs_rows : list (text * N);        (* normalised network -> default RPC port *)
  vs_msg : text;                    (* message for an unrecognised network *)
  vs_portf : text;                  (* the port field *)
  vs_unset : N                        (* the value of the port field that means "not set" *)
}.

Fixpoint take_rejects (stmts : list vstmt) : list (auth * text) * list vstmt :=
  match stmts with
  | VRejectAuth a m :: r => let (x, y) := take_rejects r in ((a, m) :: x, y)
  | _ => ([], stmts)
  end.

Definition verify_shape (stmts : list vstmt) : option vshape :=
  let (rej, rest) := take_rejects stmts in
  match rest with
  | [VNormalize f names suf; VPortMatch f' rows msg; VPortIfUnset p unset] =>
      if text_eqb f f' && negb (text_eqb f p) then Some (mk_vshape rej f names suf rows msg p unset)
      else None
  | _ => None
  end.

Definition shape_stmts (sh : vshape) : list vstmt :=
  map (fun am => VRejectAuth (fst am) (snd am)) (vs_rej sh) ++
  [VNormalize (vs_netf sh) (vs_names sh) (vs_suffix sh);
   VPortMatch (vs_netf sh) (vs_rows sh) (vs_msg sh);
   VPortIfUnset (vs_portf sh) (vs_unset sh)].

Definition norm_net (sh : vshape) (net : text) : text :=
  if mem_str net (vs_names sh) then trim_end_matches net (vs_suffix sh) else net.

(* the default RPC port the network name selects (None: the name is refused) *)
Definition port_of (sh : vshape) (net : text) : option N := slookup (vs_rows sh) (norm_net sh net).

Definition network_accepted (sh : vshape) (net : text) : bool :=
  match port_of sh net with Some _ => true | None => false end.

(* every name verify accepts: computed from the generated tables *)
Definition accepted_networks (sh : vshape) : list text :=
  filter (network_accepted sh) (vs_names sh ++ map fst (vs_rows sh)).

(* the decision of get_auth_method + the reject statements as a function of
   (user empty?, password empty?, cookie empty?) *)
Definition auth_accepts (V : vdescr) (sh : vshape) (eu ep ek : bool) : bool :=
  negb (existsb (auth_eqb (auth_lookup (v_auth_rows V) [eu; ep; ek])) (map fst (vs_rej sh))).

(* what the property allows to be accepted, precisely as the code decides it: exactly one method is
   configured and no field of the other one is set *)
Definition clean_auth (eu ep ek : bool) : bool :=
  (negb eu && negb ep && ek) || (eu && ep && negb ek).

(* a credential setting is configured when its value is not the empty string *)
Definition configured (c : config) (n : text) : Prop := is_empty_val (cget c n) = false.

(* the literal reading: exactly one of {user and password, cookie} is configured *)
Definition exactly_one_auth (eu ep ek : bool) : bool := xorb (negb eu && negb ep) (negb ek).

Definition all_bool3 (p : bool -> bool -> bool -> bool) : bool :=
  forallb (fun a => forallb (fun b => forallb (fun c => p a b c) [true; false]) [true; false]) [true; false].

Definition auth_table_ok (V : vdescr) (sh : vshape) : bool :=
  all_bool3 (fun eu ep ek => Bool.eqb (auth_accepts V sh eu ep ek) (clean_auth eu ep ek)).

(* ----- the documentation the monitor compares with ----- *)
Record docs := mk_docs {
  dc_one_shot : list text;
  dc_template : layer;                         (* conf_template.toml (generated) *)
  dc_fixed : layer;                            (* settings whose documented default is "not set" *)
  dc_networks : list (text * (text * N));  (* documented name, bitcoind chain name, RPC port *)
  dc_user : text; dc_password : text; dc_cookie : text; dc_network : text; dc_port : text
}.

Definition doc_default (Dc : docs) (f : fieldd) : cval :=
  match lget (dc_fixed Dc) (f_name f) with
  | Some v => v
  | None => match lget (dc_template Dc) (f_name f) with
            | Some v => v
            | None => f_default f
            end
  end.

Fixpoint doc_row (rows : list (text * (text * N))) (net : text) : option (text * N) :=
  match rows with
  | [] => None
  | (n, (chain, p)) :: r => if text_eqb net n || text_eqb net chain then Some (chain, p) else doc_row r net
  end.

Definition doc_documented (Dc : docs) (net : text) : bool := mem_str net (map fst (dc_networks Dc)).

(* the descriptors agree with the documentation (evaluated on the generated data) *)
Definition defaults_documented (D : descr) (Dc : docs) : bool :=
  forallb (fun f => cval_eqb (doc_default Dc f) (f_default f)) (d_fields D).

Definition networks_documented (sh : vshape) (Dc : docs) : bool :=
  N.eqb (vs_unset sh) 0 &&
  text_eqb (vs_netf sh) (dc_network Dc) && text_eqb (vs_portf sh) (dc_port Dc) &&
  forallb (fun net => match doc_row (dc_networks Dc) net with Some _ => true | None => false end)
          (accepted_networks sh) &&
  forallb (fun row => let '(n, (chain, p)) := row in
             forallb (fun net =>
               match doc_row (dc_networks Dc) net, port_of sh net with
               | Some (chain', p'), Some q => text_eqb (norm_net sh net) chain' && N.eqb q p'
               | _, _ => false
               end) [n; chain])
          (dc_networks Dc).

Definition scrutinee_documented (V : vdescr) (Dc : docs) : bool :=
  match v_scrutinee V with
  | [a; b; c] => text_eqb a (dc_user Dc) && text_eqb b (dc_password Dc) && text_eqb c (dc_cookie Dc)
  | _ => false
  end.

(* ----- the monitor: the statement of C20 evaluated on one observed outcome -----
   Returns the labels of the clauses that do not hold ([] = the property holds on this case). *)
Definition check (b : bool) (label : text) : list text := if b then [] else [label].

Definition lbl_one_shot : text := Eval vm_compute in T "one_shot:".
Definition lbl_precedence : text := Eval vm_compute in T "precedence:".
Definition lbl_refused_valid : text := Eval vm_compute in T "refused_valid".
Definition lbl_accepted_bad_auth : text := Eval vm_compute in T "accepted_bad_auth".
Definition lbl_accepted_unknown_network : text := Eval vm_compute in T "accepted_unknown_network".
Definition lbl_port : text := Eval vm_compute in T "port".
Definition lbl_network_name : text := Eval vm_compute in T "network_name".
Definition lbl_changed_by_verify : text := Eval vm_compute in T "changed_by_verify:".

Definition mon_precedence (D : descr) (Dc : docs) (file : option layer) (cl : cli) (p : config) : list text :=
  let seen := file_seen D file in
  flat_map (fun f =>
    check (cval_eqb (cget p (f_name f)) (spec_value_with (doc_default Dc) D (dc_one_shot Dc) seen cl f))
          ((if mem_str (f_name f) (dc_one_shot Dc) then lbl_one_shot else lbl_precedence) ++ f_name f))
    (d_fields D).

Definition mon_verify (D : descr) (Dc : docs) (oc : outcome) : list text :=
  let p := oc_patched oc in
  let f := oc_final oc in
  let eu := is_empty_val (cget p (dc_user Dc)) in
  let ep := is_empty_val (cget p (dc_password Dc)) in
  let ek := is_empty_val (cget p (dc_cookie Dc)) in
  let net := str_of (cget p (dc_network Dc)) in
  let port := num_of (cget p (dc_port Dc)) in
  match oc_result oc with
  | VErr _ =>
      (* a documented network with exactly one cleanly configured method must not be refused *)
      check (negb (clean_auth eu ep ek && doc_documented Dc net)) lbl_refused_valid
  | VOk =>
      check (exactly_one_auth eu ep ek) lbl_accepted_bad_auth ++
      match doc_row (dc_networks Dc) net with
      | None => [lbl_accepted_unknown_network]
      | Some (chain, dport) =>
          check (N.eqb (num_of (cget f (dc_port Dc))) (if N.eqb port 0 then dport else port)) lbl_port ++
          check (text_eqb (str_of (cget f (dc_network Dc))) chain) lbl_network_name
      end ++
      flat_map (fun fd =>
        if text_eqb (f_name fd) (dc_network Dc) || text_eqb (f_name fd) (dc_port Dc) then []
        else check (cval_eqb (cget f (f_name fd)) (cget p (f_name fd))) (lbl_changed_by_verify ++ f_name fd))
        (d_fields D)
  end.

Definition mon_fails (D : descr) (Dc : docs) (file : option layer) (cl : cli) (oc : outcome) : list text :=
  mon_precedence D Dc file cl (oc_patched oc) ++ mon_verify D Dc oc.

(* teos-cli: precedence only *)
Definition mon_fails_cli (D : descr) (Dc : docs) (file : option layer) (cl : cli) (c : config) : list text :=
  mon_precedence D Dc file cl c.

(* the hand-written part of the documentation: bitcoind's chain names and standard RPC ports, the
   names of the credential / network / port settings, and the settings that have no usable default *)
Definition doc_fixed : layer := Eval vm_compute in
  [(T "btc_rpc_user", VStr []); (T "btc_rpc_password", VStr []); (T "btc_rpc_cookie", VStr []); (T "btc_rpc_port", VNum 0)].
Definition doc_networks : list (text * (text * N)) := Eval vm_compute in
  [(T "mainnet", (T "main", 8332)); (T "testnet", (T "test", 18332));
   (T "regtest", (T "regtest", 18443)); (T "signet", (T "signet", 38332))].
Definition n_user : text := Eval vm_compute in T "btc_rpc_user".
Definition n_password : text := Eval vm_compute in T "btc_rpc_password".
Definition n_cookie : text := Eval vm_compute in T "btc_rpc_cookie".
Definition n_network : text := Eval vm_compute in T "btc_network".
Definition n_port : text := Eval vm_compute in T "btc_rpc_port".

Definition teosd_docs (template : layer) : docs :=
  mk_docs one_shot_names template doc_fixed doc_networks n_user n_password n_cookie n_network n_port.

(* teos-cli shares teos.toml but documents its own defaults nowhere else than in cli_config.rs *)
Definition cli_docs : docs := mk_docs [] [] [] [] [] [] [] [] [].

(* =====================================================================================
   Entry points for the OCaml driver (coq/extraction/drv_config.ml).  The extracted models of all
   properties share one flat OCaml namespace, in which a name that another model also uses is silently
   renamed; the driver therefore refers only to these uniquely named aliases (and to the constructors
   VStr/VNum/VBool/VOk/VErr).
   ===================================================================================== *)
Definition cfg_run_daemon := run_daemon.
Definition cfg_run_cli := run_cli.
Definition cfg_mon_fails := mon_fails.
Definition cfg_mon_fails_cli := mon_fails_cli.
Definition cfg_cli_ok := cli_ok.
Definition cfg_get := cget.
Definition cfg_file_seen := file_seen.
Definition cfg_mk_cli := mk_cli.
Definition cfg_mk_outcome := mk_outcome.
Definition cfg_oc_patched := oc_patched.
Definition cfg_oc_result := oc_result.
Definition cfg_oc_final := oc_final.
Definition cfg_field_names (D : descr) : list text := map f_name (d_fields D).
Definition cfg_conforms := conforms.
Definition cfg_one_shot_names := one_shot_names.
Definition cfg_defaults_documented := defaults_documented.
(* (verify has the expected shape, the auth table is the clean one, networks and scrutinee as documented) *)
Definition cfg_verify_checks (V : vdescr) (Dc : docs) : bool * bool * bool :=
  match verify_shape (v_stmts V) with
  | Some sh => (true, auth_table_ok V sh, networks_documented sh Dc && scrutinee_documented V Dc)
  | None => (false, false, false)
  end.
Definition cfg_teosd_docs := teosd_docs.
Definition cfg_teoscli_docs := cli_docs.
Definition cfg_n_port := n_port.
