(* Client.v — executable model of the CLN plugin's store: `watchtower-plugin/src/dbm.rs` (DBM) and
   `wt_client.rs` (WTClient), statement by statement, over the generic relational model Db.v
   instantiated with the GENERATED schema Gen/SchemaClient.v (so the tables, keys, foreign keys
   and cascade edges are the ones the SQL in dbm.rs declares today).

   Abstractions: tower ids, locators, net addresses, signatures, blobs are `N` ids (the harness
   owns the maps id <-> real key / string / bytes); u32 fields are `N`.
   The code is modelled AS IT IS: every `.unwrap()` that can fail on a modelled path is an
   explicit `RAbort cl_site`; an abort while the WTClient mutex is held poisons it (`c_poisoned`):
   every later operation aborts until the process is restarted (`wt_reload`).
   HashMap<TowerId,_> = association list without duplicate keys (`aset`), HashSet<Locator> = list
   without duplicates (`set_add`), compared as sets.
   No proofs in this file (ClientProofs.v). *)
From TeosModel Require Import Base Db.
From TeosModel.Gen Require Export SchemaClient TowerStatus.

Definition CS : schema := client_schema.

Definition col (r : row) (c : nat) : N := nth c r 0.
(* a row of table t given as (column, value) pairs — independent of the declaration order *)
Definition mkrow (t : nat) (sets : list (nat * N)) : row :=
  apply_sets (repeat 0 (ts_arity (tsch CS t))) sets.

(* ---------- in-memory structures ---------- *)
Record summary := mk_summary {
  su_addr : N; su_slots : N; su_start : N; su_expiry : N;
  su_status : tower_status;
  su_pending : list N;     (* HashSet<Locator> *)
  su_invalid : list N
}.

Inductive rstatus := RStopped | RRunning | RFailed | RIdle.

Definition set_add (x : N) (l : list N) : list N := if memN x l then l else l ++ [x].
Definition set_remove (x : N) (l : list N) : list N := filter (fun y => negb (N.eqb y x)) l.
Definition aset {V} (m : amap V) (k : N) (v : V) : amap V := (k, v) :: aremove m k.

Record client := mk_client {
  c_db : db;                       (* the SQLite file: survives a restart *)
  c_towers : amap summary;         (* WTClient::towers *)
  c_retriers : amap rstatus;       (* WTClient::retriers *)
  c_poisoned : bool                (* the Mutex<WTClient> is poisoned *)
}.

Inductive cl_site :=
| Site_poisoned                          (* `.lock().unwrap()` on the poisoned mutex *)
| Site_add_update_tower_load_unwrap      (* wt_client.rs: load_tower_record(tower_id).unwrap() *)
| Site_store_tower_record_unwrap
| Site_store_appointment_receipt_unwrap
| Site_store_pending_appointment_unwrap
| Site_store_invalid_appointment_unwrap
| Site_store_misbehaving_proof_unwrap
| Site_load_misbehaving_proof_unwrap     (* dbm.rs: receipt of a stored proof .unwrap() *)
| Site_abandon_remove_tower_unwrap       (* main.rs: state.remove_tower(tower_id).unwrap() *)
| Site_retrier_load_appointment_unwrap   (* retrier.rs: dbm.load_appointment(locator).unwrap(): REPAIRED (8108569), no longer produced *)
| Site_retrier_start_status_unwrap       (* retrier.rs: get_tower_status(..).unwrap() in start(): REPAIRED (29264ec), no longer produced *)
| Site_send_appointment_recover_unwrap.  (* net/http.rs: recover_pk(..).unwrap() *)

Inductive cres :=
| ROk
| RSubErrExpiry           (* Err(SubscriptionError::Expiry) *)
| RSubErrSlots            (* Err(SubscriptionError::Slots) *)
| RNotFound               (* Err(DBError::NotFound) *)
| RUnknownTower           (* the `else { log::error!(..) }` branch: nothing happens *)
| RAbort (s : cl_site).

(* ---------- dbm.rs ---------- *)
Definition dbm_new : db :=
  (* DBM::new creates the tables; WTClient::with_proxy stores a fresh client key (id 1) *)
  match db_insert CS (db_empty CS) T_keys (mkrow T_keys [(C_keys_id, 1); (C_keys_key, 1)]) with
  | DbOk d => d
  | DbErr _ => db_empty CS
  end.

(* store_tower_record: BEGIN; INSERT INTO towers .. ON CONFLICT(tower_id) DO UPDATE ..;
   INSERT INTO registration_receipts ..; COMMIT *)
Definition dbm_store_tower_record (d : db) (t addr slots start expiry sg : N) : dbres db :=
  let upsert :=
    if has_pk CS d T_towers [t]
    then db_update CS d T_towers [t] [(C_towers_net_addr, addr); (C_towers_available_slots, slots)] false
    else db_insert CS d T_towers
           (mkrow T_towers [(C_towers_tower_id, t); (C_towers_net_addr, addr); (C_towers_available_slots, slots)]) in
  match upsert with
  | DbOk d1 =>
    db_insert CS d1 T_registration_receipts
      (mkrow T_registration_receipts
         [(C_registration_receipts_tower_id, t); (C_registration_receipts_available_slots, slots);
          (C_registration_receipts_subscription_start, start);
          (C_registration_receipts_subscription_expiry, expiry);
          (C_registration_receipts_signature, sg)])
  | DbErr e => DbErr e
  end.

(* the registration receipt of t with the greatest subscription_expiry *)
Definition max_receipt (d : db) (t : N) : option row :=
  fold_left (fun best r =>
               if N.eqb (col r C_registration_receipts_tower_id) t then
                 match best with
                 | None => Some r
                 | Some b => if N.ltb (col b C_registration_receipts_subscription_expiry)
                                      (col r C_registration_receipts_subscription_expiry)
                             then Some r else Some b
                 end
               else best)
            (tbl d T_registration_receipts) None.

(* load_appointment_locators(tower_id, Pending | Invalid) *)
Definition pending_locators (d : db) (t : N) : list N :=
  map (fun r => col r C_pending_appointments_locator)
      (filter (fun r => N.eqb (col r C_pending_appointments_tower_id) t) (tbl d T_pending_appointments)).
Definition invalid_locators (d : db) (t : N) : list N :=
  map (fun r => col r C_invalid_appointments_locator)
      (filter (fun r => N.eqb (col r C_invalid_appointments_tower_id) t) (tbl d T_invalid_appointments)).

Definition exists_misbehaving_proof (d : db) (t : N) : bool := has_pk CS d T_misbehaving_proofs [t].

(* the status rule of load_towers / load_tower_record *)
Definition db_status (d : db) (t : N) (pending : list N) : tower_status :=
  if exists_misbehaving_proof d t then Misbehaving
  else match pending with [] => Reachable | _ => TemporaryUnreachable end.

Definition load_summary (d : db) (tr : row) : option summary :=
  let t := col tr C_towers_tower_id in
  match max_receipt d t with
  | None => None            (* the JOIN yields no row *)
  | Some rr =>
    let p := pending_locators d t in
    Some {| su_addr := col tr C_towers_net_addr;
            su_slots := col tr C_towers_available_slots;
            su_start := col rr C_registration_receipts_subscription_start;
            su_expiry := col rr C_registration_receipts_subscription_expiry;
            su_status := db_status d t p;
            su_pending := p;
            su_invalid := invalid_locators d t |}
  end.

(* load_towers *)
Definition load_towers (d : db) : amap summary :=
  flat_map (fun tr => match load_summary d tr with
                      | Some s => [(col tr C_towers_tower_id, s)]
                      | None => []
                      end) (tbl d T_towers).

Record proof_info := mk_proof_info { pi_locator : N; pi_start_block : N; pi_user_sig : N; pi_tower_sig : N; pi_recovered : N }.

Record tower_info := mk_tower_info {
  ti_addr : N; ti_slots : N; ti_start : N; ti_expiry : N;
  ti_status : tower_status;
  ti_receipts : list (N * N);          (* locator -> tower signature *)
  ti_pending : list row;               (* appointment bodies: rows of `appointments` *)
  ti_invalid : list row;
  ti_proof : option proof_info
}.

Inductive lres := LNone | LSome (i : tower_info) | LAbort (s : cl_site).

(* load_appointments(tower_id, status): SELECT a.* FROM appointments a, <table> t WHERE a.locator = t.locator AND t.tower_id = ? *)
Definition load_appointments (d : db) (locs : list N) : list row :=
  flat_map (fun l => match find_pk CS d T_appointments [l] with Some b => [b] | None => [] end) locs.

Definition load_tower_record (d : db) (t : N) : lres :=
  match find_pk CS d T_towers [t], max_receipt d t with
  | Some tr, Some rr =>
    let p := pending_locators d t in
    let receipts := map (fun r => (col r C_appointment_receipts_locator, col r C_appointment_receipts_tower_signature))
                        (filter (fun r => N.eqb (col r C_appointment_receipts_tower_id) t) (tbl d T_appointment_receipts)) in
    let base pr st :=
      LSome {| ti_addr := col tr C_towers_net_addr; ti_slots := col tr C_towers_available_slots;
               ti_start := col rr C_registration_receipts_subscription_start;
               ti_expiry := col rr C_registration_receipts_subscription_expiry;
               ti_status := st; ti_receipts := receipts;
               ti_pending := load_appointments d p;
               ti_invalid := load_appointments d (invalid_locators d t);
               ti_proof := pr |} in
    match find_pk CS d T_misbehaving_proofs [t] with
    | Some prow =>
      let l := col prow C_misbehaving_proofs_locator in
      match find_pk CS d T_appointment_receipts [l; t] with
      | Some rc => base (Some {| pi_locator := l;
                                 pi_start_block := col rc C_appointment_receipts_start_block;
                                 pi_user_sig := col rc C_appointment_receipts_user_signature;
                                 pi_tower_sig := col rc C_appointment_receipts_tower_signature;
                                 pi_recovered := col prow C_misbehaving_proofs_recovered_id |}) Misbehaving
      | None => LAbort Site_load_misbehaving_proof_unwrap
      end
    | None => base None (match p with [] => Reachable | _ => TemporaryUnreachable end)
    end
  | _, _ => LNone
  end.

(* store_appointment_receipt: BEGIN; INSERT INTO appointment_receipts; UPDATE towers SET available_slots; COMMIT *)
Definition receipt_row (t l sb usig tsig : N) : row :=
  mkrow T_appointment_receipts
    [(C_appointment_receipts_locator, l); (C_appointment_receipts_tower_id, t);
     (C_appointment_receipts_start_block, sb); (C_appointment_receipts_user_signature, usig);
     (C_appointment_receipts_tower_signature, tsig)].

Definition dbm_store_appointment_receipt (d : db) (t l slots sb usig tsig : N) : dbres db :=
  match db_insert CS d T_appointment_receipts (receipt_row t l sb usig tsig) with
  | DbOk d1 => db_update CS d1 T_towers [t] [(C_towers_available_slots, slots)] false
  | DbErr e => DbErr e
  end.

Definition body_row (l blob delay : N) : row :=
  mkrow T_appointments [(C_appointments_locator, l); (C_appointments_encrypted_blob, blob);
                        (C_appointments_to_self_delay, delay)].

(* store_pending_appointment: BEGIN; store_appointment(..).ok(); INSERT INTO pending_appointments; COMMIT *)
Definition dbm_store_pending_appointment (d : db) (t l blob delay : N) : dbres db :=
  let d1 := exec_ignore CS d (SInsert T_appointments (body_row l blob delay)) in
  db_insert CS d1 T_pending_appointments
    (mkrow T_pending_appointments [(C_pending_appointments_locator, l); (C_pending_appointments_tower_id, t)]).

Definition dbm_store_invalid_appointment (d : db) (t l blob delay : N) : dbres db :=
  let d1 := exec_ignore CS d (SInsert T_appointments (body_row l blob delay)) in
  db_insert CS d1 T_invalid_appointments
    (mkrow T_invalid_appointments [(C_invalid_appointments_locator, l); (C_invalid_appointments_tower_id, t)]).

(* delete_pending_appointment: count = #pending(locator) + #invalid(locator), over ALL towers;
   count = 1 -> DELETE FROM appointments WHERE locator (cascades), else DELETE the pending row *)
Definition ref_count (d : db) (l : N) : nat :=
  count_where d T_pending_appointments [C_pending_appointments_locator] [l] +
  count_where d T_invalid_appointments [C_invalid_appointments_locator] [l].

Definition dbm_delete_pending_appointment (d : db) (t l : N) : dbres db :=
  if Nat.eqb (ref_count d l) 1
  then db_delete CS d T_appointments [C_appointments_locator] [l] false
  else db_delete CS d T_pending_appointments
         [C_pending_appointments_locator; C_pending_appointments_tower_id] [l; t] false.

(* store_misbehaving_proof: BEGIN; INSERT INTO appointment_receipts; INSERT INTO misbehaving_proofs; COMMIT *)
Definition proof_row (t l recovered : N) : row :=
  mkrow T_misbehaving_proofs [(C_misbehaving_proofs_tower_id, t); (C_misbehaving_proofs_locator, l);
                              (C_misbehaving_proofs_recovered_id, recovered)].

Definition dbm_store_misbehaving_proof (d : db) (t l sb usig tsig recovered : N) : dbres db :=
  match db_insert CS d T_appointment_receipts (receipt_row t l sb usig tsig) with
  | DbOk d1 => db_insert CS d1 T_misbehaving_proofs (proof_row t l recovered)
  | DbErr e => DbErr e
  end.

(* store_misbehaving_proof_over_receipt (fix d35e2bc): a receipt of (tower, locator) is already stored;
   BEGIN; UPDATE appointment_receipts SET start_block, user_signature, tower_signature WHERE tower_id, locator;
   INSERT INTO misbehaving_proofs; COMMIT *)
Definition dbm_store_misbehaving_proof_over_receipt (d : db) (t l sb usig tsig recovered : N) : dbres db :=
  match db_update CS d T_appointment_receipts [l; t]
          [(C_appointment_receipts_start_block, sb); (C_appointment_receipts_user_signature, usig);
           (C_appointment_receipts_tower_signature, tsig)] false with
  | DbOk d1 => db_insert CS d1 T_misbehaving_proofs (proof_row t l recovered)
  | DbErr e => DbErr e
  end.

(* remove_tower_record: remove_data("DELETE FROM towers WHERE tower_id=?")?; then
   DELETE FROM appointments WHERE locator NOT IN (SELECT locator FROM pending_appointments)
                              AND locator NOT IN (SELECT locator FROM invalid_appointments)
   (two autocommit statements; the second one cannot fail on this schema — ClientProofs.gc_never_fails) *)
Definition unreferenced_root (d : db) : nat -> row -> bool :=
  fun c r => Nat.eqb c T_appointments && Nat.eqb (ref_count d (col r C_appointments_locator)) 0.

Definition dbm_remove_tower_record (d : db) (t : N) : dbres db :=
  match db_delete CS d T_towers [C_towers_tower_id] [t] true with
  | DbOk d1 => db_delete_root CS d1 (unreferenced_root d1)
  | DbErr e => DbErr e
  end.

Definition dbm_load_appointment (d : db) (l : N) : option row := find_pk CS d T_appointments [l].
Definition dbm_load_appointment_receipt (d : db) (t l : N) : option row := find_pk CS d T_appointment_receipts [l; t].

(* ---------- wt_client.rs ---------- *)
Definition with_db (c : client) (d : db) : client :=
  {| c_db := d; c_towers := c_towers c; c_retriers := c_retriers c; c_poisoned := c_poisoned c |}.
Definition with_towers (c : client) (m : amap summary) : client :=
  {| c_db := c_db c; c_towers := m; c_retriers := c_retriers c; c_poisoned := c_poisoned c |}.
Definition with_retriers (c : client) (m : amap rstatus) : client :=
  {| c_db := c_db c; c_towers := c_towers c; c_retriers := m; c_poisoned := c_poisoned c |}.
Definition poison (c : client) : client :=
  {| c_db := c_db c; c_towers := c_towers c; c_retriers := c_retriers c; c_poisoned := true |}.

Definition su_with_status (s : summary) (st : tower_status) : summary :=
  {| su_addr := su_addr s; su_slots := su_slots s; su_start := su_start s; su_expiry := su_expiry s;
     su_status := st; su_pending := su_pending s; su_invalid := su_invalid s |}.
Definition su_with_slots (s : summary) (n : N) : summary :=
  {| su_addr := su_addr s; su_slots := n; su_start := su_start s; su_expiry := su_expiry s;
     su_status := su_status s; su_pending := su_pending s; su_invalid := su_invalid s |}.
Definition su_with_pending (s : summary) (p : list N) : summary :=
  {| su_addr := su_addr s; su_slots := su_slots s; su_start := su_start s; su_expiry := su_expiry s;
     su_status := su_status s; su_pending := p; su_invalid := su_invalid s |}.
Definition su_with_invalid (s : summary) (p : list N) : summary :=
  {| su_addr := su_addr s; su_slots := su_slots s; su_start := su_start s; su_expiry := su_expiry s;
     su_status := su_status s; su_pending := su_pending s; su_invalid := p |}.

(* WTClient::new / with_proxy over an existing database: what a restart does *)
Definition wt_reload (c : client) : client :=
  {| c_db := c_db c; c_towers := load_towers (c_db c); c_retriers := []; c_poisoned := false |}.

Definition wt_new : client := {| c_db := dbm_new; c_towers := []; c_retriers := []; c_poisoned := false |}.

(* the towers a fresh WTClient reports to the retry manager: (tower, pending locators) *)
Definition reload_retries (c : client) : list (N * list N) :=
  flat_map (fun ts => if is_temporary_unreachable (su_status (snd ts)) then [(fst ts, su_pending (snd ts))] else [])
           (c_towers c).

Definition wt_add_update_tower (c : client) (t addr slots start expiry sg : N) : client * cres :=
  let store :=
    match dbm_store_tower_record (c_db c) t addr slots start expiry sg with
    | DbErr _ => (poison c, RAbort Site_store_tower_record_unwrap)
    | DbOk d' =>
      let su := match aget (c_towers c) t with
                | Some s => {| su_addr := addr; su_slots := slots; su_start := start; su_expiry := expiry;
                               su_status := su_status s; su_pending := su_pending s; su_invalid := su_invalid s |}
                | None => {| su_addr := addr; su_slots := slots; su_start := start; su_expiry := expiry;
                             su_status := Reachable; su_pending := []; su_invalid := [] |}
                end in
      (with_towers (with_db c d') (aset (c_towers c) t su), ROk)
    end in
  match aget (c_towers c) t with
  | Some s =>
    if N.leb expiry (su_expiry s) then (c, RSubErrExpiry)
    else match load_tower_record (c_db c) t with
         | LSome info => if N.leb slots (ti_slots info) then (c, RSubErrSlots) else store
         | LNone => (poison c, RAbort Site_add_update_tower_load_unwrap)
         | LAbort st => (poison c, RAbort st)
         end
  | None => store
  end.

(* set_tower_status (fix 70d4134): a misbehaving tower keeps that status *)
Definition wt_set_tower_status (c : client) (t : N) (st : tower_status) : client :=
  match aget (c_towers c) t with
  | Some s => if is_misbehaving (su_status s) && negb (is_misbehaving st) then c
              else with_towers c (aset (c_towers c) t (su_with_status s st))
  | None => c
  end.

Definition wt_add_appointment_receipt (c : client) (t l slots sb usig tsig : N) : client * cres :=
  match aget (c_towers c) t with
  | Some s =>
    (* a receipt for (tower, locator) is already stored: keep the first one (fix 2ac17cc) *)
    match dbm_load_appointment_receipt (c_db c) t l with Some _ => (c, ROk) | None =>
    (* tower.available_slots = available_slots; then the store, unwrapped *)
    let c1 := with_towers c (aset (c_towers c) t (su_with_slots s slots)) in
    match dbm_store_appointment_receipt (c_db c) t l slots sb usig tsig with
    | DbOk d' => (with_db c1 d', ROk)
    | DbErr _ => (poison c1, RAbort Site_store_appointment_receipt_unwrap)
    end
    end
  | None => (c, RUnknownTower)
  end.

Definition wt_add_pending_appointment (c : client) (t l blob delay : N) : client * cres :=
  match aget (c_towers c) t with
  | Some s =>
    (* `if !tower.pending_appointments.insert(locator) { return }` (fix 2ac17cc) *)
    if memN l (su_pending s) then (c, ROk) else
    let c1 := with_towers c (aset (c_towers c) t (su_with_pending s (set_add l (su_pending s)))) in
    match dbm_store_pending_appointment (c_db c) t l blob delay with
    | DbOk d' => (with_db c1 d', ROk)
    | DbErr _ => (poison c1, RAbort Site_store_pending_appointment_unwrap)
    end
  | None => (c, RUnknownTower)
  end.

Definition wt_remove_pending_appointment (c : client) (t l : N) : client * cres :=
  match aget (c_towers c) t with
  | Some s =>
    let c1 := with_towers c (aset (c_towers c) t (su_with_pending s (set_remove l (su_pending s)))) in
    match dbm_delete_pending_appointment (c_db c) t l with
    | DbOk d' => (with_db c1 d', ROk)
    | DbErr _ => (poison c1, RAbort Site_store_pending_appointment_unwrap)   (* unreachable: no statement of it can fail *)
    end
  | None => (c, RUnknownTower)
  end.

Definition wt_add_invalid_appointment (c : client) (t l blob delay : N) : client * cres :=
  match aget (c_towers c) t with
  | Some s =>
    if memN l (su_invalid s) then (c, ROk) else
    let c1 := with_towers c (aset (c_towers c) t (su_with_invalid s (set_add l (su_invalid s)))) in
    match dbm_store_invalid_appointment (c_db c) t l blob delay with
    | DbOk d' => (with_db c1 d', ROk)
    | DbErr _ => (poison c1, RAbort Site_store_invalid_appointment_unwrap)
    end
  | None => (c, RUnknownTower)
  end.

(* flag_misbehaving_tower (fix d35e2bc): a proof already stored for the tower is kept; a receipt already
   stored for (tower, locator) is replaced by the one of the proof; else both rows are inserted *)
Definition flag_store (d : db) (t l sb usig tsig recovered : N) : dbres db :=
  if exists_misbehaving_proof d t then DbOk d
  else match dbm_load_appointment_receipt d t l with
       | Some _ => dbm_store_misbehaving_proof_over_receipt d t l sb usig tsig recovered
       | None => dbm_store_misbehaving_proof d t l sb usig tsig recovered
       end.

Definition wt_flag_misbehaving_tower (c : client) (t l sb usig tsig recovered : N) : client * cres :=
  match aget (c_towers c) t with
  | Some s =>
    match flag_store (c_db c) t l sb usig tsig recovered with
    | DbOk d' => (with_towers (with_db c d') (aset (c_towers c) t (su_with_status s Misbehaving)), ROk)
    | DbErr _ => (poison c, RAbort Site_store_misbehaving_proof_unwrap)
    end
  | None => (c, RUnknownTower)
  end.

(* has_appointment (fix 2ac17cc): a record (pending, invalid or receipt) of (tower, locator) exists *)
Definition wt_has_appointment (c : client) (t l : N) : bool :=
  (match aget (c_towers c) t with
   | Some s => memN l (su_pending s) || memN l (su_invalid s)
   | None => false
   end) ||
  (match dbm_load_appointment_receipt (c_db c) t l with Some _ => true | None => false end).

(* remove_tower: towers.remove; dbm.remove_tower_record -> Result.  (`retriers` is not touched.) *)
Definition wt_remove_tower (c : client) (t : N) : client * cres :=
  match aget (c_towers c) t with
  | Some _ =>
    let c1 := with_towers c (aremove (c_towers c) t) in
    match dbm_remove_tower_record (c_db c) t with
    | DbOk d' => (with_db c1 d', ROk)
    | DbErr _ => (c1, RNotFound)
    end
  | None => (c, RNotFound)
  end.

(* ---------- the store-level operation language (C18) ---------- *)
Inductive sop :=
| SRegister (t addr slots start expiry sg : N)          (* add_update_tower: registration or renewal *)
| SReceipt (t l slots sb usig tsig : N)                 (* add_appointment_receipt *)
| SPending (t l blob delay : N)                         (* add_pending_appointment *)
| SRemovePending (t l : N)                              (* remove_pending_appointment *)
| SInvalid (t l blob delay : N)                         (* add_invalid_appointment *)
| SMoveAccepted (t l slots sb usig tsig : N)            (* pending -> accepted: receipt, then remove pending *)
| SMoveInvalid (t l blob delay : N)                     (* pending -> invalid: invalid, then remove pending *)
| SMisbehaving (t l sb usig tsig recovered : N)         (* flag_misbehaving_tower *)
| SAbandon (t : N)                                      (* remove_tower *)
| SSetStatus (t : N) (st : tower_status)                (* set_tower_status *)
| SReload.                                              (* restart: WTClient::new over the same file *)

Definition is_abort (r : cres) : bool := match r with RAbort _ => true | _ => false end.

(* two calls made under one lock acquisition: the second runs only if the first returned *)
Definition seq2 (r1 : client * cres) (f : client -> client * cres) : client * cres :=
  if is_abort (snd r1) then r1 else f (fst r1).

Definition sstep (c : client) (o : sop) : client * cres :=
  match o with
  | SReload => (wt_reload c, ROk)
  | _ =>
    if c_poisoned c then (c, RAbort Site_poisoned) else
    match o with
    | SRegister t addr slots start expiry sg => wt_add_update_tower c t addr slots start expiry sg
    | SReceipt t l slots sb usig tsig => wt_add_appointment_receipt c t l slots sb usig tsig
    | SPending t l blob delay => wt_add_pending_appointment c t l blob delay
    | SRemovePending t l => wt_remove_pending_appointment c t l
    | SInvalid t l blob delay => wt_add_invalid_appointment c t l blob delay
    | SMoveAccepted t l slots sb usig tsig =>
      seq2 (wt_add_appointment_receipt c t l slots sb usig tsig) (fun c1 => wt_remove_pending_appointment c1 t l)
    | SMoveInvalid t l blob delay =>
      seq2 (wt_add_invalid_appointment c t l blob delay) (fun c1 => wt_remove_pending_appointment c1 t l)
    | SMisbehaving t l sb usig tsig recovered => wt_flag_misbehaving_tower c t l sb usig tsig recovered
    | SAbandon t => wt_remove_tower c t
    | SSetStatus t st => (wt_set_tower_status c t st, ROk)
    | SReload => (wt_reload c, ROk)
    end
  end.

Fixpoint srun (c : client) (ops : list sop) : client :=
  match ops with
  | [] => c
  | o :: rest => srun (fst (sstep c o)) rest
  end.

(* an operation sequence is `held` when every removal of a pending appointment (alone or as the
   second half of a move) names a (tower, locator) that is a pending row at that moment — the
   only way the plugin itself calls remove_pending_appointment *)
Definition is_pending_row (d : db) (t l : N) : bool := has_pk CS d T_pending_appointments [l; t].

Definition held_op (c : client) (o : sop) : bool :=
  match o with
  | SRemovePending t l | SMoveAccepted t l _ _ _ _ | SMoveInvalid t l _ _ =>
    match aget (c_towers c) t with
    | Some _ => is_pending_row (c_db c) t l
    | None => true
    end
  | _ => true
  end.

Fixpoint held_ops (c : client) (ops : list sop) : bool :=
  match ops with
  | [] => true
  | o :: rest => (c_poisoned c || held_op c o) && held_ops (fst (sstep c o)) rest
  end.

(* ---------- the boolean form of C18 on one state (monitor) ---------- *)
Fixpoint subsetN (a b : list N) : bool :=
  match a with [] => true | x :: r => memN x b && subsetN r b end.
Definition set_eqb (a b : list N) : bool := subsetN a b && subsetN b a.

Definition status_eqb (a b : tower_status) : bool := N.eqb (tower_status_code a) (tower_status_code b).

Definition summary_eqb_mod_status (a b : summary) : bool :=
  N.eqb (su_addr a) (su_addr b) && N.eqb (su_slots a) (su_slots b) && N.eqb (su_start a) (su_start b) &&
  N.eqb (su_expiry a) (su_expiry b) && set_eqb (su_pending a) (su_pending b) && set_eqb (su_invalid a) (su_invalid b).

Definition towers_eqb_mod_status (m1 m2 : amap summary) : bool :=
  forallb (fun k => match aget m1 k, aget m2 k with
                    | Some a, Some b => summary_eqb_mod_status a b
                    | None, None => true
                    | _, _ => false
                    end) (map fst m1 ++ map fst m2).

(* memory = disk: the summaries held in memory are the ones load_towers computes from the tables *)
Definition mem_eq_diskb (c : client) : bool := towers_eqb_mod_status (c_towers c) (load_towers (c_db c)).

(* every appointment body is referenced by a pending or an invalid row *)
Definition no_orphan_bodiesb (d : db) : bool :=
  forallb (fun b => negb (Nat.eqb (ref_count d (col b C_appointments_locator)) 0)) (tbl d T_appointments).

(* no row of a tower-keyed table mentions tower t *)
Definition tower_col (tb : nat) : option nat :=
  if Nat.eqb tb T_towers then Some C_towers_tower_id
  else if Nat.eqb tb T_pending_appointments then Some C_pending_appointments_tower_id
  else if Nat.eqb tb T_invalid_appointments then Some C_invalid_appointments_tower_id
  else if Nat.eqb tb T_registration_receipts then Some C_registration_receipts_tower_id
  else if Nat.eqb tb T_appointment_receipts then Some C_appointment_receipts_tower_id
  else if Nat.eqb tb T_misbehaving_proofs then Some C_misbehaving_proofs_tower_id
  else None.

Definition row_of_tower (tb : nat) (t : N) (r : row) : bool :=
  match tower_col tb with Some cl => N.eqb (col r cl) t | None => false end.

Definition no_rows_of_towerb (d : db) (t : N) : bool :=
  forallb (fun x => x) (map_idx (fun tb rows => forallb (fun r => negb (row_of_tower tb t r)) rows) d).

(* ---------- observation helpers and the C18 monitor (evaluated by the driver on the
   IMPLEMENTATION's observed states: raw rows -> c_db, `towers` -> c_towers) ---------- *)
Definition body_triple (r : row) : N * N * N :=
  (col r C_appointments_locator, col r C_appointments_encrypted_blob, col r C_appointments_to_self_delay).

Definition rows_subsetb (a b : list row) : bool := forallb (fun r => existsb (key_eqb r) b) a.
Definition rows_eq_setb (a b : list row) : bool := rows_subsetb a b && rows_subsetb b a.

(* the rows of every tower-keyed table that do not belong to tower t are the same in d and d';
   `keys` is unchanged; no appointment body appears, and every body that a row of ANOTHER tower
   references is still there *)
Definition referenced_by_other (d : db) (t l : N) : bool :=
  existsb (fun r => N.eqb (col r C_pending_appointments_locator) l && negb (N.eqb (col r C_pending_appointments_tower_id) t))
          (tbl d T_pending_appointments) ||
  existsb (fun r => N.eqb (col r C_invalid_appointments_locator) l && negb (N.eqb (col r C_invalid_appointments_tower_id) t))
          (tbl d T_invalid_appointments).

Definition other_rows_keptb (d d' : db) (t : N) : bool :=
  forallb (fun x => x)
    (map_idx (fun tb rows =>
       if Nat.eqb tb T_appointments then
         rows_subsetb (tbl d' tb) rows &&
         rows_subsetb (filter (fun b => referenced_by_other d t (col b C_appointments_locator)) rows) (tbl d' tb)
       else
         rows_eq_setb (filter (fun r => negb (row_of_tower tb t r)) rows)
                      (filter (fun r => negb (row_of_tower tb t r)) (tbl d' tb))) d).

Definition has_body (d : db) (l : N) : bool := has_pk CS d T_appointments [l].

(* failing checks of one observed state (empty list = all hold):
   1 memory <> disk, 2 a foreign key dangles (a pending/invalid row without body, ...),
   3 duplicate primary key, 4 an appointment body nobody references *)
Definition mon_state (c : client) : list N :=
  (if c_poisoned c || mem_eq_diskb c then [] else [1]) ++
  (if fk_okb CS (c_db c) then [] else [2]) ++
  (if pk_okb CS (c_db c) then [] else [3]) ++
  (if no_orphan_bodiesb (c_db c) then [] else [4]).

(* a restart (towers `rl` of a WTClient opened on the same file) reproduces the summaries, with
   the status recomputed by the rule: 5 summaries differ, 6 status not by the rule *)
Definition mon_reload (c : client) (rl : amap summary) : list N :=
  (if towers_eqb_mod_status rl (load_towers (c_db c)) &&
      (c_poisoned c || towers_eqb_mod_status rl (c_towers c)) then [] else [5]) ++
  (if forallb (fun kv => status_eqb (su_status (snd kv))
                           (db_status (c_db c) (fst kv) (pending_locators (c_db c) (fst kv)))) rl
   then [] else [6]).

(* abandon t, returned Ok: 7 a row of t is left, 8 a row of another tower / a shared body changed *)
Definition mon_abandon (c c' : client) (t : N) : list N :=
  (if no_rows_of_towerb (c_db c') t && negb (amem (c_towers c') t) then [] else [7]) ++
  (if other_rows_keptb (c_db c) (c_db c') t then [] else [8]).

(* removal of the pending row (t,l) that was held: 9 the row is still there / another reference
   or receipt disappeared, 10 the body is not exactly "present iff still referenced" *)
Definition mon_release (c c' : client) (t l : N) : list N :=
  (if negb (is_pending_row (c_db c') t l) &&
      rows_eq_setb (filter (fun r => negb (key_eqb (proj r [C_pending_appointments_locator; C_pending_appointments_tower_id]) [l; t]))
                           (tbl (c_db c) T_pending_appointments))
                   (tbl (c_db c') T_pending_appointments) &&
      rows_subsetb (tbl (c_db c) T_invalid_appointments) (tbl (c_db c') T_invalid_appointments) &&
      rows_subsetb (tbl (c_db c) T_appointment_receipts) (tbl (c_db c') T_appointment_receipts)
   then [] else [9]) ++
  (if Bool.eqb (has_body (c_db c') l) (negb (Nat.eqb (ref_count (c_db c') l) 0)) then [] else [10]).
