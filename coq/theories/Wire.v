(* Wire.v — executable model of the wire format shared by the tower's HTTP API and the client.
   Bytes and strings are `list N` (every element < 256; strings are UTF-8 byte sequences).

   Anchors:  hex 0.4.3 (`hex::encode` lower case, `hex::decode` either case),
             teos-common/src/ser.rs (serde_be, serde_vec_bytes, serde_status),
             teos-common/src/appointment.rs, receipts.rs (`to_vec` signed layouts),
             serde_derive 1.0.217 (struct / flatten / untagged (de)serialisation over a JSON value),
             serde_json 1.0.138 compact printer (`json_print`; the parser is trusted).

   The message shapes are DATA (`msg`, generated into Gen/WireSpec.v from teos-common/build.rs and the
   proto files); this file is the generic interpreter.  Definitions only; proofs are in WireProofs.v. *)
From TeosModel Require Import Base.
From Coq Require String Ascii.

Definition bytes := list N.
Definition str := list N.

Definition byteb (x : N) : bool := x <? 256.
Definition wf_bytesb (b : bytes) : bool := forallb byteb b.
Definition U32b (z : Z) : bool := ((0 <=? z) && (z <? 4294967296))%Z.
Definition U8b (z : Z) : bool := ((0 <=? z) && (z <? 256))%Z.

(* Coq string literal -> its bytes (names in the generated tables are ASCII) *)
Fixpoint s2b (s : String.string) : str :=
  match s with
  | String.EmptyString => []
  | String.String a r => Ascii.N_of_ascii a :: s2b r
  end.

Fixpoint str_eqb (a b : str) : bool :=
  match a, b with
  | [], [] => true
  | x :: a', y :: b' => N.eqb x y && str_eqb a' b'
  | _, _ => false
  end.

Definition mem_str (s : str) (l : list str) : bool := existsb (str_eqb s) l.

Fixpoint nodup_strb (l : list str) : bool :=
  match l with
  | [] => true
  | x :: r => negb (mem_str x r) && nodup_strb r
  end.

(* ------------------------------------------------------------------------------------------ *)
(* hex                                                                                        *)
(* ------------------------------------------------------------------------------------------ *)

(* hex::encode: b"0123456789abcdef"[nibble] *)
Definition hex_digit (d : N) : N := if d <? 10 then 48 + d else 87 + d.

(* hex::decode's `val`: b'A'..=b'F' | b'a'..=b'f' | b'0'..=b'9', anything else InvalidHexCharacter *)
Definition hex_val (c : N) : option N :=
  if (48 <=? c) && (c <=? 57) then Some (c - 48)
  else if (97 <=? c) && (c <=? 102) then Some (c - 87)
  else if (65 <=? c) && (c <=? 70) then Some (c - 55)
  else None.

Fixpoint hex_encode (b : bytes) : str :=
  match b with
  | [] => []
  | x :: r => hex_digit (x / 16) :: hex_digit (x mod 16) :: hex_encode r
  end.

(* None = FromHexError (OddLength or InvalidHexCharacter) *)
Fixpoint hex_decode (s : str) : option bytes :=
  match s with
  | [] => Some []
  | [_] => None
  | h :: l :: r =>
    match hex_val h, hex_val l, hex_decode r with
    | Some a, Some b, Some t => Some (16 * a + b :: t)
    | _, _, _ => None
    end
  end.

(* serde_be: the byte string reversed, then hex (how txids are displayed) *)
Definition behex_encode (b : bytes) : str := hex_encode (rev b).
Definition behex_decode (s : str) : option bytes := option_map (@rev N) (hex_decode s).

Definition is_lower_hexb (s : str) : bool :=
  forallb (fun c => ((48 <=? c) && (c <=? 57)) || ((97 <=? c) && (c <=? 102))) s.

Definition to_upper (c : N) : N := if (97 <=? c) && (c <=? 122) then c - 32 else c.

(* ------------------------------------------------------------------------------------------ *)
(* big-endian u32 and the signed layouts                                                      *)
(* ------------------------------------------------------------------------------------------ *)

(* u32::to_be_bytes *)
Definition be32 (n : N) : bytes :=
  [(n / 16777216) mod 256; (n / 65536) mod 256; (n / 256) mod 256; n mod 256].
Definition le32 (n : N) : bytes := rev (be32 n).

Definition be32_decode (b : bytes) : option N :=
  match b with
  | [a; b; c; d] => Some (a * 16777216 + b * 65536 + c * 256 + d)
  | _ => None
  end.

(* One item of a `to_vec` layout: a byte field whose Rust type has a fixed width (Locator =
   [u8; LOCATOR_LEN], UserId = compressed public key), a variable-width byte field (Vec<u8>,
   String::as_bytes), or a u32 written with to_be_bytes / to_le_bytes. *)
Inductive litem := LFixed (w : nat) | LVar | LBE32 | LLE32.
Inductive lval := LVBytes (b : bytes) | LVNum (n : N).
Definition layout := list (str * litem).

Definition litem_encode (it : litem) (v : lval) : bytes :=
  match it, v with
  | LFixed _, LVBytes b => b
  | LVar, LVBytes b => b
  | LBE32, LVNum n => be32 n
  | LLE32, LVNum n => le32 n
  | _, _ => []
  end.

Fixpoint layout_encode (l : layout) (vs : list lval) : bytes :=
  match l, vs with
  | (_, it) :: l', v :: vs' => litem_encode it v ++ layout_encode l' vs'
  | _, _ => []
  end.

(* what the Rust types guarantee about a field value *)
Definition lval_okb (it : litem) (v : lval) : bool :=
  match it, v with
  | LFixed w, LVBytes b => Nat.eqb (length b) w
  | LVar, LVBytes _ => true
  | LBE32, LVNum n => n <? 4294967296
  | LLE32, LVNum n => n <? 4294967296
  | _, _ => false
  end.

Fixpoint layout_okb (l : layout) (vs : list lval) : bool :=
  match l, vs with
  | [], [] => true
  | (_, it) :: l', v :: vs' => lval_okb it v && layout_okb l' vs'
  | _, _ => false
  end.

Definition is_var (it : litem) : bool := match it with LVar => true | _ => false end.
Definition count_var (l : layout) : nat := length (filter (fun f => is_var (snd f)) l).
(* the side condition of injectivity: at most one field of variable width *)
Definition layout_unambiguousb (l : layout) : bool := Nat.leb (count_var l) 1.

(* The request-signing messages: format!("get appointment {}", locator) with Locator's Display
   (= lower-case hex), and the literal "get subscription info". *)
Definition sign_msg_get_appointment (prefix : str) (locator : bytes) : bytes := prefix ++ hex_encode locator.

(* ------------------------------------------------------------------------------------------ *)
(* JSON values and serde_json's compact printer                                               *)
(* ------------------------------------------------------------------------------------------ *)

Inductive json :=
| JNull
| JBool (b : bool)
| JNum (z : Z)
| JStr (s : str)
| JArr (l : list json)
| JObj (l : list (str * json)).

Fixpoint dec_aux (fuel : nat) (n : N) (acc : str) : str :=
  match fuel with
  | O => acc
  | S f =>
    let acc' := (48 + n mod 10) :: acc in
    if n / 10 =? 0 then acc' else dec_aux f (n / 10) acc'
  end.
(* decimal digits of n (itoa) *)
Definition dec_of_N (n : N) : str := dec_aux (S (N.size_nat n)) n [].
Definition dec_of_Z (z : Z) : str :=
  match z with
  | Zneg p => 45 :: dec_of_N (Npos p)
  | _ => dec_of_N (Z.to_N z)
  end.

(* serde_json::ser::format_escaped_str: the double quote (34), the backslash (92) and the control
   characters are escaped (backslash + b f n r t, or u00xx in lower case); every other byte,
   including 0x7f and non-ASCII UTF-8, is copied *)
Definition esc_byte (c : N) : str :=
  if c =? 34 then [92; 34]
  else if c =? 92 then [92; 92]
  else if c =? 8 then [92; 98]
  else if c =? 12 then [92; 102]
  else if c =? 10 then [92; 110]
  else if c =? 13 then [92; 114]
  else if c =? 9 then [92; 116]
  else if c <? 32 then [92; 117; 48; 48; hex_digit (c / 16); hex_digit (c mod 16)]
  else [c].
Definition json_str (s : str) : str := 34 :: flat_map esc_byte s ++ [34].

Fixpoint json_print (j : json) : str :=
  match j with
  | JNull => [110; 117; 108; 108]
  | JBool true => [116; 114; 117; 101]
  | JBool false => [102; 97; 108; 115; 101]
  | JNum z => dec_of_Z z
  | JStr s => json_str s
  | JArr l =>
    91 :: (fix go (l : list json) : str :=
             match l with
             | [] => []
             | x :: r => json_print x ++ match r with [] => [] | _ => 44 :: go r end
             end) l ++ [93]
  | JObj l =>
    123 :: (fix go (l : list (str * json)) : str :=
              match l with
              | [] => []
              | (k, v) :: r => json_str k ++ 58 :: json_print v ++ match r with [] => [] | _ => 44 :: go r end
              end) l ++ [125]
  end.

(* all the values bound to a key, in order of appearance (a JSON object may repeat a key) *)
Fixpoint find_all (name : str) (o : list (str * json)) : list json :=
  match o with
  | [] => []
  | (k, v) :: r => if str_eqb name k then v :: find_all name r else find_all name r
  end.

(* ------------------------------------------------------------------------------------------ *)
(* message shapes (generated data) and message values                                         *)
(* ------------------------------------------------------------------------------------------ *)

(* How one field of a prost struct travels, as decided by its Rust type and the serde attribute
   build.rs injects:
     KHex      Vec<u8>  #[serde(with = "hex::serde")]            lower-case hex string
     KHexBE    Vec<u8>  #[serde(with = "crate::ser::serde_be")]  hex of the reversed bytes
     KVecHex   Vec<Vec<u8>> #[serde(with = "..serde_vec_bytes")] array of hex strings
     KStatus   i32      #[serde(with = "..serde_status")]        status name
     KU32/KU8  u32/u8   (no attribute)                           number
     KStr      String   (no attribute)                           string
     KBytesArr Vec<u8>  (no attribute)                           array of numbers (serde's default)
     KOptMsg m Option<M> (no attribute)                          null | object; may be absent
   and a message is either a plain struct or a struct whose only field is
   `#[serde(flatten)] Option<untagged enum of messages>` (AppointmentData). *)
Inductive kind :=
| KHex | KHexBE | KVecHex | KStatus | KU32 | KU8 | KStr | KBytesArr
| KOptMsg (m : msg)
with msg :=
| MStruct (fs : fields)
| MFlatOneof (vs : msgs)
with fields :=
| FNil
| FCons (name : str) (k : kind) (rest : fields)
with msgs :=
| MNil
| MCons (m : msg) (rest : msgs).

Fixpoint flist (l : list (str * kind)) : fields :=
  match l with [] => FNil | (n, k) :: r => FCons n k (flist r) end.
Fixpoint mlist (l : list msg) : msgs :=
  match l with [] => MNil | m :: r => MCons m (mlist r) end.

Inductive val :=
| VBytes (b : bytes)
| VVec (l : list bytes)
| VNum (n : Z)
| VStr (s : str)
| VNone
| VSome (m : mval)
with mval :=
| MVStruct (vs : vals)
| MVOneofNone
| MVOneof (i : nat) (m : mval)      (* i-th variant of the untagged enum *)
with vals :=
| VNil
| VCons (v : val) (rest : vals).

Fixpoint vlist (l : list val) : vals :=
  match l with [] => VNil | v :: r => VCons v (vlist r) end.

Fixpoint field_names (fs : fields) : list str :=
  match fs with FNil => [] | FCons n _ r => n :: field_names r end.

Definition is_optional (k : kind) : bool := match k with KOptMsg _ => true | _ => false end.

(* names of the fields serde requires to be present *)
Fixpoint required_names (fs : fields) : list str :=
  match fs with
  | FNil => []
  | FCons n k r => if is_optional k then required_names r else n :: required_names r
  end.

(* The AppointmentStatus tables of teos-common/src/appointment.rs (generated). *)
Record status_table := mk_status_table {
  st_variants : list (str * Z);     (* enum AppointmentStatus { Variant = discriminant } *)
  st_from_i32 : list (Z * str);     (* impl From<i32>: literal arms *)
  st_from_i32_default : str;        (*                 the `_ =>` arm *)
  st_from_str : list (str * str);   (* impl FromStr: "name" => Variant *)
  st_display : list (str * str)     (* impl Display: Variant => "name" *)
}.

Fixpoint assoc_str {A} (k : str) (l : list (str * A)) : option A :=
  match l with
  | [] => None
  | (k', v) :: r => if str_eqb k k' then Some v else assoc_str k r
  end.

Fixpoint assoc_Z {A} (k : Z) (l : list (Z * A)) : option A :=
  match l with
  | [] => None
  | (k', v) :: r => if Z.eqb k k' then Some v else assoc_Z k r
  end.

Section Codec.
  Context (T : status_table).

  (* serde_status::serialize: AppointmentStatus::from(i32).to_string() *)
  Definition status_variant_of_i32 (n : Z) : str :=
    match assoc_Z n (st_from_i32 T) with Some v => v | None => st_from_i32_default T end.
  Definition status_emit (n : Z) : str :=
    match assoc_str (status_variant_of_i32 n) (st_display T) with Some s => s | None => [] end.
  (* serde_status::deserialize: AppointmentStatus::from_str(v)? as i32 *)
  Definition status_parse (s : str) : option Z :=
    match assoc_str s (st_from_str T) with
    | Some v => assoc_str v (st_variants T)
    | None => None
    end.

  (* ---------------- serialisation (serde::Serialize into a JSON value) ---------------- *)
  Fixpoint enc_kind (k : kind) (v : val) : json :=
    match k, v with
    | KHex, VBytes b => JStr (hex_encode b)
    | KHexBE, VBytes b => JStr (behex_encode b)
    | KVecHex, VVec l => JArr (map (fun b => JStr (hex_encode b)) l)
    | KStatus, VNum n => JStr (status_emit n)
    | KU32, VNum n => JNum n
    | KU8, VNum n => JNum n
    | KStr, VStr s => JStr s
    | KBytesArr, VBytes b => JArr (map (fun x => JNum (Z.of_N x)) b)
    | KOptMsg m, VSome mv => enc_msg m mv
    | KOptMsg m, VNone => JNull
    | _, _ => JNull                                    (* ill-typed: excluded by typed_*b *)
    end
  with enc_msg (m : msg) (mv : mval) : json :=
    match m, mv with
    | MStruct fs, MVStruct vs => JObj (enc_fields fs vs)
    | MFlatOneof ms, MVOneofNone => JObj []            (* flatten of None writes no entry *)
    | MFlatOneof ms, MVOneof i mv' => enc_variant ms i mv'   (* the variant's own entries *)
    | _, _ => JNull
    end
  with enc_fields (fs : fields) (vs : vals) : list (str * json) :=
    match fs, vs with
    | FCons name k r, VCons v vr => (name, enc_kind k v) :: enc_fields r vr
    | _, _ => []
    end
  with enc_variant (ms : msgs) (i : nat) (mv : mval) : json :=
    match ms with
    | MNil => JNull
    | MCons m r => match i with O => enc_msg m mv | S i' => enc_variant r i' mv end
    end.

  (* ---------------- deserialisation (serde::Deserialize from a JSON value) ---------------- *)
  Fixpoint dec_hex_list (l : list json) : option (list bytes) :=
    match l with
    | [] => Some []
    | JStr s :: r =>
      match hex_decode s, dec_hex_list r with
      | Some b, Some t => Some (b :: t)
      | _, _ => None
      end
    | _ :: _ => None
    end.

  Fixpoint dec_u8_list (l : list json) : option bytes :=
    match l with
    | [] => Some []
    | JNum z :: r =>
      match dec_u8_list r with
      | Some t => if U8b z then Some (Z.to_N z :: t) else None
      | None => None
      end
    | _ :: _ => None
    end.

  (* derived struct visitor, map form: every spec field is looked up in the object; a key bound
     twice is `duplicate field`; an absent key is `missing field` unless the Rust type is Option
     (then None); keys the struct does not know are ignored.
     seq form (a JSON array is accepted by deserialize_struct): positional, exact length. *)
  Fixpoint dec_kind (k : kind) (j : json) : option val :=
    match k with
    | KHex => match j with JStr s => option_map VBytes (hex_decode s) | _ => None end
    | KHexBE => match j with JStr s => option_map VBytes (behex_decode s) | _ => None end
    | KVecHex => match j with JArr l => option_map VVec (dec_hex_list l) | _ => None end
    | KStatus => match j with JStr s => option_map VNum (status_parse s) | _ => None end
    | KU32 => match j with JNum z => if U32b z then Some (VNum z) else None | _ => None end
    | KU8 => match j with JNum z => if U8b z then Some (VNum z) else None | _ => None end
    | KStr => match j with JStr s => Some (VStr s) | _ => None end
    | KBytesArr => match j with JArr l => option_map VBytes (dec_u8_list l) | _ => None end
    | KOptMsg m => match j with JNull => Some VNone | _ => option_map VSome (dec_msg m j) end
    end
  with dec_msg (m : msg) (j : json) : option mval :=
    match m with
    | MStruct fs =>
      match j with
      | JObj o => option_map MVStruct (dec_fields fs o)
      | JArr l => option_map MVStruct (dec_fields_seq fs l)
      | _ => None
      end
    | MFlatOneof ms =>
      (* deserialize_map; all entries are collected and handed to Option<untagged enum>, which
         is None when no variant matches (FlatMapDeserializer::deserialize_option) *)
      match j with
      | JObj o => Some (dec_first ms (JObj o) 0)
      | _ => None
      end
    end
  with dec_fields (fs : fields) (o : list (str * json)) : option vals :=
    match fs with
    | FNil => Some VNil
    | FCons name k r =>
      match
        match find_all name o with
        | [] => if is_optional k then Some VNone else None
        | [j] => dec_kind k j
        | _ :: _ :: _ => None
        end
      with
      | Some v => match dec_fields r o with Some vr => Some (VCons v vr) | None => None end
      | None => None
      end
    end
  with dec_fields_seq (fs : fields) (l : list json) : option vals :=
    match fs with
    | FNil => match l with [] => Some VNil | _ :: _ => None end
    | FCons name k r =>
      match l with
      | [] => None
      | j :: l' =>
        match dec_kind k j with
        | Some v => match dec_fields_seq r l' with Some vr => Some (VCons v vr) | None => None end
        | None => None
        end
      end
    end
  (* untagged enum: the first variant that deserialises wins *)
  with dec_first (ms : msgs) (j : json) (i : nat) : mval :=
    match ms with
    | MNil => MVOneofNone
    | MCons m r =>
      match dec_msg m j with
      | Some mv => MVOneof i mv
      | None => dec_first r j (S i)
      end
    end.

  (* ---------------- typing: the values a Rust message of that shape can hold ---------------- *)
  Fixpoint typed_kindb (k : kind) (v : val) : bool :=
    match k, v with
    | KHex, VBytes b => wf_bytesb b
    | KHexBE, VBytes b => wf_bytesb b
    | KBytesArr, VBytes b => wf_bytesb b
    | KVecHex, VVec l => forallb wf_bytesb l
    (* the i32 carried by a status field is one of the enum's discriminants *)
    | KStatus, VNum n => match status_parse (status_emit n) with Some n' => Z.eqb n n' | None => false end
    | KU32, VNum n => U32b n
    | KU8, VNum n => U8b n
    | KStr, VStr _ => true
    | KOptMsg m, VNone => true
    | KOptMsg m, VSome mv => typed_msgb m mv
    | _, _ => false
    end
  with typed_msgb (m : msg) (mv : mval) : bool :=
    match m, mv with
    | MStruct fs, MVStruct vs => typed_fieldsb fs vs
    | MFlatOneof ms, MVOneofNone => true
    | MFlatOneof ms, MVOneof i mv' => typed_variantb ms i mv'
    | _, _ => false
    end
  with typed_fieldsb (fs : fields) (vs : vals) : bool :=
    match fs, vs with
    | FNil, VNil => true
    | FCons _ k r, VCons v vr => typed_kindb k v && typed_fieldsb r vr
    | _, _ => false
    end
  with typed_variantb (ms : msgs) (i : nat) (mv : mval) : bool :=
    match ms with
    | MNil => false
    | MCons m r => match i with O => typed_msgb m mv | S i' => typed_variantb r i' mv end
    end.
End Codec.

(* ---------------- well-formedness of a shape: what makes parsing unambiguous ---------------- *)
Definition struct_fields (m : msg) : option fields :=
  match m with MStruct fs => Some fs | MFlatOneof _ => None end.

(* variant a (tried first) cannot swallow an emission of variant b: a requires a key b never writes *)
Definition distinguishableb (a b : msg) : bool :=
  match a, b with
  | MStruct fa, MStruct fb => existsb (fun n => negb (mem_str n (field_names fb))) (required_names fa)
  | _, _ => false
  end.

Definition has_requiredb (m : msg) : bool :=
  match m with
  | MStruct fs => match required_names fs with [] => false | _ :: _ => true end
  | MFlatOneof _ => false
  end.

Fixpoint forall_msgs (p : msg -> bool) (ms : msgs) : bool :=
  match ms with MNil => true | MCons m r => p m && forall_msgs p r end.

Fixpoint wf_kindb (k : kind) : bool :=
  match k with
  | KOptMsg m => wf_msgb m
  | _ => true
  end
with wf_msgb (m : msg) : bool :=
  match m with
  | MStruct fs => nodup_strb (field_names fs) && wf_fieldsb fs
  | MFlatOneof ms => wf_variantsb ms
  end
with wf_fieldsb (fs : fields) : bool :=
  match fs with
  | FNil => true
  | FCons _ k r => wf_kindb k && wf_fieldsb r
  end
with wf_variantsb (ms : msgs) : bool :=
  match ms with
  | MNil => true
  | MCons m r => wf_msgb m && has_requiredb m && forall_msgs (distinguishableb m) r && wf_variantsb r
  end.

(* ------------------------------------------------------------------------------------------ *)
(* the client's view of a reply                                                               *)
(* ------------------------------------------------------------------------------------------ *)

(* what `process_post_response::<X>` yields for a body that is the JSON value j:
     X = ApiResponse<T> (untagged, variants in the generated order):  Response / Error / no match
     X = T:                                                           Response / no match
   "no match" is RequestError::DeserializeError *)
Inductive creply := CResponse (r : mval) | CError (e : mval) | CDeserializeError.

Inductive api_variant := AVResponse | AVError.

Section Client.
  Context (T : status_table).

  Fixpoint dec_untagged (order : list api_variant) (resp err : msg) (j : json) : creply :=
    match order with
    | [] => CDeserializeError
    | AVResponse :: r =>
      match dec_msg T resp j with Some v => CResponse v | None => dec_untagged r resp err j end
    | AVError :: r =>
      match dec_msg T err j with Some v => CError v | None => dec_untagged r resp err j end
    end.

  Definition client_decode (wrapped : bool) (order : list api_variant) (resp err : msg) (j : json) : creply :=
    if wrapped then dec_untagged order resp err j
    else match dec_msg T resp j with Some v => CResponse v | None => CDeserializeError end.
End Client.

(* ------------------------------------------------------------------------------------------ *)
(* one endpoint of the public API (generated: router, handler signature, gRPC service, client) *)
(* ------------------------------------------------------------------------------------------ *)
Record endpoint_spec := mk_endpoint {
  ep_path : str;               (* Endpoint::X.path() *)
  ep_req : msg;                (* the handler's request type *)
  ep_resp : msg;               (* the gRPC method's reply type, serialised by parse_grpc_response *)
  ep_cap : Z;                  (* warp::body::content_length_limit *)
  ep_client_wrapped : bool     (* client decodes the reply as ApiResponse<T> (true) or as T (false) *)
}.
