(* Wire.v — executable model of the wire format shared by the tower's HTTP API and the client.
   Bytes and strings are `list N` (every element < 256; strings are UTF-8 byte sequences).

   Anchors:  hex 0.4.3 (`hex::encode` lower case, `hex::decode` either case),
             teos-common/src/ser.rs (serde_be, serde_vec_bytes, serde_status),
             teos-common/src/appointment.rs, receipts.rs (`to_vec` signed layouts),
             serde_derive 1.0.217 (struct / flatten / untagged (de)serialisation over a JSON value),
             serde_json 1.0.138 compact printer (`json_print`; the parser is trusted).

   The message shapes are DATA (`msg`, generated into Gen/WireSpec.v from teos-common/build.rs and the
   proto files); this file is the generic interpreter.  Definitions only; proofs are in WireProofs.v. *)
From TeosModel Require Import Base.
From Coq Require String Ascii.

Definition w_bytes := list N.
Definition w_str := list N.

Definition w_byteb (x : N) : bool := x <? 256.
Definition w_wf_bytesb (b : w_bytes) : bool := forallb w_byteb b.
Definition WU32b (z : Z) : bool := ((0 <=? z) && (z <? 4294967296))%Z.
Definition WU8b (z : Z) : bool := ((0 <=? z) && (z <? 256))%Z.

(* Coq string literal -> its bytes (names in the generated tables are ASCII) *)
Fixpoint w_s2b (s : String.string) : w_str :=
  match s with
  | String.EmptyString => []
  | String.String a r => Ascii.N_of_ascii a :: w_s2b r
  end.

Fixpoint w_str_eqb (a b : w_str) : bool :=
  match a, b with
  | [], [] => true
  | x :: a', y :: b' => N.eqb x y && w_str_eqb a' b'
  | _, _ => false
  end.

Definition w_mem_str (s : w_str) (l : list w_str) : bool := existsb (w_str_eqb s) l.

Fixpoint w_nodup_strb (l : list w_str) : bool :=
  match l with
  | [] => true
  | x :: r => negb (w_mem_str x r) && w_nodup_strb r
  end.

(* ------------------------------------------------------------------------------------------ *)
(* hex                                                                                        *)
(* ------------------------------------------------------------------------------------------ *)

(* hex::encode: b"0123456789abcdef"[nibble] *)
Definition w_hex_digit (d : N) : N := if d <? 10 then 48 + d else 87 + d.

(* hex::decode's `val`: b'A'..=b'F' | b'a'..=b'f' | b'0'..=b'9', anything else InvalidHexCharacter *)
Definition w_hex_val (c : N) : option N :=
  if (48 <=? c) && (c <=? 57) then Some (c - 48)
  else if (97 <=? c) && (c <=? 102) then Some (c - 87)
  else if (65 <=? c) && (c <=? 70) then Some (c - 55)
  else None.

Fixpoint w_hex_encode (b : w_bytes) : w_str :=
  match b with
  | [] => []
  | x :: r => w_hex_digit (x / 16) :: w_hex_digit (x mod 16) :: w_hex_encode r
  end.

(* None = FromHexError (OddLength or InvalidHexCharacter) *)
Fixpoint w_hex_decode (s : w_str) : option w_bytes :=
  match s with
  | [] => Some []
  | [_] => None
  | h :: l :: r =>
    match w_hex_val h, w_hex_val l, w_hex_decode r with
    | Some a, Some b, Some t => Some (16 * a + b :: t)
    | _, _, _ => None
    end
  end.

(* serde_be: the byte string reversed, then hex (how txids are displayed) *)
Definition w_behex_encode (b : w_bytes) : w_str := w_hex_encode (rev b).
Definition w_behex_decode (s : w_str) : option w_bytes := option_map (@rev N) (w_hex_decode s).

Definition w_is_lower_hexb (s : w_str) : bool :=
  forallb (fun c => ((48 <=? c) && (c <=? 57)) || ((97 <=? c) && (c <=? 102))) s.

Definition w_to_upper (c : N) : N := if (97 <=? c) && (c <=? 122) then c - 32 else c.

(* ------------------------------------------------------------------------------------------ *)
(* big-endian u32 and the signed layouts                                                      *)
(* ------------------------------------------------------------------------------------------ *)

(* u32::to_be_bytes *)
Definition w_be32 (n : N) : w_bytes :=
  [(n / 16777216) mod 256; (n / 65536) mod 256; (n / 256) mod 256; n mod 256].
Definition w_le32 (n : N) : w_bytes := rev (w_be32 n).

Definition w_be32_decode (b : w_bytes) : option N :=
  match b with
  | [a; b; c; d] => Some (a * 16777216 + b * 65536 + c * 256 + d)
  | _ => None
  end.

(* One item of a `to_vec` layout: a byte field whose Rust type has a fixed width (Locator =
   [u8; LOCATOR_LEN], UserId = compressed public key), a variable-width byte field (Vec<u8>,
   String::as_bytes), or a u32 written with to_be_bytes / to_le_bytes. *)
Inductive w_litem := WLFixed (w : nat) | WLVar | WLBE32 | WLLE32.
Inductive w_lval := WLVBytes (b : w_bytes) | WLVNum (n : N).
Definition w_layout := list (w_str * w_litem).

Definition w_litem_encode (it : w_litem) (v : w_lval) : w_bytes :=
  match it, v with
  | WLFixed _, WLVBytes b => b
  | WLVar, WLVBytes b => b
  | WLBE32, WLVNum n => w_be32 n
  | WLLE32, WLVNum n => w_le32 n
  | _, _ => []
  end.

Fixpoint w_layout_encode (l : w_layout) (vs : list w_lval) : w_bytes :=
  match l, vs with
  | (_, it) :: l', v :: vs' => w_litem_encode it v ++ w_layout_encode l' vs'
  | _, _ => []
  end.

(* what the Rust types guarantee about a field value *)
Definition w_lval_okb (it : w_litem) (v : w_lval) : bool :=
  match it, v with
  | WLFixed w, WLVBytes b => Nat.eqb (length b) w
  | WLVar, WLVBytes _ => true
  | WLBE32, WLVNum n => n <? 4294967296
  | WLLE32, WLVNum n => n <? 4294967296
  | _, _ => false
  end.

Fixpoint w_layout_okb (l : w_layout) (vs : list w_lval) : bool :=
  match l, vs with
  | [], [] => true
  | (_, it) :: l', v :: vs' => w_lval_okb it v && w_layout_okb l' vs'
  | _, _ => false
  end.

Definition w_is_var (it : w_litem) : bool := match it with WLVar => true | _ => false end.
Definition w_count_var (l : w_layout) : nat := length (filter (fun f => w_is_var (snd f)) l).
(* the side condition of injectivity: at most one field of variable width *)
Definition w_layout_unambiguousb (l : w_layout) : bool := Nat.leb (w_count_var l) 1.

(* The request-signing messages: format!("get appointment {}", locator) with Locator's Display
   (= lower-case hex), and the literal "get subscription info". *)
Definition w_sign_msg_get_appointment (prefix : w_str) (locator : w_bytes) : w_bytes := prefix ++ w_hex_encode locator.

(* ------------------------------------------------------------------------------------------ *)
(* JSON values and serde_json's compact printer                                               *)
(* ------------------------------------------------------------------------------------------ *)

Inductive w_json :=
| JNull
| JBool (b : bool)
| JNum (z : Z)
| JStr (s : w_str)
| JArr (l : list w_json)
| JObj (l : list (w_str * w_json)).

Fixpoint w_dec_aux (fuel : nat) (n : N) (acc : w_str) : w_str :=
  match fuel with
  | O => acc
  | S f =>
    let acc' := (48 + n mod 10) :: acc in
    if n / 10 =? 0 then acc' else w_dec_aux f (n / 10) acc'
  end.
(* decimal digits of n (itoa) *)
Definition w_dec_of_N (n : N) : w_str := w_dec_aux (S (N.size_nat n)) n [].
Definition w_dec_of_Z (z : Z) : w_str :=
  match z with
  | Zneg p => 45 :: w_dec_of_N (Npos p)
  | _ => w_dec_of_N (Z.to_N z)
  end.

(* serde_json::ser::format_escaped_str: the double quote (34), the backslash (92) and the control
   characters are escaped (backslash + b f n r t, or u00xx in lower case); every other byte,
   including 0x7f and non-ASCII UTF-8, is copied *)
Definition w_esc_byte (c : N) : w_str :=
  if c =? 34 then [92; 34]
  else if c =? 92 then [92; 92]
  else if c =? 8 then [92; 98]
  else if c =? 12 then [92; 102]
  else if c =? 10 then [92; 110]
  else if c =? 13 then [92; 114]
  else if c =? 9 then [92; 116]
  else if c <? 32 then [92; 117; 48; 48; w_hex_digit (c / 16); w_hex_digit (c mod 16)]
  else [c].
Definition w_json_str (s : w_str) : w_str := 34 :: flat_map w_esc_byte s ++ [34].

Fixpoint w_json_print (j : w_json) : w_str :=
  match j with
  | JNull => [110; 117; 108; 108]
  | JBool true => [116; 114; 117; 101]
  | JBool false => [102; 97; 108; 115; 101]
  | JNum z => w_dec_of_Z z
  | JStr s => w_json_str s
  | JArr l =>
    91 :: (fix go (l : list w_json) : w_str :=
             match l with
             | [] => []
             | x :: r => w_json_print x ++ match r with [] => [] | _ => 44 :: go r end
             end) l ++ [93]
  | JObj l =>
    123 :: (fix go (l : list (w_str * w_json)) : w_str :=
              match l with
              | [] => []
              | (k, v) :: r => w_json_str k ++ 58 :: w_json_print v ++ match r with [] => [] | _ => 44 :: go r end
              end) l ++ [125]
  end.

(* all the values bound to a key, in order of appearance (a JSON object may repeat a key) *)
Fixpoint w_find_all (name : w_str) (o : list (w_str * w_json)) : list w_json :=
  match o with
  | [] => []
  | (k, v) :: r => if w_str_eqb name k then v :: w_find_all name r else w_find_all name r
  end.

(* ------------------------------------------------------------------------------------------ *)
(* message shapes (generated data) and message values                                         *)
(* ------------------------------------------------------------------------------------------ *)

(* How one field of a prost struct travels, as decided by its Rust type and the serde attribute
   build.rs injects:
     KHex      Vec<u8>  #[serde(with = "hex::serde")]            lower-case hex string
     KHexBE    Vec<u8>  #[serde(with = "crate::ser::serde_be")]  hex of the reversed bytes
     KVecHex   Vec<Vec<u8>> #[serde(with = "..serde_vec_bytes")] array of hex strings
     KStatus   i32      #[serde(with = "..serde_status")]        status name
     KU32/KU8  u32/u8   (no attribute)                           number
     KStr      String   (no attribute)                           string
     KBytesArr Vec<u8>  (no attribute)                           array of numbers (serde's default)
     KOptMsg m Option<M> (no attribute)                          null | object; may be absent
   and a message is either a plain struct or a struct whose only field is
   `#[serde(flatten)] Option<untagged enum of messages>` (AppointmentData). *)
Inductive w_kind :=
| KHex | KHexBE | KVecHex | KStatus | KU32 | KU8 | KStr | KBytesArr
| KOptMsg (m : w_msg)
with w_msg :=
| WMStruct (fs : w_fields)
| WMFlatOneof (vs : w_msgs)
with w_fields :=
| WFNil
| WFCons (name : w_str) (k : w_kind) (rest : w_fields)
with w_msgs :=
| WMNil
| WMCons (m : w_msg) (rest : w_msgs).

Fixpoint w_flist (l : list (w_str * w_kind)) : w_fields :=
  match l with [] => WFNil | (n, k) :: r => WFCons n k (w_flist r) end.
Fixpoint w_mlist (l : list w_msg) : w_msgs :=
  match l with [] => WMNil | m :: r => WMCons m (w_mlist r) end.

Inductive w_val :=
| WVBytes (b : w_bytes)
| WVVec (l : list w_bytes)
| WVNum (n : Z)
| WVStr (s : w_str)
| WVNone
| WVSome (m : w_mval)
with w_mval :=
| WMVStruct (vs : w_vals)
| WMVOneofNone
| WMVOneof (i : nat) (m : w_mval)      (* i-th variant of the untagged enum *)
with w_vals :=
| WVNil
| WVCons (v : w_val) (rest : w_vals).

Fixpoint w_vlist (l : list w_val) : w_vals :=
  match l with [] => WVNil | v :: r => WVCons v (w_vlist r) end.

Fixpoint w_field_names (fs : w_fields) : list w_str :=
  match fs with WFNil => [] | WFCons n _ r => n :: w_field_names r end.

Definition w_is_optional (k : w_kind) : bool := match k with KOptMsg _ => true | _ => false end.

(* names of the fields serde requires to be present *)
Fixpoint w_required_names (fs : w_fields) : list w_str :=
  match fs with
  | WFNil => []
  | WFCons n k r => if w_is_optional k then w_required_names r else n :: w_required_names r
  end.

(* The AppointmentStatus tables of teos-common/src/appointment.rs (generated). *)
Record w_status_table := w_mk_status_table {
  w_st_variants : list (w_str * Z);     (* enum AppointmentStatus { Variant = discriminant } *)
  w_st_from_i32 : list (Z * w_str);     (* impl From<i32>: literal arms *)
  w_st_from_i32_default : w_str;        (*                 the `_ =>` arm *)
  w_st_from_str : list (w_str * w_str);   (* impl FromStr: "name" => Variant *)
  w_st_display : list (w_str * w_str)     (* impl Display: Variant => "name" *)
}.

Fixpoint w_assoc_str {A} (k : w_str) (l : list (w_str * A)) : option A :=
  match l with
  | [] => None
  | (k', v) :: r => if w_str_eqb k k' then Some v else w_assoc_str k r
  end.

Fixpoint w_assoc_Z {A} (k : Z) (l : list (Z * A)) : option A :=
  match l with
  | [] => None
  | (k', v) :: r => if Z.eqb k k' then Some v else w_assoc_Z k r
  end.

Section Codec.
  Context (T : w_status_table).

  (* serde_status::serialize: AppointmentStatus::from(i32).to_string() *)
  Definition w_status_variant_of_i32 (n : Z) : w_str :=
    match w_assoc_Z n (w_st_from_i32 T) with Some v => v | None => w_st_from_i32_default T end.
  Definition w_status_emit (n : Z) : w_str :=
    match w_assoc_str (w_status_variant_of_i32 n) (w_st_display T) with Some s => s | None => [] end.
  (* serde_status::deserialize: AppointmentStatus::from_str(v)? as i32 *)
  Definition w_status_parse (s : w_str) : option Z :=
    match w_assoc_str s (w_st_from_str T) with
    | Some v => w_assoc_str v (w_st_variants T)
    | None => None
    end.

  (* ---------------- serialisation (serde::Serialize into a JSON value) ---------------- *)
  Fixpoint w_enc_kind (k : w_kind) (v : w_val) : w_json :=
    match k, v with
    | KHex, WVBytes b => JStr (w_hex_encode b)
    | KHexBE, WVBytes b => JStr (w_behex_encode b)
    | KVecHex, WVVec l => JArr (map (fun b => JStr (w_hex_encode b)) l)
    | KStatus, WVNum n => JStr (w_status_emit n)
    | KU32, WVNum n => JNum n
    | KU8, WVNum n => JNum n
    | KStr, WVStr s => JStr s
    | KBytesArr, WVBytes b => JArr (map (fun x => JNum (Z.of_N x)) b)
    | KOptMsg m, WVSome mv => w_enc_msg m mv
    | KOptMsg m, WVNone => JNull
    | _, _ => JNull                                    (* ill-typed: excluded by typed_*b *)
    end
  with w_enc_msg (m : w_msg) (mv : w_mval) : w_json :=
    match m, mv with
    | WMStruct fs, WMVStruct vs => JObj (w_enc_fields fs vs)
    | WMFlatOneof ms, WMVOneofNone => JObj []            (* flatten of None writes no entry *)
    | WMFlatOneof ms, WMVOneof i mv' => w_enc_variant ms i mv'   (* the variant's own entries *)
    | _, _ => JNull
    end
  with w_enc_fields (fs : w_fields) (vs : w_vals) : list (w_str * w_json) :=
    match fs, vs with
    | WFCons name k r, WVCons v vr => (name, w_enc_kind k v) :: w_enc_fields r vr
    | _, _ => []
    end
  with w_enc_variant (ms : w_msgs) (i : nat) (mv : w_mval) : w_json :=
    match ms with
    | WMNil => JNull
    | WMCons m r => match i with O => w_enc_msg m mv | S i' => w_enc_variant r i' mv end
    end.

  (* ---------------- deserialisation (serde::Deserialize from a JSON value) ---------------- *)
  Fixpoint w_dec_hex_list (l : list w_json) : option (list w_bytes) :=
    match l with
    | [] => Some []
    | JStr s :: r =>
      match w_hex_decode s, w_dec_hex_list r with
      | Some b, Some t => Some (b :: t)
      | _, _ => None
      end
    | _ :: _ => None
    end.

  Fixpoint w_dec_u8_list (l : list w_json) : option w_bytes :=
    match l with
    | [] => Some []
    | JNum z :: r =>
      match w_dec_u8_list r with
      | Some t => if WU8b z then Some (Z.to_N z :: t) else None
      | None => None
      end
    | _ :: _ => None
    end.

  (* derived struct visitor, map form: every spec field is looked up in the object; a key bound
     twice is `duplicate field`; an absent key is `missing field` unless the Rust type is Option
     (then None); keys the struct does not know are ignored.
     seq form (a JSON array is accepted by deserialize_struct): positional, exact length. *)
  Fixpoint w_dec_kind (k : w_kind) (j : w_json) : option w_val :=
    match k with
    | KHex => match j with JStr s => option_map WVBytes (w_hex_decode s) | _ => None end
    | KHexBE => match j with JStr s => option_map WVBytes (w_behex_decode s) | _ => None end
    | KVecHex => match j with JArr l => option_map WVVec (w_dec_hex_list l) | _ => None end
    | KStatus => match j with JStr s => option_map WVNum (w_status_parse s) | _ => None end
    | KU32 => match j with JNum z => if WU32b z then Some (WVNum z) else None | _ => None end
    | KU8 => match j with JNum z => if WU8b z then Some (WVNum z) else None | _ => None end
    | KStr => match j with JStr s => Some (WVStr s) | _ => None end
    | KBytesArr => match j with JArr l => option_map WVBytes (w_dec_u8_list l) | _ => None end
    | KOptMsg m => match j with JNull => Some WVNone | _ => option_map WVSome (w_dec_msg m j) end
    end
  with w_dec_msg (m : w_msg) (j : w_json) : option w_mval :=
    match m with
    | WMStruct fs =>
      match j with
      | JObj o => option_map WMVStruct (w_dec_fields fs o)
      | JArr l => option_map WMVStruct (w_dec_fields_seq fs l)
      | _ => None
      end
    | WMFlatOneof ms =>
      (* deserialize_map; all entries are collected and handed to Option<untagged enum>, which
         is None when no variant matches (FlatMapDeserializer::deserialize_option) *)
      match j with
      | JObj o => Some (w_dec_first ms (JObj o) 0)
      | _ => None
      end
    end
  with w_dec_fields (fs : w_fields) (o : list (w_str * w_json)) : option w_vals :=
    match fs with
    | WFNil => Some WVNil
    | WFCons name k r =>
      match
        match w_find_all name o with
        | [] => if w_is_optional k then Some WVNone else None
        | [j] => w_dec_kind k j
        | _ :: _ :: _ => None
        end
      with
      | Some v => match w_dec_fields r o with Some vr => Some (WVCons v vr) | None => None end
      | None => None
      end
    end
  with w_dec_fields_seq (fs : w_fields) (l : list w_json) : option w_vals :=
    match fs with
    | WFNil => match l with [] => Some WVNil | _ :: _ => None end
    | WFCons name k r =>
      match l with
      | [] => None
      | j :: l' =>
        match w_dec_kind k j with
        | Some v => match w_dec_fields_seq r l' with Some vr => Some (WVCons v vr) | None => None end
        | None => None
        end
      end
    end
  (* untagged enum: the first variant that deserialises wins *)
  with w_dec_first (ms : w_msgs) (j : w_json) (i : nat) : w_mval :=
    match ms with
    | WMNil => WMVOneofNone
    | WMCons m r =>
      match w_dec_msg m j with
      | Some mv => WMVOneof i mv
      | None => w_dec_first r j (S i)
      end
    end.

  (* ---------------- typing: the values a Rust message of that shape can hold ---------------- *)
  Fixpoint w_typed_kindb (k : w_kind) (v : w_val) : bool :=
    match k, v with
    | KHex, WVBytes b => w_wf_bytesb b
    | KHexBE, WVBytes b => w_wf_bytesb b
    | KBytesArr, WVBytes b => w_wf_bytesb b
    | KVecHex, WVVec l => forallb w_wf_bytesb l
    (* the i32 carried by a status field is one of the enum's discriminants *)
    | KStatus, WVNum n => match w_status_parse (w_status_emit n) with Some n' => Z.eqb n n' | None => false end
    | KU32, WVNum n => WU32b n
    | KU8, WVNum n => WU8b n
    | KStr, WVStr _ => true
    | KOptMsg m, WVNone => true
    | KOptMsg m, WVSome mv => w_typed_msgb m mv
    | _, _ => false
    end
  with w_typed_msgb (m : w_msg) (mv : w_mval) : bool :=
    match m, mv with
    | WMStruct fs, WMVStruct vs => w_typed_fieldsb fs vs
    | WMFlatOneof ms, WMVOneofNone => true
    | WMFlatOneof ms, WMVOneof i mv' => w_typed_variantb ms i mv'
    | _, _ => false
    end
  with w_typed_fieldsb (fs : w_fields) (vs : w_vals) : bool :=
    match fs, vs with
    | WFNil, WVNil => true
    | WFCons _ k r, WVCons v vr => w_typed_kindb k v && w_typed_fieldsb r vr
    | _, _ => false
    end
  with w_typed_variantb (ms : w_msgs) (i : nat) (mv : w_mval) : bool :=
    match ms with
    | WMNil => false
    | WMCons m r => match i with O => w_typed_msgb m mv | S i' => w_typed_variantb r i' mv end
    end.
End Codec.

(* ---------------- well-formedness of a shape: what makes parsing unambiguous ---------------- *)
Definition w_struct_fields (m : w_msg) : option w_fields :=
  match m with WMStruct fs => Some fs | WMFlatOneof _ => None end.

(* variant a (tried first) cannot swallow an emission of variant b: a requires a key b never writes *)
Definition w_distinguishableb (a b : w_msg) : bool :=
  match a, b with
  | WMStruct fa, WMStruct fb => existsb (fun n => negb (w_mem_str n (w_field_names fb))) (w_required_names fa)
  | _, _ => false
  end.

Definition w_has_requiredb (m : w_msg) : bool :=
  match m with
  | WMStruct fs => match w_required_names fs with [] => false | _ :: _ => true end
  | WMFlatOneof _ => false
  end.

Fixpoint w_forall_msgs (p : w_msg -> bool) (ms : w_msgs) : bool :=
  match ms with WMNil => true | WMCons m r => p m && w_forall_msgs p r end.

Fixpoint w_wf_kindb (k : w_kind) : bool :=
  match k with
  | KOptMsg m => w_wf_msgb m
  | _ => true
  end
with w_wf_msgb (m : w_msg) : bool :=
  match m with
  | WMStruct fs => w_nodup_strb (w_field_names fs) && w_wf_fieldsb fs
  | WMFlatOneof ms => w_wf_variantsb ms
  end
with w_wf_fieldsb (fs : w_fields) : bool :=
  match fs with
  | WFNil => true
  | WFCons _ k r => w_wf_kindb k && w_wf_fieldsb r
  end
with w_wf_variantsb (ms : w_msgs) : bool :=
  match ms with
  | WMNil => true
  | WMCons m r => w_wf_msgb m && w_has_requiredb m && w_forall_msgs (w_distinguishableb m) r && w_wf_variantsb r
  end.

(* ------------------------------------------------------------------------------------------ *)
(* the client's view of a reply                                                               *)
(* ------------------------------------------------------------------------------------------ *)

(* what `process_post_response::<X>` yields for a body that is the JSON value j:
     X = ApiResponse<T> (untagged, variants in the generated order):  Response / Error / no match
     X = T:                                                           Response / no match
   "no match" is RequestError::DeserializeError *)
Inductive w_creply := WCResponse (r : w_mval) | WCError (e : w_mval) | WCDeserializeError.

Inductive w_api_variant := WAVResponse | WAVError.

Section Client.
  Context (T : w_status_table).

  Fixpoint w_dec_untagged (order : list w_api_variant) (resp err : w_msg) (j : w_json) : w_creply :=
    match order with
    | [] => WCDeserializeError
    | WAVResponse :: r =>
      match w_dec_msg T resp j with Some v => WCResponse v | None => w_dec_untagged r resp err j end
    | WAVError :: r =>
      match w_dec_msg T err j with Some v => WCError v | None => w_dec_untagged r resp err j end
    end.

  Definition w_client_decode (wrapped : bool) (order : list w_api_variant) (resp err : w_msg) (j : w_json) : w_creply :=
    if wrapped then w_dec_untagged order resp err j
    else match w_dec_msg T resp j with Some v => WCResponse v | None => WCDeserializeError end.
End Client.

(* ------------------------------------------------------------------------------------------ *)
(* one endpoint of the public API (generated: router, handler signature, gRPC service, client) *)
(* ------------------------------------------------------------------------------------------ *)
Record w_endpoint_spec := w_mk_endpoint {
  w_ep_path : w_str;               (* Endpoint::X.path() *)
  w_ep_req : w_msg;                (* the handler's request type *)
  w_ep_resp : w_msg;               (* the gRPC method's reply type, serialised by parse_grpc_response *)
  w_ep_cap : Z;                  (* warp::body::content_length_limit *)
  w_ep_client_wrapped : bool     (* client decodes the reply as ApiResponse<T> (true) or as T (false) *)
}.
