(* ClientFlow.v — executable model of the CLN plugin's FLOW on top of its store (Client.v):
   `watchtower-plugin/src/main.rs` (register, on_commitment_revocation incl. has_appointment skip
   and send_to_retrier, retry_tower, abandon_tower, the read RPCs), `retrier.rs`
   (RetryManager::manage_retry, Retrier::{start, run, set_status, remove_if_failed} and the
   Ok / Err arms after retry_notify), `wt_client.rs` (with_proxy reload and what it sends to the
   manager), `net/http.rs` (the classification of a tower's reply).

   State = Client.v's client (SQLite file, `towers`, WTClient::retriers, mutex-poison flag)
         + the retry manager's `retriers` map (per tower: status Stopped/Running/Failed/Idle and the
           in-memory pending set)
         + the unbounded channel (FIFO of (tower, RevocationData))
         + the spawned retry tasks that are alive (one entry per `tokio::spawn` of Retrier::start)
         + ghost history used only by statements and monitors: the requests emitted so far, the
           (tower, locator) pairs the client owes a record for, the durable database states written.

   Time is abstracted: `ManagerTick` is ONE iteration of manage_retry's loop (the elapsed-ness of
   the auto-retry delay is an input), one `run` attempt of a retrier is atomic, the back-off is the
   explicit input "another attempt happens" / "max elapsed time exhausted".  The tower is an
   ORACLE: every request consumes a reply class (`areply` / `rreply`, the classes net/http.rs can
   tell apart).  The code is modelled AS IT IS: every `.unwrap()` that can fail on a modelled path
   is an explicit abort with a site label; a panic while the WTClient mutex guard is alive poisons
   it, after which every `.lock().unwrap()` aborts (`Site_poisoned`).
   No proofs in this file (ClientFlowProofs.v). *)
From TeosModel Require Import Base Db Client.

(* ---------- the tower oracle ---------- *)
Inductive areply :=        (* add_appointment, as net/http.rs::send_appointment classifies it *)
| AAccept (slots : N)      (* Ok: the signature recovers to the tower id *)
| AWrongKey                (* SignatureError(proof): the signature recovers to another id *)
| ABadSig                  (* undecodable signature string -> RequestError::DeserializeError (fix 9003834) *)
| AConnErr                 (* RequestError::ConnectionError: refused / timeout *)
| ADeserErr                (* RequestError::DeserializeError: non-JSON, wrong shape, wrong types, empty, huge *)
| AUnexpected              (* RequestError::Unexpected: e.g. connection closed without an answer *)
| ASubErr                  (* ApiError, code INVALID_SIGNATURE_OR_SUBSCRIPTION_ERROR (7) *)
| AApiErr.                 (* ApiError, any other code: the tower rejects the appointment *)

Inductive rreply :=        (* register, as net/http.rs::register classifies it *)
| RReceipt (slots start expiry : N) (sig_ok : bool)   (* a receipt; sig_ok = receipt.verify(tower_id) *)
| RConnErr | RDeserErr | RUnexpected | RApiErr.

Definition is_request_error (a : areply) : bool :=
  match a with ABadSig | AConnErr | ADeserErr | AUnexpected => true | _ => false end.

(* ---------- abort sites ---------- *)
Inductive fsite :=
| SClient (s : cl_site)                 (* a site of Client.v (store, poisoned mutex, ...) *)
| Site_gettowerinfo_status_unwrap.      (* main.rs get_tower_info: get_tower_status(..).unwrap() *)

(* ---------- manager-side structures ---------- *)
Record retrier := mk_retrier { r_status : rstatus; r_pending : list N }.

Inductive rdata := DFresh (l : N) | DStale (ls : list N) | DNone.
Definition rdata_is_none (d : rdata) : bool := match d with DNone => true | _ => false end.
Fixpoint set_union (a b : list N) : list N :=      (* HashSet::extend *)
  match b with [] => a | x :: r => set_union (set_add x a) r end.
Definition rdata_set (d : rdata) : list N :=
  match d with DFresh l => [l] | DStale ls => set_union [] ls | DNone => [] end.

Inductive req := ReqRegister (t : N) | ReqAdd (t l : N).

Record fstate := mk_fstate {
  f_c : client;
  f_mgr : amap retrier;          (* RetryManager::retriers *)
  f_chan : list (N * rdata);     (* unreachable_towers channel, oldest first *)
  f_tasks : list N;              (* live tasks spawned by Retrier::start (a tower twice = two loops) *)
  f_mgr_dead : bool;             (* the manage_retry task panicked *)
  f_log : list req;              (* ghost: requests emitted, oldest first *)
  f_due : list (N * N);          (* ghost: (tower, locator) notified while the tower was registered, not abandoned since *)
  f_dbs : list db                (* ghost: the durable states written, oldest first (micro-steps) *)
}.

Definition is_running (s : rstatus) : bool := match s with RRunning => true | _ => false end.
Definition is_idle (s : rstatus) : bool := match s with RIdle => true | _ => false end.
Definition is_stopped (s : rstatus) : bool := match s with RStopped => true | _ => false end.
Definition is_failed (s : rstatus) : bool := match s with RFailed => true | _ => false end.

Definition poisoned (s : fstate) : bool := c_poisoned (f_c s).

(* setters *)
Definition set_c (s : fstate) (c : client) : fstate :=
  {| f_c := c; f_mgr := f_mgr s; f_chan := f_chan s; f_tasks := f_tasks s; f_mgr_dead := f_mgr_dead s;
     f_log := f_log s; f_due := f_due s; f_dbs := f_dbs s |}.
(* a call that may have written the database: the new durable state is one micro-step *)
Definition wr_c (s : fstate) (c : client) : fstate :=
  {| f_c := c; f_mgr := f_mgr s; f_chan := f_chan s; f_tasks := f_tasks s; f_mgr_dead := f_mgr_dead s;
     f_log := f_log s; f_due := f_due s; f_dbs := f_dbs s ++ [c_db c] |}.
Definition note_db (s : fstate) (d : db) : fstate :=
  {| f_c := f_c s; f_mgr := f_mgr s; f_chan := f_chan s; f_tasks := f_tasks s; f_mgr_dead := f_mgr_dead s;
     f_log := f_log s; f_due := f_due s; f_dbs := f_dbs s ++ [d] |}.
Definition set_mgr (s : fstate) (m : amap retrier) : fstate :=
  {| f_c := f_c s; f_mgr := m; f_chan := f_chan s; f_tasks := f_tasks s; f_mgr_dead := f_mgr_dead s;
     f_log := f_log s; f_due := f_due s; f_dbs := f_dbs s |}.
Definition set_chan (s : fstate) (q : list (N * rdata)) : fstate :=
  {| f_c := f_c s; f_mgr := f_mgr s; f_chan := q; f_tasks := f_tasks s; f_mgr_dead := f_mgr_dead s;
     f_log := f_log s; f_due := f_due s; f_dbs := f_dbs s |}.
Definition set_tasks (s : fstate) (ts : list N) : fstate :=
  {| f_c := f_c s; f_mgr := f_mgr s; f_chan := f_chan s; f_tasks := ts; f_mgr_dead := f_mgr_dead s;
     f_log := f_log s; f_due := f_due s; f_dbs := f_dbs s |}.
Definition kill_mgr (s : fstate) : fstate :=
  {| f_c := f_c s; f_mgr := f_mgr s; f_chan := f_chan s; f_tasks := f_tasks s; f_mgr_dead := true;
     f_log := f_log s; f_due := f_due s; f_dbs := f_dbs s |}.
Definition log_req (s : fstate) (r : req) : fstate :=
  {| f_c := f_c s; f_mgr := f_mgr s; f_chan := f_chan s; f_tasks := f_tasks s; f_mgr_dead := f_mgr_dead s;
     f_log := f_log s ++ [r]; f_due := f_due s; f_dbs := f_dbs s |}.
Definition set_due (s : fstate) (d : list (N * N)) : fstate :=
  {| f_c := f_c s; f_mgr := f_mgr s; f_chan := f_chan s; f_tasks := f_tasks s; f_mgr_dead := f_mgr_dead s;
     f_log := f_log s; f_due := d; f_dbs := f_dbs s |}.
Definition clear_dbs (s : fstate) : fstate :=
  {| f_c := f_c s; f_mgr := f_mgr s; f_chan := f_chan s; f_tasks := f_tasks s; f_mgr_dead := f_mgr_dead s;
     f_log := f_log s; f_due := f_due s; f_dbs := [] |}.

Definition push_chan (s : fstate) (t : N) (d : rdata) : fstate := set_chan s (f_chan s ++ [(t, d)]).
Definition put_retrier (s : fstate) (t : N) (r : retrier) : fstate := set_mgr s (aset (f_mgr s) t r).

Fixpoint remove_one (x : N) (l : list N) : list N :=
  match l with [] => [] | y :: r => if N.eqb y x then r else y :: remove_one x r end.

Definition pairN_eqb (a b : N * N) : bool := N.eqb (fst a) (fst b) && N.eqb (snd a) (snd b).
Definition due_add (d : list (N * N)) (p : N * N) : list (N * N) := if existsb (pairN_eqb p) d then d else d ++ [p].

Definition f_init : fstate :=
  {| f_c := wt_new; f_mgr := []; f_chan := []; f_tasks := []; f_mgr_dead := false; f_log := []; f_due := []; f_dbs := [] |}.

(* the constants of the abstraction (ids the harness maps to real values) *)
Definition BLOB : N := 1.          (* encrypted_blob of the appointment built from the revocation *)
Definition DELAY : N := 42.        (* to_self_delay is hard-coded to 42 in on_commitment_revocation *)
Definition START_BLOCK : N := 50.  (* start_block of an appointment receipt (picked by the tower) *)
Definition USER_SIG : N := 1.
Definition SIG_TOWER : N := 1.     (* a tower signature that recovers to the tower id *)
Definition SIG_OTHER : N := 2.     (* one that recovers to another id *)
Definition REG_SIG : N := 1.       (* a registration signature that verifies *)
Definition other_id (t : N) : N := 100 + t.   (* the id a wrong-key signature recovers to *)

(* ---------- results ---------- *)
Inductive retry_err := ESubscription (permanent : bool) | EUnreachable | EMisbehaving (l : N) | EFlagged | EAbandoned.
Definition is_permanent (e : retry_err) : bool :=
  match e with ESubscription true | EMisbehaving _ | EFlagged | EAbandoned => true | _ => false end.

Inductive run_res :=                 (* what ONE call of Retrier::run does *)
| RunOk
| RunErr (e : retry_err)             (* Err(transient e) when is_permanent e = false, Err(permanent e) otherwise *)
| RunAbort (st : fsite)              (* a panic inside run: the task dies *)
| RunFuel.                           (* the model's fuel for the while loop ran out: NEVER a normal value *)

Inductive run_outcome :=                 (* what the spawned task did in a RetrierRun *)
| OutDelivered                       (* Ok arm: tower Reachable, retrier Stopped *)
| OutBackoff (e : retry_err)         (* transient error, another attempt will happen: still Running *)
| OutIdle (e : retry_err)            (* gave up on a transient error: Idle, tower Unreachable *)
| OutFailed (e : retry_err)          (* permanent error: Failed *)
| OutAbort (st : fsite)              (* the task panicked: the retrier stays Running for ever *)
| OutFuel
| OutNoTask.                         (* no live task for this tower: nothing happens *)

Inductive tick :=                    (* what one iteration of manage_retry did *)
| TickDead | TickSkipAbandoned | TickDroppedForIdle | TickWoke | TickAdded | TickSwept (started woke : list N).

Inductive err :=
| E_connection | E_request | E_api | E_bad_signature | E_expiry | E_slots        (* registertower *)
| E_unknown_tower | E_already_retried | E_not_retryable.                          (* retrytower / abandontower *)

Inductive fout :=
| OOk
| OErr (e : err)
| OPanic (st : fsite)                (* the handler / manager / task panicked here *)
| OTick (k : tick)
| ORun (o : run_outcome).

Definition lift_site (r : cres) : option fsite := match r with RAbort st => Some (SClient st) | _ => None end.

(* ================= main.rs ================= *)

(* WTClient::flag_unreachable_tower (fix b2b8ee7): a REACHABLE tower with pending data becomes temporary unreachable
   and its pending set is handed to the retry manager; in every other case nothing changes.
   (The send fails only when the manager task is gone, which needs a poisoned mutex: the caller has panicked before.) *)
Definition flag_unreachable (s : fstate) (t : N) : fstate :=
  match aget (c_towers (f_c s)) t with
  | Some su =>
    if is_reachable (su_status su) && match su_pending su with [] => false | _ => true end
    then push_chan (set_c s (wt_set_tower_status (f_c s) t TemporaryUnreachable)) t (DStale (su_pending su))
    else s
  | None => s
  end.

(* register (the user supplies tower id and address; `addr` is the id of host:port) *)
Definition f_register (s : fstate) (t addr : N) (rp : rreply) : fstate * fout :=
  if poisoned s then (s, OPanic (SClient Site_poisoned)) else
  let s1 := log_req s (ReqRegister t) in
  match rp with
  | RReceipt slots start expiry sig_ok =>
    if negb sig_ok then (s1, OErr E_bad_signature) else
    match wt_add_update_tower (f_c s1) t addr slots start expiry REG_SIG with
    | (c', ROk) => (wr_c s1 c', OOk)
    | (c', RSubErrExpiry) => (set_c s1 c', OErr E_expiry)
    | (c', RSubErrSlots) => (set_c s1 c', OErr E_slots)
    | (c', RAbort st) => (set_c s1 c', OPanic (SClient st))
    | (c', _) => (set_c s1 c', OErr E_request)
    end
  | RConnErr =>
    (* `if e.is_connection() && state.towers.contains_key(&tower_id)` *)
    (if amem (c_towers (f_c s1)) t then flag_unreachable s1 t else s1, OErr E_connection)
  | RApiErr => (s1, OErr E_api)
  | RDeserErr | RUnexpected => (s1, OErr E_request)
  end.

(* send_to_retrier: fresh data goes to the manager unless the tower's retrier is idle *)
Definition send_to_retrier (s : fstate) (t l : N) : fstate :=
  match aget (c_retriers (f_c s)) t with
  | Some st => if is_running st then push_chan s t (DFresh l) else s
  | None => push_chan s t (DFresh l)
  end.

(* `state.add_pending_appointment(tower_id, &appointment); send_to_retrier(..)` under one lock *)
Definition rev_pend (s0 : fstate) (l t : N) (send : bool) : fstate * option fsite :=
  match wt_add_pending_appointment (f_c s0) t l BLOB DELAY with
  | (c2, RAbort st) => (wr_c s0 c2, Some (SClient st))
  | (c2, _) => let s2 := wr_c s0 c2 in (if send then send_to_retrier s2 t l else s2, None)
  end.

(* the body of the per-tower loop of on_commitment_revocation; `status` is the status cloned
   BEFORE the loop.  Some site = the handler panicked there. *)
Definition rev_tower (s : fstate) (l t : N) (status : tower_status) (rp : areply) : fstate * option fsite :=
  if poisoned s then (s, Some (SClient Site_poisoned)) else
  if wt_has_appointment (f_c s) t l then (s, None) else
  if is_reachable status then
    let s1 := log_req s (ReqAdd t l) in
    match rp with
    | AAccept slots =>
      let (c2, r) := wt_add_appointment_receipt (f_c s1) t l slots START_BLOCK USER_SIG SIG_TOWER in
      (wr_c s1 c2, lift_site r)
    | AWrongKey =>
      let (c2, r) := wt_flag_misbehaving_tower (f_c s1) t l START_BLOCK USER_SIG SIG_OTHER (other_id t) in
      (wr_c s1 c2, lift_site r)
    | ABadSig | AConnErr | ADeserErr | AUnexpected =>
      rev_pend (set_c s1 (wt_set_tower_status (f_c s1) t TemporaryUnreachable)) l t true
    | ASubErr =>
      rev_pend (set_c s1 (wt_set_tower_status (f_c s1) t SubscriptionError)) l t true
    | AApiErr =>
      let (c2, r) := wt_add_invalid_appointment (f_c s1) t l BLOB DELAY in
      (wr_c s1 c2, lift_site r)
    end
  else if is_misbehaving status then (s, None)
  else rev_pend s l t (negb (is_unreachable status)).

Definition reply_for (replies : list (N * areply)) (t : N) : areply :=
  match aget replies t with Some a => a | None => AConnErr end.

Fixpoint rev_loop (s : fstate) (l : N) (snapshot : list (N * tower_status)) (replies : list (N * areply))
  : fstate * option fsite :=
  match snapshot with
  | [] => (s, None)
  | (t, st) :: rest =>
    match rev_tower s l t st (reply_for replies t) with
    | (s1, Some site) => (s1, Some site)
    | (s1, None) => rev_loop s1 l rest replies
    end
  end.

(* the iteration order of the HashMap `towers`: the towers named in `order` first, in that order *)
Definition reorder_towers (order : list N) (snap : list (N * tower_status)) : list (N * tower_status) :=
  flat_map (fun t => match aget snap t with Some st => [(t, st)] | None => [] end) (nodupN order) ++
  filter (fun kv => negb (memN (fst kv) order)) snap.

(* the Vec cloned from `towers.iter()` before the loop: every tower once, with its current status *)
Definition towers_snapshot (c : client) : list (N * tower_status) :=
  flat_map (fun k => match aget (c_towers c) k with Some su => [(k, su_status su)] | None => [] end)
           (nodupN (map fst (c_towers c))).

Definition f_revocation (s : fstate) (l : N) (order : list N) (replies : list (N * areply)) : fstate * fout :=
  if poisoned s then (s, OPanic (SClient Site_poisoned)) else
  let snapshot := reorder_towers order (towers_snapshot (f_c s)) in
  match rev_loop s l snapshot replies with
  | (s1, Some site) => (s1, OPanic site)
  | (s1, None) => (set_due s1 (fold_left (fun d kv => due_add d (fst kv, l)) snapshot (f_due s1)), OOk)
  end.

(* retry_tower *)
Definition f_manual_retry (s : fstate) (t : N) : fstate * fout :=
  if poisoned s then (s, OPanic (SClient Site_poisoned)) else
  match aget (c_towers (f_c s)) t with
  | None => (s, OErr E_unknown_tower)
  | Some su =>
    match aget (c_retriers (f_c s)) t with
    | Some st => if is_idle st then (push_chan s t DNone, OOk) else (s, OErr E_already_retried)
    | None => if is_retryable (su_status su) then (push_chan s t (DStale (su_pending su)), OOk)
              else (s, OErr E_not_retryable)
    end
  end.

(* abandon_tower: `state.remove_tower(tower_id).unwrap()`; remove_tower_record is two autocommit
   statements, the state between them is durable *)
Definition f_abandon (s : fstate) (t : N) : fstate * fout :=
  if poisoned s then (s, OPanic (SClient Site_poisoned)) else
  if amem (c_towers (f_c s)) t then
    let s0 := match db_delete CS (c_db (f_c s)) T_towers [C_towers_tower_id] [t] true with
              | DbOk d1 => note_db s d1
              | DbErr _ => s
              end in
    match wt_remove_tower (f_c s0) t with
    | (c', ROk) => (set_due (wr_c s0 c') (filter (fun p => negb (N.eqb (fst p) t)) (f_due s0)), OOk)
    | (c', _) => (set_c s0 (poison c'), OPanic (SClient Site_abandon_remove_tower_unwrap))
    end
  else (s, OErr E_unknown_tower).

(* ================= retrier.rs: the manager ================= *)

(* Retrier::set_status(Stopped) + `pending_appointments.extend(load_appointment_locators(Pending))` *)
Definition wake (s : fstate) (t : N) (r : retrier) : fstate :=
  let c := f_c s in
  let s1 := set_c s (with_retriers c (aremove (c_retriers c) t)) in
  put_retrier s1 t {| r_status := RStopped; r_pending := set_union (r_pending r) (pending_locators (c_db c) t) |}.

Definition add_pending_appointments (s : fstate) (t : N) (locs : list N) : fstate :=
  match aget (f_mgr s) t with
  | None => put_retrier s t {| r_status := RStopped; r_pending := locs |}
  | Some r => put_retrier s t {| r_status := r_status r; r_pending := set_union (r_pending r) locs |}
  end.

Definition should_start (r : retrier) : bool :=
  is_stopped (r_status r) && match r_pending r with [] => false | _ => true end.

(* Retrier::start, the synchronous part: tower status, retrier status, tokio::spawn *)
Definition retrier_start (s : fstate) (t : N) (r : retrier) : fstate * option fsite :=
  let c := f_c s in
  let failed := put_retrier s t {| r_status := RFailed; r_pending := r_pending r |} in
  match aget (c_towers c) t with
  | None => (failed, None)            (* abandoned in the meantime (fix 29264ec): set_status(Failed), nothing spawned *)
  | Some su =>
    if is_misbehaving (su_status su) then (failed, None) else    (* flagged in the meantime (fix 9d6311c) *)
    let c1 := if is_subscription_error (su_status su) then c else wt_set_tower_status c t TemporaryUnreachable in
    let c2 := with_retriers c1 (aset (c_retriers c1) t RRunning) in
    (set_tasks (put_retrier (set_c s c2) t {| r_status := RRunning; r_pending := r_pending r |}) (f_tasks s ++ [t]), None)
  end.

(* the `for retrier in self.retriers.values()` loop of the Empty branch *)
Fixpoint sweep (s : fstate) (keys : list N) (elapsed : list N) (started woke : list N)
  : fstate * list N * list N * option fsite :=
  match keys with
  | [] => (s, started, woke, None)
  | t :: rest =>
    match aget (f_mgr s) t with
    | None => sweep s rest elapsed started woke
    | Some r =>
      if should_start r then
        match retrier_start s t r with
        | (s1, Some site) => (s1, started, woke, Some site)
        | (s1, None) => sweep s1 rest elapsed (started ++ [t]) woke
        end
      else if is_idle (r_status r) && memN t elapsed then sweep (wake s t r) rest elapsed started (woke ++ [t])
      else sweep s rest elapsed started woke
    end
  end.

(* the receive branch: `(t, data)` has just been taken from the channel *)
Definition mgr_receive (s0 : fstate) (t : N) (data : rdata) : fstate * fout :=
  if poisoned s0 then (kill_mgr s0, OPanic (SClient Site_poisoned)) else
  if negb (amem (c_towers (f_c s0)) t) then (s0, OTick TickSkipAbandoned)
  else match aget (f_mgr s0) t with
       | Some r =>
         if is_idle (r_status r) then
           if rdata_is_none data then (wake s0 t r, OTick TickWoke) else (s0, OTick TickDroppedForIdle)
         else (add_pending_appointments s0 t (rdata_set data), OTick TickAdded)
       | None => (add_pending_appointments s0 t (rdata_set data), OTick TickAdded)
       end.

(* `self.retriers.retain(..)`: remove_if_failed (drops a failed retrier from WTClient::retriers), keep the
   startable / running / idle ones *)
Definition keep_retrier (r : retrier) : bool :=
  should_start r || is_running (r_status r) || is_idle (r_status r).
Definition retrier_failed (s : fstate) (k : N) : bool :=
  match aget (f_mgr s) k with Some r => is_failed (r_status r) | None => false end.
Definition retrier_kept (s : fstate) (k : N) : bool :=
  match aget (f_mgr s) k with Some r => keep_retrier r | None => false end.
Definition retain_state (s : fstate) : fstate :=
  let c := f_c s in
  set_mgr (set_c s (with_retriers c (aretain (fun k => negb (retrier_failed s k)) (c_retriers c))))
          (aretain (retrier_kept s) (f_mgr s)).

(* the Empty branch *)
Definition mgr_sweep (s : fstate) (elapsed : list N) : fstate * fout :=
  (* remove_if_failed needs the lock only for a failed retrier *)
  if poisoned s && existsb (fun kv => is_failed (r_status (snd kv))) (f_mgr s)
  then (kill_mgr s, OPanic (SClient Site_poisoned)) else
  let s1 := retain_state s in
  let todo := existsb (fun kv => should_start (snd kv) || (is_idle (r_status (snd kv)) && memN (fst kv) elapsed)) (f_mgr s1) in
  if poisoned s1 && todo then (kill_mgr s1, OPanic (SClient Site_poisoned)) else
  match sweep s1 (map fst (f_mgr s1)) elapsed [] [] with
  | (s2, _, _, Some site) => (s2, OPanic site)
  | (s2, started, woke, None) => (s2, OTick (TickSwept started woke))
  end.

(* ONE iteration of manage_retry's loop.  `elapsed` = the towers whose idle retrier has been idle
   for longer than the auto-retry delay. *)
Definition f_manager_tick (s : fstate) (elapsed : list N) : fstate * fout :=
  if f_mgr_dead s then (s, OTick TickDead) else
  match f_chan s with
  | (t, data) :: rest => mgr_receive (set_chan s rest) t data
  | [] => mgr_sweep s elapsed
  end.

(* ================= retrier.rs: the spawned task ================= *)
Record attempt := mk_attempt {
  at_reg : rreply;           (* the reply to the re-registration, consulted only when the status is subscription error *)
  at_adds : list areply;     (* the replies to the add_appointment requests of this attempt, in order (AConnErr when exhausted) *)
  at_order : list N;         (* the iteration order of the HashSet: these locators first, in this order *)
  at_more : bool             (* on a transient error: true = the back-off grants another attempt, false = max elapsed time exhausted *)
}.

Definition reorder (hint pending : list N) : list N :=
  filter (fun x => memN x pending) (nodupN hint) ++ filter (fun x => negb (memN x hint)) pending.

Definition next_reply (adds : list areply) : areply * list areply :=
  match adds with [] => (AConnErr, []) | a :: r => (a, r) end.

Definition retrier_pending (s : fstate) (t : N) : list N :=
  match aget (f_mgr s) t with Some r => r_pending r | None => [] end.
Definition retrier_drop (s : fstate) (t l : N) : fstate :=    (* self.pending_appointments.lock().unwrap().remove(&locator) *)
  match aget (f_mgr s) t with
  | Some r => put_retrier s t {| r_status := r_status r; r_pending := set_remove l (r_pending r) |}
  | None => s
  end.

Definition still_pending (c : client) (t l : N) : bool :=
  match aget (c_towers c) t with Some su => memN l (su_pending su) | None => false end.
(* fix 8108569: the body is loaded only for a locator that is STILL pending for this tower *)
Definition load_pending (c : client) (t l : N) : option row :=
  if still_pending c t l then dbm_load_appointment (c_db c) l else None.

(* the `for locator in locators` loop of run.  None = the loop finished, Some r = run returned r / panicked *)
Fixpoint run_for (s : fstate) (t : N) (locs : list N) (adds : list areply) : fstate * list areply * option run_res :=
  match locs with
  | [] => (s, adds, None)
  | l :: rest =>
    if poisoned s then (s, adds, Some (RunAbort (SClient Site_poisoned))) else
    match load_pending (f_c s) t l with
    | None => run_for (retrier_drop s t l) t rest adds     (* dropped from the set, nothing sent, no panic *)
    | Some body =>
      let s1 := log_req s (ReqAdd t l) in
      let (rp, adds') := next_reply adds in
      match rp with
      | AAccept slots =>
        let s2 := retrier_drop s1 t l in
        let (c2, r2) := wt_add_appointment_receipt (f_c s2) t l slots START_BLOCK USER_SIG SIG_TOWER in
        match lift_site r2 with
        | Some site => (wr_c s2 c2, adds', Some (RunAbort site))
        | None =>
          let (c3, r3) := wt_remove_pending_appointment c2 t l in
          match lift_site r3 with
          | Some site => (wr_c (wr_c s2 c2) c3, adds', Some (RunAbort site))
          | None => run_for (wr_c (wr_c s2 c2) c3) t rest adds'
          end
        end
      | ABadSig | AConnErr | ADeserErr | AUnexpected => (s1, adds', Some (RunErr EUnreachable))
      | ASubErr =>
        (set_c s1 (wt_set_tower_status (f_c s1) t SubscriptionError), adds', Some (RunErr (ESubscription false)))
      | AApiErr =>
        let s2 := retrier_drop s1 t l in
        let (c2, r2) := wt_add_invalid_appointment (f_c s2) t l (col body C_appointments_encrypted_blob) (col body C_appointments_to_self_delay) in
        match lift_site r2 with
        | Some site => (wr_c s2 c2, adds', Some (RunAbort site))
        | None =>
          let (c3, r3) := wt_remove_pending_appointment c2 t l in
          match lift_site r3 with
          | Some site => (wr_c (wr_c s2 c2) c3, adds', Some (RunAbort site))
          | None => run_for (wr_c (wr_c s2 c2) c3) t rest adds'
          end
        end
      | AWrongKey => (s1, adds', Some (RunErr (EMisbehaving l)))
      end
    end
  end.

(* Retrier::pick_up_pending (fix D7): the retrier's (empty) set is fed with everything still pending for the tower *)
Definition tower_pending (c : client) (t : N) : list N :=
  match aget (c_towers c) t with Some su => su_pending su | None => [] end.
Definition pick_up (s : fstate) (t : N) : fstate :=
  match aget (f_mgr s) t with
  | Some r => put_retrier s t {| r_status := r_status r; r_pending := set_union (r_pending r) (tower_pending (f_c s) t) |}
  | None => s
  end.

(* `while self.has_pending_appointments() || self.pick_up_pending(&mut picked_up) { let locators = ...clone(); for ... }`:
   once the set is empty the retrier picks up, at most once per run, what is still pending for the tower; only when nothing
   is left does run return Ok *)
Fixpoint run_while (fuel : nat) (picked : bool) (s : fstate) (t : N) (hint : list N) (adds : list areply) : fstate * run_res :=
  match fuel with
  | O => (s, RunFuel)
  | S f =>
    match retrier_pending s t with
    | [] =>
      if picked then (s, RunOk)
      else if poisoned s then (s, RunAbort (SClient Site_poisoned))
      else let s1 := pick_up s t in
           match retrier_pending s1 t with
           | [] => (s1, RunOk)
           | _ => run_while f true s1 t hint adds
           end
    | p =>
      match run_for s t (reorder hint p) adds with
      | (s1, _, Some r) => (s1, r)
      | (s1, adds1, None) => run_while f picked s1 t hint adds1
      end
    end
  end.

Definition run_fuel (s : fstate) (t : N) : nat := S (S (S (S (length (retrier_pending s t))))).

(* ONE call of Retrier::run *)
Definition run_attempt (s : fstate) (t : N) (a : attempt) : fstate * run_res :=
  if poisoned s then (s, RunAbort (SClient Site_poisoned)) else
  match aget (c_towers (f_c s)) t with
  | None => (s, RunErr EAbandoned)
  | Some su =>
    if is_misbehaving (su_status su) then (s, RunErr EFlagged) else     (* fix 9d6311c *)
    let go (s0 : fstate) := run_while (run_fuel s0 t) false s0 t (at_order a) (at_adds a) in
    if is_subscription_error (su_status su) then
      let s1 := log_req s (ReqRegister t) in
      match at_reg a with
      | RReceipt slots start expiry sig_ok =>
        if negb sig_ok then (s1, RunErr (ESubscription true)) else
        match wt_add_update_tower (f_c s1) t (su_addr su) slots start expiry REG_SIG with
        | (c', ROk) => go (wr_c s1 c')
        | (c', RAbort st) => (set_c s1 c', RunAbort (SClient st))
        | (c', _) => (set_c s1 c', RunErr (ESubscription true))
        end
      | _ => (s1, RunErr (ESubscription false))
      end
    else go s
  end.

Definition retrier_set_status (s : fstate) (t : N) (st : rstatus) : fstate :=
  match aget (f_mgr s) t with
  | Some r => put_retrier s t {| r_status := st; r_pending := r_pending r |}
  | None => s
  end.
Definition retrier_clear (s : fstate) (t : N) : fstate :=
  match aget (f_mgr s) t with
  | Some r => put_retrier s t {| r_status := r_status r; r_pending := [] |}
  | None => s
  end.
Definition end_task (s : fstate) (t : N) : fstate := set_tasks s (remove_one t (f_tasks s)).

(* what the spawned task does with the result of one attempt: sleep (back-off), or the Ok / Err arm *)
Definition task_step (s : fstate) (t : N) (r : run_res) (more : bool) : fstate * run_outcome :=
  match r with
  | RunOk =>
    (* set_tower_status(Reachable); set_status(Stopped) *)
    let c1 := wt_set_tower_status (f_c s) t Reachable in
    let c2 := with_retriers c1 (aremove (c_retriers c1) t) in
    (end_task (retrier_set_status (set_c s c2) t RStopped) t, OutDelivered)
  | RunErr e =>
    if negb (is_permanent e) && more then (s, OutBackoff e) else
    let s1 := if is_permanent e then retrier_set_status s t RFailed else s in
    match e with
    | ESubscription true =>
      (end_task (set_c s1 (wt_set_tower_status (f_c s1) t SubscriptionError)) t, OutFailed e)
    | EMisbehaving l =>
      let (c2, r2) := wt_flag_misbehaving_tower (f_c s1) t l START_BLOCK USER_SIG SIG_OTHER (other_id t) in
      match lift_site r2 with
      | Some site => (end_task (set_c s1 c2) t, OutAbort site)
      | None => (end_task (wr_c s1 c2) t, OutFailed e)
      end
    | EFlagged | EAbandoned => (end_task s1 t, OutFailed e)
    | _ =>
      (* set_status(Idle(now)); pending.clear(); set_tower_status(Unreachable) *)
      let c := f_c s1 in
      let c1 := with_retriers c (aset (c_retriers c) t RIdle) in
      let c2 := wt_set_tower_status c1 t Unreachable in
      (end_task (retrier_clear (retrier_set_status (set_c s1 c2) t RIdle) t) t, OutIdle e)
    end
  | RunAbort site => (end_task s t, OutAbort site)
  | RunFuel => (s, OutFuel)
  end.

(* the spawned task of Retrier::start: attempts of run until it succeeds, fails permanently, the
   back-off gives up, or the list of attempts is exhausted (then the task is still alive, sleeping) *)
Fixpoint f_retrier_run (s : fstate) (t : N) (atts : list attempt) : fstate * run_outcome :=
  match atts with
  | [] => (s, if memN t (f_tasks s) then OutBackoff EUnreachable else OutNoTask)
  | a :: rest =>
    if negb (memN t (f_tasks s)) then (s, OutNoTask) else
    let (s1, r) := run_attempt s t a in
    let (s2, o) := task_step s1 t r (at_more a) in
    match o, rest with
    | OutBackoff _, _ :: _ => f_retrier_run s2 t rest
    | _, _ => (s2, o)
    end
  end.

(* ================= wt_client.rs: restart ================= *)
(* WTClient::with_proxy over the database `d` + a fresh RetryManager: everything volatile is gone *)
Definition restart_with (s : fstate) (d : db) : fstate :=
  let c' := wt_reload (with_db (f_c s) d) in
  {| f_c := c'; f_mgr := [];
     f_chan := map (fun tl => (fst tl, DStale (snd tl))) (reload_retries c');
     f_tasks := []; f_mgr_dead := false; f_log := f_log s; f_due := f_due s; f_dbs := f_dbs s |}.
Definition f_restart (s : fstate) : fstate := restart_with s (c_db (f_c s)).

(* ================= the operation language ================= *)
(* (names carry an F prefix: all models are extracted into one OCaml file, Tower.v owns `op`, `step`, `run`) *)
Inductive fop :=
| FRegister (t : N) (rp : rreply)
| FRevocation (l : N) (order : list N) (replies : list (N * areply))
| FManagerTick (elapsed : list N)
| FRetrierRun (t : N) (atts : list attempt)
| FManualRetry (t : N)
| FAbandon (t : N)
| FRestart.

Definition fstep (s : fstate) (o : fop) : fstate * fout :=
  match o with
  | FRegister t rp => f_register s t t rp
  | FRevocation l order replies => f_revocation s l order replies
  | FManagerTick elapsed => f_manager_tick s elapsed
  | FRetrierRun t atts => let (s', o) := f_retrier_run s t atts in (s', ORun o)
  | FManualRetry t => f_manual_retry s t
  | FAbandon t => f_abandon s t
  | FRestart => (f_restart s, OOk)
  end.

Fixpoint frun (s : fstate) (ops : list fop) : fstate :=
  match ops with [] => s | o :: rest => frun (fst (fstep s o)) rest end.

(* the durable states a SIGKILL during `o` can leave behind: the state before, and the state after
   each durable write of the operation, in program order *)
Definition crash_states (o : fop) (s : fstate) : list db :=
  c_db (f_c s) :: f_dbs (fst (fstep (clear_dbs s) o)).

(* kill inside `o` after k durable writes, then start *)
Definition crash_restart (s : fstate) (o : fop) (k : nat) : fstate :=
  restart_with s (nth k (crash_states o s) (c_db (f_c s))).

(* ================= reads ================= *)
Inductive tinfo_res := TIUnknown | TIInfo (i : tower_info) | TIAbort (st : fsite).

Definition f_listtowers (s : fstate) : option (amap summary) :=
  if poisoned s then None else Some (c_towers (f_c s)).

Definition with_status_info (i : tower_info) (st : tower_status) : tower_info :=
  {| ti_addr := ti_addr i; ti_slots := ti_slots i; ti_start := ti_start i; ti_expiry := ti_expiry i; ti_status := st;
     ti_receipts := ti_receipts i; ti_pending := ti_pending i; ti_invalid := ti_invalid i; ti_proof := ti_proof i |}.

Definition f_gettowerinfo (s : fstate) (t : N) : tinfo_res :=
  if poisoned s then TIAbort (SClient Site_poisoned) else
  match load_tower_record (c_db (f_c s)) t with
  | LNone => TIUnknown
  | LAbort st => TIAbort (SClient st)
  | LSome i => match aget (c_towers (f_c s)) t with
               | Some su => TIInfo (with_status_info i (su_status su))
               | None => TIAbort Site_gettowerinfo_status_unwrap
               end
  end.

Definition f_getappointmentreceipt (s : fstate) (t l : N) : option row :=
  if poisoned s then None else dbm_load_appointment_receipt (c_db (f_c s)) t l.
Definition f_getregistrationreceipt (s : fstate) (t : N) : option row :=
  if poisoned s then None else max_receipt (c_db (f_c s)) t.

(* ================= the records of C05 ================= *)
Definition has_receipt_row (d : db) (t l : N) : bool := has_pk CS d T_appointment_receipts [l; t].
Definition has_pending_row (d : db) (t l : N) : bool := has_pk CS d T_pending_appointments [l; t].
Definition has_invalid_row (d : db) (t l : N) : bool := has_pk CS d T_invalid_appointments [l; t].
Definition b2n (b : bool) : nat := if b then 1%nat else 0%nat.
Definition record_count (d : db) (t l : N) : nat :=
  (b2n (has_receipt_row d t l) + b2n (has_pending_row d t l) + b2n (has_invalid_row d t l))%nat.
Definition tower_row (d : db) (t : N) : bool := has_pk CS d T_towers [t].

(* (tower, locator) is owed a record in state s: notified while registered, tower still registered, not proven misbehaving *)
Definition owed (s : fstate) (t l : N) : bool :=
  existsb (pairN_eqb (t, l)) (f_due s) && tower_row (c_db (f_c s)) t && negb (exists_misbehaving_proof (c_db (f_c s)) t).
Definition owed_db (s : fstate) (d : db) (t l : N) : bool :=
  existsb (pairN_eqb (t, l)) (f_due s) && tower_row d t && negb (exists_misbehaving_proof d t).
