(* ConcCoarse.v — C10, the two granularities.
   `run_coarse` (one letter per lock acquisition: what the controlled scheduler of the C10 check replays on the real
   tower) is a SUB-semantics of `run_sched` / `run_config` (one letter per event): every coarse execution is a fine
   execution, so a theorem over all fine schedules covers every run the harness can produce.
   The converse fails, and in a precise sense: in every configuration a coarse execution passes through, every thread
   is `settled` - ended, returning, or waiting for a lock.  A fine schedule may stop a thread right before an action
   that is executed outside any lock section boundary (the load / store of one of the three AtomicU32 heights) or
   before a release, and let another thread move there: such configurations are not reachable coarsely, i.e. the
   harness never preempts at an atomic height access (on the real code a thread's atomic accesses happen right after
   its preceding lock event).  Lemmas only; statements of the property are collected in Properties/C10.v. *)
From TeosModel Require Import Base ListAux TxIndex Tower ConcTower ConcTowerProofs.
From Coq Require Import Lia.
Local Open Scope N_scope.

Lemma set_nth_same {A} (l : list A) i x : nth_error l i = Some x -> set_nth l i x = l.
Proof. revert i. induction l as [|y l IH]; intros [|i]; cbn; try discriminate; intros H; [inversion H; reflexivity|f_equal; auto]. Qed.

Lemma set_nth_twice {A} (l : list A) i x y : set_nth (set_nth l i x) i y = set_nth l i y.
Proof. revert i. induction l as [|z l IH]; intros [|i]; cbn; try reflexivity. f_equal. apply IH. Qed.

Lemma run_config_repeat_S c i n c1 : step_thread c i = Some c1 -> run_config c (repeat i (S n)) = run_config c1 (repeat i n).
Proof. intros H. cbn [repeat run_config fold_left]. unfold sched_step. rewrite H. reflexivity. Qed.

(* the thread-local run up to the next acquisition is a sequence of fine steps of that thread *)
Lemma settle_is_fine i (p : prog out) : forall c th,
  nth_error (cf_threads c) i = Some th -> ct_st th = Running p ->
  exists n, run_config c (repeat i n) = settle_thread c i.
Proof.
  induction p as [o|l k IH|l k IH|B f k IH]; intros c th Hn Hst.
  - exists 0%nat. unfold settle_thread. rewrite Hn, Hst. cbn [settle repeat run_config fold_left].
    rewrite app_nil_r. destruct c as [t po ths]. cbn [cf_tower cf_poisoned cf_threads] in *. f_equal.
    symmetry. apply set_nth_same. rewrite Hn. destruct th. cbn in *. subst. reflexivity.
  - exists 0%nat. unfold settle_thread. rewrite Hn, Hst. cbn [settle repeat run_config fold_left].
    rewrite app_nil_r. destruct c as [t po ths]. cbn [cf_tower cf_poisoned cf_threads] in *. f_equal.
    symmetry. apply set_nth_same. rewrite Hn. destruct th. cbn in *. subst. reflexivity.
  - set (th1 := mk_cthread (Running k) (remove_lock l (ct_held th)) (ct_trace th)).
    set (c1 := mk_conf (cf_tower c) (cf_poisoned c) (set_nth (cf_threads c) i th1)).
    assert (Hs : step_thread c i = Some c1) by (unfold step_thread; rewrite Hn, Hst; reflexivity).
    assert (Hn1 : nth_error (cf_threads c1) i = Some th1) by (cbn [c1 cf_threads]; eapply nth_error_set_nth_eq; eauto).
    destruct (IH c1 th1 Hn1 eq_refl) as [n Hr]. exists (S n). rewrite (run_config_repeat_S c i n c1 Hs), Hr.
    unfold settle_thread. rewrite Hn1, Hn, Hst. cbn [th1 ct_st ct_held ct_trace settle c1 cf_tower cf_poisoned cf_threads].
    destruct (settle k (cf_tower c) (remove_lock l (ct_held th))) as [[[st t'] held] po']. rewrite set_nth_twice. reflexivity.
  - destruct (f (cf_tower c)) as [b t'|s t'] eqn:Ef.
    + set (th1 := mk_cthread (Running (k b)) (ct_held th) (ct_trace th)).
      set (c1 := mk_conf t' (cf_poisoned c) (set_nth (cf_threads c) i th1)).
      assert (Hs : step_thread c i = Some c1) by (unfold step_thread; rewrite Hn, Hst, Ef; reflexivity).
      assert (Hn1 : nth_error (cf_threads c1) i = Some th1) by (cbn [c1 cf_threads]; eapply nth_error_set_nth_eq; eauto).
      destruct (IH b c1 th1 Hn1 eq_refl) as [n Hr]. exists (S n). rewrite (run_config_repeat_S c i n c1 Hs), Hr.
      unfold settle_thread. rewrite Hn1, Hn, Hst. cbn [th1 ct_st ct_held ct_trace settle c1 cf_tower cf_poisoned cf_threads].
      rewrite Ef. destruct (settle (k b) t' (ct_held th)) as [[[st t''] held] po']. rewrite set_nth_twice. reflexivity.
    + exists 1%nat. cbn [repeat run_config fold_left]. unfold sched_step, step_thread, settle_thread. rewrite Hn, Hst, Ef.
      cbn [settle]. rewrite Ef. reflexivity.
Qed.

Lemma settle_thread_is_fine c i : exists sched, run_config c sched = settle_thread c i.
Proof.
  destruct (nth_error (cf_threads c) i) as [th|] eqn:Hn.
  - destruct (ct_st th) as [p|r] eqn:Hst.
    + destruct (settle_is_fine i p c th Hn Hst) as [n H]. exists (repeat i n). exact H.
    + exists []. unfold settle_thread. rewrite Hn, Hst. reflexivity.
  - exists []. unfold settle_thread. rewrite Hn. reflexivity.
Qed.

Lemma coarse_step_is_fine c i c' : coarse_step c i = Some c' -> exists sched, run_config c sched = c'.
Proof.
  unfold coarse_step. destruct (existsb (Nat.eqb i) (enabled c)); [|discriminate].
  destruct (step_thread c i) as [c1|] eqn:Hs; [|discriminate]. intros H. inversion H; subst c'.
  destruct (settle_thread_is_fine c1 i) as [sched Hr]. exists (i :: sched).
  cbn [run_config fold_left]. unfold sched_step. rewrite Hs. exact Hr.
Qed.

Lemma run_coarse_is_fine w : forall c c', run_coarse c w = Some c' -> exists sched, run_config c sched = c'.
Proof.
  induction w as [|i w IH]; intros c c' H; cbn [run_coarse] in H.
  - inversion H. exists []. reflexivity.
  - destruct (coarse_step c i) as [c1|] eqn:Hc; [|discriminate].
    destruct (coarse_step_is_fine c i c1 Hc) as [s1 H1]. destruct (IH c1 c' H) as [s2 H2].
    exists (s1 ++ s2). rewrite run_config_app, H1. exact H2.
Qed.

Lemma settle_all_is_fine l : forall c, exists sched, run_config c sched = fold_left settle_thread l c.
Proof.
  induction l as [|i l IH]; intros c; cbn [fold_left]; [exists []; reflexivity|].
  destruct (settle_thread_is_fine c i) as [s1 H1]. destruct (IH (settle_thread c i)) as [s2 H2].
  exists (s1 ++ s2). rewrite run_config_app, H1. exact H2.
Qed.

(* THE lift: whatever the controlled scheduler can replay (start all threads, then one letter per granted lock
   request) is an execution of the fine-grained semantics the theorems quantify over *)
Theorem coarse_runs_are_fine_runs t ps w c' :
  run_coarse (start_config t ps) w = Some c' ->
  exists sched, run_config (init_config t ps) sched = c' /\
                run_sched t ps sched = (cf_tower c', map thread_result (cf_threads c')).
Proof.
  intros H. destruct (settle_all_is_fine (seq 0 (length ps)) (init_config t ps)) as [s1 H1].
  destruct (run_coarse_is_fine w _ _ H) as [s2 H2]. exists (s1 ++ s2).
  assert (E : run_config (init_config t ps) (s1 ++ s2) = c').
  { rewrite run_config_app, H1. exact H2. }
  split; [exact E|]. unfold run_sched. rewrite E. reflexivity.
Qed.

(* ------------------------------------------------------------------------------------------ *)
(* the limit: coarse executions only pass through configurations in which every thread is settled *)

Definition settled (th : cthread) : Prop :=
  match ct_st th with
  | Running (Ret _) | Running (Acq _ _) | Ended _ => True
  | Running (Rel _ _) | Running (Act _ _ _) => False
  end.

Definition settled_but (c : conf) (skip : nat -> Prop) : Prop :=
  forall j th, ~ skip j -> nth_error (cf_threads c) j = Some th -> settled th.

Lemma settle_settled (p : prog out) : forall t held,
  match fst (fst (fst (settle p t held))) with
  | Running (Ret _) | Running (Acq _ _) | Ended _ => True
  | _ => False
  end.
Proof.
  induction p as [o|l k IH|l k IH|B f k IH]; intros t held; cbn [settle fst].
  - exact I.
  - exact I.
  - apply IH.
  - destruct (f t) as [b t'|s t']; cbn [fst]; [apply IH|exact I].
Qed.

Lemma settle_thread_settles c i th' :
  nth_error (cf_threads (settle_thread c i)) i = Some th' -> settled th'.
Proof.
  unfold settle_thread. destruct (nth_error (cf_threads c) i) as [th|] eqn:Hn; [|intros H; congruence].
  destruct (ct_st th) as [p|r] eqn:Hst.
  - pose proof (settle_settled p (cf_tower c) (ct_held th)) as Hs.
    destruct (settle p (cf_tower c) (ct_held th)) as [[[st t'] held] po]. cbn [fst] in Hs. cbn [cf_threads].
    rewrite (nth_error_set_nth_eq _ _ _ _ Hn). intros H. inversion H; subst th'. unfold settled. cbn [ct_st]. exact Hs.
  - rewrite Hn. intros H. inversion H; subst th'. unfold settled. rewrite Hst. exact I.
Qed.

Lemma settle_thread_others c i j : i <> j -> nth_error (cf_threads (settle_thread c i)) j = nth_error (cf_threads c) j.
Proof.
  intros Hij. unfold settle_thread. destruct (nth_error (cf_threads c) i) as [th|] eqn:Hn; [|reflexivity].
  destruct (ct_st th) as [p|r]; [|reflexivity].
  destruct (settle p (cf_tower c) (ct_held th)) as [[[st t'] held] po]. cbn [cf_threads].
  apply nth_error_set_nth_neq. exact Hij.
Qed.

Definition all_settled (c : conf) : Prop := forall j th, nth_error (cf_threads c) j = Some th -> settled th.

Lemma step_thread_others c i c' j : step_thread c i = Some c' -> i <> j -> nth_error (cf_threads c') j = nth_error (cf_threads c) j.
Proof.
  intros Hs Hij. destruct (step_thread_cases c i c' Hs) as [th [p [Hn [Hst Hc]]]].
  destruct Hc as [[l [k [_ [_ [_ ->]]]]]|[[l [k [_ [_ [_ ->]]]]]|[[l [k [_ ->]]]|[[B [f [k [bb [t' [_ [_ ->]]]]]]]|[B [f [k [s [t' [_ [_ ->]]]]]]]]]]];
    cbn [die cf_threads]; apply nth_error_set_nth_neq; exact Hij.
Qed.

Lemma coarse_step_settled c i c' : all_settled c -> coarse_step c i = Some c' -> all_settled c'.
Proof.
  unfold coarse_step. intros Hall. destruct (existsb (Nat.eqb i) (enabled c)); [|discriminate].
  destruct (step_thread c i) as [c1|] eqn:Hs; [|discriminate]. intros H. inversion H; subst c'.
  intros j th Hj. destruct (Nat.eq_dec i j) as [->|Hij].
  - eapply settle_thread_settles; eauto.
  - rewrite settle_thread_others in Hj by exact Hij. rewrite (step_thread_others c i c1 j Hs Hij) in Hj. eapply Hall; eauto.
Qed.

Lemma settle_prefix_settled l : forall c (done : nat -> Prop),
  (forall j th, done j -> nth_error (cf_threads c) j = Some th -> settled th) ->
  forall j th, (done j \/ In j l) -> nth_error (cf_threads (fold_left settle_thread l c)) j = Some th -> settled th.
Proof.
  induction l as [|i l IH]; intros c done Hd j th Hj Hn; cbn [fold_left] in Hn.
  - destruct Hj as [Hj|[]]. eapply Hd; eauto.
  - apply (IH (settle_thread c i) (fun x => done x \/ x = i)) with (j := j); [|destruct Hj as [Hj|[Hj|Hj]]; [left; left; exact Hj|left; right; symmetry; exact Hj|right; exact Hj]|exact Hn].
    intros x thx [Hx | ->] Hnx.
    + destruct (Nat.eq_dec i x) as [->|Hix]; [eapply settle_thread_settles; eauto|].
      rewrite settle_thread_others in Hnx by exact Hix. eapply Hd; eauto.
    + eapply settle_thread_settles; eauto.
Qed.

Lemma length_settle_thread c i : length (cf_threads (settle_thread c i)) = length (cf_threads c).
Proof.
  unfold settle_thread. destruct (nth_error (cf_threads c) i) as [th|]; [|reflexivity].
  destruct (ct_st th) as [p|r]; [|reflexivity].
  destruct (settle p (cf_tower c) (ct_held th)) as [[[st t'] held] po]. cbn [cf_threads]. apply length_set_nth.
Qed.

Lemma length_settle_all l : forall c, length (cf_threads (fold_left settle_thread l c)) = length (cf_threads c).
Proof. induction l as [|i l IH]; intros c; cbn [fold_left]; [reflexivity|]. rewrite IH. apply length_settle_thread. Qed.

Lemma start_config_settled t ps : all_settled (start_config t ps).
Proof.
  intros j th Hn. unfold start_config in *.
  apply (settle_prefix_settled (seq 0 (length ps)) (init_config t ps) (fun _ => False)) with (j := j); [intros ? ? []| |exact Hn].
  right. apply in_seq. split; [lia|]. cbn.
  assert (Hlt : (j < length (cf_threads (fold_left settle_thread (seq 0 (length ps)) (init_config t ps))))%nat) by (apply nth_error_Some; congruence).
  rewrite length_settle_all in Hlt. cbn [init_config cf_threads] in Hlt. rewrite map_length in Hlt. exact Hlt.
Qed.

(* every configuration the controlled scheduler passes through has all threads at a lock request, at their return,
   or ended: it never stops a thread before an action (in particular an atomic height access) or a release *)
Theorem coarse_configs_are_settled t ps w c' : run_coarse (start_config t ps) w = Some c' -> all_settled c'.
Proof.
  assert (H : forall w c c', all_settled c -> run_coarse c w = Some c' -> all_settled c').
  { clear. induction w as [|i w IH]; intros c c' Hc H; cbn [run_coarse] in H; [inversion H; subst; exact Hc|].
    destruct (coarse_step c i) as [c1|] eqn:E; [|discriminate]. eapply IH; [|exact H]. eapply coarse_step_settled; eauto. }
  intros Hr. eapply H; [apply start_config_settled|exact Hr].
Qed.

(* a thread stopped right before an action (e.g. the atomic store of a height after its critical section) *)
Definition at_action (th : cthread) : bool := match ct_st th with Running (Act _ _ _) => true | _ => false end.
Lemma at_action_not_settled th : at_action th = true -> ~ settled th.
Proof. unfold at_action, settled. destruct (ct_st th) as [[o|l k|l k|B f k]|r]; try discriminate. intros _ H. exact H. Qed.

(* ... so a fine execution that passes through such a configuration is not a coarse execution *)
Theorem preemption_before_an_action_is_not_coarse t ps sched j th :
  nth_error (cf_threads (run_config (init_config t ps) sched)) j = Some th -> at_action th = true ->
  forall w, run_coarse (start_config t ps) w <> Some (run_config (init_config t ps) sched).
Proof.
  intros Hn Ha w Hw. apply (at_action_not_settled th Ha).
  exact (coarse_configs_are_settled t ps w _ Hw j th Hn).
Qed.
