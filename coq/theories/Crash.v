(* Crash.v — durability at statement granularity (C03).  The tower's durable state is three tables;
   every write the code performs is one of a handful of SQL statements, each atomic (an autocommit
   statement or an explicit transaction), executed by SQLite with PRAGMA foreign_keys = 1 and the
   ON DELETE CASCADE edges users <- appointments <- trackers.  A crash leaves the effect of a prefix
   of the statements issued.  Model: the statements with SQLite's semantics (a constraint violation
   leaves the table unchanged), the integrity predicate, recovery (memory is rebuilt from disk).
   Theorems: integrity is preserved by EVERY statement, hence by every sequence and every crash
   prefix of any sequence, whatever the code issues; recovery from any such state yields the tower
   invariant; every primitive table update of Tower.v is such a statement. *)
From TeosModel Require Import Base ListAux TxIndex TxIndexProofs Tower TowerStable TowerInv.
From Coq Require Import Lia.
Local Open Scope N_scope.

Record db := mk_db { d_users : list (N * uinfo); d_apps : list app; d_trks : list trk }.

Inductive stmt :=
| SInsUser (u : N) (ui : uinfo)                     (* INSERT INTO users *)
| SUpdUser (u : N) (ui : uinfo)                     (* UPDATE users SET ... WHERE user_id *)
| SUpdSlots (u : N) (s : N)                         (* UPDATE users SET available_slots *)
| SDelUsers (us : list N)                           (* DELETE FROM users WHERE user_id IN (cascade) *)
| SInsApp (a : app)                                 (* INSERT INTO appointments *)
| SUpdApp (a : app)                                 (* UPDATE appointments SET ... WHERE UUID *)
| SDelApps (us : list (N * N))                      (* DELETE FROM appointments WHERE UUID IN (cascade) *)
| SInsTrk (k : trk)                                 (* INSERT INTO trackers *)
| SUpdTrk (uuid : N * N) (h : N) (c : bool)         (* UPDATE trackers SET height, confirmed *)
| STxn (l : list stmt).                             (* BEGIN; ...; COMMIT — all or nothing *)

Fixpoint exec_fuel (fuel : nat) (d : db) (s : stmt) : db :=
  match s with
  | SInsUser u ui => if amem (d_users d) u then d else mk_db (d_users d ++ [(u, ui)]) (d_apps d) (d_trks d)
  | SUpdUser u ui => mk_db (map (fun r => if N.eqb (fst r) u then (u, ui) else r) (d_users d)) (d_apps d) (d_trks d)
  | SUpdSlots u s =>
      mk_db (map (fun r => if N.eqb (fst r) u then (u, mk_uinfo s (u_start (snd r)) (u_expiry (snd r))) else r) (d_users d))
            (d_apps d) (d_trks d)
  | SDelUsers us =>
      mk_db (filter (fun r => negb (memN (fst r) us)) (d_users d))
            (filter (fun a => negb (memN (a_user a) us)) (d_apps d))
            (filter (fun k => negb (memN (t_user k) us)) (d_trks d))
  | SInsApp a =>
      match find_app (d_apps d) (app_uuid a) with
      | Some _ => d                                           (* primary key *)
      | None => if amem (d_users d) (a_user a) then mk_db (d_users d) (d_apps d ++ [a]) (d_trks d) else d   (* foreign key *)
      end
  | SUpdApp a =>
      mk_db (d_users d) (map (fun x => if uuid_eqb (app_uuid x) (app_uuid a) then a else x) (d_apps d)) (d_trks d)
  | SDelApps us =>
      mk_db (d_users d) (filter (fun a => negb (mem_uuid (app_uuid a) us)) (d_apps d))
            (filter (fun k => negb (mem_uuid (trk_uuid k) us)) (d_trks d))
  | SInsTrk k =>
      match find_trk (d_trks d) (trk_uuid k), find_app (d_apps d) (trk_uuid k) with
      | None, Some _ => mk_db (d_users d) (d_apps d) (d_trks d ++ [k])
      | _, _ => d
      end
  | SUpdTrk uuid h c =>
      mk_db (d_users d) (d_apps d)
            (map (fun k => if uuid_eqb (trk_uuid k) uuid then mk_trk (t_loc k) (t_user k) (t_dispute k) (t_penalty k) h c else k) (d_trks d))
  | STxn l =>
      match fuel with
      | O => d
      | S f => fold_left (exec_fuel f) l d
      end
  end.

(* nesting depth of transactions in the code is 1 *)
Definition exec (d : db) (s : stmt) : db := exec_fuel 2 d s.
Definition execs (d : db) (l : list stmt) : db := fold_left exec l d.

(* referential integrity and key uniqueness: what "no dangling records" means *)
Record DbInv (d : db) : Prop := {
  di_users : NoDup (map fst (d_users d));
  di_apps : NoDup (map app_uuid (d_apps d));
  di_trks : NoDup (map trk_uuid (d_trks d));
  di_fk_app : forall a, In a (d_apps d) -> amem (d_users d) (a_user a) = true;
  di_fk_trk : forall k, In k (d_trks d) -> exists a, In a (d_apps d) /\ app_uuid a = trk_uuid k
}.

Definition db_of (t : tower) : db := mk_db (db_users t) (db_apps t) (db_trks t).

(* the tower seen as "its tables + memory loaded from them": used to transport TowerInv's lemmas *)
Definition tower_of (d : db) (t0 : tower) : tower :=
  set_gk_users (set_db_trks (set_db_apps (set_db_users t0 (d_users d)) (d_apps d)) (d_trks d)) (d_users d).

Lemma inv_of_dbinv d t0 : DbInv d -> Inv (tower_of d t0).
Proof.
  intros [A B C D E]. unfold tower_of. constructor; cbn; auto.
Qed.

Lemma dbinv_of_inv t : Inv t -> DbInv (db_of t).
Proof. intros [I1 I2 I3 I4 I5 I6 I7]. constructor; cbn; auto. Qed.

(* ---- every statement preserves integrity ---- *)
Lemma exec_fuel_inv fuel : forall s d, DbInv d -> DbInv (exec_fuel fuel d s).
Proof.
  induction fuel as [|f IHf]; intros s d HD;
  (destruct s as [u ui|u ui|u s|us|a|a|us|k|uuid h c|l]; cbn [exec_fuel];
   [ (* SInsUser *)
     destruct (amem (d_users d) u) eqn:Em; [exact HD|];
     pose proof (inv_new_user (tower_of d (mk_tower (mk_config 0 0 0) [] 0 [] [] [] 0 (mk_txindex [] [] [] 0%Z 0) (mk_txindex [] [] [] 0%Z 0) 0 [] [] [])) u ui
                  (inv_of_dbinv d _ HD)) as H;
     assert (Hg : gk_get (tower_of d (mk_tower (mk_config 0 0 0) [] 0 [] [] [] 0 (mk_txindex [] [] [] 0%Z 0) (mk_txindex [] [] [] 0%Z 0) 0 [] [] [])) u = None)
       by (unfold gk_get, tower_of; cbn; unfold amem in Em; destruct (aget (d_users d) u); [discriminate|reflexivity]);
     specialize (H Hg Em); apply dbinv_of_inv in H; exact H
   | (* SUpdUser *)
     destruct HD as [A B C D E]; constructor; cbn; auto;
     [rewrite map_fst_update; exact A
     |intros a Ha; specialize (D a Ha); unfold amem in *; rewrite aget_map_update;
      destruct (N.eqb (a_user a) u); [destruct (aget (d_users d) (a_user a)); [reflexivity|discriminate]|exact D]]
   | (* SUpdSlots *)
     destruct HD as [A B C D E]; constructor; cbn; auto;
     [rewrite map_fst_slots; exact A
     |intros a Ha; specialize (D a Ha); unfold amem in *; rewrite aget_map_slots;
      destruct (N.eqb (a_user a) u); [destruct (aget (d_users d) (a_user a)); [reflexivity|discriminate]|exact D]]
   | (* SDelUsers *)
     pose proof (inv_purge (tower_of d (mk_tower (mk_config 0 0 0) [] 0 [] [] [] 0 (mk_txindex [] [] [] 0%Z 0) (mk_txindex [] [] [] 0%Z 0) 0 [] [] [])) us
                  (inv_of_dbinv d _ HD)) as H; apply dbinv_of_inv in H; exact H
   | (* SInsApp *)
     destruct (find_app (d_apps d) (app_uuid a)) eqn:Ef; [exact HD|];
     destruct (amem (d_users d) (a_user a)) eqn:Em; [|exact HD];
     pose proof (inv_insert_app (tower_of d (mk_tower (mk_config 0 0 0) [] 0 [] [] [] 0 (mk_txindex [] [] [] 0%Z 0) (mk_txindex [] [] [] 0%Z 0) 0 [] [] [])) a
                  (inv_of_dbinv d _ HD) Ef Em) as H; apply dbinv_of_inv in H; exact H
   | (* SUpdApp *)
     destruct (find_app (d_apps d) (app_uuid a)) as [a0|] eqn:Ef;
     [pose proof (inv_update_app (tower_of d (mk_tower (mk_config 0 0 0) [] 0 [] [] [] 0 (mk_txindex [] [] [] 0%Z 0) (mk_txindex [] [] [] 0%Z 0) 0 [] [] [])) a a0
                   (inv_of_dbinv d _ HD) Ef) as H; apply dbinv_of_inv in H; exact H
     |(* no row with that key: the UPDATE changes nothing *)
      assert (Hm : map (fun x => if uuid_eqb (app_uuid x) (app_uuid a) then a else x) (d_apps d) = d_apps d);
      [ clear -Ef; unfold find_app in Ef; induction (d_apps d) as [|x l IHl]; cbn [map find] in *; [reflexivity|];
        destruct (uuid_eqb (app_uuid x) (app_uuid a)); [discriminate|f_equal; apply IHl; exact Ef]
      | rewrite Hm; destruct d; exact HD ]]
   | (* SDelApps *)
     pose proof (inv_delete (tower_of d (mk_tower (mk_config 0 0 0) [] 0 [] [] [] 0 (mk_txindex [] [] [] 0%Z 0) (mk_txindex [] [] [] 0%Z 0) 0 [] [] [])) us
                  (inv_of_dbinv d _ HD)) as H; apply dbinv_of_inv in H; exact H
   | (* SInsTrk *)
     destruct (find_trk (d_trks d) (trk_uuid k)) eqn:Et; [exact HD|];
     destruct (find_app (d_apps d) (trk_uuid k)) as [a0|] eqn:Ef; [|exact HD];
     pose proof (inv_insert_trk (tower_of d (mk_tower (mk_config 0 0 0) [] 0 [] [] [] 0 (mk_txindex [] [] [] 0%Z 0) (mk_txindex [] [] [] 0%Z 0) 0 [] [] [])) k
                  (inv_of_dbinv d _ HD) Et (ex_intro _ a0 Ef)) as H; apply dbinv_of_inv in H; exact H
   | (* SUpdTrk *)
     pose proof (inv_trk_status (tower_of d (mk_tower (mk_config 0 0 0) [] 0 [] [] [] 0 (mk_txindex [] [] [] 0%Z 0) (mk_txindex [] [] [] 0%Z 0) 0 [] [] [])) uuid h c
                  (inv_of_dbinv d _ HD)) as H; apply dbinv_of_inv in H; exact H
   | (* STxn *) idtac ]).
  - exact HD.
  - revert d HD. induction l as [|s l IHl]; intros d HD; cbn [fold_left]; [exact HD|].
    apply IHl. apply IHf. exact HD.
Qed.

Theorem exec_inv d s : DbInv d -> DbInv (exec d s).
Proof. apply exec_fuel_inv. Qed.

(* ... hence every sequence of statements, and therefore every crash prefix of any sequence the
   tower may issue: the database never holds a dangling record. *)
Theorem execs_inv l : forall d, DbInv d -> DbInv (execs d l).
Proof. induction l as [|s l IH]; intros d HD; cbn [execs fold_left]; [exact HD|]. apply IH. apply exec_inv. exact HD. Qed.

Theorem crash_prefix_inv d l n : DbInv d -> DbInv (execs d (firstn n l)).
Proof. apply execs_inv. Qed.

(* recovery: every in-memory object is rebuilt; the gatekeeper loads the users table
   (Gatekeeper::new), the in-memory reorged set starts empty; the result satisfies the tower
   invariant whatever the pre-crash memory was *)
Definition recover (t_shell : tower) (d : db) : tower := set_reorged (tower_of d t_shell) [].

Theorem recover_inv t_shell d : DbInv d -> Inv (recover t_shell d).
Proof.
  intros HD. unfold recover. eapply inv_frame; [|apply inv_of_dbinv; exact HD]. repeat split.
Qed.

(* every primitive table update of Tower.v is one of these statements (the tie between the
   statement-level argument and the tower model) *)
Lemma prim_insert_app_is_stmt t a :
  find_app (db_apps t) (app_uuid a) = None -> amem (db_users t) (a_user a) = true ->
  db_of (p_insert_app t a) = exec (db_of t) (SInsApp a).
Proof. intros Hf Hm. unfold exec. cbn [exec_fuel db_of d_apps d_users d_trks]. rewrite Hf, Hm. reflexivity. Qed.

Lemma prim_update_app_is_stmt t a : db_of (p_update_app t a) = exec (db_of t) (SUpdApp a).
Proof. reflexivity. Qed.

Lemma prim_insert_trk_is_stmt t k a0 :
  find_trk (db_trks t) (trk_uuid k) = None -> find_app (db_apps t) (trk_uuid k) = Some a0 ->
  db_of (p_insert_trk t k) = exec (db_of t) (SInsTrk k).
Proof. intros Ht Ha. unfold exec. cbn [exec_fuel db_of d_apps d_users d_trks]. rewrite Ht, Ha. reflexivity. Qed.

Lemma prim_trk_status_is_stmt t uuid h c : db_of (set_trk_status t uuid h c) = exec (db_of t) (SUpdTrk uuid h c).
Proof. reflexivity. Qed.

Lemma prim_delete_apps_is_stmt t us : db_of (db_delete_apps t us) = exec (db_of t) (SDelApps us).
Proof. reflexivity. Qed.

Lemma prim_purge_is_stmt t out : db_of (p_purge t out) = exec (db_of t) (SDelUsers out).
Proof. reflexivity. Qed.

Lemma prim_set_user_is_stmt t u ui : db_of (p_set_user t u ui) = exec (db_of t) (SUpdUser u ui).
Proof. reflexivity. Qed.

Lemma prim_new_user_is_stmt t u ui :
  amem (db_users t) u = false -> db_of (p_new_user t u ui) = exec (db_of t) (SInsUser u ui).
Proof. intros Hm. unfold exec. cbn [exec_fuel db_of d_apps d_users d_trks]. rewrite Hm. reflexivity. Qed.

Lemma prim_refund_is_stmt t u ui s : db_of (p_refund_user t u ui s) = exec (db_of t) (SUpdSlots u s).
Proof. reflexivity. Qed.

(* the in-flight request costs at most its own slots: between the charge and the store of an
   add_appointment the only difference to the state before is the user's balance, lower by
   required - used (never higher than required) *)
Lemma charge_then_crash_costs_at_most_request t u ui required used :
  gk_get t u = Some ui -> required <= u_slots ui + used ->
  let s' := (u_slots ui + used - required) mod U32MOD in
  u_slots ui + used < U32MOD ->
  s' + required = u_slots ui + used.
Proof.
  intros _ Hle s' Hlt. subst s'. rewrite N.mod_small by lia. lia.
Qed.

(* ---- executable integrity check, for the monitor on recovered databases ---- *)
Definition db_inv_b (d : db) : bool :=
  Nat.eqb (length (nodupN (map fst (d_users d)))) (length (d_users d)) &&
  forallb (fun a => amem (d_users d) (a_user a)) (d_apps d) &&
  forallb (fun k => existsb (fun a => uuid_eqb (app_uuid a) (trk_uuid k)) (d_apps d)) (d_trks d) &&
  forallb (fun a => Nat.eqb (length (filter (fun b => uuid_eqb (app_uuid b) (app_uuid a)) (d_apps d))) 1) (d_apps d) &&
  forallb (fun k => Nat.eqb (length (filter (fun b => uuid_eqb (trk_uuid b) (trk_uuid k)) (d_trks d))) 1) (d_trks d).

Definition balance (d : db) (u : N) : N :=
  match aget (d_users d) u with Some ui => u_slots ui | None => 0 end +
  fold_right (fun a s => (if N.eqb (a_user a) u then slots_of (b_len (a_blob a)) else 0) + s) 0 (d_apps d).
