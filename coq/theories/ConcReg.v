(* ConcReg.v — C10, linearizability of registrations: ANY number of concurrent register requests (same or
   different users), any schedule in which all of them return: the final state and the receipts are
   those of a sequential order of the same requests — the order in which they left the `users`
   critical section.  In particular no slot top-up is lost.

   Invariant: a request that has not taken `users` yet has only read the gatekeeper's height, which
   nobody changes here, so its remaining run from ANY state of that height equals its full run from
   that state; a request inside the critical section sees a frozen state (mutual exclusion + every
   write of another request needs `users`), so its remaining run from the current state equals its
   full run from the current state; at its write it commits exactly the effect of its full run. *)
From TeosModel Require Import Base ListAux TxIndex Tower ConcTower ConcTowerProofs.
From Coq Require Import Lia Permutation.
Local Open Scope N_scope.

Definition val {B} (r : res B) : option B := match r with Ok b _ => Some b | Abort _ _ => None end.

(* what a residual without further actions returns *)
Fixpoint ret_of (q : prog out) : option out :=
  match q with
  | Ret o => Some o
  | Acq _ k | Rel _ k => ret_of k
  | Act _ _ _ => None
  end.

Lemma ret_of_exec q o t : ret_of q = Some o -> exec q t = Ok o t.
Proof. induction q as [o'|l k IH|l k IH|B f k IH]; cbn; intros H; try (apply IH; exact H); [inversion H; reflexivity|discriminate]. Qed.

(* inside the `users` critical section: reads, then one write (or none) after which nothing acts *)
Fixpoint sec_ok (q : prog out) : Prop :=
  match q with
  | Ret _ => False
  | Acq _ k => sec_ok k
  | Rel l k => if N.eqb l L_users then exists o, ret_of k = Some o else sec_ok k
  | Act B f k => ((forall t, state_of (f t) = t) /\ forall b, sec_ok (k b)) \/
                 ((forall t, gk_height (state_of (f t)) = gk_height t) /\ forall b, exists o, ret_of (k b) = Some o)
  end.

(* before it: reads that depend on the gatekeeper's height only *)
Fixpoint pre_ok (q : prog out) : Prop :=
  match q with
  | Ret _ => False
  | Acq l k => if N.eqb l L_users then sec_ok k else pre_ok k
  | Rel _ k => pre_ok k
  | Act B f k => (forall t, state_of (f t) = t) /\ (forall t t', gk_height t = gk_height t' -> val (f t) = val (f t')) /\
                 forall b, pre_ok (k b)
  end.

Lemma register_pre_ok u : pre_ok (register_p u).
Proof.
  unfold register_p, add_update_user_p, reach_p. cbn [pbind acq rel act rd wr pre_ok].
  change (N.eqb L_reach L_users) with false. cbv iota. cbn [pre_ok].
  split; [reflexivity|]. split; [intros t t' H; cbn; rewrite H; reflexivity|]. intros bc.
  change (N.eqb L_users L_users) with true. cbv iota. cbn [sec_ok]. left.
  split; [apply st_reg_decide|]. intros plan. destruct plan as [|ui'|ui]; cbn [pbind sec_ok].
  - change (N.eqb L_users L_users) with true. cbv iota. eexists. reflexivity.
  - right. split; [reflexivity|]. intros _. eexists. reflexivity.
  - right. split; [|intros _; eexists; reflexivity]. intros t. rewrite st_store_new_user. destruct (amem (db_users t) u); reflexivity.
Qed.

Section Registrations.
  Context (t0 : tower) (ps : list (prog out)).
  Let H0 : N := gk_height t0.
  Let P (i : nat) : prog out := nth i ps (Ret OBlockRes).

  (* the programs run one after the other *)
  Fixpoint seq_run (t : tower) (order : list nat) : tower * list out :=
    match order with
    | [] => (t, [])
    | i :: r => match exec (P i) t with
                | Ok o t' => let '(tf, os) := seq_run t' r in (tf, o :: os)
                | Abort _ t' => (t', [])
                end
    end.

  Lemma seq_run_snoc order : forall t tm os i o t',
    seq_run t order = (tm, os) -> length os = length order -> exec (P i) tm = Ok o t' ->
    seq_run t (order ++ [i]) = (t', os ++ [o]).
  Proof.
    induction order as [|j order IH]; intros t tm os i o t' Hs Hl He; cbn [seq_run List.app] in *.
    - inversion Hs; subst. rewrite He. reflexivity.
    - destruct (exec (P j) t) as [oj tj|s tj]; [|inversion Hs; subst; discriminate].
      destruct (seq_run tj order) as [tf os'] eqn:Er. inversion Hs; subst. cbn [length] in Hl.
      rewrite (IH tj tm os' i o t' Er (eq_add_S _ _ Hl) He). reflexivity.
  Qed.

  Definition th_ok (log : list (nat * out)) (t : tower) (i : nat) (th : cthread) : Prop :=
    match ct_st th with
    | Ended _ => False
    | Running q =>
        (~ In i (map fst log) /\ pre_ok q /\ holds th L_users = false /\
         forall t', gk_height t' = H0 -> exec q t' = exec (P i) t')
     \/ (~ In i (map fst log) /\ sec_ok q /\ holds th L_users = true /\ exec q t = exec (P i) t)
     \/ (exists o, ret_of q = Some o /\ In (i, o) log)
    end.

  Definition R (c : conf) : Prop :=
    length (cf_threads c) = length ps /\ excl c /\ gk_height (cf_tower c) = H0 /\
    exists log, NoDup (map fst log) /\ (forall i o, In (i, o) log -> (i < length ps)%nat) /\
                seq_run t0 (map fst log) = (cf_tower c, map snd log) /\
                forall i th, nth_error (cf_threads c) i = Some th -> th_ok log (cf_tower c) i th.

  Definition is_abort (r : tout) : Prop :=
    match r with TPoisoned _ => True | TOut (OAbort _) => True | TOut _ => False end.
  Definition aborted (c : conf) : Prop :=
    exists i th r, nth_error (cf_threads c) i = Some th /\ ct_st th = Ended r /\ is_abort r.

  Lemma aborted_step c i c' : aborted c -> step_thread c i = Some c' -> aborted c'.
  Proof.
    intros [j [th [r [Hn [He Hab]]]]] Hs.
    destruct (step_thread_cases c i c' Hs) as [thi [p [Hni [Hst Hc]]]].
    assert (Hij : i <> j) by (intros ->; rewrite Hn in Hni; inversion Hni; subst; congruence).
    exists j, th, r. split; [|split; [exact He|exact Hab]].
    destruct Hc as [[l [k [_ [_ [_ ->]]]]]|[[l [k [_ [_ [_ ->]]]]]|[[l [k [_ ->]]]|[[B [f [k [bb [t' [_ [_ ->]]]]]]]|[B [f [k [s [t' [_ [_ ->]]]]]]]]]]];
      cbn [die cf_threads]; rewrite nth_error_set_nth_neq by exact Hij; exact Hn.
  Qed.

  Lemma holds_cons th l l' st tr : holds (mk_cthread st (l' :: ct_held th) tr) l = (N.eqb l l' || holds th l)%bool.
  Proof. reflexivity. Qed.

  Lemma holds_remove_other l l' hh : N.eqb l' l = false -> memN l (remove_lock l' hh) = memN l hh.
  Proof.
    intros Hne. unfold remove_lock, memN. induction hh as [|x hh IH]; [reflexivity|]. cbn [filter existsb].
    destruct (N.eqb x l') eqn:E; cbn [negb existsb].
    - apply N.eqb_eq in E. subst x. rewrite N.eqb_sym, Hne. cbn [orb]. exact IH.
    - rewrite IH. reflexivity.
  Qed.

  Lemma holds_remove_same l hh : memN l (remove_lock l hh) = false.
  Proof.
    unfold remove_lock, memN. induction hh as [|x hh IH]; [reflexivity|]. cbn [filter].
    destruct (N.eqb x l) eqn:E; cbn [negb existsb]; [exact IH|]. rewrite N.eqb_sym, E. exact IH.
  Qed.

  (* threads other than the one that moved keep their status when the state does not change ... *)
  Lemma th_ok_same_state log t i th : th_ok log t i th -> forall log', (forall x, In x log -> In x log') ->
    (~ In i (map fst log) -> ~ In i (map fst log')) -> th_ok log' t i th.
  Proof.
    unfold th_ok. destruct (ct_st th) as [q|]; [|auto]. intros [[Hn H]|[[Hn H]|[o [Hr Hi]]]] log' Hsub Hnot.
    - left. split; [apply Hnot; exact Hn|exact H].
    - right. left. split; [apply Hnot; exact Hn|exact H].
    - right. right. exists o. split; [exact Hr|apply Hsub; exact Hi].
  Qed.

  (* ... and when another thread commits while holding `users` *)
  Lemma th_ok_other_commit log t t' i j thi thj o :
    i <> j -> holds thi L_users = true -> holds thj L_users = false ->
    th_ok log t j thj -> th_ok (log ++ [(i, o)]) t' j thj.
  Proof.
    unfold th_ok. intros Hij Hi Hj. destruct (ct_st thj) as [q|]; [|auto].
    assert (Hnot : ~ In j (map fst log) -> ~ In j (map fst (log ++ [(i, o)]))).
    { intros Hn. rewrite map_app, in_app_iff. cbn. intros [H|[H|[]]]; [contradiction|congruence]. }
    intros [[Hn H]|[[Hn [_ [Hh _]]]|[o' [Hr Hin]]]].
    - left. split; [apply Hnot; exact Hn|exact H].
    - congruence.
    - right. right. exists o'. split; [exact Hr|apply in_or_app; left; exact Hin].
  Qed.

  Lemma res_eta {B} (f : tower -> res B) t b : state_of (f t) = t -> val (f t) = Some b -> f t = Ok b t.
  Proof. destruct (f t) as [b' t'|s t']; cbn; intros H1 H2; [inversion H2; subst; reflexivity|discriminate]. Qed.

  Lemma R_step c i c' : R c -> step_thread c i = Some c' -> R c' \/ aborted c'.
  Proof.
    intros [Hlen [Hex [Hh [log [Hnd [Hlt [Hseq Hall]]]]]]] Hs.
    pose proof (excl_step c i c' Hex Hs) as Hex'.
    destruct (step_thread_cases c i c' Hs) as [th [q [Hn [Hst Hc]]]].
    pose proof (Hall i th Hn) as Hi. unfold th_ok in Hi. rewrite Hst in Hi.
    assert (Hilt : (i < length ps)%nat) by (rewrite <- Hlen; apply nth_error_Some; congruence).
    (* generic re-assembly: the stepping thread becomes th', the state t', the log log' *)
    assert (Hgen : forall t' po th' log',
              gk_height t' = H0 -> NoDup (map fst log') -> (forall j o, In (j, o) log' -> (j < length ps)%nat) ->
              seq_run t0 (map fst log') = (t', map snd log') ->
              th_ok log' t' i th' ->
              (forall j thj, j <> i -> nth_error (cf_threads c) j = Some thj -> th_ok log' t' j thj) ->
              excl (mk_conf t' po (set_nth (cf_threads c) i th')) ->
              R (mk_conf t' po (set_nth (cf_threads c) i th'))).
    { intros t' po th' log' Hh' Hnd' Hlt' Hseq' Hi' Hoth Hexx. split; [cbn [cf_threads]; rewrite length_set_nth; exact Hlen|].
      split; [exact Hexx|]. split; [exact Hh'|]. exists log'. split; [exact Hnd'|]. split; [exact Hlt'|]. split; [exact Hseq'|].
      intros j thj Hj. cbn [cf_threads cf_tower] in *. apply nth_error_set_nth in Hj. destruct Hj as [[<- ->]|[Hne Hj]]; [exact Hi'|].
      apply Hoth; [congruence|exact Hj]. }
    assert (Hsame : forall j thj, j <> i -> nth_error (cf_threads c) j = Some thj -> th_ok log (cf_tower c) j thj).
    { intros j thj _ Hj. apply Hall. exact Hj. }
    destruct Hc as [[l [k [-> [Hfree [_ ->]]]]]|[[l [k [-> [_ [_ ->]]]]]|[[l [k [-> ->]]]|[[B [f [k [b [t' [-> [Hf ->]]]]]]]|[B [f [k [s [t' [-> [Hf ->]]]]]]]]]]].
    - (* acquire *)
      left. apply (Hgen (cf_tower c) (cf_poisoned c) _ log Hh Hnd Hlt Hseq); [|exact Hsame|exact Hex'].
      unfold th_ok. cbn [ct_st]. unfold holds. cbn [ct_held].
      destruct Hi as [[Hni [Hp [Hho He]]]|[[Hni [Hp [Hho He]]]|[o [Hr Hin]]]].
      + cbn [pre_ok] in Hp. destruct (N.eqb l L_users) eqn:El.
        * right. left. split; [exact Hni|]. split; [exact Hp|]. split.
          { apply N.eqb_eq in El. subst l. unfold memN. cbn [existsb]. rewrite N.eqb_refl. reflexivity. }
          rewrite <- (He (cf_tower c) Hh). reflexivity.
        * left. split; [exact Hni|]. split; [exact Hp|]. split.
          { unfold memN. cbn [existsb]. rewrite N.eqb_sym, El. exact Hho. }
          intros t1 Ht1. rewrite <- (He t1 Ht1). reflexivity.
      + right. left. split; [exact Hni|]. split; [exact Hp|]. split.
        { unfold memN. cbn [existsb]. unfold holds, memN in Hho. rewrite Hho. apply orb_true_r. }
        exact He.
      + right. right. exists o. split; [exact Hr|exact Hin].
    - right. exists i. eexists. eexists. unfold die. cbn [cf_threads]. split; [eapply nth_error_set_nth_eq; eauto|split; [reflexivity|exact I]].
    - (* release *)
      destruct Hi as [[Hni [Hp [Hho He]]]|[[Hni [Hp [Hho He]]]|[o [Hr Hin]]]].
      + left. apply (Hgen (cf_tower c) (cf_poisoned c) _ log Hh Hnd Hlt Hseq); [|exact Hsame|exact Hex'].
        unfold th_ok. cbn [ct_st]. left. split; [exact Hni|]. split; [exact Hp|]. split; [|exact He].
        unfold holds in *. cbn [ct_held]. destruct (memN L_users (remove_lock l (ct_held th))) eqn:E; [|reflexivity].
        apply holds_remove in E. congruence.
      + cbn [sec_ok] in Hp. destruct (N.eqb l L_users) eqn:El.
        * (* leaves the critical section without having written: commits the empty effect *)
          destruct Hp as [o Ho]. apply N.eqb_eq in El. subst l.
          assert (Hexec : exec (P i) (cf_tower c) = Ok o (cf_tower c)).
          { rewrite <- He. cbn [exec]. apply ret_of_exec. exact Ho. }
          left. apply (Hgen (cf_tower c) (cf_poisoned c) _ (log ++ [(i, o)]) Hh).
          -- rewrite map_app. cbn [map fst]. apply NoDup_app_iff. split; [exact Hnd|]. split; [repeat constructor; intros []|].
             intros x Hx [Hx'|[]]. subst x. contradiction.
          -- intros j o' Hj. apply in_app_or in Hj. destruct Hj as [Hj|[Hj|[]]]; [eapply Hlt; eauto|inversion Hj; subst; exact Hilt].
          -- rewrite !map_app. cbn [map fst snd]. eapply seq_run_snoc; [exact Hseq|rewrite !map_length; reflexivity|exact Hexec].
          -- unfold th_ok. cbn [ct_st]. right. right. exists o. split; [exact Ho|apply in_or_app; right; left; reflexivity].
          -- intros j thj Hji Hj. eapply (th_ok_other_commit log (cf_tower c) (cf_tower c) i j th thj o); [congruence|exact Hho| |apply Hall; exact Hj].
             exact (Hex i j th thj L_users Hn Hj (not_eq_sym Hji) Hho).
          -- exact Hex'.
        * left. apply (Hgen (cf_tower c) (cf_poisoned c) _ log Hh Hnd Hlt Hseq); [|exact Hsame|exact Hex'].
          unfold th_ok. cbn [ct_st]. right. left. split; [exact Hni|]. split; [exact Hp|]. split; [|exact He].
          unfold holds in *. cbn [ct_held]. rewrite holds_remove_other; [exact Hho|exact El].
      + left. apply (Hgen (cf_tower c) (cf_poisoned c) _ log Hh Hnd Hlt Hseq); [|exact Hsame|exact Hex'].
        unfold th_ok. cbn [ct_st]. right. right. exists o. split; [exact Hr|exact Hin].
    - (* an action *)
      destruct Hi as [[Hni [Hp [Hho He]]]|[[Hni [Hp [Hho He]]]|[o [Hr Hin]]]]; [| |discriminate].
      + cbn [pre_ok] in Hp. destruct Hp as [Hro [Hdep Hk]].
        pose proof (Hro (cf_tower c)) as Hsame'. rewrite Hf in Hsame'. cbn in Hsame'. subst t'.
        left. apply (Hgen (cf_tower c) (cf_poisoned c) _ log Hh Hnd Hlt Hseq); [|exact Hsame|exact Hex'].
        unfold th_ok. cbn [ct_st]. left. split; [exact Hni|]. split; [apply Hk|]. split; [exact Hho|].
        intros t1 Ht1. rewrite <- (He t1 Ht1). cbn [exec].
        assert (Hv : val (f t1) = Some b).
        { rewrite (Hdep t1 (cf_tower c)) by congruence. rewrite Hf. reflexivity. }
        rewrite (res_eta f t1 b (Hro t1) Hv). reflexivity.
      + cbn [sec_ok] in Hp. destruct Hp as [[Hro Hk]|[Hkeep Hk]].
        * pose proof (Hro (cf_tower c)) as Hsame'. rewrite Hf in Hsame'. cbn in Hsame'. subst t'.
          left. apply (Hgen (cf_tower c) (cf_poisoned c) _ log Hh Hnd Hlt Hseq); [|exact Hsame|exact Hex'].
          unfold th_ok. cbn [ct_st]. right. left. split; [exact Hni|]. split; [apply Hk|]. split; [exact Hho|].
          rewrite <- He. cbn [exec]. rewrite Hf. reflexivity.
        * (* the write: commits exactly the effect of the whole request run alone from here *)
          destruct (Hk b) as [o Ho].
          assert (Hexec : exec (P i) (cf_tower c) = Ok o t').
          { rewrite <- He. cbn [exec]. rewrite Hf. apply ret_of_exec. exact Ho. }
          assert (Hh' : gk_height t' = H0).
          { pose proof (Hkeep (cf_tower c)) as X. rewrite Hf in X. cbn in X. congruence. }
          left. apply (Hgen t' (cf_poisoned c) _ (log ++ [(i, o)]) Hh').
          -- rewrite map_app. cbn [map fst]. apply NoDup_app_iff. split; [exact Hnd|]. split; [repeat constructor; intros []|].
             intros x Hx [Hx'|[]]. subst x. contradiction.
          -- intros j o' Hj. apply in_app_or in Hj. destruct Hj as [Hj|[Hj|[]]]; [eapply Hlt; eauto|inversion Hj; subst; exact Hilt].
          -- rewrite !map_app. cbn [map fst snd]. eapply seq_run_snoc; [exact Hseq|rewrite !map_length; reflexivity|exact Hexec].
          -- unfold th_ok. cbn [ct_st]. right. right. exists o. split; [exact Ho|apply in_or_app; right; left; reflexivity].
          -- intros j thj Hji Hj. eapply (th_ok_other_commit log (cf_tower c) t' i j th thj o); [congruence|exact Hho| |apply Hall; exact Hj].
             exact (Hex i j th thj L_users Hn Hj (not_eq_sym Hji) Hho).
          -- exact Hex'.
    - right. exists i. eexists. eexists. unfold die. cbn [cf_threads]. split; [eapply nth_error_set_nth_eq; eauto|split; [reflexivity|exact I]].
  Qed.

  Lemma R_init : Forall pre_ok ps -> R (init_config t0 ps).
  Proof.
    intros Hps. split; [cbn; apply map_length|]. split; [apply excl_init|]. split; [reflexivity|].
    exists []. split; [constructor|]. split; [intros i o []|]. split; [reflexivity|].
    intros i th Hn. cbn [cf_threads init_config] in Hn. rewrite nth_error_map in Hn.
    destruct (nth_error ps i) as [p|] eqn:Ep; [|discriminate]. inversion Hn; subst th.
    unfold th_ok. cbn. left. split; [intros []|]. rewrite Forall_forall in Hps.
    split; [apply Hps; eapply nth_error_In; eauto|]. split; [reflexivity|].
    intros t' _. unfold P. rewrite (nth_error_nth ps i _ Ep). reflexivity.
  Qed.

  Lemma fst_functional {A} (l : list (nat * A)) i o o' : NoDup (map fst l) -> In (i, o) l -> In (i, o') l -> o = o'.
  Proof.
    induction l as [|[j x] l IH]; intros Hnd H1 H2; [destruct H1|]. cbn [map fst] in Hnd. apply NoDup_cons_iff in Hnd. destruct Hnd as [Hj Hnd].
    destruct H1 as [H1|H1], H2 as [H2|H2].
    - congruence.
    - inversion H1; subst. exfalso. apply Hj. apply in_map_iff. exists (i, o'). split; [reflexivity|exact H2].
    - inversion H2; subst. exfalso. apply Hj. apply in_map_iff. exists (i, o). split; [reflexivity|exact H1].
    - eapply IH; eauto.
  Qed.

  (* THE theorem: whatever the schedule, if every request returns, state and replies are those of the
     requests run one after the other in some order *)
  Theorem returned_runs_are_sequential sched tf os :
    Forall pre_ok ps ->
    run_sched t0 ps sched = (tf, map (fun o => Some (TOut o)) os) ->
    (forall o s, In o os -> o <> OAbort s) ->
    exists order, Permutation order (seq 0 (length ps)) /\
                  seq_run t0 order = (tf, map (fun i => nth i os OBlockRes) order).
  Proof.
    intros Hps Hrun Hna. unfold run_sched in Hrun. inversion Hrun as [[Ht Houts]]. clear Hrun.
    set (cF := run_config (init_config t0 ps) sched) in *.
    assert (HR : R cF \/ aborted cF).
    { apply (run_config_inv (fun c => R c \/ aborted c)); [|left; apply R_init; exact Hps].
      intros c i c' [HRc|Ha] Hs; [eapply R_step; eauto|right; eapply aborted_step; eauto]. }
    assert (Hres : forall i th, nth_error (cf_threads cF) i = Some th -> exists o, nth_error os i = Some o /\ thread_result th = Some (TOut o)).
    { intros i th Hn. assert (Hx : nth_error (map thread_result (cf_threads cF)) i = Some (thread_result th)) by (rewrite nth_error_map, Hn; reflexivity).
      rewrite Houts, nth_error_map in Hx. destruct (nth_error os i) as [o|]; [|discriminate]. exists o. split; [reflexivity|]. inversion Hx. reflexivity. }
    destruct HR as [[Hlen [_ [_ [log [Hnd [Hlt [Hseq Hall]]]]]]]|[i [th [r [Hn [He Hab]]]]]].
    2:{ exfalso. destruct (Hres i th Hn) as [o [Ho Hr]]. unfold thread_result in Hr. rewrite He in Hr. inversion Hr; subst r.
        destruct o; try exact Hab. eapply Hna; [eapply nth_error_In; eauto|reflexivity]. }
    assert (Hlog : forall i, (i < length ps)%nat -> exists o, nth_error os i = Some o /\ In (i, o) log).
    { intros i Hi. destruct (nth_error (cf_threads cF) i) as [th|] eqn:Eth; [|apply nth_error_None in Eth; lia].
      destruct (Hres i th Eth) as [o [Ho Hr]]. exists o. split; [exact Ho|].
      pose proof (Hall i th Eth) as Hok. unfold th_ok in Hok. unfold thread_result in Hr.
      destruct (ct_st th) as [q|]; [|destruct Hok]. destruct q; try discriminate. inversion Hr; subst.
      destruct Hok as [[_ [[] _]]|[[_ [[] _]]|[o' [Hr' Hin]]]]. cbn in Hr'. inversion Hr'; subst. exact Hin. }
    exists (map fst log). split.
    - apply NoDup_Permutation; [exact Hnd|apply seq_NoDup|]. intros x. rewrite in_seq. split.
      + intros Hx. apply in_map_iff in Hx. destruct Hx as [[j o] [<- Hj]]. cbn. specialize (Hlt j o Hj). lia.
      + intros [_ Hx]. destruct (Hlog x Hx) as [o [_ Hin]]. apply in_map_iff. exists (x, o). split; [reflexivity|exact Hin].
    - rewrite Hseq, Ht. f_equal. rewrite map_map. apply map_ext_in. intros [j o] Hj. cbn [fst snd].
      destruct (Hlog j (Hlt j o Hj)) as [o' [Ho' Hin']]. rewrite (fst_functional log j o o' Hnd Hj Hin').
      symmetry. apply nth_error_nth. exact Ho'.
  Qed.
End Registrations.

(* any number of register requests *)
Theorem registrations_linearizable t0 (us : list N) sched tf os :
  run_sched t0 (map register_p us) sched = (tf, map (fun o => Some (TOut o)) os) ->
  (forall o s, In o os -> o <> OAbort s) ->
  exists order, Permutation order (seq 0 (length us)) /\
                seq_run (map register_p us) t0 order = (tf, map (fun i => nth i os OBlockRes) order).
Proof.
  intros Hrun Hna.
  destruct (returned_runs_are_sequential t0 (map register_p us) sched tf os) as [order [Hp Hs]]; auto.
  - apply Forall_forall. intros p Hp. apply in_map_iff in Hp. destruct Hp as [u [<- _]]. apply register_pre_ok.
  - exists order. rewrite map_length in Hp. split; assumption.
Qed.

(* ---- corollary: no top-up is lost ---- *)
Lemma register_exec_existing u t ui :
  gk_get t u = Some ui -> u_slots ui + c_slots (cfg t) <= U32MAX ->
  exists o t' e', exec (register_p u) t = Ok o t' /\ cfg t' = cfg t /\
                  gk_get t' u = Some (mk_uinfo (u_slots ui + c_slots (cfg t)) (u_start ui) e').
Proof.
  intros Hg Hle. unfold register_p. rewrite exec_bind, exec_reach, exec_bind, exec_add_update_user.
  unfold gk_add_update_user. rewrite Hg. unfold u32_add at 1.
  destruct (N.leb (u_slots ui + c_slots (cfg t)) U32MAX) eqn:E; [|apply N.leb_gt in E; lia].
  cbn [exec]. eexists. eexists. eexists. split; [reflexivity|]. split; [reflexivity|].
  unfold p_set_user, db_update_user, gk_put, gk_get. cbn [gk_users set_gk_users set_db_users aget]. rewrite N.eqb_refl. reflexivity.
Qed.

Lemma nth_repeat_lt {A} (a d : A) n : forall i, (i < n)%nat -> nth i (repeat a n) d = a.
Proof. induction n as [|n IH]; intros i Hi; [lia|]. destruct i as [|i]; [reflexivity|]. cbn. apply IH. lia. Qed.

Lemma seq_run_topups u n : forall order t ui,
  (forall i, In i order -> (i < n)%nat) ->
  gk_get t u = Some ui -> u_slots ui + N.of_nat (length order) * c_slots (cfg t) <= U32MAX ->
  option_map u_slots (gk_get (fst (seq_run (repeat (register_p u) n) t order)) u) =
  Some (u_slots ui + N.of_nat (length order) * c_slots (cfg t)).
Proof.
  induction order as [|i order IH]; intros t ui Hlt Hg Hle; cbn [seq_run length].
  - cbn [fst]. rewrite Hg. cbn. f_equal. lia.
  - assert (Hp : nth i (repeat (register_p u) n) (Ret OBlockRes) = register_p u).
    { apply nth_repeat_lt. apply Hlt. left. reflexivity. }
    rewrite Hp.
    assert (Hle1 : u_slots ui + c_slots (cfg t) <= U32MAX) by (cbn [length] in Hle; lia).
    destruct (register_exec_existing u t ui Hg Hle1) as [o [t' [e' [He [Hc Hg']]]]]. rewrite He.
    assert (Hlt' : forall j, In j order -> (j < n)%nat) by (intros j Hj; apply Hlt; right; exact Hj).
    assert (Hle' : u_slots (mk_uinfo (u_slots ui + c_slots (cfg t)) (u_start ui) e') + N.of_nat (length order) * c_slots (cfg t') <= U32MAX).
    { cbn [u_slots]. rewrite Hc. cbn [length] in Hle. lia. }
    specialize (IH t' _ Hlt' Hg' Hle'). destruct (seq_run (repeat (register_p u) n) t' order) as [tf os]. cbn [fst] in *.
    rewrite IH. cbn [u_slots]. rewrite Hc. f_equal. cbn [length]. lia.
Qed.

(* n concurrent renewals of one user, any schedule in which they all return: the balance is the
   initial one plus n top-ups *)
Theorem concurrent_topups_all_counted t0 u n ui sched tf os :
  gk_get t0 u = Some ui -> u_slots ui + N.of_nat n * c_slots (cfg t0) <= U32MAX ->
  run_sched t0 (repeat (register_p u) n) sched = (tf, map (fun o => Some (TOut o)) os) ->
  (forall o s, In o os -> o <> OAbort s) ->
  option_map u_slots (gk_get tf u) = Some (u_slots ui + N.of_nat n * c_slots (cfg t0)).
Proof.
  intros Hg Hle Hrun Hna.
  assert (Hmap : repeat (register_p u) n = map register_p (repeat u n)).
  { clear. induction n as [|n IH]; [reflexivity|]. cbn [repeat map]. rewrite IH. reflexivity. }
  rewrite Hmap in Hrun. destruct (registrations_linearizable t0 (repeat u n) sched tf os Hrun Hna) as [order [Hperm Hseq]].
  rewrite repeat_length in Hperm. rewrite <- Hmap in Hseq.
  assert (Hlen : length order = n) by (rewrite (Permutation_length Hperm); apply seq_length).
  assert (Hlt : forall i, In i order -> (i < n)%nat).
  { intros i Hi. apply (Permutation_in _ Hperm) in Hi. apply in_seq in Hi. lia. }
  pose proof (seq_run_topups u n order t0 ui Hlt Hg) as H. rewrite Hlen in H. specialize (H Hle).
  rewrite Hseq in H. exact H.
Qed.
