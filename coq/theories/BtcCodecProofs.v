(* BtcCodecProofs.v — round trip of the consensus transaction codec of BtcCodec.v:
   for every well-formed transaction t and every continuation `rest` of the input,
   parse_tx (tx_encode t ++ rest) = ROk t rest; hence deserialize (serialize t) = t and
   deserialize (serialize t ++ extra) fails for every non-empty extra. *)
From TeosModel Require Import Base ListAux BtcCodec.
Local Open Scope N_scope.

(* ---------- fixed-width integers ---------- *)
Lemma le_bytes_length n v : length (le_bytes n v) = n.
Proof.
  revert v. induction n as [|n IH]; intros v; cbn [le_bytes length]; [reflexivity|].
  rewrite IH. reflexivity.
Qed.

Lemma le_val_le_bytes n v : v < 256 ^ N.of_nat n -> le_val (le_bytes n v) = v.
Proof.
  revert v. induction n as [|n IH]; intros v Hv.
  - cbn in *. lia.
  - cbn [le_bytes le_val]. rewrite IH.
    + pose proof (N.div_mod v 256). lia.
    + rewrite Nat2N.inj_succ, N.pow_succ_r' in Hv. apply N.div_lt_upper_bound; lia.
Qed.

Lemma take_app a rest : btc_take (N.of_nat (length a)) (a ++ rest) = ROk a rest.
Proof.
  unfold btc_take. rewrite app_length, Nat2N.inj_add.
  replace (N.of_nat (length a) <=? N.of_nat (length a) + N.of_nat (length rest)) with true
    by (symmetry; apply N.leb_le; lia).
  rewrite Nat2N.id. rewrite firstn_app, Nat.sub_diag, firstn_all. cbn [firstn]. rewrite app_nil_r.
  rewrite skipn_app, Nat.sub_diag, skipn_all. reflexivity.
Qed.

Lemma read_le_enc n v rest : v < 256 ^ N.of_nat n -> btc_read_le n (le_bytes n v ++ rest) = ROk v rest.
Proof.
  intros Hv. unfold btc_read_le.
  replace (N.of_nat n) with (N.of_nat (length (le_bytes n v))) by (rewrite le_bytes_length; reflexivity).
  rewrite take_app. cbn [btc_rbind]. rewrite le_val_le_bytes by exact Hv. reflexivity.
Qed.

Lemma i32_roundtrip v : (-2147483648 <= v < 2147483648)%Z -> i32_of_u32 (u32_of_i32 v) = v.
Proof.
  intros Hv. unfold i32_of_u32, u32_of_i32.
  destruct (Z.neg_nonneg_cases v) as [Hneg|Hpos].
  - assert (Hm : (v mod 4294967296 = v + 4294967296)%Z).
    { symmetry. apply (Z.mod_unique_pos _ _ (-1)); lia. }
    rewrite Hm. destruct (Z.to_N (v + 4294967296) <? 2147483648) eqn:Hlt.
    + apply N.ltb_lt in Hlt. lia.
    + rewrite Z2N.id by lia. lia.
  - rewrite Z.mod_small by lia. destruct (Z.to_N v <? 2147483648) eqn:Hlt.
    + rewrite Z2N.id by lia. reflexivity.
    + apply N.ltb_ge in Hlt. lia.
Qed.

Lemma u32_of_i32_range v : u32_of_i32 v < 4294967296.
Proof.
  unfold u32_of_i32. pose proof (Z.mod_pos_bound v 4294967296). lia.
Qed.

(* ---------- compact size ---------- *)
Lemma csize_enc_nonempty n : (1 <= length (csize_enc n))%nat.
Proof.
  unfold csize_enc. repeat (match goal with |- context [if ?c then _ else _] => destruct c end);
    cbn [length]; lia.
Qed.

Lemma csize_roundtrip n rest : n < BTC_U64LIM -> csize_dec (csize_enc n ++ rest) = ROk n rest.
Proof.
  unfold BTC_U64LIM. intros Hn. unfold csize_enc.
  destruct (n <=? 252) eqn:H1.
  - apply N.leb_le in H1. cbn [app csize_dec].
    replace (n =? 255) with false by (symmetry; apply N.eqb_neq; lia).
    replace (n =? 254) with false by (symmetry; apply N.eqb_neq; lia).
    replace (n =? 253) with false by (symmetry; apply N.eqb_neq; lia).
    reflexivity.
  - apply N.leb_gt in H1. destruct (n <=? 65535) eqn:H2.
    + apply N.leb_le in H2. cbn [app csize_dec].
      change (253 =? 255) with false. change (253 =? 254) with false. change (253 =? 253) with true.
      cbv iota. rewrite read_le_enc by (change (256 ^ N.of_nat 2) with 65536; lia). cbn [btc_rbind].
      replace (n <? 253) with false by (symmetry; apply N.ltb_ge; lia). reflexivity.
    + apply N.leb_gt in H2. destruct (n <=? 4294967295) eqn:H3.
      * apply N.leb_le in H3. cbn [app csize_dec].
        change (254 =? 255) with false. change (254 =? 254) with true.
        cbv iota. rewrite read_le_enc by (change (256 ^ N.of_nat 4) with 4294967296; lia). cbn [btc_rbind].
        replace (n <? 65536) with false by (symmetry; apply N.ltb_ge; lia). reflexivity.
      * apply N.leb_gt in H3. cbn [app csize_dec].
        change (255 =? 255) with true.
        cbv iota. rewrite read_le_enc by (change (256 ^ N.of_nat 8) with 18446744073709551616; lia). cbn [btc_rbind].
        replace (n <? 4294967296) with false by (symmetry; apply N.ltb_ge; lia). reflexivity.
Qed.

(* the decoder refuses every encoding that is longer than necessary *)
Lemma csize_nonminimal_rejected :
  (forall x rest, x < 253 -> csize_dec (253 :: le_bytes 2 x ++ rest) = RErr ENonMinimalVarInt) /\
  (forall x rest, x < 65536 -> csize_dec (254 :: le_bytes 4 x ++ rest) = RErr ENonMinimalVarInt) /\
  (forall x rest, x < 4294967296 -> csize_dec (255 :: le_bytes 8 x ++ rest) = RErr ENonMinimalVarInt).
Proof.
  repeat split; intros x rest Hx; cbn [csize_dec].
  - change (253 =? 255) with false. change (253 =? 254) with false. change (253 =? 253) with true. cbv iota.
    rewrite read_le_enc by (change (256 ^ N.of_nat 2) with 65536; lia). cbn [btc_rbind].
    replace (x <? 253) with true by (symmetry; apply N.ltb_lt; lia). reflexivity.
  - change (254 =? 255) with false. change (254 =? 254) with true. cbv iota.
    rewrite read_le_enc by (change (256 ^ N.of_nat 4) with 4294967296; lia). cbn [btc_rbind].
    replace (x <? 65536) with true by (symmetry; apply N.ltb_lt; lia). reflexivity.
  - change (255 =? 255) with true. cbv iota.
    rewrite read_le_enc by (change (256 ^ N.of_nat 8) with 18446744073709551616; lia). cbn [btc_rbind].
    replace (x <? 4294967296) with true by (symmetry; apply N.ltb_lt; lia). reflexivity.
Qed.

(* ---------- length-prefixed byte strings ---------- *)
Lemma dec_bytes_enc b rest : len_wf (length b) = true -> btc_dec_bytes (btc_enc_bytes b ++ rest) = ROk b rest.
Proof.
  unfold len_wf. intros Hl. apply N.ltb_lt in Hl. unfold btc_dec_bytes, btc_enc_bytes.
  rewrite <- app_assoc, csize_roundtrip by exact Hl. cbn [btc_rbind]. apply take_app.
Qed.

Lemma enc_bytes_nonempty b : (1 <= length (btc_enc_bytes b))%nat.
Proof. unfold btc_enc_bytes. rewrite app_length. pose proof (csize_enc_nonempty (N.of_nat (length b))). lia. Qed.

(* ---------- vectors ---------- *)
Lemma dec_items_0 {A} (item : bytes -> dres A) fuel inp : btc_dec_items item fuel 0 inp = ROk [] inp.
Proof. destruct fuel; reflexivity. Qed.

Lemma dec_items_S {A} (item : bytes -> dres A) fuel n inp :
  n <> 0 ->
  btc_dec_items item (S fuel) n inp =
  btc_rbind (item inp) (fun a r => btc_rbind (btc_dec_items item fuel (n - 1) r) (fun l r' => ROk (a :: l) r')).
Proof.
  intros Hn. cbn [btc_dec_items]. destruct (n =? 0) eqn:E; [apply N.eqb_eq in E; contradiction|reflexivity].
Qed.

Lemma dec_items_enc {A} (item : bytes -> dres A) (enc : A -> bytes) (g : A -> A) xs :
  (forall x, In x xs -> forall rest, item (enc x ++ rest) = ROk (g x) rest) ->
  forall fuel rest, (length xs <= fuel)%nat ->
  btc_dec_items item fuel (N.of_nat (length xs)) (flat_map enc xs ++ rest) = ROk (map g xs) rest.
Proof.
  induction xs as [|x xs IH]; intros Hitem fuel rest Hf.
  - cbn. apply dec_items_0.
  - cbn [length] in Hf. destruct fuel as [|f]; [lia|].
    cbn [length flat_map map]. rewrite dec_items_S by lia.
    rewrite <- app_assoc, Hitem by (left; reflexivity). cbn [btc_rbind].
    replace (N.of_nat (S (length xs)) - 1) with (N.of_nat (length xs)) by lia.
    rewrite IH; [reflexivity| |lia]. intros y Hy. apply Hitem. right. exact Hy.
Qed.

Lemma flat_map_length_ge {A} (enc : A -> bytes) xs :
  (forall x, In x xs -> (1 <= length (enc x))%nat) -> (length xs <= length (flat_map enc xs))%nat.
Proof.
  induction xs as [|x xs IH]; intros Hne; cbn [flat_map length]; [lia|].
  rewrite app_length. pose proof (Hne x (or_introl eq_refl)).
  assert (length xs <= length (flat_map enc xs))%nat by (apply IH; intros y Hy; apply Hne; right; exact Hy).
  lia.
Qed.

Lemma dec_vec_enc {A} (item : bytes -> dres A) (enc : A -> bytes) (g : A -> A) xs rest :
  len_wf (length xs) = true ->
  (forall x, In x xs -> (1 <= length (enc x))%nat) ->
  (forall x, In x xs -> forall rest, item (enc x ++ rest) = ROk (g x) rest) ->
  btc_dec_vec item (btc_enc_vec enc xs ++ rest) = ROk (map g xs) rest.
Proof.
  unfold len_wf. intros Hl Hne Hitem. apply N.ltb_lt in Hl. unfold btc_dec_vec, btc_enc_vec.
  rewrite <- app_assoc, csize_roundtrip by exact Hl. cbn [btc_rbind].
  apply dec_items_enc; [exact Hitem|]. rewrite app_length.
  pose proof (flat_map_length_ge enc xs Hne). lia.
Qed.

(* ---------- inputs and outputs ---------- *)
Definition strip_witness (i : txin) : txin :=
  {| txi_txid := txi_txid i; txi_vout := txi_vout i; txi_script := txi_script i;
     txi_seq := txi_seq i; txi_witness := [] |}.

Lemma txin_wf_inv i :
  txin_wf i = true ->
  N.of_nat (length (txi_txid i)) = BTC_TXID_LEN /\ txi_vout i < BTC_U32LIM /\
  len_wf (length (txi_script i)) = true /\ txi_seq i < BTC_U32LIM /\ witness_wf (txi_witness i) = true.
Proof.
  unfold txin_wf. intros Hw. repeat (apply andb_true_iff in Hw as [Hw ?]).
  repeat split; try assumption; try (apply N.ltb_lt; assumption). apply N.eqb_eq. assumption.
Qed.

Lemma dec_txin_enc i rest : txin_wf i = true -> dec_txin (enc_txin i ++ rest) = ROk (strip_witness i) rest.
Proof.
  intros Hw. apply txin_wf_inv in Hw as (Hid & Hvout & Hsl & Hseq & _). unfold BTC_U32LIM in *.
  unfold dec_txin, enc_txin. rewrite <- !app_assoc. rewrite <- Hid, take_app. cbn [btc_rbind].
  rewrite read_le_enc by (change (256 ^ N.of_nat 4) with 4294967296; exact Hvout). cbn [btc_rbind].
  rewrite dec_bytes_enc by exact Hsl. cbn [btc_rbind].
  rewrite read_le_enc by (change (256 ^ N.of_nat 4) with 4294967296; exact Hseq). cbn [btc_rbind].
  reflexivity.
Qed.

Lemma enc_txin_nonempty i : txin_wf i = true -> (1 <= length (enc_txin i))%nat.
Proof.
  intros Hw. apply txin_wf_inv in Hw as (Hid & _). unfold enc_txin. rewrite app_length.
  unfold BTC_TXID_LEN in Hid. lia.
Qed.

Lemma dec_txout_enc o rest : txout_wf o = true -> dec_txout (enc_txout o ++ rest) = ROk o rest.
Proof.
  unfold txout_wf. intros Hw. repeat (apply andb_true_iff in Hw as [Hw ?]).
  apply N.ltb_lt in Hw. unfold BTC_U64LIM in Hw.
  unfold dec_txout, enc_txout. rewrite <- !app_assoc.
  rewrite read_le_enc by (change (256 ^ N.of_nat 8) with 18446744073709551616; exact Hw). cbn [btc_rbind].
  rewrite dec_bytes_enc by assumption. cbn [btc_rbind]. destruct o; reflexivity.
Qed.

Lemma enc_txout_nonempty o : (1 <= length (enc_txout o))%nat.
Proof. unfold enc_txout. rewrite app_length, le_bytes_length. lia. Qed.

(* ---------- witnesses ---------- *)
Lemma dec_wit_items_0 fuel acc inp : dec_wit_items fuel 0 acc inp = ROk [] inp.
Proof. destruct fuel; reflexivity. Qed.

Lemma dec_wit_items_S fuel n acc inp :
  n <> 0 -> dec_wit_items (S fuel) n acc inp = wit_step (dec_wit_items fuel (n - 1)) acc inp.
Proof.
  intros Hn. cbn [dec_wit_items]. destruct (n =? 0) eqn:E; [apply N.eqb_eq in E; contradiction|reflexivity].
Qed.

Lemma csize_len_pos n : 1 <= csize_len n.
Proof.
  unfold csize_len. repeat (match goal with |- context [if ?c then _ else _] => destruct c end); lia.
Qed.

Lemma dec_wit_items_enc ws :
  forall fuel acc rest, (length ws <= fuel)%nat -> acc + wit_size ws <= MAX_VEC_SIZE ->
  dec_wit_items fuel (N.of_nat (length ws)) acc (flat_map btc_enc_bytes ws ++ rest) = ROk ws rest.
Proof.
  unfold MAX_VEC_SIZE. induction ws as [|e ws IH]; intros fuel acc rest Hf Hsz.
  - cbn. apply dec_wit_items_0.
  - cbn [length] in Hf. destruct fuel as [|f]; [lia|].
    cbn [length flat_map]. rewrite dec_wit_items_S by lia.
    cbn [wit_size fold_right] in Hsz. fold (wit_size ws) in Hsz.
    pose proof (csize_len_pos (N.of_nat (length e))) as Hpos.
    unfold wit_step, btc_enc_bytes at 1. rewrite <- !app_assoc.
    rewrite csize_roundtrip by (unfold BTC_U64LIM; lia). cbn [btc_rbind].
    replace (MAX_VEC_SIZE <? acc + N.of_nat (length e) + csize_len (N.of_nat (length e))) with false
      by (symmetry; apply N.ltb_ge; unfold MAX_VEC_SIZE; lia).
    rewrite take_app. cbn [btc_rbind].
    replace (N.of_nat (S (length ws)) - 1) with (N.of_nat (length ws)) by lia.
    rewrite IH; [reflexivity|lia|lia].
Qed.

Lemma witness_wf_inv w :
  witness_wf w = true -> N.of_nat (length w) <= MAX_VEC_SIZE /\ wit_size w <= MAX_VEC_SIZE.
Proof.
  unfold witness_wf. intros Hw. repeat (apply andb_true_iff in Hw as [Hw ?]).
  split; apply N.leb_le; assumption.
Qed.

Lemma dec_witness_enc w rest : witness_wf w = true -> dec_witness (enc_witness w ++ rest) = ROk w rest.
Proof.
  intros Hw. apply witness_wf_inv in Hw as [Hn Hsz]. unfold MAX_VEC_SIZE in *.
  unfold dec_witness, enc_witness, btc_enc_vec. rewrite <- app_assoc.
  rewrite csize_roundtrip by (unfold BTC_U64LIM; lia). cbn [btc_rbind].
  replace (MAX_VEC_SIZE <? N.of_nat (length w)) with false
    by (symmetry; apply N.ltb_ge; unfold MAX_VEC_SIZE; lia).
  apply dec_wit_items_enc; [|unfold MAX_VEC_SIZE; lia].
  rewrite app_length. pose proof (flat_map_length_ge btc_enc_bytes w (fun x _ => enc_bytes_nonempty x)). lia.
Qed.

Lemma dec_witnesses_enc ins rest :
  forallb (fun i => witness_wf (txi_witness i)) ins = true ->
  dec_witnesses (map strip_witness ins) (flat_map (fun i => enc_witness (txi_witness i)) ins ++ rest)
  = ROk ins rest.
Proof.
  induction ins as [|i ins IH]; intros Hw; [reflexivity|].
  cbn [forallb] in Hw. apply andb_true_iff in Hw as [Hi Hw].
  cbn [map flat_map dec_witnesses]. rewrite <- app_assoc, dec_witness_enc by exact Hi. cbn [btc_rbind].
  rewrite IH by exact Hw. cbn [btc_rbind]. destruct i; reflexivity.
Qed.

(* ---------- the transaction ---------- *)
Lemma existsb_negb_forallb {A} (p : A -> bool) l : existsb (fun x => negb (p x)) l = negb (forallb p l).
Proof.
  induction l as [|x l IH]; [reflexivity|]. cbn [existsb forallb]. rewrite IH, negb_andb. reflexivity.
Qed.

Lemma strip_all_empty ins :
  forallb (fun i => btc_is_nil (txi_witness i)) ins = true -> map strip_witness ins = ins.
Proof.
  induction ins as [|i ins IH]; intros Hf; [reflexivity|].
  cbn [forallb] in Hf. apply andb_true_iff in Hf as [Hi Hf]. cbn [map]. rewrite IH by exact Hf.
  destruct i as [a b c d w]; cbn in *. destruct w; [reflexivity|discriminate].
Qed.

Lemma txin_wf_witness ins :
  forallb txin_wf ins = true -> forallb (fun i => witness_wf (txi_witness i)) ins = true.
Proof.
  intros Hf. apply forallb_forall. intros i Hi. rewrite forallb_forall in Hf.
  apply (txin_wf_inv i (Hf i Hi)).
Qed.

Theorem parse_tx_encode t rest : tx_wf t = true -> parse_tx (tx_encode t ++ rest) = ROk t rest.
Proof.
  unfold tx_wf. intros Hw. repeat (apply andb_true_iff in Hw as [Hw ?]).
  apply Z.leb_le in Hw.
  match goal with H : (btx_version t <? _)%Z = true |- _ => apply Z.ltb_lt in H; rename H into Hv end.
  match goal with H : (btx_lock t <? BTC_U32LIM) = true |- _ => apply N.ltb_lt in H; rename H into Hlock end.
  match goal with H : forallb txin_wf _ = true |- _ => rename H into Hins end.
  match goal with H : forallb txout_wf _ = true |- _ => rename H into Houts end.
  match goal with H : len_wf (length (btx_in t)) = true |- _ => rename H into Hlin end.
  match goal with H : len_wf (length (btx_out t)) = true |- _ => rename H into Hlout end.
  unfold BTC_U32LIM in Hlock.
  assert (Hdin : forall r, btc_dec_vec dec_txin (btc_enc_vec enc_txin (btx_in t) ++ r) = ROk (map strip_witness (btx_in t)) r).
  { intros r. apply dec_vec_enc; [exact Hlin| |].
    - intros x Hx. apply enc_txin_nonempty. rewrite forallb_forall in Hins. exact (Hins x Hx).
    - intros x Hx r'. apply dec_txin_enc. rewrite forallb_forall in Hins. exact (Hins x Hx). }
  assert (Hdout : forall r, btc_dec_vec dec_txout (btc_enc_vec enc_txout (btx_out t) ++ r) = ROk (btx_out t) r).
  { intros r. rewrite <- (map_id (btx_out t)) at 2. apply dec_vec_enc; [exact Hlout| |].
    - intros x _. apply enc_txout_nonempty.
    - intros x Hx r'. apply dec_txout_enc. rewrite forallb_forall in Houts. exact (Houts x Hx). }
  assert (Hver : forall r, btc_read_le 4 (le_bytes 4 (u32_of_i32 (btx_version t)) ++ r) = ROk (u32_of_i32 (btx_version t)) r).
  { intros r. apply read_le_enc. change (256 ^ N.of_nat 4) with 4294967296. apply u32_of_i32_range. }
  assert (Hlk : forall r, btc_read_le 4 (le_bytes 4 (btx_lock t) ++ r) = ROk (btx_lock t) r).
  { intros r. apply read_le_enc. change (256 ^ N.of_nat 4) with 4294967296. exact Hlock. }
  unfold parse_tx, tx_encode. rewrite <- !app_assoc, Hver. cbn [btc_rbind].
  destruct (uses_segwit t) eqn:Hseg.
  - (* BIP-144 form: marker 0 reads as an empty input vector, then the flag *)
    unfold SEGWIT_MARKER, SEGWIT_FLAG. cbn [app]. unfold btc_dec_vec at 1. cbn [csize_dec].
    change (0 =? 255) with false. change (0 =? 254) with false. change (0 =? 253) with false. cbv iota.
    cbn [btc_rbind]. rewrite dec_items_0. cbn [btc_rbind].
    change (1 :: ?x) with (le_bytes 1 1 ++ x).
    rewrite read_le_enc by (change (256 ^ N.of_nat 1) with 256; lia). cbn [btc_rbind].
    change (1 =? 1) with true. cbv iota.
    rewrite <- !app_assoc, Hdin. cbn [btc_rbind]. rewrite Hdout. cbn [btc_rbind].
    rewrite dec_witnesses_enc by (apply txin_wf_witness; exact Hins). cbn [btc_rbind].
    replace (negb (btc_is_nil (btx_in t)) && forallb (fun i => btc_is_nil (txi_witness i)) (btx_in t)) with false.
    + rewrite Hlk. cbn [btc_rbind]. rewrite i32_roundtrip by lia. destruct t; reflexivity.
    + unfold uses_segwit in Hseg. rewrite existsb_negb_forallb in Hseg.
      destruct (forallb (fun i => btc_is_nil (txi_witness i)) (btx_in t)); destruct (btc_is_nil (btx_in t));
        cbn in *; congruence.
  - (* legacy form: there is at least one input and no witness data *)
    unfold uses_segwit in Hseg. apply orb_false_iff in Hseg as [Hex Hnil].
    rewrite existsb_negb_forallb in Hex. apply negb_false_iff in Hex.
    rewrite <- !app_assoc, Hdin. cbn [btc_rbind]. rewrite strip_all_empty by exact Hex.
    destruct (btx_in t) as [|i ins] eqn:Hin; [discriminate|].
    rewrite Hdout. cbn [btc_rbind]. rewrite Hlk. cbn [btc_rbind]. rewrite i32_roundtrip by lia.
    destruct t; cbn in *; subst; reflexivity.
Qed.

Theorem tx_deserialize_encode t : tx_wf t = true -> tx_deserialize (tx_encode t) = inl t.
Proof.
  intros Hw. unfold tx_deserialize. rewrite <- (app_nil_r (tx_encode t)), parse_tx_encode by exact Hw.
  reflexivity.
Qed.

(* ---- C17_tx_codec_roundtrip ---- *)
Theorem tx_codec_roundtrip t :
  tx_wf t = true ->
  tx_decode (tx_encode t) = Some t /\
  (forall extra, extra <> [] -> tx_decode (tx_encode t ++ extra) = None) /\
  (forall extra, extra <> [] -> tx_deserialize (tx_encode t ++ extra) = inr ETrailing).
Proof.
  intros Hw. split; [|split].
  - unfold tx_decode. rewrite tx_deserialize_encode by exact Hw. reflexivity.
  - intros extra Hne. unfold tx_decode, tx_deserialize. rewrite parse_tx_encode by exact Hw.
    destruct extra; [contradiction|reflexivity].
  - intros extra Hne. unfold tx_deserialize. rewrite parse_tx_encode by exact Hw.
    destruct extra; [contradiction|reflexivity].
Qed.

(* the encoder is injective on well-formed transactions (different transactions never share a
   serialisation, so never a plaintext) *)
Corollary tx_encode_injective t1 t2 :
  tx_wf t1 = true -> tx_wf t2 = true -> tx_encode t1 = tx_encode t2 -> t1 = t2.
Proof.
  intros H1 H2 He. pose proof (tx_deserialize_encode t1 H1) as D1.
  rewrite He, (tx_deserialize_encode t2 H2) in D1. congruence.
Qed.
