(* CryptoVectors.v — the concrete Gallina instance of Crypto.v evaluated in the kernel (vm_compute)
   on published test vectors: FIPS 180-4 SHA-256 ("abc", the empty message, the 448-bit two-block
   message), RFC 8439 section 2.3.2 (ChaCha20 block), 2.5.2 (Poly1305), 2.8.2 (AEAD), the zbase32
   vectors of lightning::util::base32, and the repository's own encrypt/decrypt vector
   (teos-common/src/cryptography.rs tests: HEX_TX, HEX_TXID, ENC_BLOB). *)
From Coq Require Import String Ascii.
From TeosModel Require Import Base BtcCodec Crypto.

(* text and hex notation for the vectors (kept out of the model so that Coq's `string` type is
   not part of the extracted code) *)
Definition bytes_of_string (s : string) : bytes := map N_of_ascii (list_ascii_of_string s).

Definition hexdigit (a : ascii) : N :=
  let n := N_of_ascii a in
  if (48 <=? n) && (n <=? 57) then n - 48
  else if (97 <=? n) && (n <=? 102) then n - 87
  else if (65 <=? n) && (n <=? 70) then n - 55 else 0.
Fixpoint hex_bytes (s : string) : bytes :=
  match s with
  | String a (String b r) => (16 * hexdigit a + hexdigit b) :: hex_bytes r
  | _ => []
  end.

Local Open Scope string_scope.

Example text_constants :
  ZBASE_ALPHABET = bytes_of_string "ybndrfg8ejkmcpqxot1uwisza345h769" /\
  LN_MESSAGE_PREFIX = bytes_of_string "Lightning Signed Message:".
Proof. split; reflexivity. Qed.

Example sha256_abc :
  sha256 (bytes_of_string "abc") = hex_bytes "ba7816bf8f01cfea414140de5dae2223b00361a396177a9cb410ff61f20015ad".
Proof. vm_compute. reflexivity. Qed.

Example sha256_empty :
  sha256 [] = hex_bytes "e3b0c44298fc1c149afbf4c8996fb92427ae41e4649b934ca495991b7852b855".
Proof. vm_compute. reflexivity. Qed.

Example sha256_two_blocks :
  sha256 (bytes_of_string "abcdbcdecdefdefgefghfghighijhijkijkljklmklmnlmnomnopnopq")
  = hex_bytes "248d6a61d20638b8e5c026930c3e6039a33ce45964ff2167f6ecedd419db06c1".
Proof. vm_compute. reflexivity. Qed.

Definition rfc_key : bytes := hex_bytes "000102030405060708090a0b0c0d0e0f101112131415161718191a1b1c1d1e1f".

Example chacha20_block_rfc8439_2_3_2 :
  chacha_block rfc_key 1 (hex_bytes "000000090000004a00000000")
  = hex_bytes "10f1e7e4d13b5915500fdd1fa32071c4c7d1f4c733c068030422aa9ac3d46c4ed2826446079faa0914c2d705d98b02a2b5129cd1de164eb9cbd083e8a2503c4e".
Proof. vm_compute. reflexivity. Qed.

Example poly1305_rfc8439_2_5_2 :
  poly1305 (hex_bytes "85d6be7857556d337f4452fe42d506a80103808afb0db2fd4abff6af4149f51b")
           (bytes_of_string "Cryptographic Forum Research Group")
  = hex_bytes "a8061dc1305136c6c22b8baf0c0127a9".
Proof. vm_compute. reflexivity. Qed.

Definition rfc_aead_key : bytes := hex_bytes "808182838485868788898a8b8c8d8e8f909192939495969798999a9b9c9d9e9f".
Definition rfc_aead_nonce : bytes := hex_bytes "070000004041424344454647".
Definition rfc_aead_aad : bytes := hex_bytes "50515253c0c1c2c3c4c5c6c7".
Definition rfc_aead_pt : bytes :=
  bytes_of_string "Ladies and Gentlemen of the class of '99: If I could offer you only one tip for the future, sunscreen would be it.".
Definition rfc_aead_ct : bytes := hex_bytes
  "d31a8d34648e60db7b86afbc53ef7ec2a4aded51296e08fea9e2b5a736ee62d63dbea45e8ca9671282fafb69da92728b1a71de0a9e060b2905d6a5b67ecd3b3692ddbd7f2d778b8c9803aee328091b58fab324e4fad675945585808b4831d7bc3ff4def08e4b7a9de576d26586cec64b61161ae10b594f09e26a7e902ecbd0600691".

Example aead_seal_rfc8439_2_8_2 :
  aead_seal rfc_aead_key rfc_aead_nonce rfc_aead_aad rfc_aead_pt = rfc_aead_ct.
Proof. vm_compute. reflexivity. Qed.

Example aead_open_rfc8439_2_8_2 :
  aead_open rfc_aead_key rfc_aead_nonce rfc_aead_aad rfc_aead_ct = Some rfc_aead_pt.
Proof. vm_compute. reflexivity. Qed.

(* ---------- the repository's vector ---------- *)
Definition repo_tx_bytes : bytes := hex_bytes
  "010000000001010000000000000000000000000000000000000000000000000000000000000000ffffffff54038e830a1b4d696e656420627920416e74506f6f6c373432c2005b005e7a0ae3fabe6d6d7841cd582ead8ea5dd8e3de1173cae6fcd2a53c7362ebb7fb6f815604fe07cbe0200000000000000ac0e060005f90000ffffffff04d9476026000000001976a91411dbe48cc6b617f9c6adaf4d9ed5f625b1c7cb5988ac0000000000000000266a24aa21a9ed7248c6efddd8d99bfddd7f499f0b915bffa8253003cc934df1ff14a81301e2340000000000000000266a24b9e11b6d7054937e13f39529d6ad7e685e9dd4efa426f247d5f5a5bed58cdddb2d0fa60100000000000000002b6a2952534b424c4f434b3a054a68aa5368740e8b3e3c67bce45619c2cfd07d4d4f0936a5612d2d0034fa0a0120000000000000000000000000000000000000000000000000000000000000000000000000".
(* HEX_TXID is the display form; Txid::from_str reverses it into the byte array the code hashes *)
Definition repo_txid_display : bytes := hex_bytes "d6ac4a5e61657c4c604dcde855a1db74ec6b3e54f32695d72c5e11c7761ea1b4".
Definition repo_txid_bytes : bytes := rev repo_txid_display.
Definition repo_enc_blob : bytes := hex_bytes
  "f64d730654738fdbcd9e65068be17bc1abb44e74f8977985cce48e77209cf97292c862e4eb7190aedc6c53ceddda6871a3988d1d9608e2d0dd7a1f59769e410618a7029001479ac3b9d699b11a08b0ccb04e56bfee88461d9cd3207623a4a543996dd3805323c93cd62069636305aaf159e9cca1063ad1f097c16fb3c2ebbcf09be96512c5d7c195c684569cbe8b7979870b04cada9806b7610569c66021afcc63f46dd4af75716950c4de094334cdf7d9e532820afe29d2621dd79920c7e0ecc10853517dd84ca9d699f712c229e86954c227cba1d0fc87c8d48ac05e2de8a6bc980afdfafcd7064e411c8d76065c06cc7f233e869eaff5bd8ccb5d8f0090d91a8f017355cc115863356ecf06cdda9b309096ea766d033dbd4f70a789a5b03138cfc7e2900a79bb465abf07a7ac45c41b4b30c008d4b299aad9d001cf45acd07e47cdd63c3b13d4b0788b041735225b5db1a43a2142311f695478168e31deb260702976fd70d0724ded84a7c3f89b".

Example repo_tx_parses_and_reencodes :
  match tx_decode repo_tx_bytes with
  | Some t => tx_wf t && cr_bytes_eqb (tx_encode t) repo_tx_bytes && uses_segwit t
  | None => false
  end = true.
Proof. vm_compute. reflexivity. Qed.

Example repo_test_encrypt :
  option_map (fun t => c_encrypt t repo_txid_bytes) (tx_decode repo_tx_bytes) = Some repo_enc_blob.
Proof. vm_compute. reflexivity. Qed.

Example repo_test_decrypt :
  c_decrypt repo_enc_blob repo_txid_bytes = tx_decode repo_tx_bytes /\ tx_decode repo_tx_bytes <> None.
Proof. split; [vm_compute; reflexivity | vm_compute; discriminate]. Qed.

(* the key is the hash of the serialisation-order bytes, not of the displayed ones *)
Example repo_display_order_is_not_the_key :
  c_decrypt repo_enc_blob repo_txid_display = None.
Proof. vm_compute. reflexivity. Qed.

Example repo_locator :
  cr_locator repo_txid_bytes = hex_bytes "b4a11e76c7115e2cd79526f3543e6bec".
Proof. vm_compute. reflexivity. Qed.

(* ---------- zbase32 (lightning-0.1.1 src/util/base32.rs tests) and the message-signing vector ---------- *)
Example zbase32_vectors :
  map crzb_encode [[]; [0]; [128]; [139; 136; 128]; [240; 191; 199]; [212; 122; 4]; [245; 87; 187; 12]]
  = map bytes_of_string [""; "yy"; "oy"; "tqrey"; "6n9hq"; "4t7ye"; "6im5sdy"] /\
  map crzb_decode (map bytes_of_string [""; "yy"; "oy"; "tqrey"; "6n9hq"; "4t7ye"; "6im5sdy"])
  = map (@Some bytes) [[]; [0]; [128]; [139; 136; 128]; [240; 191; 199]; [212; 122; 4]; [245; 87; 187; 12]].
Proof. split; vm_compute; reflexivity. Qed.

Example zbase32_alphabet_vector :
  crzb_encode (hex_bytes "00443214c74254b635cf84653a56d7c675be77df") = bytes_of_string "ybndrfg8ejkmcpqxot1uwisza345h769" /\
  crzb_decode (bytes_of_string "ybndrfg8ejkmcpqxot1uwisza345h769") = Some (hex_bytes "00443214c74254b635cf84653a56d7c675be77df").
Proof. split; vm_compute; reflexivity. Qed.

(* decoding ignores the case of letters (to_ascii_uppercase before the table look-up) *)
Example zbase32_decode_is_case_insensitive :
  crzb_decode (bytes_of_string "TQREY") = Some [139; 136; 128] /\ crzb_decode (bytes_of_string "tQrEy") = Some [139; 136; 128].
Proof. split; vm_compute; reflexivity. Qed.

Example zbase32_rejects :
  crzb_decode (bytes_of_string "y") = None /\          (* length 1 mod 8 *)
  crzb_decode (bytes_of_string "yb") = None /\         (* non-zero bits beyond the data *)
  crzb_decode (bytes_of_string "l0") = None /\         (* 'l' and '0' are not in the alphabet *)
  crzb_decode (bytes_of_string "y2") = None /\ crzb_decode (bytes_of_string "yv") = None.
Proof. repeat split; vm_compute; reflexivity. Qed.

(* lightning message_signing test_sign: the signature text decodes to 65 bytes, recovery id 0..3 *)
Example ln_signature_container :
  match lnsig_decode (bytes_of_string "d9tibmnic9t5y41hg7hkakdcra94akas9ku3rmmj4ag9mritc8ok4p5qzefs78c9pqfhpuftqqzhydbdwfg7u6w6wdxcqpqn4sj4e73e") with
  | Some (rid, compact) => (rid <? 4)%N && Nat.eqb (length compact) 64 &&
      cr_bytes_eqb (lnsig_encode rid compact)
        (bytes_of_string "d9tibmnic9t5y41hg7hkakdcra94akas9ku3rmmj4ag9mritc8ok4p5qzefs78c9pqfhpuftqqzhydbdwfg7u6w6wdxcqpqn4sj4e73e")
  | None => false
  end = true.
Proof. vm_compute. reflexivity. Qed.
