(* TowerLedger.v — C07, the conservation law of slot accounting, for the sequential tower model.
   For a state t and a user u:  avail t u = the balance persisted in u's row of table users,
   held_t t u = the slots occupied by u's rows of table appointments (= TowerMon.held (observe t) u),
   bal t u = avail + held.  The theorems say how bal moves under every operation; the last part
   folds the monitor's ghost ledger (granted, forfeited) along the model's own traces and proves the
   conservation check of TowerMon.mon_C07 on every step of every abort-free history. *)
From TeosModel Require Import Base ListAux TxIndex TxIndexProofs Tower TowerMon TowerStable TowerInv TowerProofs.
From TeosModel.Gen Require Consts.
From Coq Require Import Lia.
Local Open Scope N_scope.

(* ------------------------------------------------------------------------------------------ *)
(* definitions *)

Definition aslots (a : app) : N := slots_of (b_len (a_blob a)).
Definition ssum (l : list app) : N := fold_right (fun a s => aslots a + s) 0 l.
Definition ofu (u : N) (a : app) : bool := N.eqb (a_user a) u.

Definition avail (t : tower) (u : N) : N :=
  match aget (db_users t) u with Some ui => u_slots ui | None => 0 end.
Definition held_t (t : tower) (u : N) : N := ssum (filter (ofu u) (db_apps t)).
Definition bal (t : tower) (u : N) : N := avail t u + held_t t u.
Definition has_row (t : tower) (u : N) : bool := amem (db_users t) u.

Lemma held_t_obs t u : held_t t u = held (observe t) u.
Proof. reflexivity. Qed.

Lemma avail_obs t u : avail t u = match user_row (observe t) u with Some ui => u_slots ui | None => 0 end.
Proof. reflexivity. Qed.

(* ------------------------------------------------------------------------------------------ *)
(* sums over lists of appointment rows *)

Lemma ssum_app l1 l2 : ssum (l1 ++ l2) = ssum l1 + ssum l2.
Proof. induction l1 as [|a l1 IH]; cbn [List.app ssum fold_right]; [reflexivity|]. fold (ssum (l1 ++ l2)) (ssum l1). lia. Qed.

Lemma ssum_cons a l : ssum (a :: l) = aslots a + ssum l.
Proof. reflexivity. Qed.

Lemma ssum_split (p : app -> bool) l : ssum l = ssum (filter p l) + ssum (filter (fun a => negb (p a)) l).
Proof.
  induction l as [|a l IH]; [reflexivity|]. cbn [filter]. rewrite ssum_cons.
  destruct (p a); cbn [negb]; rewrite ?ssum_cons; lia.
Qed.

Lemma filter_ext_in' {A} (p q : A -> bool) l : (forall a, In a l -> p a = q a) -> filter p l = filter q l.
Proof.
  induction l as [|a l IH]; intros H; [reflexivity|]. cbn [filter].
  rewrite (H a (or_introl eq_refl)). rewrite IH; [reflexivity|]. intros b Hb. apply H. right. exact Hb.
Qed.

Lemma filter_filter {A} (p q : A -> bool) l : filter p (filter q l) = filter (fun a => q a && p a) l.
Proof.
  induction l as [|a l IH]; [reflexivity|]. cbn [filter].
  destruct (q a); cbn [filter andb]; [destruct (p a)|]; rewrite IH; reflexivity.
Qed.

Lemma filter_true {A} (p : A -> bool) l : (forall a, In a l -> p a = true) -> filter p l = l.
Proof.
  induction l as [|a l IH]; intros H; [reflexivity|]. cbn [filter].
  rewrite (H a (or_introl eq_refl)). rewrite IH; [reflexivity|]. intros b Hb. apply H. right. exact Hb.
Qed.

Lemma filter_false {A} (p : A -> bool) l : (forall a, In a l -> p a = false) -> filter p l = [].
Proof.
  induction l as [|a l IH]; intros H; [reflexivity|]. cbn [filter].
  rewrite (H a (or_introl eq_refl)). apply IH. intros b Hb. apply H. right. exact Hb.
Qed.

(* ------------------------------------------------------------------------------------------ *)
(* rows of the tables *)

Lemma ofu_true u a : ofu u a = true <-> a_user a = u.
Proof. unfold ofu. apply N.eqb_eq. Qed.

Lemma app_uuid_user a loc u : app_uuid a = (loc, u) -> a_user a = u.
Proof. unfold app_uuid. intros H. inversion H. reflexivity. Qed.

Lemma app_uuid_loc a loc u : app_uuid a = (loc, u) -> a_loc a = loc.
Proof. unfold app_uuid. intros H. inversion H. reflexivity. Qed.

(* a user without a row has no appointment (foreign key) *)
Lemma held_no_row t u : Inv t -> amem (db_users t) u = false -> held_t t u = 0.
Proof.
  intros HI Hm. unfold held_t. rewrite filter_false; [reflexivity|].
  intros a Ha. destruct (ofu u a) eqn:E; [|reflexivity].
  apply ofu_true in E. pose proof (inv_fk_app t HI a Ha) as Hf. rewrite E in Hf. congruence.
Qed.

(* in a table with unique keys, the row found under a key is the row *)
Lemma find_app_unique apps a : NoDup (map app_uuid apps) -> In a apps -> find_app apps (app_uuid a) = Some a.
Proof.
  induction apps as [|x apps IH]; intros Hnd Hi; [destruct Hi|].
  cbn [map] in Hnd. apply NoDup_cons_iff in Hnd. destruct Hnd as [Hx Hnd].
  unfold find_app. cbn [find]. destruct (uuid_eqb (app_uuid x) (app_uuid a)) eqn:E.
  - apply uuid_eqb_eq in E. destruct Hi as [Hi|Hi]; [congruence|].
    exfalso. apply Hx. rewrite E. apply in_map. exact Hi.
  - destruct Hi as [Hi|Hi]; [subst; rewrite uuid_eqb_refl in E; discriminate|].
    apply IH; assumption.
Qed.

Lemma find_trk_unique trks k : NoDup (map trk_uuid trks) -> In k trks -> find_trk trks (trk_uuid k) = Some k.
Proof.
  induction trks as [|x trks IH]; intros Hnd Hi; [destruct Hi|].
  cbn [map] in Hnd. apply NoDup_cons_iff in Hnd. destruct Hnd as [Hx Hnd].
  unfold find_trk. cbn [find]. destruct (uuid_eqb (trk_uuid x) (trk_uuid k)) eqn:E.
  - apply uuid_eqb_eq in E. destruct Hi as [Hi|Hi]; [congruence|].
    exfalso. apply Hx. rewrite E. apply in_map. exact Hi.
  - destruct Hi as [Hi|Hi]; [subst; rewrite uuid_eqb_refl in E; discriminate|].
    apply IH; assumption.
Qed.

(* the users table *)
Lemma avail_ext t t' u : aget (db_users t') u = aget (db_users t) u -> avail t' u = avail t u.
Proof. unfold avail. intros H. rewrite H. reflexivity. Qed.

Lemma bal_ext t t' u : aget (db_users t') u = aget (db_users t) u -> db_apps t' = db_apps t -> bal t' u = bal t u.
Proof. unfold bal, held_t, avail. intros H1 H2. rewrite H1, H2. reflexivity. Qed.

(* ------------------------------------------------------------------------------------------ *)
(* 1. registration *)

Definition same_ledger (t t' : tower) : Prop :=
  gk_users t' = gk_users t /\ db_users t' = db_users t /\ db_apps t' = db_apps t /\ db_trks t' = db_trks t /\ cfg t' = cfg t.

Lemma same_ledger_bal t t' : same_ledger t t' -> forall v, aget (db_users t') v = aget (db_users t) v /\ bal t' v = bal t v.
Proof. intros [_ [Hu [Ha _]]] v. split; [rewrite Hu; reflexivity|apply bal_ext; [rewrite Hu; reflexivity|exact Ha]]. Qed.

Lemma same_ledger_fresh t : same_ledger t (fresh t).
Proof. repeat split. Qed.

Theorem register_bal le t u sc t' r :
  Inv t -> step le t (ORegister u) sc = (t', ORegisterRes r) ->
  match r with
  | RegOk s st e =>
      (amem (db_users t) u = false -> bal t' u = c_slots (cfg t)) /\
      (amem (db_users t) u = true -> bal t' u = bal t u + c_slots (cfg t)) /\
      avail t' u = s /\
      db_apps t' = db_apps t /\
      (forall v, v <> u -> aget (db_users t') v = aget (db_users t) v /\ bal t' v = bal t v)
  | RegMaxSlots => same_ledger t t'
  end.
Proof.
  intros HI. cbn [step wrap]. unfold gk_add_update_user. change (set_rpc_log t []) with (fresh t).
  unfold gk_get. change (gk_users (fresh t)) with (gk_users t). rewrite (inv_sync t HI u).
  change (cfg (fresh t)) with (cfg t). change (db_users (fresh t)) with (db_users t).
  change (gk_height (fresh t)) with (gk_height t).
  destruct (aget (db_users t) u) as [ui|] eqn:Eu.
  - destruct (u32_add (u_slots ui) (c_slots (cfg t))) as [s|] eqn:Es; cbn [wrap]; intros H; inversion H; subst; clear H.
    2:{ apply same_ledger_fresh. }
    unfold u32_add in Es. destruct (N.leb (u_slots ui + c_slots (cfg t)) U32MAX); [|discriminate]. inversion Es; subst s; clear Es.
    assert (Hav : avail (p_set_user (fresh t) u (mk_uinfo (u_slots ui + c_slots (cfg t)) (u_start ui)
                    (match u32_add (u_expiry ui) (c_duration (cfg t)) with Some e => e | None => U32MAX end))) u
                  = u_slots ui + c_slots (cfg t)).
    { unfold avail, p_set_user, db_update_user. cbn [db_users set_db_users gk_put set_gk_users fresh set_rpc_log].
      rewrite aget_map_update, N.eqb_refl, Eu. reflexivity. }
    repeat split.
    + unfold amem. rewrite Eu. discriminate.
    + intros _. unfold bal. rewrite Hav. unfold avail. rewrite Eu. unfold held_t.
      cbn [db_apps p_set_user db_update_user set_db_users gk_put set_gk_users fresh set_rpc_log]. lia.
    + exact Hav.
    + unfold p_set_user, db_update_user. cbn [db_users set_db_users gk_put set_gk_users fresh set_rpc_log].
      rewrite aget_map_update. apply N.eqb_neq in H. rewrite H. reflexivity.
    + apply bal_ext; [|reflexivity].
      unfold p_set_user, db_update_user. cbn [db_users set_db_users gk_put set_gk_users fresh set_rpc_log].
      rewrite aget_map_update. apply N.eqb_neq in H. rewrite H. reflexivity.
  - destruct (u32_add (gk_height t) (c_duration (cfg t))) as [e|]; [|cbn [wrap]; intros H; inversion H].
    unfold amem. rewrite Eu. cbn [wrap u_slots]. intros H; inversion H; subst; clear H.
    assert (Hav : avail (p_new_user (fresh t) u (mk_uinfo (c_slots (cfg t)) (gk_height t) e)) u = c_slots (cfg t)).
    { unfold avail, p_new_user. cbn [db_users set_db_users gk_put set_gk_users fresh set_rpc_log].
      rewrite aget_app_single, Eu, N.eqb_refl. reflexivity. }
    repeat split.
    + intros _. unfold bal. rewrite Hav. unfold held_t.
      cbn [db_apps p_new_user set_db_users gk_put set_gk_users fresh set_rpc_log].
      fold (held_t t u). rewrite (held_no_row t u HI); [lia|]. unfold amem. rewrite Eu. reflexivity.
    + discriminate.
    + exact Hav.
    + unfold p_new_user. cbn [db_users set_db_users gk_put set_gk_users fresh set_rpc_log].
      rewrite aget_app_single. apply N.eqb_neq in H. rewrite H. destruct (aget (db_users t) v); reflexivity.
    + apply bal_ext; [|reflexivity].
      unfold p_new_user. cbn [db_users set_db_users gk_put set_gk_users fresh set_rpc_log].
      rewrite aget_app_single. apply N.eqb_neq in H. rewrite H. destruct (aget (db_users t) v); reflexivity.
Qed.

Theorem register_abort le t u sc t' s :
  step le t (ORegister u) sc = (t', OAbort s) -> same_ledger t t'.
Proof.
  cbn [step wrap]. unfold gk_add_update_user. change (set_rpc_log t []) with (fresh t).
  destruct (gk_get (fresh t) u) as [ui|].
  - destruct (u32_add (u_slots ui) (c_slots (cfg (fresh t)))); cbn [wrap]; intros H; inversion H.
  - destruct (u32_add (gk_height (fresh t)) (c_duration (cfg (fresh t)))); [|cbn [wrap]; intros H; inversion H; apply same_ledger_fresh].
    destruct (amem (db_users (fresh t)) u); cbn [wrap]; intros H; inversion H. apply same_ledger_fresh.
Qed.

(* ------------------------------------------------------------------------------------------ *)
(* 4. operations that do not touch the ledger *)

Theorem get_bal le t signer loc sc t' x : step le t (OGet signer loc) sc = (t', x) -> same_ledger t t'.
Proof.
  intros H. destruct (get_unchanged le t sc signer loc) as [r Hr]. rewrite Hr in H. inversion H. apply same_ledger_fresh.
Qed.

Theorem getsub_bal le t signer sc t' x : step le t (OGetSub signer) sc = (t', x) -> same_ledger t t'.
Proof.
  intros H. destruct (getsub_unchanged le t sc signer) as [r Hr]. rewrite Hr in H. inversion H. apply same_ledger_fresh.
Qed.

Lemma same_ledger_trans a b c : same_ledger a b -> same_ledger b c -> same_ledger a c.
Proof. unfold same_ledger. intuition congruence. Qed.

Definition res_state {A} (r : res A) : tower := match r with Ok _ t => t | Abort _ t => t end.

Lemma disconnect_listeners hash h t :
  same_ledger t (res_state (run_listeners (listener_disconnected hash h) Consts.LISTENER_ORDER t)).
Proof.
  unfold Consts.LISTENER_ORDER. cbn [run_listeners].
  change (listener_disconnected hash h 0 t) with (gk_block_disconnected t h).
  unfold gk_block_disconnected. destruct (u32_sub h 1) as [h'|]; cbn [bind res_state]; [|repeat split].
  change (listener_disconnected hash h 1 (set_gk_height t h')) with (w_block_disconnected (set_gk_height t h') hash h).
  unfold w_block_disconnected. destruct (u32_sub h 1) as [h''|]; cbn [bind res_state]; repeat split.
Qed.

Theorem disconnect_bal le t sc t' x : step le t ODisconnect sc = (t', x) -> same_ledger t t'.
Proof.
  cbn [step]. change (set_rpc_log t []) with (fresh t).
  destruct (last_hash (fresh t)) as [hash|]; [|intros H; inversion H; apply same_ledger_fresh].
  pose proof (disconnect_listeners hash (gk_height (fresh t)) (fresh t)) as Hd.
  destruct (run_listeners (listener_disconnected hash (gk_height (fresh t))) Consts.LISTENER_ORDER (fresh t)) as [u t1|s t1];
    cbn [wrap res_state] in *; intros H; inversion H; subst;
    (eapply same_ledger_trans; [apply same_ledger_fresh|exact Hd]).
Qed.

(* ODisconnect changes only heights, the two indexes and `reorged` (besides the ghost log) *)
Theorem other_ops_bal le t o sc t' x :
  match o with OGet _ _ | OGetSub _ | ODisconnect => True | _ => False end ->
  step le t o sc = (t', x) ->
  same_ledger t t' /\ forall v, aget (db_users t') v = aget (db_users t) v /\ bal t' v = bal t v.
Proof.
  intros Ho H. assert (Hs : same_ledger t t').
  { destruct o; try contradiction; [eapply get_bal|eapply getsub_bal|eapply disconnect_bal]; exact H. }
  split; [exact Hs|apply same_ledger_bal; exact Hs].
Qed.

(* ------------------------------------------------------------------------------------------ *)
(* list operations on the appointments table *)

Definition del (us : list (N * N)) (l : list app) : list app := filter (fun a => negb (mem_uuid (app_uuid a) us)) l.
Definition repl (a : app) (l : list app) : list app := map (fun x => if uuid_eqb (app_uuid x) (app_uuid a) then a else x) l.
Definition stored (l : list app) (a : app) : list app :=
  match find_app l (app_uuid a) with Some _ => repl a l | None => l ++ [a] end.

Lemma db_delete_apps_apps t us : db_apps (db_delete_apps t us) = del us (db_apps t).
Proof. reflexivity. Qed.
Lemma db_delete_apps_users t us : db_users (db_delete_apps t us) = db_users t.
Proof. reflexivity. Qed.
Lemma db_delete_apps_mem t us : gk_users (db_delete_apps t us) = gk_users t.
Proof. reflexivity. Qed.

Lemma find_app_cons x l u : find_app (x :: l) u = if uuid_eqb (app_uuid x) u then Some x else find_app l u.
Proof. reflexivity. Qed.

Lemma find_app_notin l u : ~ In u (map app_uuid l) -> find_app l u = None.
Proof.
  intros Hn. destruct (find_app l u) as [a|] eqn:E; [|reflexivity].
  apply find_app_Some in E. destruct E as [Hi He]. exfalso. apply Hn. rewrite <- He. apply in_map. exact Hi.
Qed.

Lemma mem_uuid_single x u : mem_uuid x [u] = uuid_eqb x u.
Proof. unfold mem_uuid. cbn [existsb]. apply orb_false_r. Qed.

Lemma repl_notin a l : ~ In (app_uuid a) (map app_uuid l) -> repl a l = l.
Proof.
  induction l as [|x l IH]; intros Hn; [reflexivity|]. unfold repl in *. cbn [map] in *.
  destruct (uuid_eqb (app_uuid x) (app_uuid a)) eqn:E.
  - apply uuid_eqb_eq in E. exfalso. apply Hn. left. exact E.
  - rewrite IH; [reflexivity|]. intros Hi. apply Hn. right. exact Hi.
Qed.

Lemma ssum_repl (p : app -> bool) a a0 l :
  NoDup (map app_uuid l) -> find_app l (app_uuid a) = Some a0 ->
  ssum (filter p (repl a l)) + (if p a0 then aslots a0 else 0) = ssum (filter p l) + (if p a then aslots a else 0).
Proof.
  induction l as [|x l IH]; intros Hnd Hf; [discriminate|].
  cbn [map] in Hnd. apply NoDup_cons_iff in Hnd. destruct Hnd as [Hx Hnd].
  rewrite find_app_cons in Hf. unfold repl. cbn [map]. fold (repl a l).
  destruct (uuid_eqb (app_uuid x) (app_uuid a)) eqn:E.
  - inversion Hf; subst x; clear Hf. apply uuid_eqb_eq in E. rewrite E in Hx.
    rewrite (repl_notin a l Hx). cbn [filter]. destruct (p a), (p a0); rewrite ?ssum_cons; lia.
  - specialize (IH Hnd Hf). cbn [filter]. destruct (p x); rewrite ?ssum_cons; lia.
Qed.

Lemma del_notin u l : ~ In u (map app_uuid l) -> del [u] l = l.
Proof.
  intros Hn. unfold del. apply filter_true. intros a Ha. rewrite mem_uuid_single.
  destruct (uuid_eqb (app_uuid a) u) eqn:E; [|reflexivity].
  apply uuid_eqb_eq in E. exfalso. apply Hn. rewrite <- E. apply in_map. exact Ha.
Qed.

Lemma ssum_del1 (p : app -> bool) u l :
  NoDup (map app_uuid l) ->
  ssum (filter p l) = ssum (filter p (del [u] l))
                      + match find_app l u with Some a0 => if p a0 then aslots a0 else 0 | None => 0 end.
Proof.
  induction l as [|x l IH]; intros Hnd; [reflexivity|].
  cbn [map] in Hnd. apply NoDup_cons_iff in Hnd. destruct Hnd as [Hx Hnd].
  rewrite find_app_cons. unfold del. cbn [filter]. fold (del [u] l). rewrite mem_uuid_single.
  destruct (uuid_eqb (app_uuid x) u) eqn:E; cbn [negb].
  - apply uuid_eqb_eq in E. rewrite E in Hx. rewrite (del_notin u l Hx).
    destruct (p x); rewrite ?ssum_cons; lia.
  - specialize (IH Hnd). cbn [filter]. destruct (p x); rewrite ?ssum_cons; lia.
Qed.

Lemma del_repl a l : del [app_uuid a] (repl a l) = del [app_uuid a] l.
Proof.
  induction l as [|x l IH]; [reflexivity|]. unfold repl, del in *. cbn [map filter]. rewrite !mem_uuid_single.
  destruct (uuid_eqb (app_uuid x) (app_uuid a)) eqn:E.
  - rewrite uuid_eqb_refl. cbn [negb]. exact IH.
  - rewrite E. cbn [negb]. f_equal. exact IH.
Qed.

Lemma del_snoc a l : del [app_uuid a] (l ++ [a]) = del [app_uuid a] l.
Proof.
  unfold del. rewrite filter_app. cbn [filter]. rewrite mem_uuid_single, uuid_eqb_refl. cbn [negb]. apply app_nil_r.
Qed.

Lemma del_stored a l : del [app_uuid a] (stored l a) = del [app_uuid a] l.
Proof. unfold stored. destruct (find_app l (app_uuid a)); [apply del_repl|apply del_snoc]. Qed.

(* rows of other users *)
Lemma filter_ofu_repl v a l : a_user a <> v -> filter (ofu v) (repl a l) = filter (ofu v) l.
Proof.
  intros Hv. induction l as [|x l IH]; [reflexivity|]. unfold repl in *. cbn [map filter].
  destruct (uuid_eqb (app_uuid x) (app_uuid a)) eqn:E.
  - apply uuid_eqb_eq in E. assert (Hx : a_user x = a_user a) by (unfold app_uuid in E; congruence).
    assert (E1 : ofu v a = false) by (apply N.eqb_neq; exact Hv).
    assert (E2 : ofu v x = false) by (apply N.eqb_neq; congruence).
    rewrite E1, E2. exact IH.
  - destruct (ofu v x); [f_equal|]; exact IH.
Qed.

Lemma filter_ofu_snoc v a l : a_user a <> v -> filter (ofu v) (l ++ [a]) = filter (ofu v) l.
Proof.
  intros Hv. rewrite filter_app. cbn [filter].
  assert (E1 : ofu v a = false) by (apply N.eqb_neq; exact Hv). rewrite E1. apply app_nil_r.
Qed.

Lemma filter_ofu_stored v a l : a_user a <> v -> filter (ofu v) (stored l a) = filter (ofu v) l.
Proof. intros Hv. unfold stored. destruct (find_app l (app_uuid a)); [apply filter_ofu_repl|apply filter_ofu_snoc]; exact Hv. Qed.

Lemma filter_ofu_del1 v loc u l : u <> v -> filter (ofu v) (del [(loc, u)] l) = filter (ofu v) l.
Proof.
  intros Hv. unfold del. rewrite filter_filter. apply filter_ext_in'. intros a _. rewrite mem_uuid_single.
  destruct (uuid_eqb (app_uuid a) (loc, u)) eqn:E; cbn [negb andb]; [|reflexivity].
  apply uuid_eqb_eq in E. apply app_uuid_user in E. symmetry. apply N.eqb_neq. congruence.
Qed.

Lemma blob_eqb_refl b : blob_eqb b b = true.
Proof. unfold blob_eqb. rewrite !N.eqb_refl. destruct (b_pay b); [apply N.eqb_refl|reflexivity]. Qed.

(* is the version (loc, u, b) held in the table? (the test of TowerMon.ledger_step) *)
Definition held_version (l : list app) (loc u : N) (b : blob) : bool :=
  existsb (fun a => uuid_eqb (app_uuid a) (loc, u) && blob_eqb (a_blob a) b) l.

Lemma held_version_stored l a : held_version (stored l a) (a_loc a) (a_user a) (a_blob a) = true.
Proof.
  unfold held_version. apply existsb_exists. exists a. split.
  - unfold stored. destruct (find_app l (app_uuid a)) as [a0|] eqn:E.
    + apply find_app_Some in E. destruct E as [Hi He]. unfold repl. apply in_map_iff. exists a0. split; [|exact Hi].
      rewrite He, uuid_eqb_refl. reflexivity.
    + apply in_or_app. right. left. reflexivity.
  - change (a_loc a, a_user a) with (app_uuid a). rewrite uuid_eqb_refl, blob_eqb_refl. reflexivity.
Qed.

Lemma held_version_del l loc u b : held_version (del [(loc, u)] l) loc u b = false.
Proof.
  unfold held_version. destruct (existsb _ _) eqn:E; [|reflexivity].
  apply existsb_exists in E. destruct E as [a [Hi Ha]]. unfold del in Hi. apply filter_In in Hi.
  destruct Hi as [_ Hn]. rewrite mem_uuid_single in Hn. apply andb_true_iff in Ha. destruct Ha as [Ha _].
  rewrite Ha in Hn. discriminate.
Qed.
